#!/venv/bin/python
"""Run the pinned baseline suite in a repo tree (default /repo) and compare with BASELINE.json's
stable_pass list.  usage: tools/baseline.py [repo_dir]   exit 0 iff every stable test still passes."""
import json
import subprocess
import sys
import tempfile
import xml.etree.ElementTree as ET
from pathlib import Path

repo = Path(sys.argv[1] if len(sys.argv) > 1 else "/repo").resolve()
base = json.load(open("/root/.vp/BASELINE.json"))
with tempfile.TemporaryDirectory() as tmp:
    xml = Path(tmp) / "junit.xml"
    cmd = ["/venv/bin/python", "-m", "pytest", "-q", "-p", "no:cacheprovider", "--timeout=900",
           "--continue-on-collection-errors", f"--junitxml={xml}", "-x" if "--fast" in sys.argv else "-q"]
    res = subprocess.run(cmd, cwd=repo, capture_output=True, text=True)
    print(res.stdout.strip().splitlines()[-1] if res.stdout.strip() else res.stderr[-500:])
    passed = set()
    for case in ET.parse(xml).getroot().iter("testcase"):
        if not any(child.tag in ("failure", "error", "skipped") for child in case):
            passed.add(f"{case.get('classname')}::{case.get('name')}")
missing = sorted(set(base["stable_pass"]) - passed)
print(f"stable_pass: {len(base['stable_pass'])}, passing now: {len(set(base['stable_pass']) & passed)}, missing: {len(missing)}")
for m in missing[:40]:
    print("  MISSING", m)
sys.exit(1 if missing else 0)
