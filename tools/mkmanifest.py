#!/venv/bin/python
"""Regenerate MANIFEST.json from tools/claims.json (property id -> level text / note / technique) and
properties.jsonl.  Properties without a claim are listed under not_applicable with the stated reason."""
import json
from pathlib import Path

V = Path(__file__).resolve().parent.parent
props = [json.loads(l) for l in open(V / "properties.jsonl")]
claims = json.load(open(V / "tools" / "claims.json"))
baseline = json.load(open("/root/.vp/BASELINE.json"))["cmd"].replace("--junitxml=<file>", "").strip()
checks = []
na = []
for p in props:
    pid = p["id"]
    c = claims.get(pid)
    if c and c.get("claimed", True):
        checks.append({
            "property_id": pid,
            "quick_cmd": f"./check {pid} --tier quick",
            "thorough_cmd": f"./check {pid} --tier thorough",
            "evidence_file": f"evidence/{pid}.json",
            "replay_cmd_template": f"./check {pid} --replay {{path}}",
            "engine": "lean4-model+correspondence",
            "level_claimed": {"category": "proof", "text": c["text"], "design_ref": f"DESIGN.md §6 {pid}"},
            "level_note": c["note"],
            "technique": c.get("technique", "Lean 4 theorems over an executable model of the code + differential correspondence "
                                            "(model vs. real Python, executable spec on implementation outputs)"),
        })
    else:
        na.append({"property_id": pid, "reason": (c or {}).get("reason", "not yet built in this round (planned at level proof, DESIGN.md §6)")})
m = {
    "version": 1,
    "setup_cmd": "cd lean && lake build",
    "hooks": {"guard": "ANTISMASH_VERIF",
              "enable": "no source hooks: the harness drives public call signatures of the working tree in-process "
                        "(env ASV_REPO selects the tree, default /repo)",
              "baseline_off_cmd": baseline, "source_commits": [], "add_only": True},
    "engines": [{"name": "lean4-model+correspondence", "path": "lean/ + harness/",
                 "serves_properties": [c["property_id"] for c in checks],
                 "kind_free_text": "Lean 4 model/spec/theorems (lake project ASV, no Mathlib in models) + compiled line-protocol "
                                   "driver + Python differential harness running the real antiSMASH code in-process"}],
    "checks": checks,
    "not_applicable": na,
    "notes": "exit codes: 0 held (KNOWN-FINDING lines possible), 1 VIOLATION, 2 infrastructure. VERIF_SEED honoured. "
             "known_findings.json lists recorded defects and fixed: entries.",
}
json.dump(m, open(V / "MANIFEST.json", "w"), indent=1)
import jsonschema
jsonschema.validate(m, json.load(open("/root/.vp/MANIFEST.schema.json")))
print(f"MANIFEST.json: {len(checks)} checks, {len(na)} not_applicable")
