#!/venv/bin/python
"""Regenerate the tables of DESIGN.md §0.1 (repairs, from known_findings.json) and §0.3 (seeded changes,
from seeded/*/meta.json) between their markers."""
import json
import re
from pathlib import Path

V = Path(__file__).resolve().parent.parent
kf = json.load(open(V / "known_findings.json"))["findings"]
rows = ["| id | property | commit | what failed |", "|---|---|---|---|"]
for f in kf:
    if f.get("status", "").startswith("fixed"):
        what = re.sub(r"^fixed: property=\S+ \S+ ", "", f.get("fixed", ""))
        rows.append(f"| {f['id']} | {f['property']}{(' (' + ', '.join(f['also_affects']) + ')') if f.get('also_affects') else ''} | {f['status'].split(': ')[1]} | {what} |")
fixes = "\n".join(rows)
rows = ["| id | property | what fails (KNOWN-FINDING line printed while it still fails) |", "|---|---|---|"]
for f in kf:
    if f.get("status") == "open":
        rows.append(f"| {f['id']} | {f['property']} | {f.get('what', '')} |")
opens = "\n".join(rows)
rows = ["| seeded change | property | needs | caught by (what ran) |", "|---|---|---|---|"]
for d in sorted((V / "seeded").glob("*/meta.json")):
    m = json.load(open(d))
    rows.append(f"| {d.parent.name} | {m.get('property')} | {str(m.get('needs', '')).replace('|', '/')[:300]} | {str(m.get('what_ran', '')).replace('|', '/')[:300]} |")
seeds = "\n".join(rows)
p = V / "DESIGN.md"
s = p.read_text()
for name, text in (("fixes", fixes), ("open", opens), ("seeded", seeds)):
    s = re.sub(rf"(<!-- BEGIN {name} -->\n).*?(<!-- END {name} -->)", lambda m: m.group(1) + text + "\n" + m.group(2), s, flags=re.S)
p.write_text(s)
print("DESIGN.md tables regenerated")
