#!/bin/sh
# usage: tools/try_seed_wt.sh Cxx <dir with patch.diff, demo.py> [extra check ids...]
# like try_seed.sh but in a scratch worktree of /repo (selected with ASV_REPO), so /repo itself stays untouched
pid="$1"; dir="$(realpath "$2")"; shift 2
wt="/tmp/seedrun_${pid}_$$"
git -C /repo worktree add --detach "$wt" HEAD >/dev/null 2>&1 || { echo "cannot create worktree"; exit 2; }
trap 'git -C /repo worktree remove --force "$wt" >/dev/null 2>&1' EXIT
( cd "$wt" && /venv/bin/python "$dir/demo.py" >/tmp/demo_$$.out 2>&1 ); echo "demo exit without change: $?"
git -C "$wt" apply "$dir/patch.diff" || { echo "patch does not apply"; exit 2; }
( cd "$wt" && /venv/bin/python "$dir/demo.py" >/tmp/demo_$$.out 2>&1 ); echo "demo exit with change: $? ($(tail -1 /tmp/demo_$$.out | cut -c1-150))"
[ -n "$BASELINE" ] && echo "baseline with change: $(/verif/tools/baseline.py "$wt" | grep -o "missing: [0-9]*" | head -1)"
for c in "$pid" "$@"; do
  cp "/verif/evidence/$c.json" "/tmp/evidence_keep_${c}_$$.json" 2>/dev/null
  ( cd /verif && ASV_REPO="$wt" ./check "$c" --tier quick | grep -E "^C[0-9]+ tier|VIOLATION|KNOWN|INFRA" | cut -c1-260 )
  [ -f "/tmp/evidence_keep_${c}_$$.json" ] && mv "/tmp/evidence_keep_${c}_$$.json" "/verif/evidence/$c.json"
done
rm -f /tmp/demo_$$.out
