#!/bin/sh
# usage: tools/apply_fix.sh fixes/Dnn_slug.patch "fix: subject" "body"
# applies one patch to /repo, runs the pinned baseline, commits as a fix: commit (or rolls back)
set -e
patch="$(realpath "$1")"; subject="$2"; body="$3"
cd /repo
git apply --3way "$patch" 2>/dev/null || git apply "$patch" || patch -p1 --no-backup-if-mismatch < "$patch"
if /verif/tools/baseline.py /repo | tee /tmp/baseline.out | grep -q "missing: 0"; then
  git add -u antismash
  git commit -q -m "$subject" -m "$body"
  git log --oneline | head -1
else
  cat /tmp/baseline.out | tail -20
  git checkout -- antismash
  echo "ROLLED BACK: baseline failed"; exit 1
fi
