#!/venv/bin/python
"""Resolve the predictable conflicts when merging a prop/Cxx branch:
   lean/ASV.lean (union of imports), model_map.json / known_findings.json (JSON union),
   harness/tables.py (union of appended generator blocks), evidence/*.json (take theirs)."""
import json
import subprocess
import sys


def show(stage, path):
    r = subprocess.run(["git", "show", f":{stage}:{path}"], capture_output=True, text=True)
    return r.stdout if r.returncode == 0 else None


def conflicted():
    out = subprocess.run(["git", "diff", "--name-only", "--diff-filter=U"], capture_output=True, text=True).stdout
    return [l for l in out.splitlines() if l]


for path in conflicted():
    base, ours, theirs = show(1, path), show(2, path), show(3, path)
    if path == "lean/ASV.lean":
        lines = []
        for l in (ours or "").splitlines() + (theirs or "").splitlines():
            if l.strip() and l not in lines:
                lines.append(l)
        open(path, "w").write("\n".join(lines) + "\n")
    elif path == "model_map.json":
        o, t = json.loads(ours or "{}"), json.loads(theirs or "{}")
        b = json.loads(base or "{}")
        for k, v in t.items():
            if k not in o or (b.get(k) == o.get(k)):
                o[k] = v
        open(path, "w").write(json.dumps(o, indent=1, sort_keys=True) + "\n")
    elif path == "known_findings.json":
        o, t = json.loads(ours or '{"findings": []}'), json.loads(theirs or '{"findings": []}')
        ids = {f["id"] for f in o["findings"]}
        for f in t["findings"]:
            if f["id"] not in ids:
                o["findings"].append(f)
        open(path, "w").write(json.dumps(o, indent=1) + "\n")
    elif path == "harness/tables.py":
        bl = (base or "").splitlines()
        ol, tl = (ours or "").splitlines(), (theirs or "").splitlines()
        # both sides only append after the common base: keep ours, then theirs' additions
        extra = [l for l in tl[len(bl):]]
        open(path, "w").write("\n".join(ol + [""] + extra) + "\n")
    elif path.startswith("evidence/"):
        open(path, "w").write(theirs or ours or "")
    else:
        print("UNRESOLVED", path)
        continue
    subprocess.run(["git", "add", path], check=True)
    print("resolved", path)
left = conflicted()
print("still conflicted:", left)
sys.exit(1 if left else 0)
