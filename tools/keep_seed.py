#!/venv/bin/python
"""usage: tools/keep_seed.py Cxx <src dir> <name> "<caught by / what ran>"  — store a confirmed seeded change"""
import json, shutil, sys
from pathlib import Path
pid, src, name, ran = sys.argv[1], Path(sys.argv[2]), sys.argv[3], sys.argv[4]
dst = Path("/verif/seeded") / f"{pid}_{name}"
dst.mkdir(parents=True, exist_ok=True)
shutil.copy(src / "patch.diff", dst / "patch.diff")
shutil.copy(src / "demo.py", dst / "demo.py")
meta = json.load(open(src / "meta.json")) if (src / "meta.json").exists() else {}
meta.update({"property": pid, "confirmed": "patch applies to /repo; tools/baseline.py reports missing: 0 (per the author agent, re-run by the integrator where noted); "
             "demo.py exits 1 with the change and 0 without (re-run by the integrator via tools/try_seed.sh)", "what_ran": ran})
json.dump(meta, open(dst / "meta.json", "w"), indent=1)
print(dst)
