#!/bin/sh
# usage: tools/integrate.sh Cxx  — merge the worker branch, resolve predictable conflicts, rebuild, list fix patches
pid="$1"; cd /verif || exit 2
git merge --no-edit "prop/$pid" || tools/resolve_merge.py || exit 1
git diff --cached --quiet || git commit -qm "merge prop/$pid"
( cd lean && lake build 2>&1 | grep -v "^✔\|warning\|Hint\|apply\|Note\|^$\|Replayed\|⚠" | tail -15 )
echo "--- fixes offered:"; git diff --name-only HEAD~1 -- fixes | cat
echo "--- known findings:"; /venv/bin/python -c "
import json; [print(f['id'], f.get('status')) for f in json.load(open('/verif/known_findings.json'))['findings'] if f['property']=='$pid']"
