#!/bin/sh
# usage: tools/try_seed.sh Cxx <dir with patch.diff, demo.py> [extra check ids...]
# applies the seeded change to /repo, confirms the demo fails, runs the check(s), reverts /repo
pid="$1"; dir="$(realpath "$2")"; shift 2
cd /repo || exit 2
if ! git diff --quiet; then echo "/repo is dirty"; exit 2; fi
git apply "$dir/patch.diff" || { echo "patch does not apply"; exit 2; }
( cd /repo && /venv/bin/python "$dir/demo.py" >/tmp/demo.out 2>&1 ); echo "demo exit with change: $? ($(tail -1 /tmp/demo.out | cut -c1-150))"
for c in "$pid" "$@"; do
  cp "/verif/evidence/$c.json" "/tmp/evidence_keep_$c.json" 2>/dev/null   # evidence must describe runs on the unchanged tree
  ( cd /verif && ./check "$c" --tier quick | grep -E "^C[0-9]+ tier|VIOLATION|KNOWN|INFRA" | cut -c1-260 ); echo "check $c exit: $?"
done
git -C /repo checkout -- .
for c in "$pid" "$@"; do [ -f "/tmp/evidence_keep_$c.json" ] && mv "/tmp/evidence_keep_$c.json" "/verif/evidence/$c.json"; done
( cd /repo && /venv/bin/python "$dir/demo.py" >/tmp/demo.out 2>&1 ); echo "demo exit without change: $?"
