/-
  C14 model, part 2: the HMMResult objects a Component wraps — nested "internal hits", the
  `detailed_names` chain the subtypes come from, the overlap check of `add_internal_hits`, and
  `HMMResult.to_json` / `from_json` (antismash/common/hmmscan_refinement.py).
  e-value and bitscore (Python floats) are carried as opaque integers: nothing in module building
  reads them.
-/
import ASV.Model.Modules
namespace ASV.Modules

inductive Hmm where
  | mk (hitId : String) (start stop : Int) (evalue bitscore : Int) (internal : List Hmm)
deriving Repr, Inhabited

namespace Hmm
def hitId : Hmm → String | .mk i _ _ _ _ _ => i
def start : Hmm → Int | .mk _ s _ _ _ _ => s
def stop : Hmm → Int | .mk _ _ e _ _ _ => e
def internal : Hmm → List Hmm | .mk _ _ _ _ _ l => l

/-- `HMMResult.overlaps_with` -/
def overlapsWith (a b : Hmm) : Bool := decide (b.stop > a.start) && decide (a.stop > b.start)

mutual
/-- `detailed_names`: the hit id, then the ids down the chain of *single* internal hits -/
def detailedNames : Hmm → List String
  | .mk i _ _ _ _ l => i :: chainNames l
def chainNames : List Hmm → List String
  | [h] => detailedNames h
  | _ => []
end
end Hmm

/-- the JSON form: `internal_hits` is only written when there are any -/
inductive HmmJson where
  | mk (hitId : String) (start stop : Int) (evalue bitscore : Int) (internal : Option (List HmmJson))
deriving Repr, Inhabited

mutual
/-- `HMMResult.to_json` -/
def Hmm.toJson : Hmm → HmmJson
  | .mk i s e ev bs [] => .mk i s e ev bs none
  | .mk i s e ev bs (x :: xs) => .mk i s e ev bs (some (Hmm.toJson x :: Hmm.toJsonL xs))
def Hmm.toJsonL : List Hmm → List HmmJson
  | [] => []
  | h :: t => Hmm.toJson h :: Hmm.toJsonL t
end

/-- `HMMResult.__init__` with `internal_hits`: `add_internal_hits` raises ValueError for a hit that
    does not overlap its parent -/
def Hmm.construct (i : String) (s e ev bs : Int) (internal : List Hmm) : Except Err Hmm :=
  let parent := Hmm.mk i s e ev bs []
  if internal.all (fun h => h.overlapsWith parent) then .ok (.mk i s e ev bs internal) else .error .valueError

mutual
/-- `HMMResult.from_json` (`data.get("internal_hits", [])`) -/
def Hmm.fromJson : HmmJson → Except Err Hmm
  | .mk i s e ev bs none => Hmm.construct i s e ev bs []
  | .mk i s e ev bs (some l) =>
    match Hmm.fromJsonL l with
    | .error err => .error err
    | .ok hits => Hmm.construct i s e ev bs hits
def Hmm.fromJsonL : List HmmJson → Except Err (List Hmm)
  | [] => .ok []
  | j :: t =>
    match Hmm.fromJson j with
    | .error err => .error err
    | .ok h =>
      match Hmm.fromJsonL t with
      | .error err => .error err
      | .ok hs => .ok (h :: hs)
end

mutual
/-- an HMMResult that could be constructed: every internal hit overlaps its parent, recursively -/
def Hmm.WF : Hmm → Bool
  | .mk i s e ev bs l => Hmm.allOverlap (.mk i s e ev bs []) l && Hmm.WFL l
def Hmm.WFL : List Hmm → Bool
  | [] => true
  | h :: t => Hmm.WF h && Hmm.WFL t
def Hmm.allOverlap (parent : Hmm) : List Hmm → Bool
  | [] => true
  | h :: t => h.overlapsWith parent && Hmm.allOverlap parent t
end

mutual
/-- building an HMMResult tree bottom-up through the real constructor (children first) -/
def Hmm.validate : Hmm → Except Err Hmm
  | .mk i s e ev bs l =>
    match Hmm.validateL l with
    | .error err => .error err
    | .ok hits => Hmm.construct i s e ev bs hits
def Hmm.validateL : List Hmm → Except Err (List Hmm)
  | [] => .ok []
  | h :: t =>
    match Hmm.validate h with
    | .error err => .error err
    | .ok h' =>
      match Hmm.validateL t with
      | .error err => .error err
      | .ok t' => .ok (h' :: t')
end

/-- the domain record module building works with: `hit_id`, `detailed_names[1:]`, query start/end -/
def Hmm.domain (h : Hmm) : Domain := ⟨h.hitId, h.detailedNames.drop 1, h.start, h.stop⟩

/-- `Component.subtypes` -/
def Hmm.subtypes (h : Hmm) : List String := h.detailedNames.drop 1

end ASV.Modules
