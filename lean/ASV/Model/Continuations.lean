/-
  C02, "rules split over files": `Parser(text, …, existing_rules=R)` continues from the rules of
  earlier files.  `R` is a Python list object the caller keeps (and may hand to another `Parser`
  later), so the model keeps list objects in a store addressed by index:
    `self.rules = list(existing_rules)`  — the parser works on a *new* list object;
    every parsed rule is appended to that new object only.
-/
import ASV.Model.Parser
namespace ASV.Continuations
open ASV ASV.Parser

/-- the Python list objects holding rules that exist in the process -/
abbrev Store := List (List Rule)

/-- `Parser(text, sigs, cats, existing_rules=<object at ref>).rules`: the list object the new
    parser owns is allocated after the existing ones (a failing parse allocates nothing that the
    caller can see); `none` = no `existing_rules` argument -/
def parserRules (cfg : Cfg) (st : Store) (existing : Option Nat) (text : String) : Except Err (Nat × Store) := do
  let given ← (match existing with
    | none => pure []
    | some i => match st[i]? with
      | some l => pure l
      | none => .error .attr : Except Err (List Rule))
  let (rules, _) ← parseText cfg given [] text
  pure (st.length, st ++ [rules])

/-- a sequence of parses in one process; each names the list object it continues from; failing
    parses are recorded and leave the store alone -/
def run (cfg : Cfg) : List (Option Nat × String) → Store → List (Except Err Nat) × Store
  | [], st => ([], st)
  | (ex, text) :: more, st =>
    match parserRules cfg st ex text with
    | .ok (ref, st') => let (out, fin) := run cfg more st'; (.ok ref :: out, fin)
    | .error e => let (out, fin) := run cfg more st; (.error e :: out, fin)

end ASV.Continuations
