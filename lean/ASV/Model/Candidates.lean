/-
  Model of `antismash/common/secmet/features/candidate_cluster/formation.py` (all functions),
  `CandidateCluster.__init__ / core_location / core_crosses_origin` (structures.py) and the
  guards of `CDSCollection.__init__` / `Feature.__init__` / the `parent` setter that the
  constructor runs (cdscollection.py, feature.py).  One Lean function per Python function,
  same branch order, same iteration sources.  The model is of the code *after* the repairs
  fixes/D16 … D507 (see design/C05.md); every `raise` / `assert` reachable from
  `create_candidates_from_protoclusters` is an explicit `Except` value
  ("value-error", "assertion").

  Python sets of protoclusters are identity sets; here a protocluster carries its index in the
  input list (`id`), so structural equality is identity.  Sets are duplicate-free lists; the
  iteration order of a Python set is arbitrary, the model uses insertion order (the observable
  result, a set of candidates, does not depend on it — checked by the correspondence over
  permutations, proved for the parts stated in Props/C05.lean).
-/
import ASV.Model.LocOps
namespace ASV.CC

/-- `CandidateClusterKind` -/
inductive Kind where
  | single | interleaved | neighbouring | hybrid
deriving DecidableEq, Repr, Inhabited

/-- a protocluster: identity, full extent, core extent, defining genes (by gene number: the value of the
    `definition_cdses` property, see `mkProto`), product -/
structure Proto where
  id : Nat
  loc : Loc
  core : Loc
  defs : List Nat
  product : String := ""
deriving DecidableEq, Repr, Inhabited

/-- a CDS feature as far as protocluster definition goes: its location and the products of its
    CORE gene functions (`cds.gene_functions.get_by_function(GeneFunction.CORE)`) -/
structure Gene where
  id : Nat
  loc : Loc
  coreProducts : List String
deriving DecidableEq, Repr, Inhabited

/-- what `Record.add_protocluster` → `Protocluster.add_cds` store in `_definition_cdses`: the CDSs
    within the protocluster's extent (`get_cds_features_within_location`) that lie inside its core and
    carry a CORE gene function whose product **equals** the protocluster's product (`core.product ==
    self.product`: `NRPS` does not define an `NRPS-like` protocluster) — for a sideloaded protocluster too -/
def storedDefs (loc core : Loc) (product : String) (genes : List Gene) : List Nat :=
  (genes.filter fun g =>
    locationContainsOther loc g.loc && locationContainsOther core g.loc && g.coreProducts.contains product).map (·.id)

/-- the `definition_cdses` property: a copy of the stored set for `Protocluster`, always empty for
    `SideloadedProtocluster` ("a sideloaded protocluster cannot have definition cdses") -/
def definitionCdses (sideloaded : Bool) (stored : List Nat) : List Nat := if sideloaded then [] else stored

/-- a protocluster of a record with the given CDSs: `defs` is what `definition_cdses` returns -/
def mkProto (id : Nat) (loc core : Loc) (product : String) (sideloaded : Bool) (genes : List Gene) : Proto :=
  ⟨id, loc, core, definitionCdses sideloaded (storedDefs loc core product genes), product⟩

/-- a candidate cluster: kind, member protoclusters (in the order the constructor received
    them), location (= `connect_locations` of the members' locations) -/
structure Cand where
  kind : Kind
  members : List Proto
  loc : Loc
deriving DecidableEq, Repr, Inhabited

/-! ### generic list helpers (Python `sorted`, sets as lists) -/

section generic
variable {α : Type} [DecidableEq α]

/-- stable insertion: `x` goes before the first `y` that is not smaller than it -/
def insertBy (lt : α → α → Bool) (x : α) : List α → List α
  | [] => [x]
  | y :: ys => if lt y x then y :: insertBy lt x ys else x :: y :: ys

/-- `sorted(l)` with the given `<` (stable) -/
def sortBy (lt : α → α → Bool) (l : List α) : List α := l.foldr (insertBy lt) []

/-! CPython's `list.sort` for fewer than 64 elements (one run: `count_run`, then `binarysort`).
    With a consistent `<` this equals any stable sort; `CDSCollection.__lt__` is not consistent when a
    whole-record extent meets origin-spanning ones (both `a < b` and `b < a`), and then the result is
    whatever this algorithm produces — so the algorithm itself is modelled. -/

/-- `count_run`: length of the initial run and whether it is (strictly) descending -/
def countRunGo (lt : α → α → Bool) (desc : Bool) : α → Nat → List α → Nat
  | _, n, [] => n
  | prev, n, x :: xs =>
    if desc then (if lt x prev then countRunGo lt desc x (n + 1) xs else n)
    else (if lt x prev then n else countRunGo lt desc x (n + 1) xs)

def countRun (lt : α → α → Bool) : List α → Nat × Bool
  | [] => (0, false)
  | [_] => (1, false)
  | a :: b :: rest => if lt b a then (countRunGo lt true b 2 rest, true) else (countRunGo lt false b 2 rest, false)

/-- the binary search of `binarysort`: `while l < r: p = l + (r - l) // 2; if pivot < a[p]: r = p else: l = p + 1` -/
def binSearch (lt : α → α → Bool) (sorted : List α) (pivot : α) : Nat → Nat → Nat → Nat
  | 0, l, _ => l
  | fuel + 1, l, r =>
    if l < r then
      let p := l + (r - l) / 2
      match sorted[p]? with
      | some x => if lt pivot x then binSearch lt sorted pivot fuel l p else binSearch lt sorted pivot fuel (p + 1) r
      | none => l
    else l

/-- insert `pivot` into the sorted prefix at the position the binary search finds -/
def binInsert (lt : α → α → Bool) (sorted : List α) (pivot : α) : List α :=
  let i := binSearch lt sorted pivot (sorted.length + 1) 0 sorted.length
  sorted.take i ++ pivot :: sorted.drop i

/-- `sorted(l)` as CPython computes it for `len(l) < 64` -/
def pySort (lt : α → α → Bool) (l : List α) : List α :=
  let cr := countRun lt l
  let run := if cr.2 then (l.take cr.1).reverse else l.take cr.1
  (l.drop cr.1).foldl (binInsert lt) run

/-- `set(l)` keeping the first occurrences -/
def dedup : List α → List α
  | [] => []
  | x :: xs => x :: (dedup xs).filter (· != x)

/-- `a.isdisjoint(b)` -/
def disjointB (a b : List α) : Bool := a.all fun x => !b.contains x

/-- `a | b` (as sets; `a` first) -/
def unionL (a b : List α) : List α := a ++ b.filter fun x => !a.contains x

/-- `a - b` -/
def diffL (a b : List α) : List α := a.filter fun x => !b.contains x

/-- set equality of two lists -/
def sameSet (a b : List α) : Bool := (a.all fun x => b.contains x) && (b.all fun x => a.contains x)

/-- every pair `i < j` of the list satisfying `rel`, mapped with `mk`:
    `for i, a in enumerate(xs[:-1]): for b in xs[i+1:]: if rel(a, b): out.append(mk(a, b))` -/
def pairsWhere {β γ : Type} (rel : β → β → Bool) (mk : β → β → γ) : List β → List γ
  | [] => []
  | a :: rest => ((rest.filter (rel a)).map (mk a)) ++ pairsWhere rel mk rest

/-! ### `_merge_sets` (with the repeat-until-stable loop of fix D16) -/

/-- one `for second in ordered[i+1:]` pass: every set that meets `first` is merged into it and
    emptied; returns (first, the later sets, changed?) -/
def absorbPass (first : List α) : List (List α) → List α × List (List α) × Bool
  | [] => (first, [], false)
  | s :: rest =>
    if disjointB first s then
      let r := absorbPass first rest
      (r.1, s :: r.2.1, r.2.2)
    else
      let r := absorbPass (unionL first s) rest
      (r.1, [] :: r.2.1, true)

/-- `while changed:` — at most one more pass than there are later sets -/
def absorbLoop : Nat → List α → List (List α) → List α × List (List α)
  | 0, f, r => (f, r)
  | n + 1, f, r =>
    let p := absorbPass f r
    if p.2.2 then absorbLoop n p.1 p.2.1 else (p.1, p.2.1)

/-- `for i, first in enumerate(ordered[:-1])` (the fuel is the number of sets) -/
def mergeGo : Nat → List (List α) → List (List α)
  | 0, l => l
  | _, [] => []
  | n + 1, first :: rest =>
    if first.isEmpty then first :: mergeGo n rest
    else
      let r := absorbLoop (rest.length + 1) first rest
      r.1 :: mergeGo n r.2

/-- `_merge_sets` without the final per-group `sorted`: order the sets by `key` (stable), merge,
    drop the emptied ones -/
def mergeSetsCore (key : List α → Int) (groups : List (List α)) : List (List α) :=
  let ordered := sortBy (fun a b => decide (key a < key b)) (groups.map dedup)
  (mergeGo ordered.length ordered).filter fun g => !g.isEmpty

end generic

/-! ### orderings -/

/-- `CDSCollection.__lt__` between two collections that are not each other's children
    (errors of the comparator cannot occur on well-formed areas; they read as "not smaller") -/
def locLt (a b : Loc) : Bool :=
  match collectionLt a b with
  | .ok v => v
  | .error _ => false

def protoLt (a b : Proto) : Bool := locLt a.loc b.loc
def candLt (a b : Cand) : Bool := locLt a.loc b.loc

/-- the fixed order of protoclusters with identical coordinates (fix D507):
    `(cluster.product, core_location.start, core_location.end)` -/
def tieLt (a b : Proto) : Bool :=
  decide (a.product < b.product) || (a.product == b.product &&
    (decide (a.core.start < b.core.start) || (a.core.start == b.core.start && decide (a.core.end < b.core.end))))

/-- `_sorted_protoclusters`: `sorted(sorted(protoclusters, key=(product, core)))` — by location
    (`CDSCollection.__lt__`, stable), ties in the fixed order -/
def sortProtos (l : List Proto) : List Proto := pySort protoLt (sortBy tieLt l)
def sortCands (l : List Cand) : List Cand := pySort candLt l

/-- `_merge_sets`: the key is `min(cluster.location.start for cluster in group)` -/
def groupKey (g : List Proto) : Int := minList (g.map (·.loc.start))
def mergeSets (groups : List (List Proto)) : List (List Proto) :=
  (mergeSetsCore groupKey groups).map sortProtos

/-! ### features: `start` / `end`, `core_start`, `crosses_origin` -/

/-- `Feature.start` -/
def featStart (l : Loc) : Int :=
  if l.strand != .rev then (l.parts.head?.map (·.lo)).getD 0 else (l.parts.getLast?.map (·.lo)).getD 0
/-- `Feature.end` -/
def featEnd (l : Loc) : Int :=
  if l.strand != .rev then (l.parts.getLast?.map (·.hi)).getD 0 else (l.parts.head?.map (·.hi)).getD 0
/-- the de-duplication key `(int(candidate.start), int(candidate.end))` -/
def locKey (l : Loc) : Int × Int := (featStart l, featEnd l)

/-- `CDSCollection.crosses_origin` / `core_crosses_origin`: more than one part -/
def twoParts (l : Loc) : Bool := decide (l.parts.length > 1)

/-! ### `CandidateCluster.__init__` -/

/-- the constructor with the guards it runs: `connect_locations`, the two-part shape checks of
    `CDSCollection.__init__`, `Feature.__init__`'s negative-coordinate check, and the
    `parent` setter's `assert self.is_contained_by(parent)` for every member -/
def mkCand (wrap : Option Int) (kind : Kind) (members : List Proto) : E Cand :=
  if members.isEmpty then .error "value-error"
  else match connect (members.map (·.loc)) wrap with
    | .error e => .error e
    | .ok loc =>
      if loc.parts.length > 2 then .error "assertion"
      else if loc.parts.length == 2 && (loc.parts.drop 1).head?.map (·.lo) != some 0 then .error "value-error"
      else if !(match loc.parts with | [] => false | p :: ps => ps.all (·.strand == p.strand)) then .error "assertion"
      else if loc.start < 0 then .error "value-error"
      else if loc.parts.length > 1 && loc.strand != .fwd then .error "value-error"
      else if !(members.all fun m => locationContainsOther loc m.loc) then .error "assertion"
      else .ok ⟨kind, members, loc⟩

/-- `CandidateCluster.core_location` -/
def candCore (wrap : Option Int) (c : Cand) : E Loc := connect (c.members.map (·.core)) wrap

/-! ### `_find_hybrids` -/

def shares (a b : Proto) : Bool := a.defs.any fun g => b.defs.contains g

/-- `CoredCollectionMixin.core_start` -/
def coreStart (p : Proto) : Int := featStart p.core

/-- `bisect.bisect_left(a, x)` on a list of ints (plain binary search, whatever the list) -/
def bisectLeft (a : List Int) (x : Int) : Nat :=
  let rec go (fuel lo hi : Nat) : Nat :=
    match fuel with
    | 0 => lo
    | fuel + 1 =>
      if lo < hi then
        let mid := (lo + hi) / 2
        if (a.getD mid 0) < x then go fuel (mid + 1) hi else go fuel lo mid
      else lo
  go (a.length + 1) 0 a.length

/-- `for cluster in clusters: if cluster.location.start > limit: break; update_if_contained(core, cluster)`
    on the group being extended; returns the extended group -/
def scanContained (core : Loc) (limit : Int) : List Proto → List Proto → List Proto
  | group, [] => group
  | group, c :: rest =>
    if c.loc.start > limit then group
    else if !group.contains c && locationContainsOther core c.core then scanContained core limit (group ++ [c]) rest
    else scanContained core limit group rest

/-- the body of `for group in merged_groups` -/
def extendGroup (wrap : Option Int) (byCore : List Proto) (group : List Proto) : E (List Proto) :=
  match connect (group.map (·.core)) wrap with
  | .error e => .error e
  | .ok core =>
    let start : Int := Int.ofNat (bisectLeft (byCore.map coreStart) core.start) - 1
    let index := (max 0 start).toNat
    let g1 := scanContained core core.end group (byCore.drop index)
    let g2 := if core.parts.length > 1 then
        scanContained core ((core.parts.getLast?.map (·.hi)).getD 0) g1 byCore
      else g1
    .ok g2

def extendGroups (wrap : Option Int) (byCore : List Proto) : List (List Proto) → E (List (List Proto))
  | [] => .ok []
  | g :: gs =>
    match extendGroup wrap byCore g with
    | .error e => .error e
    | .ok g' =>
      match extendGroups wrap byCore gs with
      | .error e => .error e
      | .ok gs' => .ok (g' :: gs')

def coreKeyLt (a b : Proto) : Bool :=
  decide (a.core.start < b.core.start) || (a.core.start == b.core.start && decide (a.core.end < b.core.end))
def coreStartLt (a b : Proto) : Bool := decide (a.core.start < b.core.start)

/-- `_find_hybrids(clusters, wrap_point)` → (groups, unassigned) -/
def findHybrids (clusters : List Proto) (wrap : Option Int) : E (List (List Proto) × List Proto) :=
  match clusters with
  | [] => .error "IndexError"     -- `clusters[0]` (never reached: the caller returns early on no protoclusters)
  | _ =>
    let sorted := sortBy coreKeyLt clusters
    let pairs := pairsWhere shares (fun a b => [a, b]) sorted
    -- origin-crossing pair: first and last of the sorted list
    let extra := match sorted.head?, sorted.getLast? with
      | some f, some l => if f != l && shares f l then [[f, l]] else []
      | _, _ => []
    let groups := pairs ++ extra
    let paired := groups.flatten
    let unassigned := clusters.filter fun c => !paired.contains c
    let merged := mergeSets groups
    let byCore := sortBy coreStartLt unassigned
    match extendGroups wrap byCore merged with
    | .error e => .error e
    | .ok extended =>
      let absorbed := extended.flatten
      .ok (extended.map sortProtos, sortProtos (unassigned.filter fun c => !absorbed.contains c))

/-! ### `_find_interleaved_candidates`, `_find_cross_origin_interleaved`, `_find_interleaved` -/

/-- a candidate together with its `core_location` -/
abbrev CandC := Cand × Loc

/-- evaluate `core_location` of every candidate -/
def withCores (wrap : Option Int) : List Cand → E (List CandC)
  | [] => .ok []
  | c :: cs =>
    match candCore wrap c with
    | .error e => .error e
    | .ok k =>
      match withCores wrap cs with
      | .error e => .error e
      | .ok r => .ok ((c, k) :: r)

def findInterleavedCandidates (cands : List CandC) : List (List Proto) :=
  let pairs := pairsWhere (fun (a b : CandC) => locationsOverlap a.2 b.2)
    (fun a b => dedup (a.1.members ++ b.1.members)) cands
  let extra := if cands.length > 1 then
      match cands.head?, cands.getLast? with
      | some a, some b => if locationsOverlap a.2 b.2 then [dedup (a.1.members ++ b.1.members)] else []
      | _, _ => []
    else []
  pairs ++ extra

/-- the `while` walk in one direction: stop at the first cluster whose core does not overlap,
    or when everything has been found -/
def walk (core : Loc) (total : Nat) : List Proto → List Proto → List Proto → List Proto × List Proto
  | [], coreGroup, found => (coreGroup, found)
  | c :: rest, coreGroup, found =>
    if !(found.length < total) then (coreGroup, found)
    else if !locationsOverlap c.core core then (coreGroup, found)
    else walk core total rest (if coreGroup.contains c then coreGroup else coreGroup ++ [c])
                              (if found.contains c then found else found ++ [c])

/-- `_find_cross_origin_interleaved` → (found, groups with the new group appended) -/
def findCrossOriginInterleaved (cands : List CandC) (unassigned : List Proto) (groups : List (List Proto))
    (wrap : Option Int) : E (List Proto × List (List Proto)) :=
  if unassigned.isEmpty || cands.isEmpty then .ok ([], groups)
  else if !(cands.any fun c => twoParts c.2) then .ok ([], groups)
  else
    let crossing := cands.filter fun c => twoParts c.2
    match connect (crossing.map (·.2)) wrap with
    | .error e => .error e
    | .ok core =>
      let coreGroup0 := dedup (crossing.flatMap fun c =>
        let cr := c.1.members.filter fun p => bridgesOrigin p.core
        if cr.isEmpty then c.1.members else cr)
      if coreGroup0.isEmpty then .error "assertion"
      else
        -- direction -1: unassigned[-1], unassigned[-2], … down to unassigned[1]
        let back := walk core unassigned.length (unassigned.drop 1).reverse coreGroup0 []
        -- direction 1: unassigned[0], unassigned[1], …
        let fwd := walk core unassigned.length unassigned back.1 back.2
        let coreGroup := fwd.1
        let found := fwd.2
        if found.isEmpty then .ok ([], groups)
        else if cands.any fun c => sameSet coreGroup c.1.members then .ok ([], groups)
        else if coreGroup.length > 1 then .ok (found, groups ++ [coreGroup])
        else .ok (found, groups)

/-- the `unassigned overlapping with unassigned` loop for one cluster: stop at the first later
    cluster whose core starts at or after this core's end -/
def interleavedRow (c : Proto) : List Proto → List (List Proto)
  | [] => []
  | o :: rest =>
    if c.core.end ≤ o.core.start then []
    else if locationsOverlap c.core o.core then [c, o] :: interleavedRow c rest
    else interleavedRow c rest

def interleavedPairs : List Proto → List (List Proto)
  | [] => []
  | c :: rest => interleavedRow c rest ++ interleavedPairs rest

/-- `_find_interleaved(clusters, candidates, wrap_point)` → (groups, still unassigned) -/
def findInterleaved (clusters : List Proto) (cands : List Cand) (wrap : Option Int)
    : E (List (List Proto) × List Proto) :=
  -- `core_location` is evaluated (and cached) only when some comparison needs it
  let need := decide (cands.length > 1) || (!clusters.isEmpty && !cands.isEmpty)
  match (if need then withCores wrap cands else .ok []) with
  | .error e => .error e
  | .ok cc =>
    let g1 := findInterleavedCandidates cc
    let byCore := sortBy coreStartLt clusters
    let g2 := interleavedPairs byCore
    let g3 := byCore.flatMap fun cluster =>
      (cc.filter fun c => locationsOverlap c.2 cluster.core).map fun c => dedup (c.1.members ++ [cluster])
    let found0 := g2.flatten ++ byCore.filter fun cluster => cc.any fun c => locationsOverlap c.2 cluster.core
    match findCrossOriginInterleaved cc byCore (g1 ++ g2 ++ g3) wrap with
    | .error e => .error e
    | .ok (found1, groups) =>
      let found := found0 ++ found1
      .ok (mergeSets groups, sortProtos (clusters.filter fun c => !found.contains c))

/-! ### `_find_neighbouring_candidates`, `_find_neighbouring_protoclusters`, `_find_neighbouring` -/

/-- all overlapping pairs; the `while 0 < i < len(candidates)` loop starts at `i = -1` and never runs -/
def findNeighbouringCandidates (cands : List Cand) : List (List Proto) :=
  pairsWhere (fun (a b : Cand) => locationsOverlap a.loc b.loc) (fun a b => dedup (a.members ++ b.members)) cands

def findNeighbouringProtoclusters (ps : List Proto) : List (List Proto) :=
  let pairs := pairsWhere (fun (a b : Proto) => locationsOverlap a.loc b.loc) (fun a b => [a, b]) ps
  let extra := if ps.length > 1 then
      match ps.head?, ps.getLast? with
      | some f, some l => if f != l && locationsOverlap f.loc l.loc then [[f, l]] else []
      | _, _ => []
    else []
  pairs ++ extra

/-- `_find_neighbouring(singles, candidates)` -/
def findNeighbouring (singles : List Proto) (cands : List Cand) : List (List Proto) :=
  let g1 := findNeighbouringCandidates cands
  let g2 := singles.flatMap fun s =>
    (cands.filter fun c => locationsOverlap s.loc c.loc).map fun c => dedup (c.members ++ [s])
  let unassigned := singles.filter fun s => !(cands.any fun c => locationsOverlap s.loc c.loc)
  -- origin-crossing combinations of the remaining singles and the first / last candidate
  let edges : List Cand :=
    if !unassigned.isEmpty && !cands.isEmpty then
      (match cands.head? with | some c => if twoParts c.loc then [c] else [] | none => []) ++
      (if cands.length > 1 then
        match cands.getLast? with | some c => if twoParts c.loc then [c] else [] | none => []
       else [])
    else []
  let g3 := edges.flatMap fun c =>
    match unassigned.find? fun s => locationsOverlap s.loc c.loc with
    | some s => [dedup (c.members ++ [s])]
    | none => []
  mergeSets (g1 ++ g2 ++ g3 ++ findNeighbouringProtoclusters singles)

/-! ### `create_candidates_from_protoclusters` -/

/-- the `existing` table (insertion-ordered dict) and the promoted `singles` -/
structure Table where
  existing : List ((Int × Int) × Cand)
  singles : List Proto
deriving Repr, Inhabited

def getGo (k : Int × Int) : List ((Int × Int) × Cand) → Option Cand
  | [] => none
  | e :: es => if e.1 == k then some e.2 else getGo k es
def setGo (k : Int × Int) (c : Cand) : List ((Int × Int) × Cand) → List ((Int × Int) × Cand)
  | [] => [(k, c)]
  | e :: es => if e.1 == k then (k, c) :: es else e :: setGo k c es
/-- `existing.get(key)` -/
def Table.get (t : Table) (k : Int × Int) : Option Cand := getGo k t.existing
/-- `existing[key] = c`: replaces the value in place, or appends a new key -/
def Table.set (t : Table) (k : Int × Int) (c : Cand) : Table := { t with existing := setGo k c t.existing }
def Table.values (t : Table) : List Cand := t.existing.map (·.2)

/-- the body of `for group in groups` in `build_candidates` -/
def buildOne (wrap : Option Int) (kind : Kind) (t : Table) (group : List Proto) : E Table :=
  if !(kind == .single || group.length > 1) then .error "assertion"
  else match mkCand wrap kind (sortProtos group) with
    | .error e => .error e
    | .ok cand =>
      let key := locKey cand.loc
      match t.get key with
      | none => .ok (t.set key cand)
      | some ex =>
        let extras := diffL (dedup group) ex.members
        if extras.isEmpty then
          -- the dropped candidate's protoclusters are re-parented to the kept one
          -- (`protocluster.parent = existing_candidate` asserts containment)
          if !(group.all fun m => locationContainsOther ex.loc m.loc) then .error "assertion" else .ok t
        else match mkCand wrap ex.kind (sortProtos (dedup ex.members ++ extras)) with
          | .error e => .error e
          | .ok replacement =>
            let t' := t.set key replacement
            .ok (if ex.kind != kind then { t' with singles := unionL t'.singles extras } else t')

/-- `build_candidates(groups, kind)`; the returned list is `sorted(existing.values())` -/
def buildCandidates (wrap : Option Int) (kind : Kind) : Table → List (List Proto) → E Table
  | t, [] => .ok t
  | t, g :: gs =>
    match buildOne wrap kind t g with
    | .error e => .error e
    | .ok t' => buildCandidates wrap kind t' gs

/-- the final loop: a SINGLE for every remaining / promoted protocluster, unless the candidate
    with the same coordinates already contains it -/
def addSingles (wrap : Option Int) (t : Table) : List Proto → E (List Cand)
  | [] => .ok []
  | p :: rest =>
    let skip := match t.get (locKey p.loc) with
      | some ex => ex.members.contains p
      | none => false
    match addSingles wrap t rest with
    | .error e => .error e
    | .ok cs =>
      if skip then .ok cs
      else match mkCand wrap .single [p] with
        | .error e => .error e
        | .ok c => .ok (c :: cs)

/-- everything up to (not including) the final sanity `assert` and `sorted` -/
def formationCore (ps : List Proto) (wrap : Option Int) : E (List Cand) :=
  if ps.isEmpty then .ok []
  else
    let un0 := sortProtos ps
    match findHybrids un0 wrap with
    | .error e => .error e
    | .ok (hybridGroups, un1) =>
      match buildCandidates wrap .hybrid ⟨[], []⟩ hybridGroups with
      | .error e => .error e
      | .ok t1 =>
        match findInterleaved un1 (sortCands t1.values) wrap with
        | .error e => .error e
        | .ok (interleavedGroups, un2) =>
          match buildCandidates wrap .interleaved t1 interleavedGroups with
          | .error e => .error e
          | .ok t2 =>
            match buildCandidates wrap .neighbouring t2 (findNeighbouring un2 (sortCands t2.values)) with
            | .error e => .error e
            | .ok t3 =>
              match addSingles wrap t3 (sortProtos (dedup (un2 ++ t3.singles))) with
              | .error e => .error e
              | .ok singles => .ok (sortCands t3.values ++ singles)

/-- `assigned`: every protocluster that occurs in some candidate -/
def assigned (cs : List Cand) : List Proto := dedup (cs.flatMap (·.members))

/-- `create_candidates_from_protoclusters(protoclusters, circular_wrap_point)` -/
def formation (ps : List Proto) (wrap : Option Int) : E (List Cand) :=
  match formationCore ps wrap with
  | .error e => .error e
  | .ok cs =>
    if (assigned cs).length != ps.length then .error "assertion"
    else .ok (sortCands cs)

end ASV.CC
