/-
  C07: C03's model of `cluster_prediction.py` takes `Record.get_cds_features_within_location` as a
  parameter.  Here it is instantiated with C08's model of the *real* function (`ASV.Lookup.within`),
  not with its specification: the order in which the lookup returns the genes of a two-part
  (origin-spanning) location — second part after the first, origin-spanning genes last within a
  part — decides which genes `get_first_and_last` and `apply_extenders` call first and last.
  No imports outside ASV.Model (driver-linkable).
-/
import ASV.Model.Protocluster
import ASV.Model.Lookup
namespace ASV.Proto
open ASV

/-- `record.get_cds_features_within_location` on the genes of `r`, as the real function computes it -/
def withinReal (r : Rec) : Lookup := fun loc ov =>
  (ASV.Lookup.within (r.genes.map fun g => (⟨g.id, g.loc, []⟩ : ASV.Lookup.Gene)) loc ov).filterMap fun f =>
    r.genes.find? (·.id == f.id)

/-- the reported protoclusters as (rule, numbers of the genes inside the core) -/
def membership (r : Rec) (rules : List RuleM) : Option (List (String × List Nat)) :=
  match detectProtoclusters (withinReal r) r rules with
  | .ok outs => some (outs.map fun o => (o.pc.rule, ((withinReal r) o.pc.core false).map (·.id)))
  | .error _ => none

end ASV.Proto
