/-
  Model of the condition classes of `antismash/common/hmm_rule_parser/rule_parser.py`
  (`Details`, `ConditionMet`, `Conditions`, `AndCondition`, `MinimumCondition`,
  `CDSCondition`, `SingleCondition`, `ScoreCondition`, `DetectionRule.detect`).
  A literal, branch-by-branch transcription: same early exits, same iteration sources
  (`results_by_id` vs `features_by_id`), same places where matches are dropped.
-/
import ASV.Model.Loc
namespace ASV.Rules
open ASV

abbrev Gene := Nat
abbrev Prof := String

/-- the parser's condition objects; a `group`/`cds` list is the OR of its operands
    (`sub_conditions[::2]`), `conj` is an `AndCondition` -/
inductive Cond where
  | single (neg : Bool) (name : Prof)
  | score (neg : Bool) (name : Prof) (s : Int)
  | minimum (neg : Bool) (count : Nat) (opts : List Prof)
  | cds (neg : Bool) (subs : List Cond)
  | group (neg : Bool) (subs : List Cond)
  | conj (subs : List Cond)
deriving Repr, Inhabited

/-- `Details`: `genes` = keys of `features_by_id`, `withHits` = keys of `results_by_id`,
    `hits g` = `results_by_id.get(g, [])` as (profile, 2·bitscore), the cutoff, and `dist g h` =
    `get_distance_between_locations(loc g, loc h, wrap_point=circular_origin or None)`. -/
structure Env where
  genes : List Gene
  withHits : List Gene
  hits : Gene → List (Prof × Int)
  dist : Gene → Gene → Int
  cutoff : Int

/-- the environment `Details` builds: distances come from the location model
    (`circ` = `circular_origin`, 0 when falsy) -/
def Env.ofLocs (genes withHits : List Gene) (hits : Gene → List (Prof × Int)) (loc : Gene → Loc)
    (cutoff circ : Int) : Env :=
  { genes, withHits, hits, cutoff, dist := fun g h => getDistance (loc g) (loc h) circ }

namespace Env
/-- `Details.in_range` -/
def inRange (e : Env) (g h : Gene) : Bool :=
  decide (e.dist g h < e.cutoff)
def profs (e : Env) (g : Gene) : List Prof := (e.hits g).map (·.1)
/-- `name in details.possibilities` for the gene in focus -/
def has (e : Env) (g : Gene) (p : Prof) : Bool := (e.profs g).contains p
/-- some hit of `p` on `g` with `bitscore >= s` (bitscores are carried doubled) -/
def hasScore (e : Env) (g : Gene) (p : Prof) (s : Int) : Bool :=
  (e.hits g).any fun h => h.1 == p && decide (h.2 ≥ 2 * s)
/-- the loop header `for other in features_by_id: if other == cds: continue; if not in_range: continue` -/
def nbrs (e : Env) (g : Gene) : List Gene :=
  e.genes.filter fun h => h != g && e.inRange g h
/-- same loop over `results_by_id` (SingleCondition) -/
def nbrsHit (e : Env) (g : Gene) : List Gene :=
  e.withHits.filter fun h => h != g && e.inRange g h
/-- ScoreCondition's loop over `results_by_id`: the gene itself is *not* skipped -/
def inRangeHit (e : Env) (g : Gene) : List Gene :=
  e.withHits.filter fun h => e.inRange g h
end Env

/-- `ConditionMet` (field `matches` is called `reasons`: `matches` is a Lean keyword) -/
structure Met where
  met : Bool
  reasons : List Prof := []
  ancillary : List (Gene × Prof) := []
deriving Repr, Inhabited, DecidableEq

mutual
/-- `cond.is_satisfied(details, local_only)` -/
def evalC (e : Env) (g : Gene) (localOnly : Bool) : Cond → Met
  | .single neg p =>
      let found := e.has g p
      if localOnly || found then ⟨xor neg found, if found then [p] else [], []⟩
      else
        let anc := (e.nbrsHit g).filter (e.has · p)
        if !anc.isEmpty then ⟨!neg, [], anc.map fun h => (h, p)⟩
        else ⟨neg, [], []⟩
  | .score neg p s =>
      if e.hasScore g p s then ⟨!neg, [p], []⟩
      else if (e.inRangeHit g).any (e.hasScore · p s) then ⟨!neg, [], []⟩
      else ⟨neg, [], []⟩
  | .minimum neg n opts =>
      let hits := opts.filter (e.has g)
      if hits.length ≥ n then ⟨!neg, hits, []⟩
      else
        let others := (e.nbrs g).map fun h => (h, opts.filter (e.has h))
        let total := hits.length + (others.map fun x => x.2.length).sum
        if total ≥ n then ⟨!neg, hits, others.flatMap fun x => x.2.map fun p => (x.1, p)⟩
        else ⟨neg, hits, []⟩
  | .cds neg subs =>
      let inner := evalOr e g true subs
      if localOnly || inner.met then ⟨xor neg inner.met, inner.reasons, []⟩
      else
        let r := (e.nbrs g).any fun h => (evalOr e h true subs).met
        ⟨xor r neg, [], []⟩
  | .group neg subs =>
      let s := evalOr e g localOnly subs
      ⟨xor neg s.met, s.reasons, s.ancillary⟩
  | .conj subs => evalAnd e g localOnly subs
/-- `are_subconditions_satisfied`: OR of the operands, matches/ancillary united regardless of truth -/
def evalOr (e : Env) (g : Gene) (localOnly : Bool) : List Cond → Met
  | [] => ⟨false, [], []⟩
  | c :: cs =>
      let a := evalC e g localOnly c
      let b := evalOr e g localOnly cs
      ⟨a.met || b.met, a.reasons ++ b.reasons, a.ancillary ++ b.ancillary⟩
/-- `AndCondition.is_satisfied` -/
def evalAnd (e : Env) (g : Gene) (localOnly : Bool) : List Cond → Met
  | [] => ⟨true, [], []⟩
  | c :: cs =>
      let a := evalC e g localOnly c
      let b := evalAnd e g localOnly cs
      ⟨a.met && b.met, a.reasons ++ b.reasons, a.ancillary ++ b.ancillary⟩
end

/-- `DetectionRule.detect` -/
def detect (e : Env) (g : Gene) (c : Cond) : Met := evalC e g false c

/-- the test at the call site: `if matching.met and matching.matches` -/
def anchors (e : Env) (g : Gene) (c : Cond) : Bool :=
  (detect e g c).met && !(detect e g c).reasons.isEmpty

end ASV.Rules
