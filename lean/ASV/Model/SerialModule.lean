/-
  C10 model: the `aSModule` feature as a whole — C14's model of the module-specific qualifiers
  (`ASV/Model/ModulesFeature.lean`: `ModFeature.toBiopython / fromBiopython`) on top of the generic `Feature` part.

  C14 writes a qualifier dictionary with `None` for the flag qualifiers; in this model's dictionaries (lists of strings)
  a flag is the empty list, which is how it reaches `from_biopython` through the results JSON (`None`) and — as `[""]` —
  through GenBank text: `from_biopython` only asks whether the key is there.

  `ModF.fromBio` is the *repaired* `Module.from_biopython` (fixes/D71-C10): after the module-specific qualifiers are
  consumed the leftovers (notes, free qualifiers, the `tool` marker) go to `Feature.from_biopython`; the unrepaired
  code drops them.  Monomer pairings are outside (as in C14's model).
-/
import ASV.Model.Serial
import ASV.Model.ModulesFeature
namespace ASV.Serial
open ASV

/-- C14's dictionary → this model's: a flag (`None`) is the empty list -/
def ofModQuals (q : Modules.Quals) : Quals := q.map fun kv => (kv.1, kv.2.getD [])
/-- … and back, for `from_biopython`, which only looks keys up -/
def toModQuals (q : Quals) : Modules.Quals := q.map fun kv => (kv.1, some kv.2)

structure ModF where
  /-- location, type `aSModule`, notes, free qualifiers -/
  feat : Feat
  m : Modules.ModFeature
deriving DecidableEq, Repr

def moduleKeys : List String :=
  ["domains", "locus_tags", "type", "complete", "incomplete", "starter_module", "final_module", "iterative", "monomer_pairings"]

/-- `Module.to_biopython` -/
def ModF.toBio (f : ModF) : E Bio := f.feat.toBio (ofModQuals f.m.toBiopython)

def modErr : Modules.Err → String
  | .valueError => "value-error"
  | .indexError => "IndexError"
  | .keyError => "KeyError"
  | .assertion => "assertion"
  | .incompatible => "value-error"

/-- `Module.from_biopython` with a record whose `get_domain_by_name` is `known` -/
def ModF.fromBio (known : String → Option Modules.FDomain) (b : Bio) : E ModF :=
  match Modules.ModFeature.fromBiopython known (toModQuals b.quals) with
  | .error e => throw (modErr e)
  | .ok m => do
    let feat ← applyLeftovers ⟨b.loc, "aSModule", [], [], true, none⟩ (moduleKeys.foldl Q.erase b.quals)
    pure ⟨feat, m⟩

end ASV.Serial
