/-
  Model of `_build_annotations` (region/helpers.py) with the nesting and the sharing of the annotation
  dictionaries made explicit.  A `SeqRecord.annotations` dict holds, under "structured_comment", a dict of comment
  dicts ("antiSMASH-Data" is the one `main.add_antismash_comments` puts there before any GenBank file is written).
  Python dicts are objects: two records can hold *the same* inner dict.  The model therefore keeps all dict
  objects in a heap (`List AObj`, the address is the index) and lets dicts refer to each other by address;
  `deepcopy` allocates fresh objects, `dict(d)` (the shallow copy) allocates one fresh object whose entries point at
  the old inner objects, item assignment overwrites the object at an address.

  `buildAnnotations` is the code (deep copy, two `setdefault`s, three item assignments); `buildAnnotationsShallow`
  is the "optimised" variant with one-level copies, kept as a negative example: it writes the region's NOTE into
  the full record's comment.
-/
import ASV.Model.RegionExtract
namespace ASV.RegionExtract
open ASV

/-- a dict object: the annotations dict itself (`other`: every entry but "structured_comment", kept by value;
    `sc`: the address of the structured-comment dict, if the key is there), the structured-comment dict (comment
    name ↦ address of the comment dict), or one comment dict (key ↦ text) -/
inductive AObj where
  | top (other : List (String × String)) (sc : Option Nat)
  | comments (m : List (String × Nat))
  | data (m : List (String × String))
deriving DecidableEq, Repr, Inhabited

abbrev AHeap := List AObj

/-- what a dict *says*, references resolved: the value `==` compares -/
structure AnnTree where
  other : List (String × String)
  sc : Option (List (String × List (String × String)))
deriving DecidableEq, Repr, Inhabited

def readData (h : AHeap) (a : Nat) : Option (List (String × String)) :=
  match h[a]? with
  | some (.data m) => some m
  | _ => none

def readCommentEntries (h : AHeap) : List (String × Nat) → Option (List (String × List (String × String)))
  | [] => some []
  | (k, a) :: rest =>
    match readData h a, readCommentEntries h rest with
    | some d, some r => some ((k, d) :: r)
    | _, _ => none

def readComments (h : AHeap) (a : Nat) : Option (List (String × List (String × String))) :=
  match h[a]? with
  | some (.comments m) => readCommentEntries h m
  | _ => none

/-- the value of the annotations dict at address `a` -/
def readTop (h : AHeap) (a : Nat) : Option AnnTree :=
  match h[a]? with
  | some (.top other none) => some ⟨other, none⟩
  | some (.top other (some c)) =>
    match readComments h c with
    | some m => some ⟨other, some m⟩
    | none => none
  | _ => none

/-- `heap.append(obj)`: the new object's address -/
def alloc (h : AHeap) (o : AObj) : AHeap × Nat := (h ++ [o], h.length)

/-- fresh comment dicts for every entry -/
def allocEntries (h : AHeap) : List (String × List (String × String)) → AHeap × List (String × Nat)
  | [] => (h, [])
  | (k, d) :: rest =>
    let (h1, a) := alloc h (.data d)
    let (h2, r) := allocEntries h1 rest
    (h2, (k, a) :: r)

/-- `copy.deepcopy(annotations)`: a fresh object for every dict of the tree -/
def deepcopyTop (h : AHeap) (a : Nat) : Option (AHeap × Nat) :=
  match readTop h a with
  | none => none
  | some ⟨other, none⟩ => some (alloc h (.top other none))
  | some ⟨other, some m⟩ =>
    let (h1, entries) := allocEntries h m
    let (h2, c) := alloc h1 (.comments entries)
    some (alloc h2 (.top other (some c)))

/-- Python `d[k] = v` on an insertion-ordered dict of texts -/
def setStr (d : List (String × String)) (k v : String) : List (String × String) :=
  match d with
  | [] => [(k, v)]
  | (k', v') :: rest => if k' = k then (k, v) :: rest else (k', v') :: setStr rest k v

def noteCross : String := "This is a single region extracted from a cross-origin section of a larger, circular record."
def notePlain : String := "This is a single region extracted from a larger record!"

/-- the three item assignments on the comment dict at address `d` -/
def writeNotes (h : AHeap) (d : Nat) (rd : RegionData) : Option AHeap :=
  match readData h d with
  | none => none
  | some m =>
    let m := setStr m "NOTE" (if rd.crossesOrigin then noteCross else notePlain)
    let m := setStr m "Orig. start" (toString rd.start)
    let m := setStr m "Orig. end" (toString rd.end)
    some (h.set d (.data m))

/-- `annotations.setdefault("structured_comment", {})` then `….setdefault("antiSMASH-Data", {})` on the annotations
    dict at address `a`: the heap afterwards and the address of the antiSMASH-Data dict -/
def setdefaults (h : AHeap) (a : Nat) : Option (AHeap × Nat) :=
  match h[a]? with
  | some (.top other sc) =>
    let (h1, c) := match sc with
      | some c => (h, c)
      | none =>
        let (h', c) := alloc h (.comments [])
        (h'.set a (.top other (some c)), c)
    match h1[c]? with
    | some (.comments m) =>
      match m.find? (·.1 == "antiSMASH-Data") with
      | some kv => some (h1, kv.2)
      | none =>
        let (h2, d) := alloc h1 (.data [])
        some (h2.set c (.comments (m ++ [("antiSMASH-Data", d)])), d)
    | _ => none
  | _ => none

/-- `_build_annotations(region, original_annotations)`: the heap afterwards and the address of the new annotations dict -/
def buildAnnotationsHeap (h : AHeap) (parent : Nat) (rd : RegionData) : Option (AHeap × Nat) :=
  match deepcopyTop h parent with
  | none => none
  | some (h1, a) =>
    match setdefaults h1 a with
    | none => none
    | some (h2, d) =>
      match writeNotes h2 d rd with
      | none => none
      | some h3 => some (h3, a)

/-- the variant with one-level copies (`dict(original)`, `dict(original.get("structured_comment", {}))`): the
    comment dicts stay shared with the full record -/
def buildAnnotationsShallow (h : AHeap) (parent : Nat) (rd : RegionData) : Option (AHeap × Nat) :=
  match h[parent]? with
  | some (.top other sc) =>
    let entries := match sc with
      | some c => (match h[c]? with | some (.comments m) => m | _ => [])
      | none => []
    let (h1, c') := alloc h (.comments entries)
    let (h2, a) := alloc h1 (.top other (some c'))
    match setdefaults h2 a with
    | none => none
    | some (h3, d) =>
      match writeNotes h3 d rd with
      | none => none
      | some h4 => some (h4, a)
  | _ => none

end ASV.RegionExtract
