/-
  Model of the callers of the C13 functions, one gene at a time (C13, round 3):
    * `cluster_prediction.find_hmmer_hits`: bitscore cut-off per signature, then `filter_results`,
      `filter_result_multiple`, and the per-gene lists rebuilt from the position-sorted `results`;
    * `hmmer.build_hits` + the per-locus loop of `hmmer.run_hmmer`: score / e-value cut, then
      `remove_overlapping` with the default limit;
    * `nrps_pks_domains.domain_identification`: `find_domains` (refine, neighbour mode, docking
      filter), `find_ab_motifs`, `find_subtypes` (refine the sub-type hits, keep those overlapping a
      target domain, rename through the callback, attach them to the domain).
  Genes never interact in these functions (dicts keyed by gene), so the model is per gene; the
  harness drives the real functions on whole stubbed hit lists and compares gene by gene.
-/
import ASV.Model.HitFilter
namespace ASV.HitCallers
open ASV.Refine ASV.HitFilter

/-! ### `find_hmmer_hits` -/

/-- `hsp.bitscore > sig.cutoff` (tenths) -/
def aboveCutoff (cut : Int → Int) (h : FHit) : Bool := decide (cut h.prof < h.sc)

def leHs (a b : FHit) : Bool := decide (a.hs ≤ b.hs)

/-- the gene's entry of the returned dict (`none` = the assertion of `filter_results`): cut-off,
    competition between equivalent profiles, one hit per profile, then the order of the
    start-sorted `results` list -/
def findHmmerHitsGene (cut : Int → Int) (eqs : List (List Int)) (raw : List FHit) : Option (List FHit) :=
  match filterResults eqs (raw.filter (aboveCutoff cut)) with
  | none => none
  | some kept => some (sortBy leHs (filterMultiple kept))

/-! ### `build_hits` / `run_hmmer` -/

/-- a raw hmmscan HSP for `run_hmmer`: the modelled `HmmerHit` fields plus the e-value -/
structure RawHmm where
  hit : HHit
  ev : Int
deriving DecidableEq, Repr

/-- `if hsp.bitscore <= min_score or hsp.evalue >= max_evalue: continue` -/
def buildKeep (minScore maxEvalue : Int) (r : RawHmm) : Bool :=
  !(decide (r.hit.sc ≤ minScore) || decide (maxEvalue ≤ r.ev))

/-- the locus' share of `run_hmmer`: with `filter_overlapping=False` the hits that pass the cuts in
    hmmscan order; otherwise `remove_overlapping` — a locus without a surviving hit has no entry in
    `results_by_cds`, so `remove_overlapping` is not called for it -/
def runHmmerGene (cut : Int → Option Int) (minScore maxEvalue : Int) (raw : List RawHmm)
    (filterOverlapping : Bool := true) : Except HErr (List HHit) :=
  match (raw.filter (buildKeep minScore maxEvalue)).map (·.hit) with
  | [] => .ok []
  | hits => if filterOverlapping then HitFilter.removeOverlapping cut 10 hits else .ok hits

/-- the loci of `results_by_cds` in dict order: first appearance among the hits that pass the cuts -/
def runHmmerLoci (minScore maxEvalue : Int) (raw : List (Int × RawHmm)) : List Int :=
  firstOcc ((raw.filter fun r => buildKeep minScore maxEvalue r.2).map (·.1))

/-- one turn of `for locus_hits in results_by_cds.values(): hits.extend(remove_overlapping(locus_hits, cutoffs))`;
    an exception ends the call -/
def runHmmerStep (cut : Int → Option Int) (minScore maxEvalue : Int) (raw : List (Int × RawHmm))
    (acc : Except HErr (List (Int × HHit))) (g : Int) : Except HErr (List (Int × HHit)) :=
  match acc with
  | .error e => .error e
  | .ok out =>
    match runHmmerGene cut minScore maxEvalue ((raw.filter fun r => r.1 == g).map (·.2)) with
    | .error e => .error e
    | .ok hs => .ok (out ++ hs.map fun h => (g, h))

/-- `run_hmmer` on the whole hmmscan output `(locus, HSP)`: without filtering the passing hits in
    hmmscan order; with filtering locus after locus, the first failing locus aborting the call -/
def runHmmerRecord (cut : Int → Option Int) (minScore maxEvalue : Int) (raw : List (Int × RawHmm))
    (filterOverlapping : Bool := true) : Except HErr (List (Int × HHit)) :=
  if !filterOverlapping then
    .ok ((raw.filter fun r => buildKeep minScore maxEvalue r.2).map fun r => (r.1, r.2.hit))
  else
    (runHmmerLoci minScore maxEvalue raw).foldl (runHmmerStep cut minScore maxEvalue raw) (.ok [])

/-! ### `domain_identification` -/

/-- `find_domains`, one gene of translation length `cdsLength` -/
def findDomainsGene (env : Env) (cdsLength : Int) (raw : List Hit) : List Hit :=
  dockingFilter env cdsLength (refine env true raw)

/-- `find_ab_motifs`, one gene -/
def findAbMotifsGene (env : Env) (raw : List Hit) : List Hit := refine env true raw

/-- `HMMResult.overlaps_with` -/
def overlapsWith (self other : Hit) : Bool := decide (other.qe > self.qs) && decide (self.qe > other.qs)

/-- the hits attached to one target domain: refined sub-type hits overlapping it, renamed by the
    callback (`strip` on profile ranks; the identity when there is no callback) -/
def subtypeHits (env : Env) (strip : Int → Int) (raw : List Hit) (domain : Hit) : List Hit :=
  ((refine env true raw).filter fun h => overlapsWith h domain).map fun h => { h with prof := strip h.prof }

/-- `find_subtypes`, one gene: `existing` are the gene's domains, `raw` its hits against the
    sub-type database; the gene's entry is the concatenation over its target domains (absent = `[]`) -/
def findSubtypesGene (env : Env) (target : Int) (strip : Int → Int) (existing raw : List Hit) : List Hit :=
  (existing.filter fun d => d.prof == target).flatMap (subtypeHits env strip raw)

/-! ### `gather_by_query` + the gene loop of `refine_hmmscan_results`: the whole record -/

/-- `gather_by_query`: HSPs `(query gene, hit)` in hmmscan order ↦ the dict gene ↦ *set* of hits, genes
    in order of first appearance; each set is given by the enumeration "in hmmscan order" (any other
    enumeration gives the same refinement, `refine_enumeration_invariant`) -/
def gatherByQuery (raw : List (Int × Hit)) : List (Int × List Hit) :=
  (firstOcc (raw.map (·.1))).map fun g => (g, (raw.filter fun r => r.1 == g).map (·.2))

/-- `refine_hmmscan_results`: every gene refined on its own; genes whose refinement is empty are left out -/
def refineRecord (env : Env) (neighbour : Bool) (raw : List (Int × Hit)) : List (Int × List Hit) :=
  (gatherByQuery raw).filterMap fun g =>
    let refined := refine env neighbour g.2
    if refined.isEmpty then none else some (g.1, refined)

/-- the dict lookup `result.get(gene, [])` -/
def lookupGene (d : List (Int × List Hit)) (g : Int) : List Hit :=
  match d.find? (fun e => e.1 == g) with
  | some e => e.2
  | none => []

end ASV.HitCallers
