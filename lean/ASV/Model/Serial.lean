/-
  C10 model — the layer between secmet objects and Biopython `SeqFeature(location, type, qualifiers)`
  plus the record-level bookkeeping (sorting, postponed area types, numbering, cross references by
  number).  One Lean function per Python function, same branch order:

    Feature.to_biopython / from_biopython                     feature.py
    frameshift_location_by_qualifier / _adjust_location_by_offset   locations.py
    CDSCollection.to_biopython / from_biopython / contig_edge cdscollection.py
    Protocluster (+Sideloaded).to_biopython / from_biopython / contig_edge   protocluster.py
    SubRegion (+Sideloaded).to_biopython / from_biopython     subregion.py
    CandidateCluster.to_biopython / from_biopython            candidate_cluster/structures.py
    Region.to_biopython / from_biopython                      region/structures.py
    Record.to_biopython / from_biopython / add_biopython_feature / add_protocluster /
      add_candidate_cluster / add_subregion / add_region / add_cds_feature / all_features   record.py
    serialiser.feature_to_json / feature_from_json            serialiser.py

  The code modelled is the *repaired* code (fixes/D20, D25, D26, D27, D28 — see design/C10.md):
  protoclusters, subregions and CDS features are inserted with `bisect_right`, re-read candidate
  clusters are added from the highest stored number to the lowest (they keep `bisect_left`), `Feature.to_biopython` copies the stored
  `note` list, the `proto_core` feature never carries notes, a sideloaded protocluster's consumed
  qualifiers are not kept as leftovers, a re-read candidate cluster gets a wrap point only on a
  circular record.

  A Python `dict` is an association list in insertion order with distinct keys (`Q.set` keeps the
  position of an existing key, appends a new one — CPython semantics).  `sorted(...)` on fewer than
  64 elements is CPython's binary insertion sort after the initial run (`pySort`); `bisect_right`
  is transcribed literally (`bisectR`).  Errors: "value-error", "assertion", "KeyError", "IndexError".

  Opaque at this level (exercised by the real round trips, not modelled): what is *inside* the
  qualifiers of CDS features, domains, motifs, modules — such a feature is a `Feat` whose qualifier
  dictionary already holds the class-specific qualifiers.
-/
import ASV.Model.LocOps
import ASV.Model.LocString
import ASV.Model.ProtDna
namespace ASV.Serial
open ASV

/-! ### qualifier dictionaries -/

abbrev Quals := List (String × List String)

namespace Q
/-- `d.get(k)` -/
def get? : Quals → String → Option (List String)
  | [], _ => none
  | (k', v) :: rest, k => if k' = k then some v else get? rest k
/-- `k in d` -/
def has (q : Quals) (k : String) : Bool := (get? q k).isSome
/-- `d.pop(k, default)` without the returned value -/
def erase (q : Quals) (k : String) : Quals := q.filter (fun e => e.1 != k)
/-- `d[k] = v` -/
def set : Quals → String → List String → Quals
  | [], k, v => [(k, v)]
  | (k', v') :: rest, k, v => if k' = k then (k, v) :: rest else (k', v') :: set rest k v
/-- `d.update(other)` -/
def update (q o : Quals) : Quals := o.foldl (fun a e => set a e.1 e.2) q
def insertKey (e : String × List String) : Quals → Quals
  | [] => [e]
  | y :: ys => if e.1 < y.1 then e :: y :: ys else y :: insertKey e ys
/-- `sorted(d.items())` (keys are distinct, so only the key decides) -/
def sortKeys (q : Quals) : Quals := q.foldl (fun acc e => insertKey e acc) []
/-- `d.get(k, [""])[0]`-style access: first value or the default -/
def first (q : Quals) (k : String) (dflt : String) : String :=
  match get? q k with
  | some (v :: _) => v
  | _ => dflt
end Q

def insertStr (x : String) : List String → List String
  | [] => [x]
  | y :: ys => if x < y then x :: y :: ys else y :: insertStr x ys
/-- `sorted(list_of_str)` -/
def sortStrs (l : List String) : List String := l.foldl (fun acc x => insertStr x acc) []

/-- `str(int)` -/
def strOfInt (i : Int) : String := String.ofList (intChars i)
/-- `int(str)` for the canonical decimal form -/
def intOfStr (s : String) : Option Int := parseInt s.toList

/-- insertion-ordered de-duplication (`OrderedDict.fromkeys`) -/
def dedup (l : List String) : List String :=
  l.foldl (fun acc x => if acc.contains x then acc else acc ++ [x]) []

/-! ### Biopython feature, secmet base feature -/

structure Bio where
  loc : Loc
  type : String
  quals : Quals
deriving DecidableEq, Repr, Inhabited

/-- state of a `secmet.Feature` -/
structure Feat where
  loc : Loc
  type : String
  notes : List String := []
  /-- `_qualifiers` -/
  quals : Quals := []
  /-- `created_by_antismash` -/
  byAS : Bool := false
  /-- `_original_codon_start` (0-based) -/
  codon : Option Int := none
deriving DecidableEq, Repr, Inhabited

/-- `_adjust_location_by_offset` -/
def adjustByOffset (l : Loc) (offset : Int) : E Loc :=
  if offset = 0 then pure l
  else if !(decide (-2 ≤ offset) && decide (offset ≤ 2)) then throw "assertion"
  else
    let adj (p : Part) : E Part :=
      let q : Part := if p.strand == .rev then { p with hi := p.hi + offset } else { p with lo := p.lo + offset }
      -- Biopython refuses a location whose end is before its start
      if q.hi < q.lo then throw "value-error" else pure q
    match l with
    | .simple p => do pure (.simple (← adj p))
    | .compound [] => throw "IndexError"
    | .compound (p :: rest) =>
      -- the first part is the first exon; it is at the edge of the location unless the location
      -- crosses the origin
      if !bridgesOrigin l && (if l.strand == .rev then decide (p.hi ≠ l.end) else decide (p.lo ≠ l.start)) then
        throw "assertion"
      else do pure (.compound ((← adj p) :: rest))

/-- `frameshift_location_by_qualifier(location, start, undo)` with `start` the 1-based codon start -/
def frameshift (l : Loc) (start1 : Int) (undo : Bool) : E Loc :=
  let cs := start1 - 1
  if !(decide (0 ≤ cs) && decide (cs ≤ 2)) then throw "value-error"
  else
    let cs := if l.strand == .rev then -cs else cs
    let cs := if undo then -cs else cs
    adjustByOffset l cs

/-- `Feature.to_biopython(qualifiers)` -/
def Feat.toBio (f : Feat) (extra : Quals := []) : E Bio := do
  let stored := (Q.get? f.quals "note").getD []
  let notes := stored ++ f.notes
  let nq : List String × Quals :=
    if extra.isEmpty then (notes, f.quals)
    else (notes ++ (Q.get? extra "note").getD [], Q.update f.quals (Q.erase extra "note"))
  let quals := if nq.1.isEmpty then nq.2 else Q.set nq.2 "note" (sortStrs nq.1)
  let quals := if f.byAS then Q.set quals "tool" ["antismash"] else quals
  match f.codon with
  | none => pure ⟨f.loc, f.type, Q.sortKeys quals⟩
  | some c =>
    let loc ← frameshift f.loc (c + 1) true
    pure ⟨loc, f.type, Q.sortKeys (Q.set quals "codon_start" [strOfInt (c + 1)])⟩

/-- `int(raw_start[0])` -/
def firstDigit (s : String) : E Int :=
  match s.toList with
  | [] => throw "IndexError"
  | c :: _ => if c.isDigit then pure ((c.toNat : Int) - 48) else throw "value-error"

/-- the tail of `Feature.from_biopython` shared by every class: `leftovers` → tool / codon_start / `_qualifiers` -/
def applyLeftovers (f : Feat) (leftovers : Quals) : E Feat :=
  if leftovers.isEmpty then pure { f with byAS := false }
  else
    let byAS := Q.get? leftovers "tool" == some ["antismash"]
    match Q.get? leftovers "codon_start" with
    | some vals =>
      match vals with
      | [] => throw "IndexError"
      | start :: _ => do
        let left := Q.erase leftovers "codon_start"
        let loc ← frameshift f.loc (← firstDigit start) false
        match intOfStr start with
        | none => throw "value-error"
        | some n => pure { f with byAS := byAS, loc := loc, codon := some (n - 1), quals := Q.update f.quals left }
    | none => pure { f with byAS := byAS, quals := Q.update f.quals leftovers }

/-- `Feature.from_biopython(bio_feature)` (no pre-built feature) -/
def Feat.fromBio (b : Bio) : E Feat :=
  let notes := (Q.get? b.quals "note").getD []
  applyLeftovers ⟨b.loc, b.type, notes, [], false, none⟩ (Q.erase b.quals "note")

/-- `from_biopython` of a subclass that builds the feature itself and hands its leftovers to
    `Feature.from_biopython(bio, feature=feature, leftovers=...)` (genes, CDS, domains, motifs, modules,
    sources): a `note` qualifier stays among the leftovers, i.e. in `_qualifiers`.  `byAS0` is what
    the subclass constructor sets. -/
def Feat.fromBioSub (b : Bio) (byAS0 : Bool := false) : E Feat :=
  applyLeftovers ⟨b.loc, b.type, [], [], byAS0, none⟩ b.quals

/-- types whose class builds the feature itself -/
def subclassTypes : List String := ["gene", "CDS", "CDS_motif", "aSDomain", "PFAM_domain", "aSModule", "source"]

/-- `add_biopython_feature`'s conversion of a feature that is not an area -/
def plainFromBio (b : Bio) : E Feat :=
  if subclassTypes.contains b.type then Feat.fromBioSub b else Feat.fromBio b

/-! ### collections -/

def boolStr (b : Bool) : String := if b then "True" else "False"

/-- `CDSCollection.to_biopython(qualifiers)`; `ce = none` when the feature is in no record -/
def collToBio (f : Feat) (quals : Quals) (ce : Option Bool) : E Bio :=
  f.toBio (match ce with | some b => Q.set quals "contig_edge" [boolStr b] | none => quals)

/-- `CDSCollection.from_biopython` with a feature built by the subclass -/
def collTail (f : Feat) (leftovers : Quals) : E Feat := applyLeftovers f (Q.erase leftovers "contig_edge")

/-- `CDSCollection.crosses_origin` -/
def crosses (l : Loc) : Bool := l.parts.length > 1

/-- `CDSCollection.contig_edge` for a collection in a record of length `len` -/
def collEdge (l : Loc) (len : Int) (children : List Bool) : Bool :=
  if crosses l then false
  else if l.start == 0 || decide (l.end ≥ len) then true
  else children.any id

/-- the qualifiers a sideloaded area adds to an already built feature -/
def sideload (tool : String) (extra : Option Quals) (b : Bio) : Bio :=
  match extra with
  | none => b
  | some ex =>
    let q := Q.set b.quals "aStool" ["externally annotated by: " ++ tool]
    let q := if ex.isEmpty then q else Q.update (Q.set q "external_qualifier_ids" (ex.map (·.1))) ex
    { b with quals := q }

/-- `text.startswith("externally annotated")` -/
def isExternal (text : String) : Bool := "externally annotated".toList.isPrefixOf text.toList

/-- `text.split(": ", 1)[1]` -/
def afterColonSpace : List Char → Option (List Char)
  | ':' :: ' ' :: rest => some rest
  | _ :: rest => afterColonSpace rest
  | [] => none

/-- `leftovers.pop(key)[0]` where a missing key is an error of kind `missing` -/
def popReq (q : Quals) (k : String) (missing : String) : E (String × Quals) :=
  match Q.get? q k with
  | some (v :: _) => pure (v, Q.erase q k)
  | some [] => throw "IndexError"
  | none => throw missing

def popInt (q : Quals) (k : String) (missing : String) : E (Int × Quals) := do
  let (s, q) ← popReq q k missing
  match intOfStr s with
  | some i => pure (i, q)
  | none => throw "value-error"

def parseLoc (s : String) : E Loc :=
  match locFromString s with
  | some l => pure l
  | none => throw "value-error"

/-- the extra qualifiers of a sideloaded area: `for key in leftovers.pop("external_qualifier_ids", [])` -/
def popExtras (strict : Bool) (q : Quals) : E (Quals × Quals) :=
  let ids := (Q.get? q "external_qualifier_ids").getD []
  ids.foldlM (init := (([] : Quals), Q.erase q "external_qualifier_ids")) fun acc key =>
    match Q.get? acc.2 key with
    | some v => pure (Q.set acc.1 key v, Q.erase acc.2 key)
    | none => if strict then throw "KeyError" else pure acc

/-! #### protoclusters -/

structure Proto where
  /-- surrounding location, notes, `_qualifiers`; type `protocluster` -/
  feat : Feat
  core : Loc
  tool : String
  product : String
  cutoff : Int
  nbhd : Int
  rule : String
  category : String := "other"
  /-- `extra_qualifiers` of a `SideloadedProtocluster` -/
  side : Option Quals := none
deriving DecidableEq, Repr, Inhabited

/-- the loop `for key, val in sorted(...): core.qualifiers[key] = val; core.qualifiers["tool"] = ["antismash"]` -/
def coreQuals (sorted : Quals) : Quals :=
  sorted.foldl (fun acc e => Q.set (Q.set acc e.1 e.2) "tool" ["antismash"]) []

def Proto.common (p : Proto) (num : Option Nat) : Quals :=
  [("neighbourhood", [strOfInt p.nbhd]), ("cutoff", [strOfInt p.cutoff]), ("product", [p.product]),
   ("aStool", [p.tool]), ("detection_rule", [p.rule])] ++
  (match num with | some n => [("protocluster_number", [strOfInt n])] | none => [])

/-- `Protocluster.to_biopython` (+ the sideloaded variant); `num` = number in the record, if any -/
def Proto.toBio (p : Proto) (num : Option Nat) (ce : Bool) : E (List Bio) := do
  let common := p.common num
  let coreQ := Q.update (Q.erase p.feat.quals "note") common
  let coreF : Bio := ⟨p.core, "proto_core", coreQuals (Q.sortKeys coreQ)⟩
  let shared := Q.set common "core_location" [locToString p.core]
  let shared := if p.category.isEmpty then shared else Q.set shared "category" [p.category]
  let nb ← collToBio p.feat shared (num.map fun _ => ce)
  pure [sideload p.tool p.side nb, sideload p.tool p.side coreF]

/-- `Protocluster.contig_edge` -/
def Proto.edge (p : Proto) (len : Int) : Bool :=
  if collEdge p.feat.loc len [] then true
  else
    let s := min p.feat.loc.start (p.core.start - p.cutoff)
    let e := max p.feat.loc.end (p.core.end + p.cutoff)
    decide (s < 0) || decide (e ≥ len)

def protoKeys : List String :=
  ["category", "neighbourhood", "cutoff", "product", "aStool", "detection_rule", "core_location"]

/-- `Protocluster.from_biopython` / `SideloadedProtocluster.from_biopython` -/
def Proto.fromBio (b : Bio) : E Proto := do
  let l0 := b.quals
  if isExternal (Q.first l0 "aStool" "") then
    let (tool0, l) ← popReq l0 "aStool" "KeyError"
    let tool ← match afterColonSpace tool0.toList with
      | some t => pure (String.ofList t)
      | none => throw "IndexError"
    let core ← match Q.get? l "core_location" with
      | some (s :: _) => parseLoc s
      | some [] => throw "IndexError"
      | none => throw "KeyError"
    let (product, l) ← popReq l "product" "KeyError"
    let (extra, l) ← popExtras false l
    let (nbhd, l) ← popInt l "neighbourhood" "KeyError"
    let nbhd := if nbhd = 0 then max (core.start - b.loc.start) (b.loc.end - core.end) else nbhd
    -- back in Protocluster.from_biopython with the feature built: consumed qualifiers are dropped
    let l := protoKeys.foldl Q.erase l
    let l := Q.erase l "protocluster_number"
    let feat ← collTail ⟨b.loc, "protocluster", [], [], true, none⟩ l
    pure ⟨feat, core, tool, product, 0, nbhd, "from external annotation", "other", some extra⟩
  else
    let category := Q.first l0 "category" ""
    let l := Q.erase l0 "category"
    let (nbhd, l) ← popInt l "neighbourhood" "value-error"
    let (cutoff, l) ← popInt l "cutoff" "value-error"
    let (product, l) ← popReq l "product" "value-error"
    let (tool, l) ← popReq l "aStool" "value-error"
    let (rule, l) ← popReq l "detection_rule" "value-error"
    let (coreS, l) ← popReq l "core_location" "value-error"
    let core ← parseLoc coreS
    let l := Q.erase l "protocluster_number"
    let feat ← collTail ⟨b.loc, "protocluster", [], [], true, none⟩ l
    pure ⟨feat, core, tool, product, cutoff, nbhd, rule, category, none⟩

/-! #### subregions -/

structure Sub where
  feat : Feat
  tool : String
  label : String := ""
  side : Option Quals := none
deriving DecidableEq, Repr, Inhabited

def Sub.toBio (s : Sub) (num : Option Nat) (ce : Bool) : E (List Bio) := do
  let q : Quals := match num with | some n => [("subregion_number", [strOfInt n])] | none => []
  let q := Q.set q "aStool" [s.tool]
  let q := if s.label.isEmpty then q else Q.set q "label" [s.label]
  let b ← collToBio s.feat q (num.map fun _ => ce)
  pure [sideload s.tool s.side b]

def Sub.edge (s : Sub) (len : Int) : Bool := collEdge s.feat.loc len []

/-- the non-sideloaded part of `SubRegion.from_biopython` (also reached from the sideloaded variant) -/
def subTail (b : Bio) (l : Quals) (side : Option Quals) : E Sub := do
  let (tool, l) ← popReq l "aStool" "value-error"
  let label := Q.first l "label" ""
  let l := Q.erase l "label"
  let (label, l) := if label.isEmpty then (Q.first l "anchor" "", Q.erase l "anchor") else (label, l)
  let l := Q.erase l "subregion_number"
  let feat ← collTail ⟨b.loc, "subregion", [], [], true, none⟩ l
  pure ⟨feat, tool, label, side⟩

def Sub.fromBio (b : Bio) : E Sub := do
  let l0 := b.quals
  match Q.get? l0 "aStool" with
  | none => throw "value-error"
  | some [] => throw "IndexError"
  | some (tool0 :: _) =>
    if isExternal tool0 then
      let tool ← match afterColonSpace tool0.toList with
        | some t => pure (String.ofList t)
        | none => throw "IndexError"
      let l := Q.set (Q.erase l0 "aStool") "aStool" [tool]
      let (extra, l) ← popExtras true l
      subTail b l (some extra)
    else subTail b l0 none

/-! #### candidate clusters and regions (rebuilt from the record by number) -/

structure Cand where
  /-- location (derived with `connect_locations`), notes, `_qualifiers` -/
  feat : Feat
  kind : String
  /-- positions (0-based) of the child protoclusters in the record's protocluster list -/
  children : List Nat
  smiles : Option String := none
  polymer : Option String := none
  /-- `_wrap_point` -/
  wrap : Option Int := none
deriving DecidableEq, Repr, Inhabited

structure Reg where
  feat : Feat
  cands : List Nat
  subs : List Nat
deriving DecidableEq, Repr, Inhabited

def kinds : List String := ["single", "interleaved", "neighbouring", "chemical_hybrid"]

structure Rec where
  len : Int
  circular : Bool
  /-- every feature that is neither a CDS nor an area, in arrival order; its class is its type -/
  others : List Feat := []
  cdss : List Feat := []
  subs : List Sub := []
  protos : List Proto := []
  cands : List Cand := []
  regs : List Reg := []
deriving DecidableEq, Repr, Inhabited

def childProtos (r : Rec) (c : Cand) : List Proto := c.children.filterMap (r.protos[·]?)

/-- `CandidateCluster.products` -/
def Cand.products (r : Rec) (c : Cand) : List String := dedup ((childProtos r c).map (·.product))
/-- `CandidateCluster.detection_rules` -/
def Cand.rules (r : Rec) (c : Cand) : List String :=
  ((childProtos r c).filter (·.side.isNone)).map (·.rule)
/-- `CandidateCluster.core_location` -/
def Cand.coreLoc (r : Rec) (c : Cand) : E Loc := connect ((childProtos r c).map (·.core)) c.wrap

def Cand.edge (r : Rec) (c : Cand) : Bool :=
  collEdge c.feat.loc r.len ((childProtos r c).map (·.edge r.len))

def optQ (k : String) : Option String → Quals
  | some v => [(k, [v])]
  | none => []

/-- the qualifiers `CandidateCluster.to_biopython` hands to the base classes (with `contig_edge`) -/
def candX (r : Rec) (c : Cand) (num : Option Nat) : Quals :=
  let q : Quals := (match num with | some n => [("candidate_cluster_number", [strOfInt n])] | none => []) ++
    [("kind", [c.kind]), ("product", c.products r),
     ("protoclusters", c.children.map fun (i : Nat) => strOfInt (i + 1)),
     ("detection_rules", c.rules r)] ++ optQ "SMILES" c.smiles ++ optQ "polymer" c.polymer
  match num with
  | some _ => Q.set q "contig_edge" [boolStr (c.edge r)]
  | none => q

def Cand.toBio (r : Rec) (c : Cand) (num : Option Nat) : E (List Bio) :=
  -- `cluster.get_protocluster_number()` raises for a child that is not in the record
  if c.children.any (fun i => decide (i ≥ r.protos.length)) then throw "value-error"
  else (c.feat.toBio (candX r c num)).map fun b => [b]

/-- `[int(num) for num in values]` -/
def parseNums (l : List String) : E (List Int) :=
  l.mapM fun s => match intOfStr s with | some i => pure i | none => throw "value-error"

/-- `CandidateCluster.from_biopython(bio, record=r)` -/
def Cand.fromBio (r : Rec) (b : Bio) : E Cand :=
  match Q.get? b.quals "protoclusters" with
  | none => throw "value-error"
  | some raw =>
    match parseNums raw with
    | .error e => .error e
    | .ok nums =>
      if nums.isEmpty then throw "value-error"
      else if maxList nums > r.protos.length then throw "value-error"
      else
        match popReq (Q.erase b.quals "protoclusters") "kind" "KeyError" with
        | .error e => .error e
        | .ok (kind, l) =>
          if !kinds.contains kind then throw "value-error"
          else if nums.any (· < 1) then throw "IndexError"
          else
            let children := nums.map fun n => (n - 1).toNat
            let wrap : Option Int := if r.circular then some r.len else none
            (connect (children.filterMap fun i => (r.protos[i]?).map (·.feat.loc)) wrap).map fun loc =>
              ⟨⟨loc, "cand_cluster", [], [], true, none⟩, kind, children,
               (Q.get? l "SMILES").bind List.head?, (Q.get? l "polymer").bind List.head?, wrap⟩

def childCands (r : Rec) (g : Reg) : List Cand := g.cands.filterMap (r.cands[·]?)
def childSubs (r : Rec) (g : Reg) : List Sub := g.subs.filterMap (r.subs[·]?)

/-- `Region.products` -/
def Reg.products (r : Rec) (g : Reg) : List String :=
  let ps := dedup ((childCands r g).flatMap (·.products r))
  if ps.isEmpty then ["unknown"] else ps

def setRule : List (String × String) → String → String → List (String × String)
  | [], k, v => [(k, v)]
  | (k', v') :: rest, k, v => if k' = k then (k, v) :: rest else (k', v') :: setRule rest k v

/-- `Region.detection_rules`: an ordered dict product → rule over `zip(products, detection_rules)` -/
def Reg.rules (r : Rec) (g : Reg) : List String :=
  ((childCands r g).foldl (fun acc c =>
    ((c.products r).zip (c.rules r)).foldl (fun a pr => setRule a pr.1 pr.2) acc) []).map (·.2)

def Reg.edge (r : Rec) (g : Reg) : Bool :=
  collEdge g.feat.loc r.len (((childSubs r g).map (·.edge r.len)) ++ ((childCands r g).map (·.edge r)))

def regX (r : Rec) (g : Reg) (num : Option Nat) : Quals :=
  let q : Quals := (match num with | some n => [("region_number", [strOfInt n])] | none => []) ++
    [("product", g.products r), ("rules", g.rules r),
     ("subregion_numbers", g.subs.map fun (i : Nat) => strOfInt (i + 1)),
     ("candidate_cluster_numbers", g.cands.map fun (i : Nat) => strOfInt (i + 1))]
  match num with
  | some _ => Q.set q "contig_edge" [boolStr (g.edge r)]
  | none => q

def Reg.toBio (r : Rec) (g : Reg) (num : Option Nat) : E (List Bio) :=
  if g.cands.any (fun i => decide (i ≥ r.cands.length)) || g.subs.any (fun i => decide (i ≥ r.subs.length)) then
    throw "value-error"
  else (g.feat.toBio (regX r g num)).map fun b => [b]

/-- `Region.__init__`'s location -/
def regionLoc (locs : List Loc) : E Loc :=
  let wrap : Option Int :=
    if locs.any bridgesOrigin then some (maxList (locs.map fun l => (l.parts.head?.map (·.hi)).getD 0)) else none
  connect locs wrap

/-- `Region.from_biopython(bio, record=r)` -/
def Reg.fromBio (r : Rec) (b : Bio) : E Reg :=
  match parseNums ((Q.get? b.quals "candidate_cluster_numbers").getD []) with
  | .error e => .error e
  | .ok cn =>
    match parseNums ((Q.get? b.quals "subregion_numbers").getD []) with
    | .error e => .error e
    | .ok sn =>
      if !cn.isEmpty && maxList cn > r.cands.length then throw "value-error"
      else if !sn.isEmpty && maxList sn > r.subs.length then throw "value-error"
      else if cn.any (· < 1) || sn.any (· < 1) then throw "IndexError"
      else if cn.isEmpty && sn.isEmpty then throw "value-error"
      else
        let cands := cn.map fun n => (n - 1).toNat
        let subs := sn.map fun n => (n - 1).toNat
        (regionLoc ((subs.filterMap fun i => (r.subs[i]?).map (·.feat.loc)) ++
                    (cands.filterMap fun i => (r.cands[i]?).map (·.feat.loc)))).map fun loc =>
          ⟨⟨loc, "region", [], [], true, none⟩, cands, subs⟩

/-! ### sorting and bisection (CPython) -/

/-- `bisect.bisect_right(l, x)` with `lt x e` standing for `x < e`; also the inner loop of
    `binarysort` in listobject.c -/
def bisectGo {α} (lt : α → α → Bool) (x : α) (l : List α) : Nat → Nat → Nat → Nat
  | 0, lo, _ => lo
  | fuel + 1, lo, hi =>
    if lo < hi then
      let mid := (lo + hi) / 2
      match l[mid]? with
      | some e => if lt x e then bisectGo lt x l fuel lo mid else bisectGo lt x l fuel (mid + 1) hi
      | none => lo
    else lo
def bisectR {α} (lt : α → α → Bool) (x : α) (l : List α) : Nat := bisectGo lt x l (l.length + 1) 0 l.length

/-- `bisect.bisect_left(l, x)` with `lt e x` standing for `e < x` -/
def bisectLGo {α} (lt : α → α → Bool) (x : α) (l : List α) : Nat → Nat → Nat → Nat
  | 0, lo, _ => lo
  | fuel + 1, lo, hi =>
    if lo < hi then
      let mid := (lo + hi) / 2
      match l[mid]? with
      | some e => if lt e x then bisectLGo lt x l fuel (mid + 1) hi else bisectLGo lt x l fuel lo mid
      | none => lo
    else lo
def bisectL {α} (lt : α → α → Bool) (x : α) (l : List α) : Nat := bisectLGo lt x l (l.length + 1) 0 l.length

def insertAt {α} (l : List α) (i : Nat) (x : α) : List α := l.take i ++ x :: l.drop i

/-- one step of `binarysort`: insert the pivot at its `bisect_right` position -/
def binInsert {α} (lt : α → α → Bool) (sorted : List α) (x : α) : List α := insertAt sorted (bisectR lt x sorted) x

/-- `count_run`, non-descending case: extend while `not (next < prev)` -/
def takeAsc {α} (lt : α → α → Bool) : α → List α → List α × List α
  | _, [] => ([], [])
  | prev, x :: rest => if lt x prev then ([], x :: rest) else
      let r := takeAsc lt x rest
      (x :: r.1, r.2)
/-- `count_run`, strictly descending case: extend while `next < prev` -/
def takeDesc {α} (lt : α → α → Bool) : α → List α → List α × List α
  | _, [] => ([], [])
  | prev, x :: rest => if lt x prev then
      let r := takeDesc lt x rest
      (x :: r.1, r.2)
    else ([], x :: rest)

/-- `sorted(xs)` / `list.sort()` for fewer than 64 elements: the initial run (reversed when strictly
    descending), then binary insertion of the remaining elements -/
def pySort {α} (lt : α → α → Bool) : List α → List α
  | [] => []
  | [x] => [x]
  | x :: y :: rest =>
    if lt y x then
      let r := takeDesc lt y rest
      r.2.foldl (binInsert lt) (x :: y :: r.1).reverse
    else
      let r := takeAsc lt y rest
      r.2.foldl (binInsert lt) (x :: y :: r.1)

/-! ### the record -/

def okOr (d : Bool) : E Bool → Bool
  | .ok b => b
  | .error _ => d

/-- `CDSCollection.__lt__` between two collections of the same class (no child shortcut applies) -/
def areaLt (a b : Loc) : Bool := okOr false (collectionLt a b)

/-- `Feature.__lt__` (the type of the left operand decides the `source` tie rule) -/
def featLt (a b : Feat) : Bool :=
  match comparatorStart a.loc, comparatorStart b.loc with
  | .ok sa, .ok sb =>
    if sa == sb && a.loc.len == b.loc.len then a.type == "source"
    else decide (sa < sb) || (sa == sb && decide (a.loc.len < b.loc.len))
  | _, _ => false

/-- rank of a plain feature's class in `Record.all_features` -/
def classRank (type : String) : Nat :=
  if type == "source" then 0 else if type == "gene" then 2 else if type == "CDS_motif" then 4
  else if type == "aSDomain" then 5 else if type == "PFAM_domain" then 6 else if type == "aSModule" then 7 else 1

/-- one element of `all_features`; plain and CDS features carry their position in the record's list,
    which stands for the identity of the Python object -/
inductive Ent where
  | plain (k : Nat) (f : Feat)
  | cds (k : Nat) (f : Feat)
  | sub (i : Nat)
  | proto (i : Nat)
  | cand (i : Nat)
  | reg (i : Nat)
deriving DecidableEq, Repr, Inhabited

def Ent.isArea : Ent → Bool
  | .plain _ _ | .cds _ _ => false
  | _ => true

def entLoc (r : Rec) : Ent → Loc
  | .plain _ f | .cds _ f => f.loc
  | .sub i => ((r.subs[i]?).map (·.feat.loc)).getD default
  | .proto i => ((r.protos[i]?).map (·.feat.loc)).getD default
  | .cand i => ((r.cands[i]?).map (·.feat.loc)).getD default
  | .reg i => ((r.regs[i]?).map (·.feat.loc)).getD default

def entType (_r : Rec) : Ent → String
  | .plain _ f | .cds _ f => f.type
  | .sub _ => "subregion" | .proto _ => "protocluster" | .cand _ => "cand_cluster" | .reg _ => "region"

/-- `other in self` for a collection `self` -/
def isChild (r : Rec) : Ent → Ent → Bool
  | .cand i, .proto j => ((r.cands[i]?).map (·.children.contains j)).getD false
  | .reg i, .cand j => ((r.regs[i]?).map (·.cands.contains j)).getD false
  | .reg i, .sub j => ((r.regs[i]?).map (·.subs.contains j)).getD false
  | .reg i, .proto j => ((r.regs[i]?).map fun g => (childCands r g).any (·.children.contains j)).getD false
  | a, .cds _ f => a.isArea && locationContainsOther (entLoc r a) f.loc
  | _, _ => false

/-- `a < b` as `sorted(self.all_features)` evaluates it: the class of `a` selects the method.
    A sort only ever compares two *different* objects; the guard `a != b` makes that explicit (it is
    inert on `allEntries`, whose elements are pairwise different) so that the `source` tie rule does
    not make a feature smaller than itself. -/
def entLt (r : Rec) (a b : Ent) : Bool :=
  if a == b then false
  else if a.isArea then
    if isChild r a b then true else areaLt (entLoc r a) (entLoc r b)
  else featLt ⟨entLoc r a, entType r a, [], [], false, none⟩ ⟨entLoc r b, entType r b, [], [], false, none⟩

/-- the plain features of the given classes, class by class, each class in list order -/
def plainEnts (r : Rec) (ranks : List Nat) : List Ent :=
  let indexed : List Ent := (List.range r.others.length).filterMap fun i => (r.others[i]?).map (Ent.plain i)
  ranks.flatMap fun k => indexed.filter fun e => match e with
    | .plain _ f => classRank f.type == k
    | _ => false
def cdsEnts (r : Rec) : List Ent := (List.range r.cdss.length).filterMap fun i => (r.cdss[i]?).map (Ent.cds i)
def subEnts (r : Rec) : List Ent := (List.range r.subs.length).map Ent.sub
def protoEnts (r : Rec) : List Ent := (List.range r.protos.length).map Ent.proto
def candEnts (r : Rec) : List Ent := (List.range r.cands.length).map Ent.cand
def regEnts (r : Rec) : List Ent := (List.range r.regs.length).map Ent.reg

/-- `Record.all_features` -/
def allEntries (r : Rec) : List Ent :=
  plainEnts r [0, 1, 2] ++ cdsEnts r ++ plainEnts r [4, 5, 6, 7] ++ subEnts r ++ protoEnts r ++ candEnts r ++ regEnts r

def entToBio (r : Rec) : Ent → E (List Bio)
  | .plain _ f | .cds _ f => do pure [← f.toBio]
  | .sub i => match r.subs[i]? with
    | some s => s.toBio (some (i + 1)) (s.edge r.len)
    | none => throw "IndexError"
  | .proto i => match r.protos[i]? with
    | some p => p.toBio (some (i + 1)) (p.edge r.len)
    | none => throw "IndexError"
  | .cand i => match r.cands[i]? with
    | some c => c.toBio r (some (i + 1))
    | none => throw "IndexError"
  | .reg i => match r.regs[i]? with
    | some g => g.toBio r (some (i + 1))
    | none => throw "IndexError"

/-- the feature list of `Record.to_biopython()` -/
def writeRecord (r : Rec) : E (List Bio) := do
  let parts ← (pySort (entLt r) (allEntries r)).mapM (entToBio r)
  pure parts.flatten

def shiftFrom (i : Nat) (l : List Nat) : List Nat := l.map fun j => if j ≥ i then j + 1 else j

def inRecord (r : Rec) (l : Loc) : E Unit :=
  if l.start < 0 || l.end > r.len then throw "assertion" else pure ()

/-- `Record.add_protocluster` (references by position are shifted, as object references stay valid) -/
def addProto (r : Rec) (p : Proto) : E Rec := do
  inRecord r p.feat.loc
  let i := bisectR (fun (a b : Proto) => areaLt a.feat.loc b.feat.loc) p r.protos
  pure { r with protos := insertAt r.protos i p,
                cands := r.cands.map fun c => { c with children := shiftFrom i c.children } }

/-- `Record.add_subregion` -/
def addSub (r : Rec) (s : Sub) : E Rec := do
  inRecord r s.feat.loc
  let i := bisectR (fun (a b : Sub) => areaLt a.feat.loc b.feat.loc) s r.subs
  pure { r with subs := insertAt r.subs i s,
                regs := r.regs.map fun g => { g with subs := shiftFrom i g.subs } }

/-- `Record.add_candidate_cluster` (still `bisect_left`: the test suite pins "an equal candidate added
    later comes first"; re-reading compensates by adding candidates last to first) -/
def addCand (r : Rec) (c : Cand) : E Rec := do
  inRecord r c.feat.loc
  let i := bisectL (fun (a b : Cand) => areaLt a.feat.loc b.feat.loc) c r.cands
  pure { r with cands := insertAt r.cands i c,
                regs := r.regs.map fun g => { g with cands := shiftFrom i g.cands } }

/-- the insertion index of `Record.add_region`: before the first existing region it is smaller than;
    every existing region is checked for overlap, also those after that position -/
def regionIndex (g : Reg) : List Reg → Nat → E Nat
  | [], i => pure i
  | e :: rest, i =>
    if locationsOverlap g.feat.loc e.feat.loc then throw "value-error"
    else if areaLt g.feat.loc e.feat.loc then
      (if rest.any (fun x => locationsOverlap g.feat.loc x.feat.loc) then throw "value-error" else pure i)
    else regionIndex g rest (i + 1)

/-- `Record.add_region` -/
def addReg (r : Rec) (g : Reg) : E Rec := do
  inRecord r g.feat.loc
  let i ← regionIndex g r.regs 0
  pure { r with regs := insertAt r.regs i g }

/-- `Record.add_cds_feature` (position only; translation and name checks are not modelled) -/
def addCds (r : Rec) (f : Feat) : Rec :=
  { r with cdss := insertAt r.cdss (bisectR featLt f r.cdss) f }

/-- `Record.add_biopython_feature` for the types that are not postponed -/
def addBio (r : Rec) (b : Bio) : E Rec := do
  if b.type == "CDS" then pure (addCds r (← plainFromBio b))
  else if b.type == "protocluster" then addProto r (← Proto.fromBio b)
  else if b.type == "proto_core" then pure r
  else if b.type == "subregion" then addSub r (← Sub.fromBio b)
  else if b.type == "CDS_motif" then
    let pre := Q.first b.quals "prepeptide" ""
    if !pre.isEmpty && pre != "core" then pure r
    else pure { r with others := r.others ++ [← plainFromBio b] }
  else pure { r with others := r.others ++ [← plainFromBio b] }

/-- "feature contains an origin spanning exon while in a linear record" -/
def linearSpan (r : Rec) (b : Bio) : Bool :=
  decide (b.loc.parts.length > 1) && b.loc.start == 0 && b.loc.end == r.len && !r.circular

/-- the NCBI Pfam `misc_feature` clean-up -/
def prefilter (b : Bio) : Bio :=
  if b.type == "misc_feature" && bridgesOrigin b.loc then { b with loc := removeRedundantExons b.loc } else b

/-- postponed types are collected, everything else is added at once (a CDS only when it has a codon) -/
def dispatch (acc : Rec × List Bio) (b : Bio) : E (Rec × List Bio) :=
  if b.type == "cand_cluster" || b.type == "region" || b.type == "aSModule" then pure (acc.1, acc.2 ++ [b])
  else if b.type != "CDS" || decide (b.loc.len ≥ 3) then do pure (← addBio acc.1 b, acc.2)
  else pure acc

/-- the loop body of `Record.from_biopython` over `seq_record.features` → (record, postponed) -/
def readStep (acc : Rec × List Bio) (b0 : Bio) : E (Rec × List Bio) :=
  if linearSpan acc.1 b0 then throw "value-error" else dispatch acc (prefilter b0)

/-- `_stored_candidate_number` -/
def storedNumber (b : Bio) : Int :=
  match Q.get? b.quals "candidate_cluster_number" with
  | none => 0
  | some [] => 0
  | some (s :: _) => (intOfStr s).getD 0

def insertByNumberDesc (x : Bio) : List Bio → List Bio
  | [] => [x]
  | y :: ys => if storedNumber x > storedNumber y then x :: y :: ys else y :: insertByNumberDesc x ys
/-- `sorted(features[::-1], key=_stored_candidate_number, reverse=True)`: descending stored number,
    equal numbers in the order of the reversed list (the sort is stable) -/
def candOrder (features : List Bio) : List Bio :=
  features.reverse.foldl (fun acc x => insertByNumberDesc x acc) []

/-- `Record.from_biopython`: areas that refer to other areas by number are added last -/
def readRecord (len : Int) (circular : Bool) (bios : List Bio) : E Rec := do
  let (r, post) ← bios.foldlM readStep (({ len := len, circular := circular } : Rec), [])
  let r ← (candOrder (post.filter (·.type == "cand_cluster"))).foldlM (fun r b => do addCand r (← Cand.fromBio r b)) r
  let r ← (post.filter (·.type == "region")).foldlM (fun r b => do addReg r (← Reg.fromBio r b)) r
  (post.filter (·.type == "aSModule")).foldlM (fun r b => do pure { r with others := r.others ++ [← plainFromBio b] }) r

/-! ### the taxon

  `Record.from_biopython(seq_record, taxon)`: `can_be_circular = taxon == "bacteria"` gates the NCBI Pfam clean-up of
  `misc_feature` locations (and the exon-order convention check of `ensure_valid_locations` on input genes, which is
  not part of this model).  The refusal of an origin-spanning exon in a *linear* record looks at the record's own
  topology, not at the taxon.  `readRecord` above is the bacterial reading. -/

def readStepT (bacteria : Bool) (acc : Rec × List Bio) (b0 : Bio) : E (Rec × List Bio) :=
  if linearSpan acc.1 b0 then throw "value-error" else dispatch acc (if bacteria then prefilter b0 else b0)

/-- `Record.from_biopython` for either kind of taxon -/
def readRecordT (bacteria : Bool) (len : Int) (circular : Bool) (bios : List Bio) : E Rec := do
  let (r, post) ← bios.foldlM (readStepT bacteria) (({ len := len, circular := circular } : Rec), [])
  let r ← (candOrder (post.filter (·.type == "cand_cluster"))).foldlM (fun r b => do addCand r (← Cand.fromBio r b)) r
  let r ← (post.filter (·.type == "region")).foldlM (fun r b => do addReg r (← Reg.fromBio r b)) r
  (post.filter (·.type == "aSModule")).foldlM (fun r b => do pure { r with others := r.others ++ [← plainFromBio b] }) r

/-- `location_bridges_origin(location, allow_reversing=True)`: the answer and the location as the call leaves it —
    the parts of a reverse-strand location are reversed *in place* for a second look and stay reversed when that
    order reads as linear.  `Record.from_biopython`'s clean-up asks with `allow_reversing=False` (`bridgesOrigin`,
    which never touches the location); this variant is here to say what the other choice would do. -/
def bridgesOriginReversing : Loc → Bool × Loc
  | .simple p => (false, .simple p)
  | .compound ps =>
    let l := Loc.compound ps
    match l.strand with
    | .fwd => (orderInvalid false ps, l)
    | .rev =>
      if orderInvalid true ps then
        if !orderInvalid true ps.reverse then (false, .compound ps.reverse) else (true, l)
      else (false, l)
    | _ => (bridgesOrigin l, l)

/-! ### prepeptides: the location is written as leader / core / tail and rebuilt from them

  `Prepeptide.to_biopython` cuts the location with `get_sub_location_from_protein_coordinates`
  (C09's `ProtDna.prepeptideSections`), writes the core feature at the core's location and the leader's
  and tail's locations as text (`leader_location`, `tail_location`); `Prepeptide.from_biopython` parses
  them back and combines the three with `_combine_sections` (the repaired code, fixes/D107). -/

/-- one step of `_combine_sections`: `accRev` holds the parts kept so far, last one first; the parts
    of the next section are appended, its first part merged into the last kept part when it continues
    exactly where that one stops (downwards on the reverse strand, upwards otherwise) -/
def combineSection (accRev : List Part) (ps : List Part) : List Part :=
  match accRev, ps with
  | prev :: rest, first :: more =>
    if prev.strand == first.strand && first.strand == .rev && first.hi == prev.lo then
      more.reverse ++ ⟨first.lo, prev.hi, first.strand⟩ :: rest
    else if prev.strand == first.strand && first.strand != .rev && first.lo == prev.hi then
      more.reverse ++ ⟨prev.lo, first.hi, first.strand⟩ :: rest
    else ps.reverse ++ accRev
  | _, _ => ps.reverse ++ accRev

/-- `_combine_sections(sections)` (fixes/D107) -/
def combineSections (sections : List Loc) : Loc :=
  Loc.ofParts ((sections.foldl (fun acc s => combineSection acc s.parts) []).reverse)

def optList {α} : Option α → List α
  | some a => [a]
  | none => []

/-- what is written about the location of a prepeptide: the core feature's location and the two
    location strings -/
structure PreWritten where
  core : Loc
  leader : Option String
  tail : Option String
deriving DecidableEq, Repr

/-- location part of `Prepeptide.to_biopython` (leader and tail lengths in residues) -/
def preWrite (l : Loc) (leaderLen tailLen : Int) : ProtDna.Res PreWritten :=
  (ProtDna.prepeptideSections l leaderLen tailLen).bind fun (a, c, b) =>
    .ok ⟨c, a.map locToString, b.map locToString⟩

/-- location part of `Prepeptide.from_biopython` -/
def preRead (w : PreWritten) : Option Loc := do
  let a ← match w.leader with | some s => (locFromString s).map some | none => some none
  let b ← match w.tail with | some s => (locFromString s).map some | none => some none
  pure (combineSections (optList a ++ [w.core] ++ optList b))

/-! ### JSON form of a feature (`serialiser.feature_to_json / feature_from_json`) -/

structure JFeat where
  location : String
  type : String
  quals : Quals
deriving DecidableEq, Repr, Inhabited

def featureToJson (b : Bio) : JFeat := ⟨locToString b.loc, b.type, b.quals⟩
def featureFromJson (j : JFeat) : Option Bio := (locFromString j.location).map fun l => ⟨l, j.type, j.quals⟩

end ASV.Serial
