/-
  Model of `antismash/common/secmet/qualifiers/gene_functions.py :: GeneFunctionAnnotations`
  (`add`, `clear`, `get_by_function`, `get_by_tool`, `__len__`/`__iter__`), the container
  `Protocluster.add_cds` consults through `get_by_function(GeneFunction.CORE)`.
  The two dictionaries are flattened into key/value lists in insertion order.  No imports (driver-linkable).
-/
namespace ASV.GeneFn

/-- `_GeneFunctionAnnotation`: function (the enum's value: 1 = CORE), tool, description, product -/
structure Ann where
  fn : Nat
  tool : String
  desc : String
  product : String
deriving DecidableEq, Repr, Inhabited

/-- `GeneFunctionAnnotations`: `_annotations`, `_by_tool`, `_by_function` -/
structure GF where
  annotations : List Ann := []
  byTool : List (String × Ann) := []
  byFunction : List (Nat × Ann) := []
deriving Repr, Inhabited

/-- `get_by_function(function)` -/
def GF.getByFunction (g : GF) (fn : Nat) : List Ann := (g.byFunction.filter fun x => x.1 == fn).map (·.2)
/-- `get_by_tool(tool)` -/
def GF.getByTool (g : GF) (tool : String) : List Ann := (g.byTool.filter fun x => x.1 == tool).map (·.2)

/-- `add`: an annotation equal to an existing one *of the same function* is not added again -/
def GF.add (g : GF) (a : Ann) : GF :=
  if (g.getByFunction a.fn).contains a then g
  else { annotations := g.annotations ++ [a], byTool := g.byTool ++ [(a.tool, a)], byFunction := g.byFunction ++ [(a.fn, a)] }

/-- `clear`: all three containers are reset -/
def GF.clear (_g : GF) : GF := {}

inductive Op where
  | add (a : Ann)
  | clear
deriving Repr, Inhabited

def step (g : GF) : Op → GF
  | .add a => g.add a
  | .clear => g.clear

/-- the container after a history of calls on a fresh gene -/
def run (ops : List Op) : GF := ops.foldl step {}

def CORE : Nat := 1

/-- what `Protocluster.add_cds` sees: the products of `get_by_function(CORE)` -/
def coreProducts (g : GF) : List String := (g.getByFunction CORE).map (·.product)

end ASV.GeneFn
