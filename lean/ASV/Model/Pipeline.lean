/-
  C07: the detection pipeline end to end, as the composition of the models of the properties that own
  its stages — what `antismash.detection.hmm_detection.run_on_record` + `add_to_record` +
  `Record.create_candidate_clusters` + `Record.create_regions` do to a record:

    detect_protoclusters_and_signatures   C03  `Proto.detectStages` (with C08's model of the real CDS lookup)
    annotate_cds_features / add_protocluster / Protocluster.add_cds
                                           a gene is a *definition* CDS of a protocluster when it lies in the core
                                           and has definition domains for the protocluster's product
    create_candidates_from_protoclusters   C05  `CC.formation`
    create_regions                         C06  `Regions.createRegions`

  No imports outside ASV.Model (driver-linkable).
-/
import ASV.Model.DetectRecord
import ASV.Model.Candidates
import ASV.Model.Regions
namespace ASV.Pipe
open ASV ASV.Proto

/-- areas are forward-strand spans (`make_forwards` in `_extend_area_location`; the strand of a core is
    not observable in what follows) -/
def fwdLoc (l : Loc) : Loc :=
  match l with
  | .simple p => .simple ⟨p.lo, p.hi, .fwd⟩
  | .compound ps => .compound (ps.map fun p => ⟨p.lo, p.hi, .fwd⟩)

/-- `protocluster.definition_cdses` after `annotate_cds_features` and `add_protocluster` -/
def definitionGenes (r : Rec) (o : Out) : List Nat :=
  (o.defs.filter fun d => match r.genes.find? (·.id == d.1) with
    | some g => locationContainsOther o.pc.core g.loc
    | none => false).map (·.1)

/-- a reported protocluster as formation sees it.  The `id` field of C05's `Proto` stands for object
    identity in C05's own histories; formation never looks at it, and here a protocluster is identified by
    what it is (product, core, extent, definition genes), so that the list of protoclusters of a re-ordered
    ruleset is a rearrangement of the original list -/
def toProto (r : Rec) (o : Out) : CC.Proto :=
  ⟨0, fwdLoc o.pc.loc, fwdLoc o.pc.core, definitionGenes r o, o.pc.rule⟩

def toProtos (r : Rec) (outs : List Out) : List CC.Proto := outs.map (toProto r)

/-- the genes inside an area -/
def genesIn (r : Rec) (l : Loc) : List Nat := (r.genes.filter fun g => locationContainsOther l g.loc).map (·.id)

structure Result where
  outs : List Out
  protos : List CC.Proto
  cands : List CC.Cand
  /-- per region: location and the positions (in `cands`) of its candidate clusters -/
  regions : List (Loc × List Nat)

/-- the record handed to `create_regions`: the candidate clusters, numbered in the order formation returned them -/
def stateOf (r : Rec) (cands : List CC.Cand) : Regions.State :=
  let feats : List Regions.Feat := (cands.zipIdx).map fun x => ⟨x.2, .cand, x.1.loc, x.1.members.map (·.id), [], []⟩
  { len := r.len, circular := r.circular, cands := feats, nextId := feats.length }

/-- everything after detection: candidate formation and region creation, from the reported protoclusters -/
def late (r : Rec) (protos : List CC.Proto) : E (List CC.Cand × List (Loc × List Nat)) := do
  let cands ← CC.formation protos r.wrap
  let st' ← Regions.createRegions (stateOf r cands)
  pure (cands, st'.regions.map fun f => (f.loc, f.kids))

def run (r : Rec) (rules : List RuleM) : E Result := do
  let outs ← detectProtoclusters (withinReal r) r rules
  let res ← late r (toProtos r outs)
  pure ⟨outs, toProtos r outs, res.1, res.2⟩

end ASV.Pipe
