/-
  C07: the detection pipeline end to end, as the composition of the models of the properties that own
  its stages — what `antismash.detection.hmm_detection.run_on_record` + `add_to_record` +
  `Record.create_candidate_clusters` + `Record.create_regions` do to a record:

    detect_protoclusters_and_signatures   C03  `Proto.detectStages` (with C08's model of the real CDS lookup)
    annotate_cds_features / add_protocluster / Protocluster.add_cds
                                           a gene is a *definition* CDS of a protocluster when it lies in the core
                                           and has definition domains for the protocluster's product
    create_candidates_from_protoclusters   C05  `CC.formation`
    create_regions                         C06  `Regions.createRegions`

  No imports outside ASV.Model (driver-linkable).
-/
import ASV.Model.DetectRecord
import ASV.Model.Candidates
import ASV.Model.Regions
namespace ASV.Pipe
open ASV ASV.Proto

/-- areas are forward-strand spans (`make_forwards` in `_extend_area_location`; the strand of a core is
    not observable in what follows) -/
def fwdLoc (l : Loc) : Loc :=
  match l with
  | .simple p => .simple ⟨p.lo, p.hi, .fwd⟩
  | .compound ps => .compound (ps.map fun p => ⟨p.lo, p.hi, .fwd⟩)

/-- `protocluster.definition_cdses` after `annotate_cds_features` and `add_protocluster` -/
def definitionGenes (r : Rec) (o : Out) : List Nat :=
  (o.defs.filter fun d => match r.genes.find? (·.id == d.1) with
    | some g => locationContainsOther o.pc.core g.loc
    | none => false).map (·.1)

def toProtos (r : Rec) (outs : List Out) : List CC.Proto :=
  (outs.zipIdx).map fun x => ⟨x.2, fwdLoc x.1.pc.loc, fwdLoc x.1.pc.core, definitionGenes r x.1, x.1.pc.rule⟩

/-- the genes inside an area -/
def genesIn (r : Rec) (l : Loc) : List Nat := (r.genes.filter fun g => locationContainsOther l g.loc).map (·.id)

structure Result where
  outs : List Out
  protos : List CC.Proto
  cands : List CC.Cand
  /-- per region: location and the positions (in `cands`) of its candidate clusters -/
  regions : List (Loc × List Nat)

def run (r : Rec) (rules : List RuleM) : E Result := do
  let outs ← detectProtoclusters (withinReal r) r rules
  let protos := toProtos r outs
  let cands ← CC.formation protos r.wrap
  let feats : List Regions.Feat := (cands.zipIdx).map fun x => ⟨x.2, .cand, x.1.loc, x.1.members.map (·.id), [], []⟩
  let st : Regions.State := { len := r.len, circular := r.circular, cands := feats, nextId := feats.length }
  let st' ← Regions.createRegions st
  pure ⟨outs, protos, cands, st'.regions.map fun f => (f.loc, f.kids)⟩

end ASV.Pipe
