/-
  C17 — same input, same output, whatever the process / `PYTHONHASHSEED` / memory layout.

  CPython iterates a `set` (and a dict keyed by set iteration) in an order that depends on the
  string hash seed (for `str` members) or on object addresses (for identity-hashed members).
  The runtime phenomenon cannot be exhibited in Lean, its logic can: every place the pipeline
  iterates such a container is modelled as a function of an ARBITRARY ENUMERATION (a `List`) of the
  container, and seed / layout independence becomes permutation invariance of the stage.

  Modelled here (one Lean function per Python site).  The code modelled is /repo with commit
  9b15a948 "definition domains are saved and annotated in sorted order" (the repair of the defects
  called D51 / D51b below, made for C11) and with this property's patches
  fixes/D53_enabled_types_sorted, D54_unique_protoclusters_one_total_key and
  D55_filter_results_tie_by_position applied; the pre-fix behaviour is kept as `…Old` for the
  negation witnesses:

    * `sorted(container, key=…)` followed by a loop                        → `foldSorted`
    * `Region.get_unique_protoclusters` (region/structures.py)             → `uniqueProtoclusters`
    * `CDSResults.to_json` "definition_domains" (cluster_prediction.py)    → `definitionDomainsJson`
    * `CDSResults.annotate` (cluster_prediction.py)                        → `annotate`
    * `hmm_detection.run_on_record`: `sorted(ruleset.get_rule_names())`    → `enabledTypes`
    * `filter_results`, best of each overlap group (cluster_prediction.py) → `bestOfGroup`,
      `removedByE`, `filterPassE`, `filterResultsE` (the group *sets* are enumerated by `enum`)
    * `refine_hmmscan_results` over all genes (hmmscan_refinement.py)      → `refineAll`
      (per gene: `ASV.Refine.refine`, C13's model, whose argument already is the enumeration)
    * `Feature.to_biopython` qualifiers/notes + `Record.to_biopython`      → `emitFeature`, `writeRecord`

  Names (profile / product / rule / qualifier names) enter as their rank in the sorted name table of
  the case (Python compares the strings, the harness sends the ranks; order-isomorphic).
  Imports: models only.
-/
import ASV.Model.Refine
import ASV.Model.HitFilter
namespace ASV.Determinism
open ASV.Refine (insertBy sortBy Hit Env refine)
open ASV.HitFilter (FHit groupBest overlappingGroups addNew)

/-! ### the generic shape: `for x in sorted(container, key=…): acc = f(acc, x)` -/

/-- a loop over `sorted(enum, key)`; `enum` is whatever order the container happens to produce -/
def foldSorted {α β : Type} (le : α → α → Bool) (f : β → α → β) (init : β) (enum : List α) : β :=
  (sortBy le enum).foldl f init

/-- `a <= b` on names (ranks) -/
def leInt (a b : Int) : Bool := decide (a ≤ b)

/-- `sorted(set_of_names)` -/
def sortedNames (enum : List Int) : List Int := sortBy leInt enum

/-! ### `Region.get_unique_protoclusters` (with D54: one total key in both branches) -/

/-- what the sort key reads from a `Protocluster`, plus `uid` standing for everything else
    (core location, rule text, …: two different protoclusters have different `uid`s) -/
structure Proto where
  start : Int      -- `collection.start` (first part's start for an origin-spanning location)
  len : Int        -- `len(collection.location)`
  product : Int    -- rank of `collection.product`
  coreStart : Int  -- `int(collection.core_location.start)`
  coreEnd : Int    -- `int(collection.core_location.end)`
  uid : Int
deriving DecidableEq, Repr, Inhabited

/-- `reduction(collection)`; `cross` = `self.crosses_origin()`, `L` = `self.location.parts[0].end`
    (the record length for an origin-spanning region); `start < L / 2` ⇔ `2·start < L` -/
def protoKey (cross : Bool) (L : Int) (p : Proto) : Int × Int × Int × Int × Int :=
  if cross && decide (2 * p.start < L) then (p.start + L, -p.len, p.product, p.coreStart, p.coreEnd)
  else (p.start, -p.len, p.product, p.coreStart, p.coreEnd)

/-- tuple comparison `a <= b` of the 5-tuples -/
def keyLe (a b : Int × Int × Int × Int × Int) : Bool :=
  decide (a.1 < b.1 ∨ (a.1 = b.1 ∧ (a.2.1 < b.2.1 ∨ (a.2.1 = b.2.1 ∧ (a.2.2.1 < b.2.2.1 ∨ (a.2.2.1 = b.2.2.1 ∧
    (a.2.2.2.1 < b.2.2.2.1 ∨ (a.2.2.2.1 = b.2.2.2.1 ∧ a.2.2.2.2 ≤ b.2.2.2.2))))))))

def protoLe (cross : Bool) (L : Int) (a b : Proto) : Bool := keyLe (protoKey cross L a) (protoKey cross L b)

/-- `sorted(clusters, key=reduction)`; `enum` enumerates the set `clusters` -/
def uniqueProtoclusters (cross : Bool) (L : Int) (enum : List Proto) : List Proto :=
  sortBy (protoLe cross L) enum

/-- the shape the property forbids in the branch after the origin: the tie-break "shifted over the
    origin" from the protocluster's own extent instead of its core — the key stops separating
    protoclusters of one product on the same coordinates -/
def protoKeyOwnExtent (cross : Bool) (L : Int) (p : Proto) : Int × Int × Int × Int × Int :=
  if cross && decide (2 * p.start < L) then (p.start + L, -p.len, p.product, p.start + L, p.start + p.len + L)
  else (p.start, -p.len, p.product, p.coreStart, p.coreEnd)
def uniqueProtoclustersOwnExtent (cross : Bool) (L : Int) (enum : List Proto) : List Proto :=
  sortBy (fun a b => keyLe (protoKeyOwnExtent cross L a) (protoKeyOwnExtent cross L b)) enum

/-- before D54 a region that does not span the origin returned `sorted(clusters)`, which compares
    `(start, -len)` only (`CDSCollection.__lt__` between areas neither of which contains the other) -/
def protoLeOld (a b : Proto) : Bool := decide (a.start < b.start ∨ (a.start = b.start ∧ -a.len ≤ -b.len))
def uniqueProtoclustersOld (enum : List Proto) : List Proto := sortBy protoLeOld enum

/-- between D54 and D64 the key was `(start, −len, product)` without the core -/
def protoLeNoCore (a b : Proto) : Bool :=
  decide (a.start < b.start ∨ (a.start = b.start ∧ (-a.len < -b.len ∨ (-a.len = -b.len ∧ a.product ≤ b.product))))
def uniqueProtoclustersNoCore (enum : List Proto) : List Proto := sortBy protoLeNoCore enum

/-! ### `CDSResults.to_json`, `CDSResults.annotate`, `run_on_record` (D51, D51b, D53) -/

/-- `{key: sorted(val) for key, val in self.definition_domains.items()}`: the dict keeps insertion
    order (one entry per protocluster product, in protocluster order), each value is a set of names -/
def definitionDomainsJson (defs : List (Int × List Int)) : List (Int × List Int) :=
  defs.map fun kv => (kv.1, sortedNames kv.2)

/-- before D51: `list(val)` -/
def definitionDomainsJsonOld (defs : List (Int × List Int)) : List (Int × List Int) := defs

/-- one `_GeneFunctionAnnotation` of the detection tool: CORE (domain, product) or ADDITIONAL (domain) -/
structure GeneFn where
  core : Bool
  domain : Int
  product : Option Int
deriving DecidableEq, Repr, Inhabited

/-- `CDSResults.annotate`: `existing` = the gene's annotations so far, `prevIds` =
    `self.cds.sec_met.domain_ids` when the qualifier existed (else `[]`), `defs` = `definition_domains`
    (values: enumerations of sets), `domains` = names of `self.cds.sec_met.domains` after
    `add_domains`, a list.  `all_matching` is only asked for membership.
    `gene_functions.add` skips an annotation equal to an existing one (`addNew`). -/
def annotate (existing : List GeneFn) (prevIds : List Int) (defs : List (Int × List Int)) (domains : List Int) :
    List GeneFn :=
  let allMatching := prevIds ++ defs.flatMap (·.2)
  let withCore := defs.foldl (fun acc kv =>
    foldSorted leInt (fun acc d => addNew acc ⟨true, d, some kv.1⟩) acc kv.2) existing
  domains.foldl (fun acc d => if allMatching.contains d then acc else addNew acc ⟨false, d, none⟩) withCore

/-- before D51b: `for domain in matching_domains` -/
def annotateOld (existing : List GeneFn) (prevIds : List Int) (defs : List (Int × List Int)) (domains : List Int) :
    List GeneFn :=
  let allMatching := prevIds ++ defs.flatMap (·.2)
  let withCore := defs.foldl (fun acc kv => kv.2.foldl (fun acc d => addNew acc ⟨true, d, some kv.1⟩) acc) existing
  domains.foldl (fun acc d => if allMatching.contains d then acc else addNew acc ⟨false, d, none⟩) withCore

/-- `SecMetQualifier.add_domains` on the names: the gene's existing domain ids (empty when the
    qualifier is created by `annotate`), then the new ones, every name once (first occurrence) -/
def domainIdsAfter (prevIds newDomains : List Int) : List Int := ASV.Refine.firstOcc (prevIds ++ newDomains)

/-- `CDSResults.annotate` from the results' own domain list: `self.domains` are added to the
    qualifier first, the ADDITIONAL pass then runs over the qualifier's domains -/
def annotateFull (existing : List GeneFn) (prevIds : List Int) (defs : List (Int × List Int)) (newDomains : List Int) :
    List GeneFn :=
  annotate existing prevIds defs (domainIdsAfter prevIds newDomains)

/-- `gather_record_areas`: `protoclusters_by_obj = {proto: i for i, proto in enumerate(region.get_unique_protoclusters())}`
    and, per candidate cluster, `[protoclusters_by_obj[proto] for proto in candidate.protoclusters]`: the numbers under
    which the region's JSON lists and references its protoclusters -/
def areasProtoclusterNumbers (cross : Bool) (L : Int) (enum : List Proto) (candidates : List (List Proto)) :
    List Proto × List (List Nat) :=
  let unique := uniqueProtoclusters cross L enum
  (unique, candidates.map fun members => members.map fun p => unique.idxOf p)

/-- `cluster_types = sorted(ruleset.get_rule_names())` (`get_rule_names` returns a set) -/
def enabledTypes (ruleNames : List Int) : List Int := sortedNames ruleNames

/-! ### `hmm_detection.get_ruleset`: `--hmmdetection-limit-to-rule-names / -categories` -/

/-- `rules = filter(name in name_subset, rules)` then `filter(category in category_subset, rules)`;
    a rule is (name, category); the two option values arrive as SETS (`set(options.…)`), an empty set
    means "no restriction".  The rules keep the order of the rule files. -/
def restrictRules (rules : List (Int × Int)) (nameSubset categorySubset : List Int) : List (Int × Int) :=
  let byName := if nameSubset.isEmpty then rules else rules.filter fun r => nameSubset.contains r.1
  if categorySubset.isEmpty then byName else byName.filter fun r => categorySubset.contains r.2

/-- `run_on_record`: `sorted(ruleset.get_rule_names())` of the restricted ruleset -/
def enabledTypesOf (rules : List (Int × Int)) (nameSubset categorySubset : List Int) : List Int :=
  enabledTypes ((restrictRules rules nameSubset categorySubset).map (·.1))

/-! ### `filter_results`: the best hit of each overlap group (D55) -/

/-- `group = sorted(unordered_group, key=position)`, then the first maximum of the bitscore.
    `uid` is the hit's index in the gene's original hit list; deletions keep the relative order of
    the remaining hits, so ordering by `uid` is ordering by the current position. -/
def leNat (a b : Nat) : Bool := decide (a ≤ b)

def bestOfGroup (enum : List FHit) : Option FHit :=
  groupBest (sortBy (fun a b => leNat a.uid b.uid) enum)

/-- the uids deleted for the groups of one gene; `enum g` is the order in which the set `g` is
    iterated (C13's `overlappingGroups` represents each set by the list of its members) -/
def removedByE (enum : List FHit → List FHit) (groups : List (List FHit)) : List Nat :=
  groups.flatMap fun g =>
    match bestOfGroup (enum g) with
    | none => []
    | some best => ((enum g).filter (fun h => h.uid != best.uid)).map (·.uid)

/-- one pass of the outer loop for one gene (C13's `filterPass` with the enumeration explicit) -/
def filterPassE (enum : List FHit → List FHit) (hits : List FHit) (eqGroup : List Int) : List FHit :=
  let present := (ASV.Refine.firstOcc (hits.map (·.prof))).filter (fun p => eqGroup.contains p)
  if present.length < 2 then hits
  else
    let removed := removedByE enum (overlappingGroups hits)
    hits.filter (fun h => !removed.contains h.uid)

/-- `filter_results` for one gene; `none` = the `assert results_by_id[cds]` fails -/
def filterResultsE (enum : List FHit → List FHit) (eqGroups : List (List Int)) (hits : List FHit) :
    Option (List FHit) :=
  let out := eqGroups.foldl (filterPassE enum) hits
  if out.isEmpty && !hits.isEmpty then none else some out

/-- before D55: `best = list(group)[0]`, then the first strictly better hit in the set's own
    iteration order (= C13's `groupBest` applied to the enumeration) -/
def bestOfGroupOld (enum : List FHit) : Option FHit := groupBest enum

/-! ### `refine_hmmscan_results`, all genes -/

/-- the `for cds, results in results_by_id.items()` loop: the dict keeps the genes in order of
    their first HSP; each value is a set, given here by an enumeration; genes whose refined list is
    empty are left out -/
def refineAll (env : Env) (neighbour : Bool) (genes : List (Int × List Hit)) : List (Int × List Hit) :=
  genes.filterMap fun g =>
    let refined := refine env neighbour g.2
    if refined.isEmpty then none else some (g.1, refined)

/-! ### `_merge_domain_list`: the order in which the profiles' categories are walked -/

/-- the hits `_merge_domain_list` appends for profile `p` (C13's `mergeCat` over the profile's hits) -/
def mergedOfProfile (env : Env) (domains : List Hit) (p : Int) : List Hit :=
  match domains.filter (fun d => d.prof == p) with
  | [] => []
  | h :: t => ASV.Refine.mergeCat (3 * env.len h.prof) h t

/-- C13's `mergeDomainList` with the walk over the categories made explicit: the code walks the
    `categories` dict (insertion order = first occurrence in the sorted hit list, `enum = id`);
    walking a *set* of profile names instead is any other `enum` -/
def mergeDomainListE (enum : List Int → List Int) (env : Env) (domains : List Hit) : List Hit :=
  sortBy Hit.leStart ((enum (ASV.Refine.firstOcc (domains.map (·.prof)))).flatMap (mergedOfProfile env domains))

/-- default-mode `refine` with that walk -/
def refineMergeE (enum : List Int → List Int) (env : Env) (results : List Hit) : List Hit :=
  ASV.Refine.removeIncomplete env (ASV.Refine.removeOverlapping env (mergeDomainListE enum env (ASV.Refine.sortHits results)))

/-! ### `build_results`: genes of pre-existing subregions outside every protocluster -/

/-- the loop `for subregion in record.get_subregions(): for cds in subregion.cds_children: …`:
    `subregions` = the gene numbers of each subregion's `cds_children` (a tuple in position order),
    `annotated` = an enumeration of the set `cdses_with_annotations` (asked for membership only, and
    extended), `hasDomains` = the gene has profile hits.  Returns `cds_results_outside_clusters` as gene
    numbers, in the order they are appended. -/
def outsideGo (hasDomains : Int → Bool) : List Int → List Int → List Int → List Int × List Int
  | annotated, acc, [] => (annotated, acc)
  | annotated, acc, cds :: rest =>
    if annotated.contains cds then outsideGo hasDomains annotated acc rest
    else if hasDomains cds then outsideGo hasDomains (annotated ++ [cds]) (acc ++ [cds]) rest
    else outsideGo hasDomains annotated acc rest

def outsideResults (hasDomains : Int → Bool) (annotated : List Int) (subregions : List (List Int)) : List Int :=
  (subregions.foldl (fun st sub => outsideGo hasDomains st.1 st.2 sub) (annotated, [])).2

/-- the shape the property forbids: `for cds in set(subregion.cds_children).difference(annotated)`, the
    set iterated in the order `enum` gives -/
def outsideResultsSetE (enum : List Int → List Int) (hasDomains : Int → Bool) (annotated : List Int)
    (subregions : List (List Int)) : List Int :=
  (subregions.foldl (fun st sub =>
    outsideGo hasDomains st.1 st.2 (enum (sub.filter fun c => !st.1.contains c))) (annotated, [])).2

/-! ### `sideloader.general.load_single_record_annotations`: `--sideload-by-cds` -/

/-- one `SubRegionAnnotation` built around a named gene: (start, end, label) -/
def byCdsArea (circular : Bool) (L pad : Int) (gene : Int × Int) (name : Int) : Int × Int × Int :=
  if circular then ((gene.1 - pad + L) % L, (gene.2 + pad) % L, name)
  else (max 0 (gene.1 - pad), min (gene.2 + pad) L, name)

/-- `for name in cds_markers:` — the locus tags in the order given on the command line; a tag that
    names no gene is skipped (and reported), a tag given twice yields two subregions -/
def subregionsByCds (circular : Bool) (L pad : Int) (lookup : Int → Option (Int × Int)) (markers : List Int) :
    List (Int × Int × Int) :=
  markers.filterMap fun name => (lookup name).map fun gene => byCdsArea circular L pad gene name

/-! ### writing a record: `Feature.to_biopython` + `Record.to_biopython` -/

/-- what `Record.to_biopython` reads from a feature: the comparison fields of `Feature.__lt__`, the
    qualifier dict (an enumeration of its items; keys are unique) without the notes, and the notes -/
structure Feat where
  start : Int
  len : Int
  source : Bool                    -- `self.type == "source"`
  quals : List (Int × List Int)
  notes : List Int
deriving DecidableEq, Repr, Inhabited

/-- `Feature.__lt__` (same comparator for both operands; origin-spanning starts already reduced) -/
def featLt (a b : Feat) : Bool :=
  (decide (a.start = b.start ∧ a.len = b.len) && a.source) ||
  decide (a.start < b.start ∨ (a.start = b.start ∧ a.len < b.len))

/-- Python's stable sort keeps `a` (earlier) before `b` unless `b < a` -/
def featBefore (a b : Feat) : Bool := !featLt b a

/-- rank of the qualifier key `"note"` in the case's key table -/
def noteKey : Int := 0

/-- `quals["note"] = sorted(notes)` if there are notes; `for key, val in sorted(quals.items())` -/
def emitQuals (quals : List (Int × List Int)) (notes : List Int) : List (Int × List Int) :=
  let q := if notes.isEmpty then quals else (noteKey, sortedNames notes) :: quals
  sortBy (fun a b => leInt a.1 b.1) q

/-- the emitted feature: position and the qualifiers in output order -/
def emitFeature (f : Feat) : (Int × Int × Bool) × List (Int × List Int) :=
  ((f.start, f.len, f.source), emitQuals f.quals f.notes)

/-- `for feature in sorted(self.all_features): bio_features.extend(feature.to_biopython())`;
    `groups` = the record's feature lists in the fixed order of `all_features` -/
def writeRecord (groups : List (List Feat)) : List ((Int × Int × Bool) × List (Int × List Int)) :=
  (sortBy featBefore groups.flatten).map emitFeature

end ASV.Determinism
