/-
  Model of `antismash/common/secmet/locations.py` — base types and the predicates every
  other model needs (overlap, containment, distance, origin bridging).
  One Lean function per Python function, same case order.  No imports (driver-linkable).

  Biopython facts taken as given (trusted base, exercised by the correspondence):
    SimpleLocation: `start`, `end`, `strand ∈ {1,-1,0,None}`; `i in loc` ⇔ start ≤ i < end
    CompoundLocation: ≥ 2 parts; `start = min part.start`, `end = max part.end`,
      `strand` = the common strand of the parts or None; `len` = Σ len(part)
-/
namespace ASV

/-- Biopython strand: 1, -1, 0 ("?") or None -/
inductive Strand where
  | fwd | rev | zero | none
deriving DecidableEq, Repr, Inhabited

structure Part where
  lo : Int
  hi : Int
  strand : Strand := .fwd
deriving DecidableEq, Repr, Inhabited

/-- `FeatureLocation` or `CompoundLocation` (the latter always with ≥ 2 parts in Biopython;
    the model does not rely on it except where stated). -/
inductive Loc where
  | simple (p : Part)
  | compound (ps : List Part)
deriving DecidableEq, Repr, Inhabited

namespace Part
/-- `i in part` (Biopython `SimpleLocation.__contains__` for ints) -/
def mem (p : Part) (i : Int) : Bool := decide (p.lo ≤ i) && decide (i < p.hi)
def len (p : Part) : Int := p.hi - p.lo
end Part

def minList : List Int → Int
  | [] => 0
  | x :: xs => xs.foldl min x
def maxList : List Int → Int
  | [] => 0
  | x :: xs => xs.foldl max x

namespace Loc
def parts : Loc → List Part
  | simple p => [p]
  | compound ps => ps
def isCompound : Loc → Bool
  | simple _ => false
  | compound _ => true
/-- `location.start` (min over parts for a compound location) -/
def start : Loc → Int
  | simple p => p.lo
  | compound ps => minList (ps.map (·.lo))
/-- `location.end` (max over parts for a compound location) -/
def «end» : Loc → Int
  | simple p => p.hi
  | compound ps => maxList (ps.map (·.hi))
/-- `location.strand`: common strand of all parts, else None -/
def strand : Loc → Strand
  | simple p => p.strand
  | compound [] => .none
  | compound (p :: ps) => if ps.all (·.strand == p.strand) then p.strand else .none
/-- `len(location)` -/
def len (l : Loc) : Int := (l.parts.map Part.len).sum
/-- the set-of-bases reading: base `i` lies in some part -/
def mem (l : Loc) (i : Int) : Bool := l.parts.any (·.mem i)
/-- build a Python location from a part list the way the code does (`len == 1 → parts[0]`) -/
def ofParts : List Part → Loc
  | [p] => simple p
  | ps => compound ps
end Loc

/-- `locations_overlap` on two simple parts -/
def partsOverlap (a b : Part) : Bool :=
  b.mem a.lo || b.mem (a.hi - 1) || a.mem b.lo || a.mem (b.hi - 1)

/-- `locations_overlap`: any part of `first` against any part of `second` -/
def locationsOverlap (a b : Loc) : Bool :=
  a.parts.any fun p => b.parts.any fun q => partsOverlap p q

/-- `outer.start <= inner.start <= inner.end <= outer.end` -/
def partContains (outer inner : Part) : Bool :=
  decide (outer.lo ≤ inner.lo) && decide (inner.lo ≤ inner.hi) && decide (inner.hi ≤ outer.hi)

/-- `location_contains_other`: every part of `inner` inside some part of `outer` -/
def locationContainsOther (outer inner : Loc) : Bool :=
  inner.parts.all fun q => outer.parts.any fun p => partContains p q

def iabs (x : Int) : Int := if x < 0 then -x else x

/-- the four `abs` variants with `offset` added -/
def distVariants (a b : Loc) (offset : Int) : Int :=
  min (min (iabs (a.start - b.end + offset)) (iabs (a.end - b.start + offset)))
      (min (iabs (b.start - a.end + offset)) (iabs (b.end - a.start + offset)))

/-- the single-part formula of `get_distance_between_locations` (four variants, `% wrap`, then
    the minimum with the linear distance); `wrap = 0` plays the role of both `None` and `0`
    (the code tests truthiness). -/
def simpleDistance (a b : Loc) (wrap : Int) : Int :=
  if wrap = 0 then distVariants a b 0
  else min ((distVariants a b wrap) % wrap) (distVariants a b 0)

/-- distance between two single parts, as the recursive call on `(first_part, second_part)` computes it -/
def partDistance (p q : Part) (wrap : Int) : Int :=
  if partsOverlap p q then 0 else simpleDistance (.simple p) (.simple q) wrap

/-- `get_distance_between_locations(first, second, wrap_point)`: 0 when overlapping; multi-part
    locations are measured part by part (minimum over all pairs of parts). -/
def getDistance (a b : Loc) (wrap : Int := 0) : Int :=
  if locationsOverlap a b then 0
  else if a.parts.length > 1 || b.parts.length > 1 then
    minList (a.parts.flatMap fun p => b.parts.map fun q => partDistance p q wrap)
  else simpleDistance a b wrap

/-- `check` inside `location_bridges_origin`: exon order invalid for the strand -/
def orderInvalid (rev : Bool) : List Part → Bool
  | [] => false
  | [_] => false
  | p :: q :: rest =>
    (if rev then decide (p.lo < q.lo) else decide (p.lo > q.lo)) || orderInvalid rev (q :: rest)

/-- insertion sort on ints (only used to compare with `sorted(starts)`) -/
def insertInt (x : Int) : List Int → List Int
  | [] => [x]
  | y :: ys => if x ≤ y then x :: y :: ys else y :: insertInt x ys
def sortInts (l : List Int) : List Int := l.foldr insertInt []

/-- `location_bridges_origin(location, allow_reversing=False)` -/
def bridgesOrigin : Loc → Bool
  | .simple _ => false
  | .compound ps =>
    let l := Loc.compound ps
    match l.strand with
    | .fwd => orderInvalid false ps
    | .rev => orderInvalid true ps
    | _ =>
      let starts := ps.map (·.lo)
      starts != sortInts starts

end ASV
