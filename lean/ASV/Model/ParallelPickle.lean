/-
  C18: how a secmet `Record` crosses a process boundary.

  `Record` has `__slots__`, a `__setattr__` that diverts some names to the wrapped `SeqRecord`, and
  (in the code as it is) no pickling hook of its own, so protocol-2 pickling is copyreg's:
  state = `(None, {slot: value for every slot that is set})`, and unpickling runs
  `setattr(inst, slot, value)` for each entry — i.e. through `Record.__setattr__`.
  The slot names, the diverted names and the list of hooks are regenerated from the source on
  every run (`ASV.Generated.RecordPickle`).
-/
import ASV.Model.Parallel
import ASV.Generated.RecordPickle
namespace ASV.Parallel
open ASV.Generated.RecordPickle

/-- the wrapped `Bio.SeqRecord` (its `__dict__`), field values abstract -/
structure Wrapped (V : Type) where
  seq : V
  id : V
  name : V
  description : V
  annotations : V
  dbxrefs : V
  letterAnnotations : V
  features : V
deriving DecidableEq, Repr

/-- copyreg's slot state: the slots that are set, with their values, in `__slots__` order -/
abbrev SlotState (V : Type) := List (String × V)

/-- where `Record.__setattr__(name, value)` puts a value -/
def storedInSlot (name : String) : Bool := !setDiverted.contains name

/-- unpickling: `for k, v in slotstate.items(): setattr(inst, k, v)` on an instance whose slots are
    all unset — an entry survives iff `__setattr__` stores it in its slot -/
def rebuildSlots {V} (st : SlotState V) : SlotState V := st.filter fun kv => storedInSlot kv.1

/-- does the class leave pickling to copyreg? -/
def defaultPickling : Bool := picklingHooks.isEmpty

/-- the "transfer optimisation" kind of `__getstate__`: the wrapped record is replaced by a fresh
    `SeqRecord(seq, id=…, name=…, description=…, annotations=…)`; `empty` is what the constructor
    puts in the fields it is not given (`[]`, `{}`) -/
def rebuiltWrapped {V} (empty : V) (w : Wrapped V) : Wrapped V :=
  { w with dbxrefs := empty, letterAnnotations := empty, features := empty }

end ASV.Parallel
