/-
  Model of `antismash/common/hmmer.py::remove_overlapping` and of
  `antismash/common/hmm_rule_parser/cluster_prediction.py::{hsp_overlap_size, filter_results,
  filter_result_multiple}` (C13).

  `remove_overlapping` is modelled with `fixes/D25_first_hit_twice.patch` (the grouping loop starts
  at the second hit), `fixes/D62_overlap_groups_are_components.patch` (`filter_results` unites the
  overlap groups a pair connects) and `fixes/D26_hmmer_total_sort_key.patch` (the hits are first sorted by the
  total key `(protein_start, protein_end, identifier, score)`) applied.

  Representation: `HmmerHit` ↦ its property-level fields (identifier rank, protein start/end,
  score); scores and cut-offs are positive multiples of 1/4 carried as integers, so
  `cutoff/score` is compared exactly by cross-multiplication and `1/len` by the lengths.
  HSPs of `cluster_prediction` carry a unique `uid` (object identity: `==`, `id()`, `.index`).
  No imports besides the sort of `Model/Refine`.
-/
import ASV.Model.Refine
namespace ASV.HitFilter
open ASV.Refine (insertBy sortBy)

/-! ### `hmmer.remove_overlapping` -/

structure HHit where
  ident : Int      -- rank of `identifier` among the sorted identifiers
  ps : Int         -- protein_start
  pe : Int         -- protein_end   (`ps < pe` is enforced by `HmmerHit.__post_init__`)
  sc : Int         -- score (quarter units, > 0)
deriving DecidableEq, Repr, Inhabited

inductive HErr where
  | assertion      -- `assert 0` on an empty list
  | valueError     -- identifier missing from the cut-offs
  | zeroDivision   -- a score of 0
  | unmodelled     -- negative score or cut-off (never generated)
deriving DecidableEq, Repr

namespace HHit
def length (h : HHit) : Int := h.pe - h.ps
end HHit

/-- `ranking_stats(a) <= ranking_stats(b)` for
    `(cutoff/score, 1/len, protein_start, identifier)`; `cut` = `cutoffs[identifier]` -/
def rankLe (cut : Int → Int) (a b : HHit) : Bool :=
  let na := cut a.ident * b.sc   -- cutoff_a/score_a  vs  cutoff_b/score_b, scores positive
  let nb := cut b.ident * a.sc
  decide (na < nb ∨ (na = nb ∧ (b.length < a.length ∨ (a.length = b.length ∧
    (a.ps < b.ps ∨ (a.ps = b.ps ∧ a.ident ≤ b.ident))))))

def leStart (a b : HHit) : Bool := decide (a.ps ≤ b.ps)

/-- tuple comparison for the key `(protein_start, protein_end, identifier, score)` -/
def leTotal (a b : HHit) : Bool :=
  decide (a.ps < b.ps ∨ (a.ps = b.ps ∧ (a.pe < b.pe ∨ (a.pe = b.pe ∧ (a.ident < b.ident ∨
    (a.ident = b.ident ∧ a.sc ≤ b.sc))))))

/-- `current.add(hit)` on a set kept in insertion order -/
def addNew {α} [DecidableEq α] (l : List α) (a : α) : List α := if l.contains a then l else l ++ [a]

/-- the grouping loop: `current`, `max_current`, remaining hits ↦ the groups -/
def groupsFrom (limit : Int) : List HHit → Int → List HHit → List (List HHit)
  | current, _, [] => [current]
  | current, maxCurrent, hit :: rest =>
    if maxCurrent - limit < hit.ps then current :: groupsFrom limit [hit] hit.pe rest
    else groupsFrom limit (addNew current hit) (max maxCurrent hit.pe) rest

/-- `hit.protein_start <= other.end - limit and hit.protein_end >= other.start + limit` -/
def clash (limit : Int) (other hit : HHit) : Bool :=
  decide (hit.ps ≤ other.pe - limit) && decide (hit.pe ≥ other.ps + limit)

/-- the filter stage for one group (already sorted by rank): `best_of` is the accumulator -/
def bestOf (limit : Int) : List HHit → List HHit → List HHit
  | best, [] => best
  | best, hit :: rest =>
    if best.any (fun other => clash limit other hit) then bestOf limit best rest
    else bestOf limit (best ++ [hit]) rest

/-- the body after the input checks: total sort, grouping sweep, per-group filter by rank, final
    sort by start (`c` = the cut-offs as a total function) -/
def core (c : Int → Int) (limit : Int) (hits : List HHit) : List HHit :=
  match sortBy leTotal hits with
  | [] => []
  | h0 :: rest =>
    let groups := groupsFrom limit [h0] h0.pe rest
    let cleaned := groups.flatMap fun g => bestOf limit [] (sortBy (rankLe c) g)
    sortBy leStart cleaned

def removeOverlapping (cut : Int → Option Int) (limit : Int) (hits : List HHit) : Except HErr (List HHit) :=
  match hits with
  | [] => .error .assertion
  | _ =>
    -- the dict comprehension `cutoffs[hit.identifier] / hit.score` raises at the first offending hit
    match hits.find? (fun h => (cut h.ident).isNone || h.sc == 0) with
    | some h => if (cut h.ident).isNone then .error .valueError else .error .zeroDivision
    | none =>
    if hits.any (fun h => decide (h.sc < 0) || decide ((cut h.ident).getD 0 ≤ 0)) then .error .unmodelled
    else .ok (core (fun i => (cut i).getD 0) limit hits)

/-! ### `cluster_prediction.filter_result_multiple` / `filter_results`, one gene -/

/-- HSP as used by cluster_prediction: `query_id` is the profile, `hit_start/hit_end` the
    position in the gene's protein; `uid` is the object's identity -/
structure FHit where
  uid : Nat
  prof : Int
  hs : Int
  he : Int
  sc : Int       -- bitscore in tenths
deriving DecidableEq, Repr, Inhabited

/-- `hsp_overlap_size` -/
def overlapSize (a b : FHit) : Int := max 0 (min a.he b.he - max a.hs b.hs)

/-- `query_scores` as an insertion-ordered association list: profile ↦ (index, hit) -/
def setScore (q : List (Int × Nat × FHit)) (p : Int) (v : Nat × FHit) : List (Int × Nat × FHit) :=
  match q with
  | [] => [(p, v)]
  | (p', v') :: t => if p' = p then (p', v) :: t else (p', v') :: setScore t p v

def getScore (q : List (Int × Nat × FHit)) (p : Int) : Option (Nat × FHit) :=
  match q.find? (fun e => e.1 == p) with
  | some e => some e.2
  | none => none

/-- `query_scores.get(hit.query_id, (0, 0, -1))[2] < hit.bitscore` (tenths) -/
def improves (q : List (Int × Nat × FHit)) (h : FHit) : Bool :=
  match getScore q h.prof with
  | none => decide (-10 < h.sc)
  | some (_, b) => decide (b.sc < h.sc)

def scanMultiple : List (Int × Nat × FHit) → Nat → List FHit → List (Int × Nat × FHit)
  | q, _, [] => q
  | q, i, h :: t => if improves q h then scanMultiple (setScore q h.prof (i, h)) (i + 1) t
                    else scanMultiple q (i + 1) t

/-- per gene: `[i[1] for i in sorted(best_hits)]` — sorted by the (unique) index -/
def filterMultiple (hits : List FHit) : List FHit :=
  let best := (scanMultiple [] 0 hits).map (·.2)
  (sortBy (fun (a b : Nat × FHit) => decide (a.1 ≤ b.1)) best).map (·.2)

/-- all genes: `results` = concatenation in dict order, stably sorted by `hit_start` -/
def filterMultipleAll (genes : List (List FHit)) : List FHit :=
  sortBy (fun (a b : FHit) => decide (a.hs ≤ b.hs)) (genes.flatMap filterMultiple)

/-- `pairing.update(group)` for a set kept as a list -/
def unionNew (acc g : List FHit) : List FHit := g.foldl addNew acc

/-- does the group share a member with the pair -/
def touches (a b : FHit) (g : List FHit) : Bool := g.contains a || g.contains b

/-- one step of the double loop over `cdsresults` (fix D62): the groups sharing a member with the
    pair are united with it into one group, which is appended after the untouched ones -/
def addPair (groups : List (List FHit)) (a b : FHit) : List (List FHit) :=
  if a.uid == b.uid || decide (overlapSize a b ≤ 20) then groups
  else
    let pairing := (groups.filter (touches a b)).foldl unionNew [a, b]
    groups.filter (fun g => !touches a b g) ++ [pairing]

def overlappingGroups (hits : List FHit) : List (List FHit) :=
  hits.foldl (fun gs a => hits.foldl (fun gs b => addPair gs a b) gs) []

/-- `best = group[0]; for hit in group: if hit.bitscore > best.bitscore: best = hit`
    (first maximum of the enumeration it is given) -/
def bestIn : FHit → List FHit → FHit
  | best, [] => best
  | best, h :: t => if h.sc > best.sc then bestIn h t else bestIn best t

def groupBest : List FHit → Option FHit
  | [] => none
  | h :: t => some (bestIn h t)

/-- `group = sorted(unordered_group, key=position)`: the members in the order of the gene's hits -/
def inHitOrder (hits g : List FHit) : List FHit := hits.filter fun h => g.contains h

/-- uids deleted by one equivalence-group pass over one gene: all members of a group except its
    best, the first of the best-scoring members in the order of the gene's hits -/
def removedBy (hits : List FHit) (groups : List (List FHit)) : List Nat :=
  groups.flatMap fun g =>
    match groupBest (inHitOrder hits g) with
    | none => []
    | some best => ((inHitOrder hits g).filter (fun h => h.uid != best.uid)).map (·.uid)

/-- one pass of the outer loop for one gene: unchanged unless ≥ 2 distinct profiles of the
    equivalence group hit the gene -/
def filterPass (hits : List FHit) (eqGroup : List Int) : List FHit :=
  let present := (ASV.Refine.firstOcc (hits.map (·.prof))).filter (fun p => eqGroup.contains p)
  if present.length < 2 then hits
  else
    let removed := removedBy hits (overlappingGroups hits)
    hits.filter (fun h => !removed.contains h.uid)

/-- `filter_results` for one gene; `none` = the `assert results_by_id[cds]` fails -/
def filterResults (eqGroups : List (List Int)) (hits : List FHit) : Option (List FHit) :=
  let out := eqGroups.foldl filterPass hits
  -- the assertion sits inside the pass, after the groups of a qualifying gene were processed
  if out.isEmpty && !hits.isEmpty then none else some out

/-- `filter_results` over the whole `results_by_id`, in the loop order of the code: equivalence groups outermost,
    genes (dict order) inside; every gene's list is rewritten in place by each pass -/
def filterRecordPasses (eqGroups : List (List Int)) (genes : List (List FHit)) : List (List FHit) :=
  eqGroups.foldl (fun gs eq => gs.map fun hits => filterPass hits eq) genes

/-- … with the `assert results_by_id[cds]` of any gene making the whole call fail -/
def filterRecord (eqGroups : List (List Int)) (genes : List (List FHit)) : Option (List (List FHit)) :=
  let out := filterRecordPasses eqGroups genes
  if (genes.zip out).any (fun (g, o) => o.isEmpty && !g.isEmpty) then none else some out

end ASV.HitFilter
