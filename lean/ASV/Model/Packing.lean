/-
  C19 model — `antismash/outputs/html/area_packing.py` (all of it), the coordinate handling of
  `js.convert_regions` / `js.convert_cds_features`, and the cross-origin sort key of
  `Region.get_unique_protoclusters`.

  One Lean function per Python function, same branch order.  The code modelled is the tree
  *with* the three repairs of fixes/D24, D30, D31 applied:
    D24  `Row.can_fit`: an origin-spanning area is tested against every area of the row
    D30  `adjust_cross_origin_area`: only protoclusters take the core branches
    D31  `adjust_cross_origin_area`: the side of the core is `core_start >= feature.start`
    D70-C19  `Area.crosses_origin`: `>=` (an area `[s, L) + [0, s)` tiling the record)
    D72-C19  `adjust_cross_origin_area`: `core_start >= core_end` (a core tiling the record)
  Mutation through `self`/closures becomes returned values; `ValueError`/`assert` become `none`.
  No imports outside ASV.Model (driver-linkable).
-/
import ASV.Model.Loc
namespace ASV.Packing
open ASV

/-! ### what the layout code reads from a feature -/

/-- `Feature.start`: `parts[0].start` unless the strand is -1, then `parts[-1].start` -/
def locStart : Loc → Int
  | .simple p => p.lo
  | .compound ps =>
    if (Loc.compound ps).strand != .rev then (ps.head?.map (·.lo)).getD 0
    else (ps.getLast?.map (·.lo)).getD 0

/-- `Feature.end`: `parts[-1].end` unless the strand is -1, then `parts[0].end` -/
def locEnd : Loc → Int
  | .simple p => p.hi
  | .compound ps =>
    if (Loc.compound ps).strand != .rev then (ps.getLast?.map (·.hi)).getD 0
    else (ps.head?.map (·.hi)).getD 0

inductive Kind where
  | proto | cand | sub
deriving DecidableEq, Repr, Inhabited

/-- the strings `Area.from_feature` reads from a feature -/
structure Labels where
  /-- `product` (protocluster) / `"CC n: kind"` (candidate cluster) / `label` (subregion) -/
  product : String := ""
  /-- `feature.tool` (protoclusters, subregions) -/
  tool : String := ""
  /-- `feature.product_category` (protoclusters) -/
  category : String := ""
  /-- `isinstance(feature, SideloadedProtocluster / SideloadedSubRegion)` -/
  sideloaded : Bool := false
deriving DecidableEq, Repr, Inhabited

instance : Coe String Labels := ⟨fun s => { product := s }⟩

/-- a `CDSCollection` as seen by `pack` / `build_area_rows` -/
structure Feat where
  loc : Loc
  kind : Kind
  /-- `core_location` (protoclusters and candidate clusters; ignored for subregions) -/
  core : Loc := default
  /-- `candidate.kind == SINGLE` -/
  single : Bool := false
  /-- product / tool / category / sideloaded -/
  labels : Labels := {}
deriving DecidableEq, Repr, Inhabited

namespace Feat
def product (f : Feat) : String := f.labels.product
def start (f : Feat) : Int := locStart f.loc
def «end» (f : Feat) : Int := locEnd f.loc
/-- `CDSCollection.crosses_origin`: `len(location.parts) > 1` -/
def crosses (f : Feat) : Bool := decide (f.loc.parts.length > 1)
/-- `CoredCollectionMixin.core_start/core_end` -/
def coreStart (f : Feat) : Int := locStart f.core
def coreEnd (f : Feat) : Int := locEnd f.core
end Feat

/-! ### Row / pack -/

/-- `Row`: one free interval `(start, end)` and the contents, in insertion order -/
structure Row where
  start : Int := 0
  «end» : Int := -1
  contents : List Feat := []
deriving Repr, Inhabited

/-- `Row.can_fit` (with D24 repaired: `any` over the contents) -/
def Row.canFit (r : Row) (a : Feat) : Bool :=
  if r.contents.isEmpty then decide (r.start ≤ a.start)
  else if a.crosses then
    if r.end != -1 then false
    else !(r.contents.any fun c => locationsOverlap a.loc c.loc)
  else decide (a.start > r.start) && (decide (r.end < 0) || decide (a.end < r.end))

/-- the state change of `Row.add` once `can_fit` has passed -/
def Row.push (r : Row) (a : Feat) : Row :=
  let start1 := max r.start (a.end + 1)
  if a.crosses then { start := a.loc.end, «end» := a.start - 1, contents := r.contents ++ [a] }
  else { start := start1, «end» := r.end, contents := r.contents ++ [a] }

/-- `Row.add`; `none` = `ValueError("cannot fit area into row")` -/
def Row.add (r : Row) (a : Feat) : Option Row :=
  if r.canFit a then some (r.push a) else none

/-- the inner `for row in rows: … else: rows.append(Row()); rows[-1].add(area)` of `pack` -/
def placeIn : List Row → Feat → Option (List Row)
  | [], a => (Row.add {} a).map fun r => [r]
  | r :: rs, a =>
    if r.canFit a then (r.add a).map fun r' => r' :: rs
    else (placeIn rs a).map fun rs' => r :: rs'

/-- `pack(areas, length)` -/
def pack (areas : List Feat) (length : Int := -1) : Option (List Row) :=
  if areas.isEmpty then some []
  else areas.foldlM placeIn [{ «end» := length }]

/-! ### Area -/

structure Area where
  start : Int
  «end» : Int
  kind : Kind
  height : Int := 0
  nstart : Int
  nend : Int
  product : String := ""
  group : Int := 0
  «prefix» : String := ""
  category : String := ""
  tool : String := ""
deriving DecidableEq, Repr, Inhabited

/-- `Area.crosses_origin` (with fixes/D70-C19: `>=`, an area covering the whole record from a
    position back to itself has equal coordinates) -/
def Area.crossesOrigin (a : Area) : Bool := decide (a.nstart ≥ a.nend)

/-- `Area.offset` -/
def Area.offset (a : Area) (d : Int) : Area :=
  { a with start := a.start + d, «end» := a.end + d, nstart := a.nstart + d, nend := a.nend + d }

/-- `Area.from_feature(feature, height=height)` (the two asserts hold by construction): the
    core coordinates, category and tool of a protocluster, `"tool:"` as prefix of a sideloaded
    protocluster, `tool` + `":"`-if-labelled as prefix of a sideloaded subregion, the tool of
    an ordinary subregion -/
def Area.fromFeature (f : Feat) (height : Int) : Area :=
  let l := f.labels
  let base : Area := { start := f.start, «end» := f.end, kind := f.kind, height := height,
                       nstart := f.start, nend := f.end, product := l.product }
  match f.kind with
  | .proto => { base with start := f.coreStart, «end» := f.coreEnd, category := l.category, tool := l.tool,
                          «prefix» := if l.sideloaded then l.tool ++ ":" else "" }
  | .cand => base
  | .sub => { base with «prefix» := if l.sideloaded then l.tool ++ (if l.product != "" then ":" else "") else "",
                        tool := if l.sideloaded then "" else l.tool }

/-- `adjust_cross_origin_area(area, feature, region_crosses_origin, length)`.
    Returns the modified `area` and the optional `extra`; `gid` is the value `id(self)` that
    `clone` stores in both halves; `none` = the `ValueError`. -/
def adjustCrossOrigin (area : Area) (f : Feat) (regionCrosses : Bool) (L : Int) (gid : Int) :
    Option (Area × Option Area) :=
  if !(f.crosses && area.crossesOrigin) then none
  else if f.kind != .proto then
    if regionCrosses then
      let e := area.end + L
      some ({ area with «end» := e, nend := e }, none)
    else
      let area := { area with group := gid }
      let extra := { area with start := 0, nstart := 0, «end» := f.end, nend := f.end }
      some ({ area with «end» := L, nend := L }, some extra)
  else if f.coreStart ≥ f.coreEnd then
    -- the core crosses the origin (`>=` with fixes/D72-C19: a core tiling the record has equal coordinates)
    if regionCrosses then
      some ({ area with «end» := area.end + L, nend := area.nend + L }, none)
    else
      let area := { area with group := gid }
      let extra := { area with start := 0, nstart := 0 }
      some ({ area with «end» := L, nend := L }, some extra)
  else if f.coreStart ≥ f.start then
    -- only the neighbourhood to the right of the core crosses the origin
    if regionCrosses then
      some ({ area with nend := area.nend + L }, none)
    else
      let area := { area with group := gid }
      let extra := { area with start := 0, «end» := 0, nstart := 0, product := "" }
      some ({ area with nend := L }, some extra)
  else
    -- `default()`: only the neighbourhood to the left of the core crosses the origin
    if regionCrosses then
      some ({ area with start := area.start + L, «end» := area.end + L, nend := area.nend + L }, none)
    else
      let area := { area with group := gid }
      let extra := { area with nstart := 0 }
      some ({ area with start := L, «end» := L, product := "", nend := L }, some extra)

/-! ### Area.to_minimal_json -/

/-- a JSON value as far as areas need them -/
inductive JVal where
  | int (i : Int)
  | str (s : String)
deriving DecidableEq, Repr, Inhabited

/-- `feature.FEATURE_TYPE` (`"candidatecluster"` is set by `from_feature`) -/
def kindName : Kind → String
  | .proto => "protocluster" | .cand => "candidatecluster" | .sub => "subregion"

/-- `dataclasses.asdict(self)`: the fields in declaration order -/
def Area.asdict (a : Area) : List (String × JVal) :=
  [("start", .int a.start), ("end", .int a.end), ("kind", .str (kindName a.kind)), ("height", .int a.height),
   ("neighbouring_start", .int a.nstart), ("neighbouring_end", .int a.nend), ("product", .str a.product),
   ("prefix", .str a.prefix), ("category", .str a.category), ("tool", .str a.tool), ("group", .int a.group)]

/-- `base.pop(key)` -/
def popKey (k : String) (l : List (String × JVal)) : List (String × JVal) := l.filter (·.1 != k)

/-- `Area.to_minimal_json`: empty strings are dropped (`val != ""`, so a height of 0 stays), then
    the neighbouring coordinates that equal the core's and a zero group -/
def Area.toMinimalJson (a : Area) : List (String × JVal) :=
  let base := a.asdict.filter fun kv => kv.2 != JVal.str ""
  let base := if a.nstart == a.start then popKey "neighbouring_start" base else base
  let base := if a.nend == a.end then popKey "neighbouring_end" base else base
  if a.group == 0 then popKey "group" base else base

/-! ### build_area_rows -/

/-- the region-level inputs of `build_area_rows` / `convert_regions` -/
structure Ctx where
  region : Loc
  L : Int
  circular : Bool
deriving Repr, Inhabited

namespace Ctx
def regionCrosses (c : Ctx) : Bool := decide (c.region.parts.length > 1)
/-- `region.location.parts[-1]` -/
def lastPart (c : Ctx) : Part := c.region.parts.getLast?.getD default
/-- `circular and (region.crosses_origin() or region.start == 0 and region.end == record_length)` -/
def extend (c : Ctx) : Bool :=
  c.circular && (c.regionCrosses || (locStart c.region == 0 && locEnd c.region == c.L))
end Ctx

/-- `add_area_from_feature(feature)`: the areas appended to `converted`, in order -/
def areasOf (c : Ctx) (f : Feat) (height : Int) (gid : Int) : Option (List Area) :=
  let new := Area.fromFeature f height
  if c.extend && f.crosses then
    if !new.crossesOrigin then none        -- `assert new.crosses_origin()`
    else match adjustCrossOrigin new f c.regionCrosses c.L gid with
      | none => none
      | some (a, some extra) => some [a, extra]
      | some (a, none) => some [a]
  else if c.extend && locationContainsOther (.simple c.lastPart) f.loc then
    if c.regionCrosses then some [new.offset c.L] else some [new]
  else some [new]

/-- the features of a list of rows with the height each is drawn at: row `i` at `h0 + 2 i` -/
def withHeights : List Row → Int → List (Feat × Int)
  | [], _ => []
  | r :: rs, h => r.contents.map (fun f => (f, h)) ++ withHeights rs (h + 2)

structure RegionIn where
  subregions : List Feat
  candidates : List Feat
  /-- `region.get_unique_protoclusters()` in the order delivered -/
  protos : List Feat
deriving Repr, Inhabited

/-- `candidates_to_include` -/
def shownCandidates (r : RegionIn) : List Feat :=
  r.candidates.filter fun c => !r.subregions.isEmpty || !c.single

/-- emission order: every drawn feature with its height -/
def emission (r : RegionIn) : Option (List (Feat × Int)) := do
  let subRows ← pack r.subregions
  let candRows ← pack (shownCandidates r)
  let protoRows ← pack r.protos
  let upper := withHeights (candRows ++ subRows) 0
  let h := 2 * ((candRows ++ subRows).length : Int)
  -- `if not converted: height += 1`
  let h := if upper.isEmpty then h + 1 else h
  pure (upper ++ withHeights protoRows h)

/-- all areas of an emission sequence; the `k`-th feature drawn gets clone id `k + 1` -/
def convertAll (c : Ctx) : List (Feat × Int) → Nat → Option (List Area)
  | [], _ => some []
  | (f, h) :: rest, k => do
    let here ← areasOf c f h (k + 1)
    let more ← convertAll c rest (k + 1)
    pure (here ++ more)

/-- `build_area_rows(region, record_length, circular)` before `to_minimal_json` -/
def buildAreaRows (c : Ctx) (r : RegionIn) : Option (List Area) := do
  let seq ← emission r
  convertAll c seq 0

/-! ### js.convert_regions / convert_cds_features (coordinates only) -/

/-- `js_region["start"]`, `js_region["end"]` -/
def announced (c : Ctx) : Int × Int :=
  if c.regionCrosses then (locStart c.region, c.L + c.lastPart.hi)
  else (c.region.start + 1, c.region.end)

/-- what `convert_cds_features` reads from one CDS -/
structure GeneView where
  start : Int
  «end» : Int
  /-- `feature.crosses_origin()` -/
  crosses : Bool
  /-- `feature.is_contained_by(region.location.parts[-1])` -/
  inLast : Bool
  /-- `feature.strand` as 1 / -1 / 0 (None is passed as 0) -/
  strand : Int
deriving DecidableEq, Repr, Inhabited

def strandInt : Strand → Int
  | .fwd => 1 | .rev => -1 | .zero => 0 | .none => 0

def geneView (c : Ctx) (g : Loc) : GeneView :=
  { start := locStart g, «end» := locEnd g, crosses := bridgesOrigin g,
    inLast := locationContainsOther (.simple c.lastPart) g, strand := strandInt g.strand }

structure Orf where
  start : Int
  «end» : Int
  strand : Int
  /-- locus tag carries the `_split` suffix -/
  split : Bool := false
  group : Int := 0
deriving DecidableEq, Repr, Inhabited

/-- one iteration of the loop in `convert_cds_features`; `gid` stands for `id(original)` -/
def convertOne (c : Ctx) (v : GeneView) (gid : Int) : List Orf :=
  let start := v.start + 1
  let «end» := v.end
  let (start, «end») :=
    if c.regionCrosses then
      if v.inLast then (start + c.L, «end» + c.L)
      else if v.crosses then (start, «end» + c.L)
      else (start, «end»)
    else (start, «end»)
  let strand := if v.strand == 0 then 1 else v.strand     -- `feature.strand or 1`
  let orf : Orf := { start := start, «end» := «end», strand := strand }
  if v.crosses && !c.regionCrosses then
    let original := { orf with group := gid, «end» := c.L }
    let extra := { orf with group := gid, start := 1, split := true }
    if v.strand == -1 then [original, { extra with strand := 0 }]
    else [{ original with strand := 0 }, extra]
  else [orf]

def convertCdsFrom (c : Ctx) : List GeneView → Nat → List Orf
  | [], _ => []
  | v :: vs, k => convertOne c v (k + 1) ++ convertCdsFrom c vs (k + 1)

/-- `convert_cds_features(record, region.cds_children, …)` -/
def convertCds (c : Ctx) (genes : List GeneView) : List Orf := convertCdsFrom c genes 0

/-! ### the constructors behind the well-formedness hypotheses -/

inductive InitResult where
  | ok | valueError | assertion
deriving DecidableEq, Repr, Inhabited

/-- `location_contains_overlapping_exons`: two parts with the same end coordinate -/
def sharedEnds : List Part → Bool
  | [] => false
  | p :: ps => ps.any (·.hi == p.hi) || sharedEnds ps

/-- `CDSCollection.__init__(location, …)` followed by `Feature.__init__`, in the order of the
    checks: at most two parts, the second starting at 0; one strand; no exons sharing an end;
    `start <= end`; no negative coordinate; two parts only on the forward strand -/
def collectionInit (l : Loc) : InitResult :=
  if l.parts.length > 1 && l.parts.length != 2 then .assertion
  else if l.parts.length > 1 && ((l.parts.drop 1).head?.map (·.lo)).getD 0 != 0 then .valueError
  else if !(l.parts.all fun p => p.strand == ((l.parts.head?.map (·.strand)).getD .none)) then .assertion
  else if l.parts.length > 1 && sharedEnds l.parts then .valueError
  else if l.start > l.end then .assertion
  else if l.start < 0 then .valueError
  else if l.parts.length > 1 && l.strand != .fwd then .valueError
  else .ok

/-! ### Region.get_unique_protoclusters -/

/-- a `Protocluster` object: its Python identity (`Feature` defines neither `__eq__` nor
    `__hash__`, so sets hold objects by identity) and what the layout reads from it -/
structure PObj where
  id : Nat
  feat : Feat
deriving DecidableEq, Repr, Inhabited

/-- a `CandidateCluster` with its `protoclusters` tuple -/
structure Cand where
  feat : Feat
  members : List PObj
deriving Repr, Inhabited

/-- `reduction(collection)` with `record_length = region.location.parts[0].end`;
    `start < record_length / 2` is compared exactly as `2 * start < record_length` -/
def reductionKey (c : Ctx) (p : Feat) : Int × Int × String :=
  let recordLength := (c.region.parts.head?.map (·.hi)).getD 0
  if c.regionCrosses && decide (2 * p.start < recordLength) then
    (p.start + recordLength, -p.loc.len, p.product)
  else (p.start, -p.loc.len, p.product)

/-- tuple comparison `a <= b` -/
def keyLe (a b : Int × Int × String) : Bool :=
  decide (a.1 < b.1) || (a.1 == b.1 && (decide (a.2.1 < b.2.1) || (a.2.1 == b.2.1 && decide (a.2.2 ≤ b.2.2))))

/-- `clusters.update(candidate_cluster.protoclusters)` for one object: a set keeps it once -/
def setAdd (acc : List PObj) (p : PObj) : List PObj :=
  if acc.any (·.id == p.id) then acc else acc ++ [p]

/-- `clusters = set(); for candidate in candidates: clusters.update(candidate.protoclusters)`.
    The list stands for the set in *some* iteration order (first insertion here; CPython's is by
    hash — only the relative order of protoclusters with equal sort keys depends on it). -/
def gatherProtoclusters (cands : List Cand) : List PObj :=
  (cands.flatMap (·.members)).foldl setAdd []

/-- one step of a stable sort by the key: `p` goes before the first element with a larger or
    equal key (it came earlier in the input) -/
def insertByKey (c : Ctx) (p : PObj) : List PObj → List PObj
  | [] => [p]
  | q :: qs =>
    if keyLe (reductionKey c p.feat) (reductionKey c q.feat) then p :: q :: qs
    else q :: insertByKey c p qs

/-- `sorted(clusters, key=reduction)` (stable) -/
def sortByKey (c : Ctx) (l : List PObj) : List PObj := l.foldr (insertByKey c) []

/-- `region.get_unique_protoclusters()` -/
def uniqueProtoclusters (c : Ctx) (cands : List Cand) : List PObj :=
  sortByKey c (gatherProtoclusters cands)

/-- the list is non-decreasing in the key -/
def sortedByKey (c : Ctx) : List Feat → Bool
  | [] => true
  | [_] => true
  | p :: q :: rest => keyLe (reductionKey c p) (reductionKey c q) && sortedByKey c (q :: rest)

/-- the inputs of `build_area_rows` for a region given by its children: the protoclusters are
    whatever `get_unique_protoclusters` delivers -/
def regionIn (c : Ctx) (subs : List Feat) (cands : List Cand) : RegionIn :=
  { subregions := subs, candidates := cands.map (·.feat),
    protos := (uniqueProtoclusters c cands).map (·.feat) }

/-- `build_area_rows(region, …)` from the region's children -/
def buildRegion (c : Ctx) (subs : List Feat) (cands : List Cand) : Option (List Area) :=
  buildAreaRows c (regionIn c subs cands)

end ASV.Packing
