/-
  C18: the two functions `pre_process_sequences` hands to `parallel_function`
  (`antismash/common/record_processing.py`), as far as the record's sequence, skip flag and number
  of CDS features are concerned.  Both are functions of the record alone (no shared state), which
  is what makes them safe to run on pickled copies.
-/
import ASV.Model.Parallel
namespace ASV.Parallel

/-- `for char in record.seq.upper(): if char == "-": continue; if char in "ACGT": keep, real = True;
    else: "N"` — the sanitised characters and `has_real_content` (ASCII upper-casing, as `Seq.upper`) -/
def sanitiseChars : List Char → List Char × Bool
  | [] => ([], false)
  | c :: rest =>
    let u := c.toUpper
    let (out, real) := sanitiseChars rest
    if u = '-' then (out, real)
    else if ['A', 'C', 'G', 'T'].contains u then (u :: out, true)
    else ('N' :: out, real)

structure SeqRec where
  seq : List Char
  skip : Option String
deriving DecidableEq, Repr

/-- `sanitise_sequence(record)` -/
def sanitiseSequence (r : SeqRec) : SeqRec :=
  let (out, real) := sanitiseChars r.seq
  ⟨out, if real then r.skip else some "contains no sequence"⟩

/-- Python truthiness of `record.skip` -/
def truthy : Option String → Bool
  | some s => !s.isEmpty
  | none => false

structure CdsRec where
  skip : Option String
  cds : Nat
deriving DecidableEq, Repr

/-- what the gene finder does to a record without genes: adds `n` CDS features or raises `ValueError` -/
inductive GeneFinder where
  | finds (n : Nat)
  | fails
deriving DecidableEq, Repr

/-- `ensure_cds_info(genefinding, sequence, **opts)` (`runGeneFinder` = the inner `if`): skipped records pass through; a record without
    CDS features is gene-found unless a GFF3 file is used or the tool is "none" (`ValueError` →
    `AntismashInputError`); still no CDS → `skip = "No genes found"` -/
def runGeneFinder (gff3 toolNone : Bool) (gf : GeneFinder) : Except String Nat :=
  if !gff3 && !toolNone then
    match gf with
    | .finds n => .ok n
    | .fails => .error "AntismashInputError"
  else .ok 0

def ensureCdsInfo (gff3 toolNone : Bool) (gf : GeneFinder) (r : CdsRec) : Except String CdsRec :=
  if truthy r.skip then .ok r
  else if r.cds = 0 then
    match runGeneFinder gff3 toolNone gf with
    | .error e => .error e
    | .ok n => if n = 0 then .ok ⟨some "No genes found", 0⟩ else .ok ⟨r.skip, n⟩
  else .ok r

end ASV.Parallel
