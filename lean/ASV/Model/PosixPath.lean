/-
  `posixpath` as far as antiSMASH's output-directory handling uses it: `join` (two arguments),
  `isabs`, `normpath`, `abspath`, `basename`, `splitext`.  Literal transcriptions of CPython 3.12's
  Lib/posixpath.py over `List Char` (one Python `str` = one `List Char`).
-/
namespace ASV.PosixPath

abbrev Path := List Char

/-- `str.split('/')` -/
def splitSlash : Path → List Path
  | [] => [[]]
  | c :: cs =>
    if c = '/' then [] :: splitSlash cs
    else
      match splitSlash cs with
      | [] => [[c]]
      | h :: t => (c :: h) :: t

/-- `'/'.join(comps)` -/
def joinSlash : List Path → Path
  | [] => []
  | [c] => c
  | c :: d :: cs => c ++ '/' :: joinSlash (d :: cs)

def dot : Path := ['.']
def dotdot : Path := ['.', '.']

/-- one iteration of `normpath`'s loop; `acc` is `new_comps` reversed -/
def normStep (rooted : Bool) (acc : List Path) (comp : Path) : List Path :=
  if comp = [] || comp = dot then acc
  else if comp != dotdot || (!rooted && acc.isEmpty) || acc.head? == some dotdot then comp :: acc
  else acc.tail

/-- `new_comps` after the loop -/
def normComps (rooted : Bool) (comps : List Path) : List Path :=
  (comps.foldl (normStep rooted) []).reverse

/-- `initial_slashes`: 0, 1, or 2 (exactly two leading slashes are kept, POSIX) -/
def leadSlashes : Path → Nat
  | '/' :: '/' :: '/' :: _ => 1
  | '/' :: '/' :: _ => 2
  | '/' :: _ => 1
  | _ => 0

/-- `posixpath.normpath` -/
def normpath (p : Path) : Path :=
  if p.isEmpty then dot
  else
    let k := leadSlashes p
    let r := List.replicate k '/' ++ joinSlash (normComps (k != 0) (splitSlash p))
    if r.isEmpty then dot else r

/-- `posixpath.isabs` -/
def isabs (p : Path) : Bool := p.head? == some '/'

/-- `posixpath.join(a, b)` -/
def join (a b : Path) : Path :=
  if b.head? == some '/' then b
  else if a.isEmpty || a.getLast? == some '/' then a ++ b
  else a ++ '/' :: b

/-- the argument `abspath` hands to `normpath` -/
def absArg (cwd p : Path) : Path := if isabs p then p else join cwd p

/-- `posixpath.abspath` with `os.getcwd() = cwd` -/
def abspath (cwd p : Path) : Path := normpath (absArg cwd p)

/-- `posixpath.basename`: everything after the last slash -/
def basename (p : Path) : Path := ((splitSlash p).getLast?).getD []

/-- `genericpath._splitext(p, '/', None, '.')`: the extension starts at the last dot of the last
    component, unless that component consists of leading dots only up to there -/
def splitext (p : Path) : Path × Path :=
  let base := basename p
  let dir := p.take (p.length - base.length)
  -- index of the last '.' in the base name
  match (base.reverse.idxOf? '.') with
  | none => (p, [])
  | some r =>
    let i := base.length - 1 - r
    -- `while filenameIndex < dotIndex: if p[filenameIndex] != '.': return split`
    if (base.take i).all (· == '.') then (p, [])
    else (dir ++ base.take i, base.drop i)

end ASV.PosixPath
