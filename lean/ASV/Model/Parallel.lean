/-
  Model of `antismash/common/subprocessing/base.py`:
    `parallel_function`, `_await_pool_results`, `parallel_execute`, `child_process`
  together with the part of CPython 3.12's `multiprocessing.pool` they rest on, transcribed
  literally: `Pool._map_async` (chunk size), `Pool._get_tasks` (the `islice` loop),
  `mapstar`/`starmapstar` (one chunk = one list comprehension in one worker),
  `MapResult.__init__`, `MapResult._set` (slice assignment by chunk index, "only store first
  exception", "only consider the result ready once all jobs are done") and `ApplyResult.get`.

  What is *not* Python here is the scheduler: the interleaving of workers is an explicit
  list of events (`Event`) — the order in which chunk results reach the result handler,
  the moment the deadline passes, the moment a worker process is seen dead.  All theorems
  quantify over that list.
-/
namespace ASV.Parallel

/-- `[function(*argset) for argset in args]` / `list(itertools.starmap(f, chunk))`:
    left to right, the first exception aborts the rest. -/
def comprehension {α ε β} (f : α → Except ε β) : List α → Except ε (List β)
  | [] => .ok []
  | a :: rest =>
    match f a with
    | .error e => .error e
    | .ok b =>
      match comprehension f rest with
      | .error e => .error e
      | .ok bs => .ok (b :: bs)

/-- what the caller of `parallel_function` / `parallel_execute` can see besides a task's own
    exception `task e` (re-raised unchanged by `jobs.get()`) -/
inductive Err (ε : Type) where
  | task (e : ε)
  /-- `RuntimeError("Timeout in parallel function:", …)` / `"One of … timed out"` -/
  | timeout
  /-- `RuntimeError("A worker process of a parallel function died unexpectedly")` -/
  | workerDied
  /-- `ValueError("Number of processes must be at least 1")` from `Pool(0)` -/
  | noProcesses
deriving Repr, DecidableEq

/-- result of a call: a list (with Python's `None` placeholders made visible as `none`),
    an exception, or no return at all (`blocked`: the schedule ended with the caller waiting) -/
inductive Outcome (ε β : Type) where
  | returned (l : List (Option β))
  | raised (e : Err ε)
  | blocked
deriving Repr, DecidableEq

/-- scheduler events, in the order the parent process observes them -/
inductive Event where
  /-- the result of chunk `i` is handed to `MapResult._set(i, …)` -/
  | done (i : Nat)
  /-- `deadline - time.monotonic() <= 0` (only meaningful when a timeout was given) -/
  | timeout
  /-- worker `w` is found `not is_alive()` by the poll in `_await_pool_results` -/
  | died (w : Nat)
  /-- a child process `p` of the caller that is NOT one of this pool's workers (it existed before
      the pool was created) stops being alive while the batch is running -/
  | bystander (p : Nat)
deriving Repr, DecidableEq

def Event.isDone : Event → Bool
  | .done _ => true
  | _ => false
def Event.isBystander : Event → Bool
  | .bystander _ => true
  | _ => false
def Event.chunk? : Event → Option Nat
  | .done i => some i
  | _ => none

/-! ### CPython: chunking -/

/-- `Pool._map_async`: `chunksize, extra = divmod(len(iterable), len(self._pool) * 4);
    if extra: chunksize += 1;  if len(iterable) == 0: chunksize = 0` -/
def chunkSize (n workers : Nat) : Nat :=
  let q := n / (workers * 4)
  let extra := n % (workers * 4)
  let cs := if extra ≠ 0 then q + 1 else q
  if n = 0 then 0 else cs

/-- `Pool._get_tasks`: `while 1: x = tuple(islice(it, size)); if not x: return; yield x`
    (fuel = an upper bound on the number of non-empty slices) -/
def getTasksAux {α} (size : Nat) : Nat → List α → List (List α)
  | 0, _ => []
  | fuel + 1, l =>
    let x := l.take size
    if x.isEmpty then [] else x :: getTasksAux size fuel (l.drop size)

def getTasks {α} (size : Nat) (l : List α) : List (List α) := getTasksAux size l.length l

/-! ### CPython: `MapResult` -/

/-- `_success`/`_value` together: `.ok value` while `_success` is true (value = the list being
    filled, `none` = the `None` placeholder), `.error e` once an exception has been stored -/
structure MapResult (ε β : Type) where
  chunksize : Nat
  numberLeft : Int
  ready : Bool
  state : Except ε (List (Option β))

/-- `MapResult.__init__` -/
def MapResult.init {ε β} (chunksize length : Nat) : MapResult ε β :=
  if chunksize ≤ 0 then
    ⟨chunksize, 0, true, .ok (List.replicate length none)⟩
  else
    ⟨chunksize, (length / chunksize : Nat) + (if length % chunksize ≠ 0 then 1 else 0), false,
     .ok (List.replicate length none)⟩

/-- `MapResult._set(i, (success, result))` -/
def MapResult.set {ε β} (mr : MapResult ε β) (i : Nat) (sr : Except ε (List β)) : MapResult ε β :=
  let left := mr.numberLeft - 1
  let ready := mr.ready || left == 0
  match sr, mr.state with
  | .ok result, .ok value =>
    -- self._value[i*self._chunksize:(i+1)*self._chunksize] = result
    ⟨mr.chunksize, left, ready,
     .ok (value.take (i * mr.chunksize) ++ result.map some ++ value.drop ((i + 1) * mr.chunksize))⟩
  | .error e, .ok _ => ⟨mr.chunksize, left, ready, .error e⟩      -- only store first exception
  | _, .error e0 => ⟨mr.chunksize, left, ready, .error e0⟩

/-- `ApplyResult.get()` once ready: `if self._success: return self._value else: raise self._value` -/
def MapResult.get {ε β} (mr : MapResult ε β) : Outcome ε β :=
  match mr.state with
  | .ok value => .returned value
  | .error e => .raised (.task e)

/-! ### antiSMASH: `_await_pool_results` over the event list -/

/-- ```
    while not jobs.ready():
        if deadline is not None and remaining <= 0: raise multiprocessing.TimeoutError
        jobs.wait(interval)
        if not jobs.ready() and not all(worker.is_alive() for worker in workers): raise RuntimeError
    return jobs.get()
    ```
    `run` is what a worker does with one task batch (`mapstar`/`starmapstar` on the unpickled
    `(function, chunk)`).  A `done i` for a chunk that does not exist is never produced by a pool
    and is skipped; the exit of a process that is not in `workers` is not looked at. -/
def awaitResultsWith {α ε β} (run : List α → Except ε (List β)) (tasks : List (List α)) (hasTimeout : Bool) :
    MapResult ε β → List Event → Outcome ε β
  | mr, evs =>
    if mr.ready then mr.get else
    match evs with
    | [] => .blocked
    | .timeout :: rest => if hasTimeout then .raised .timeout else awaitResultsWith run tasks hasTimeout mr rest
    | .died _ :: _ => .raised .workerDied
    | .bystander _ :: rest => awaitResultsWith run tasks hasTimeout mr rest
    | .done i :: rest =>
      match tasks[i]? with
      | none => awaitResultsWith run tasks hasTimeout mr rest
      | some chunk => awaitResultsWith run tasks hasTimeout (mr.set i (run chunk)) rest

/-- the usual case: the function object carries no state, a batch is a list comprehension -/
def awaitResults {α ε β} (f : α → Except ε β) (tasks : List (List α)) (hasTimeout : Bool) :
    MapResult ε β → List Event → Outcome ε β :=
  awaitResultsWith (comprehension f) tasks hasTimeout

/-- `pool.starmap_async(function, args)` / `pool.map_async(runner, commands)` followed by
    `_await_pool_results(jobs, workers, timeout)` on a pool of `workers` processes -/
def poolRunWith {α ε β} (run : List α → Except ε (List β)) (args : List α) (workers : Nat)
    (hasTimeout : Bool) (evs : List Event) : Outcome ε β :=
  let cs := chunkSize args.length workers
  awaitResultsWith run (getTasks cs args) hasTimeout (MapResult.init cs args.length) evs

def poolRun {α ε β} (f : α → Except ε β) (args : List α) (workers : Nat) (hasTimeout : Bool)
    (evs : List Event) : Outcome ε β :=
  poolRunWith (comprehension f) args workers hasTimeout evs

/-! ### antiSMASH: which children are the pool's workers -/

/-- `existing = set(multiprocessing.active_children())` before `Pool(cpus)`, then
    `workers = [proc for proc in multiprocessing.active_children() if proc not in existing]` -/
def poolWorkers (before after : List Nat) : List Nat := after.filter fun p => !before.contains p

/-- a child process of the caller seen `not is_alive()` during the wait, as the event the wait
    loop reacts to: only members of `workers` are ever polled -/
def classifyExit (before after : List Nat) (p : Nat) : Event :=
  if (poolWorkers before after).contains p then .died p else .bystander p

/-- `if not cpus: cpus = get_config().cpus` -/
def resolveCpus (configCpus cpus : Nat) : Nat := if cpus = 0 then configCpus else cpus

/-- `parallel_function(function, args, cpus, timeout)` -/
def parallelFunction {α ε β} (configCpus : Nat) (f : α → Except ε β) (args : List α) (cpus : Nat)
    (hasTimeout : Bool) (evs : List Event) : Outcome ε β :=
  let cpus := resolveCpus configCpus cpus
  -- if only 1 core is to be used, don't fork to run it... this ignores timeout
  if cpus = 1 then
    match comprehension f args with
    | .ok l => .returned (l.map some)
    | .error e => .raised (.task e)
  else if cpus = 0 then .raised .noProcesses
  else
    -- TimeoutError → `timeouts = True` → RuntimeError; everything else propagates
    poolRun f args cpus hasTimeout evs

/-- a call as a worker *process* performs it: the argument is what the worker unpickles from the
    task queue (`pa` = unpickle ∘ pickle on arguments), the result or exception is what the
    parent unpickles from the result queue (`pb`, `pe`) -/
def overWire {α ε β} (pa : α → α) (pb : β → β) (pe : ε → ε) (f : α → Except ε β) : α → Except ε β :=
  fun a =>
    match f (pa a) with
    | .ok b => .ok (pb b)
    | .error e => .error (pe e)

/-- `parallel_function` with the process boundary made explicit: the single-cpu path calls
    `function` on the caller's own objects, the pool path on pickled copies -/
def parallelFunctionWire {α ε β} (pa : α → α) (pb : β → β) (pe : ε → ε) (configCpus : Nat)
    (f : α → Except ε β) (args : List α) (cpus : Nat) (hasTimeout : Bool) (evs : List Event) :
    Outcome ε β :=
  if resolveCpus configCpus cpus = 1 then parallelFunction configCpus f args cpus hasTimeout evs
  else parallelFunction configCpus (overWire pa pb pe f) args cpus hasTimeout evs

/-- what `execute(command)` did, as far as `child_process` looks at it -/
inductive ExecResult (ε : Type) where
  | finished (returnCode : Int) (stderr : Bool)
  | keyboardInterrupt
  | failed (e : ε)

/-- `child_process`: the return code; `KeyboardInterrupt` becomes `RuntimeError` (`interrupt`) -/
def childProcess {ε} (interrupt : ε) : ExecResult ε → Except ε Int
  | .finished rc _ => .ok rc
  | .keyboardInterrupt => .error interrupt
  | .failed e => .error e

/-- `verbose_child_process`: `logging.debug("Calling …")`, then `child_process(command)` -/
def verboseChildProcess {ε} (interrupt : ε) : ExecResult ε → Except ε Int := childProcess interrupt

/-- `runner = verbose_child_process if verbose else child_process` -/
def runnerOf {ε} (verbose : Bool) (interrupt : ε) : ExecResult ε → Except ε Int :=
  if verbose then verboseChildProcess interrupt else childProcess interrupt

/-- `parallel_execute(commands, cpus, timeout)`: always through the pool, also for one cpu -/
def parallelExecute {α ε} (configCpus : Nat) (runner : α → Except ε Int) (commands : List α)
    (cpus : Nat) (hasTimeout : Bool) (evs : List Event) : Outcome ε Int :=
  let cpus := resolveCpus configCpus cpus
  if cpus = 0 then .raised .noProcesses
  else poolRun runner commands cpus hasTimeout evs

/-! ### what the parent really observes: process exits, not yet attributed to the pool -/

/-- raw observations: completions, the deadline, and "child process `p` of the caller is no
    longer alive" (any child: a worker of this pool or something the caller started earlier) -/
inductive Observed where
  | done (i : Nat)
  | timeout
  | exit (p : Nat)
deriving Repr, DecidableEq

def Observed.toEvent (before after : List Nat) : Observed → Event
  | .done i => .done i
  | .timeout => .timeout
  | .exit p => classifyExit before after p

/-- `parallel_function` in a process whose children were `before` when the helper was entered and
    `after` once the pool existed -/
def parallelFunctionObserved {α ε β} (configCpus : Nat) (before after : List Nat) (f : α → Except ε β)
    (args : List α) (cpus : Nat) (hasTimeout : Bool) (obs : List Observed) : Outcome ε β :=
  parallelFunction configCpus f args cpus hasTimeout (obs.map (Observed.toEvent before after))

/-! ### calls that read and update shared state (`fix_record_name_id` and `all_record_ids`) -/

/-- `for a in args: function(a, state)` in one process: every call sees the updates of the
    calls before it -/
def threaded {σ α ε β} (g : σ → α → Except ε (σ × β)) : σ → List α → Except ε (σ × List β)
  | s, [] => .ok (s, [])
  | s, a :: rest =>
    match g s a with
    | .error e => .error e
    | .ok (s', b) =>
      match threaded g s' rest with
      | .error e => .error e
      | .ok (s'', bs) => .ok (s'', b :: bs)

/-- one task batch in a worker when the function object (a `functools.partial`) carries the state:
    the batch is unpickled once, so its calls share one *copy* of the state as it was at submission;
    the copy is dropped with the batch -/
def shippedChunk {σ α ε β} (g : σ → α → Except ε (σ × β)) (s₀ : σ) (chunk : List α) : Except ε (List β) :=
  match threaded g s₀ chunk with
  | .error e => .error e
  | .ok (_, bs) => .ok bs

/-- `parallel_function(partial(g, state=s₀), args)`: in-process (one cpu) the partial holds the
    caller's own state object, so the loop is `threaded`; through the pool every batch gets a copy -/
def parallelFunctionShipped {σ α ε β} (configCpus : Nat) (g : σ → α → Except ε (σ × β)) (s₀ : σ)
    (args : List α) (cpus : Nat) (hasTimeout : Bool) (evs : List Event) : Outcome ε β :=
  let k := resolveCpus configCpus cpus
  if k = 1 then
    match threaded g s₀ args with
    | .ok (_, bs) => .returned (bs.map some)
    | .error e => .raised (.task e)
  else if k = 0 then .raised .noProcesses
  else poolRunWith (shippedChunk g s₀) args k hasTimeout evs

/-- the clean-up stage of `pre_process_sequences` as it is written: the state-dependent step
    (`fix_record_name_id` with the shared id set) runs as a loop **in the parent**, only the
    stateless step `h` (`sanitise_sequence`) goes through `parallel_function`
    (`if len(sequences) == 1: [h(x)]` is the same loop) -/
def preProcessStage {σ α ε β γ} (configCpus : Nat) (g : σ → α → Except ε (σ × β)) (s₀ : σ)
    (h : β → Except ε γ) (args : List α) (cpus : Nat) (hasTimeout : Bool) (evs : List Event) :
    Outcome ε γ :=
  match threaded g s₀ args with
  | .error e => .raised (.task e)
  | .ok (_, bs) =>
    if bs.length = 1 then
      match comprehension h bs with
      | .ok l => .returned (l.map some)
      | .error e => .raised (.task e)
    else parallelFunction configCpus h bs cpus hasTimeout evs

end ASV.Parallel
