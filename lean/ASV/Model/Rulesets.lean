/-
  Model of how the parsed rules reach a detection run (C02: "cutoff and neighbourhood are … scaled
  by the multipliers"):
    `structures.Multipliers.__post_init__`, `cluster_prediction.Ruleset.__post_init__` (scales the
    DetectionRule objects *in place*), `Ruleset.copy_with_replacements` (the copy *shares* the rule
    objects), `Ruleset.from_files`, `hmm_detection.get_ruleset` with its module-level cache
    `_RULESETS`.
  DetectionRule objects live on a heap (a list, addressed by index) because the code mutates them
  through shared references; a Ruleset holds references.
  `Ruleset.from_files` is modelled as repaired by fixes/D201_from_files_scales_once.patch (the rules
  are created unscaled and scaled once by the constructor).
-/
import ASV.Model.Parser
namespace ASV.Rulesets
open ASV ASV.Parser

/-- `Multipliers` as exact fractions -/
structure Mul where
  cutoff : Nat × Nat := (1, 1)
  neighbourhood : Nat × Nat := (1, 1)
deriving Repr, DecidableEq, Inhabited

/-- `Multipliers(cutoff, neighbourhood)`: both must be positive -/
def mkMul (c n : Int × Nat) : Except Err Mul :=
  if c.1 ≤ 0 then .error .value
  else if n.1 ≤ 0 then .error .value
  else .ok ⟨(c.1.toNat, c.2), (n.1.toNat, n.2)⟩

abbrev Heap := List Rule

/-- `Ruleset`: references to its DetectionRule objects, and the multipliers it was built with -/
structure RS where
  refs : List Nat
  mul : Mul
deriving Repr, Inhabited

/-- `rule.cutoff = int(rule.cutoff * m.cutoff); rule.neighbourhood = int(rule.neighbourhood * m.neighbourhood)` -/
def scaleRule (m : Mul) (r : Rule) : Rule :=
  { r with cutoff := scale r.cutoff m.cutoff, neighbourhood := scale r.neighbourhood m.neighbourhood }

/-- the last loop of `Ruleset.__post_init__`: every referenced rule is rescaled in place -/
def postInit (refs : List Nat) (m : Mul) (h : Heap) : Heap :=
  refs.foldl (fun h i => h.modify i (scaleRule m)) h

/-- what a ruleset's rules look like now -/
def RS.read (rs : RS) (h : Heap) : List Rule := rs.refs.filterMap (h[·]?)

/-- `Ruleset.from_files(…, multipliers)`: `create_rules` without multipliers (D201), the objects are
    allocated, the constructor scales them -/
def fromFiles (rules : List Rule) (m : Mul) (h : Heap) : RS × Heap :=
  let refs := List.range' h.length rules.length
  (⟨refs, m⟩, postInit refs m (h ++ rules))

/-- `_get_rule_files_for_strictness` over `_STRICTNESS_LEVELS` (given with each level's file): the
    files of every level up to and including the requested one; an unknown level trips the `assert` -/
def ruleFilesFor : List (String × String) → String → Option (List String)
  | [], _ => none
  | (l, f) :: rest, strictness =>
    if l == strictness then some [f] else (ruleFilesFor rest strictness).map (f :: ·)

/-- the options `get_ruleset` looks at -/
structure Req where
  strictness : String
  names : List String
  cats : List String
  fungi : Bool
  cmul : Int × Nat
  nmul : Int × Nat
deriving Repr

/-- the cache key (sets are compared as sets) -/
structure Key where
  strictness : String
  names : List String
  cats : List String
  mul : Mul
deriving DecidableEq, Repr

structure State where
  heap : Heap := []
  cache : List (Key × RS) := []

/-- `rule.name in name_subset` / `rule.category in category_subset`, applied when the subset is not empty -/
def keep (k : Key) (r : Rule) : Bool :=
  (k.names.isEmpty || k.names.contains r.name) && (k.cats.isEmpty || k.cats.contains r.category)

/-- the multipliers of a run: those of the options for fungi, `Multipliers()` otherwise -/
def reqMul (q : Req) : Except Err Mul := if q.fungi then mkMul q.cmul q.nmul else .ok {}

/-- `hmm_detection.get_ruleset`; `parsed strictness` is what `create_rules` returns for the rule
    files of that strictness (default multipliers) -/
def getRuleset (parsed : String → Except Err (List Rule)) (q : Req) (st : State) : Except Err (RS × State) := do
  let mul ← reqMul q
  let key : Key := ⟨q.strictness, sortDedupStr q.names, sortDedupStr q.cats, mul⟩
  match st.cache.lookup key with
  | some rs => pure (rs, st)
  | none =>
    let rules ← parsed q.strictness
    -- the default ruleset for the strictness, freshly parsed
    let (dflt, heap) := fromFiles rules {} st.heap
    -- `filter(...)` twice, then `copy_with_replacements(rules=…, multipliers=…)`: same objects, new instance
    let sel := dflt.refs.filter fun i => match heap[i]? with | some r => keep key r | none => false
    let rs : RS := ⟨sel, mul⟩
    let heap := postInit sel mul heap
    pure (rs, { heap := heap, cache := st.cache ++ [(key, rs)] })

/-- `hmm_detection.check_options`: `some issue` is reported (`false`) when a fungal multiplier is not
    positive (whatever the taxon), a requested rule name is not a rule of the strictness
    (`_get_rules`), a requested category is unknown, or building the ruleset raises `ValueError`;
    otherwise the ruleset has been built and cached.  A parse error of the rule files propagates. -/
def checkOptions (parsed : String → Except Err (List Rule)) (allCats : List String) (q : Req) (st : State) :
    Except Err (Bool × State) := do
  let rules ← parsed q.strictness
  let bad := decide (q.cmul.1 ≤ 0) || decide (q.nmul.1 ≤ 0)
    || q.names.any (fun n => !(rules.map (·.name)).contains n) || q.cats.any (fun c => !allCats.contains c)
  if bad then pure (false, st) else
  match getRuleset parsed q st with
  | .ok (_, st') => pure (true, st')
  | .error .value => pure (false, st)
  | .error e => .error e

/-- a sequence of requests in one process; the rulesets handed out, and the final state -/
def run (parsed : String → Except Err (List Rule)) : List Req → State → Except Err (List RS × State)
  | [], st => pure ([], st)
  | q :: qs, st => do
    let (rs, st) ← getRuleset parsed q st
    let (rest, st) ← run parsed qs st
    pure (rs :: rest, st)

end ASV.Rulesets
