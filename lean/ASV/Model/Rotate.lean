/-
  C07: "choosing a different origin for a circular record (re-indexing every gene)" as an executable
  function on locations — the transcription of the harness' `rotate_loc` (harness/props/c07.py):
  every part is shifted by `-k` (new coordinate = (old - k) mod L), a part that contains the new origin is
  split there (pieces in transcription order: for the reverse strand the piece after the origin first),
  and a piece that continues the previous piece of the gene is joined to it (an exon that spanned the old
  origin becomes one part again).  No imports outside ASV.Model (driver-linkable).
-/
import ASV.Model.Loc
namespace ASV.Rot
open ASV

/-- the pieces of one part after base `k` has become the origin of the ring of length `L` -/
def rotPieces (k L : Int) (p : Part) : List Part :=
  let lo2 := if p.hi - k ≤ 0 then p.lo - k + L else p.lo - k
  let hi2 := if p.hi - k ≤ 0 then p.hi - k + L else p.hi - k
  if lo2 < 0 then
    if p.strand == .rev then [⟨0, hi2, p.strand⟩, ⟨lo2 + L, L, p.strand⟩]
    else [⟨lo2 + L, L, p.strand⟩, ⟨0, hi2, p.strand⟩]
  else [⟨lo2, hi2, p.strand⟩]

/-- `out` is kept last-first.  Forward (and unstranded) genes: a piece starting where the previous one
    ends extends it; reverse genes (parts listed downwards): a piece ending where the previous one starts -/
def pushPiece (out : List Part) (p : Part) : List Part :=
  match out with
  | [] => [p]
  | q :: rest =>
    if p.strand != .rev && q.hi == p.lo then ⟨q.lo, p.hi, q.strand⟩ :: rest
    else if p.strand == .rev && q.lo == p.hi then ⟨p.lo, q.hi, q.strand⟩ :: rest
    else p :: q :: rest

def rotateParts (ps : List Part) (k L : Int) : List Part :=
  ((ps.flatMap (rotPieces k L)).foldl pushPiece []).reverse

/-- the location after choosing base `k` as the new origin -/
def rotateLoc (l : Loc) (k L : Int) : Loc := Loc.ofParts (rotateParts l.parts k L)

end ASV.Rot
