/-
  `str(location)` / `location_from_string` with Biopython's fuzzy positions: a start or an end may be exact (`5`),
  a `BeforePosition` (`<5`) or an `AfterPosition` (`>5`); which of the two fuzzy classes `parse_position` builds is
  decided by the marker character alone, for a start and for an end alike.  (`UnknownPosition()` stays outside.)
-/
import ASV.Model.LocString
namespace ASV

inductive PosKind | exact | before | after
  deriving DecidableEq, Repr, Inhabited

/-- an `ExactPosition` / `BeforePosition` / `AfterPosition` with its integer value -/
structure FPos where
  kind : PosKind
  v : Int
  deriving DecidableEq, Repr, Inhabited

structure FPart where
  lo : FPos
  hi : FPos
  strand : Strand
  deriving DecidableEq, Repr

inductive FLoc
  | simple (p : FPart)
  | compound (ps : List FPart)
  deriving Repr

def FLoc.parts : FLoc → List FPart
  | .simple p => [p]
  | .compound ps => ps

/-- `str(position)` -/
def fposChars (p : FPos) : List Char :=
  match p.kind with
  | .exact => intChars p.v
  | .before => '<' :: intChars p.v
  | .after => '>' :: intChars p.v

/-- `[start:end](strand)` -/
def fpartChars (p : FPart) : List Char :=
  '[' :: fposChars p.lo ++ ':' :: fposChars p.hi ++ ']' :: strandChars p.strand

/-- `str(location)` for a location whose compound operator is `op` -/
def flocChars (op : List Char) : FLoc → List Char
  | .simple p => fpartChars p
  | .compound ps => op ++ '{' :: joinParts (ps.map fpartChars) ++ ['}']

/-- `parse_position`: `string[0]` selects the class, `int(string[1:])` (or `int(string)`) the value -/
def parsePos (cs : List Char) : Option FPos :=
  match cs with
  | [] => none
  | c :: r =>
    if c = '<' then (parseInt r).map (FPos.mk .before)
    else if c = '>' then (parseInt r).map (FPos.mk .after)
    else (parseInt (c :: r)).map (FPos.mk .exact)

/-- `parse_single_location` -/
def parseSingleF (s : List Char) : Option FPart := do
  let (beforeColon, afterColon) ← splitFirst ':' s
  let start ← parsePos (beforeColon.drop 1)
  let (endText, _) ← splitFirst ']' afterColon
  let «end» ← parsePos endText
  let strand ← parseStrand s
  pure ⟨start, «end», strand⟩

/-- `location_from_string`, with the operator handed to `CompoundLocation` -/
def flocFromChars (s : List Char) : Option (Option (List Char) × FLoc) :=
  if !s.contains '{' then (parseSingleF s).map fun p => (none, FLoc.simple p)
  else do
    let (op, combined) ← splitFirst '{' s.dropLast
    let parts ← (splitCommaSpace [] combined).mapM parseSingleF
    pure (some op, .compound parts)

def FLoc.opOf (op : List Char) : FLoc → Option (List Char)
  | .simple _ => none
  | .compound _ => some op

/-- forgetting the fuzzy markers gives the plain location of the rest of the model -/
def FPart.toPart (p : FPart) : Part := ⟨p.lo.v, p.hi.v, p.strand⟩
def FLoc.toLoc : FLoc → Loc
  | .simple p => .simple p.toPart
  | .compound ps => .compound (ps.map FPart.toPart)

def FPos.ofInt (i : Int) : FPos := ⟨.exact, i⟩
def FPart.ofPart (p : Part) : FPart := ⟨.ofInt p.lo, .ofInt p.hi, p.strand⟩
def FLoc.ofLoc : Loc → FLoc
  | .simple p => .simple (.ofPart p)
  | .compound ps => .compound (ps.map FPart.ofPart)

end ASV
