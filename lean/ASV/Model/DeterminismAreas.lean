/-
  C17, second part — the two places of area formation where a set of OBJECTS (hashed by memory
  address) could reach an output order, stated over C05's model of
  `create_candidates_from_protoclusters` (`ASV.CC`, Model/Candidates.lean) and C06's model of
  `Record.create_regions` (`ASV.Regions`, Model/Regions.lean).

  * formation.py, the final loop
        unassigned.extend(singles)
        for cluster in _sorted_protoclusters(set(unassigned)): …  SINGLE candidates
    `singles` is a Python set of protoclusters filled during kind promotion.  C05's `formationCore`
    represents it by the insertion-ordered list `t3.singles`; here the order in which that set is
    iterated is an explicit enumerator `enum` (`formationCoreWith`), the code being
    `singlesOrder un2 (enum singles)` = `_sorted_protoclusters(set(un2 + singles))`.
    `singlesOrderUnsorted` is the loop WITHOUT the re-sort (iterate `unassigned` and then the
    promoted singles in the set's own order): the shape the property forbids.

  * record.py, `create_regions`: merging the last section into the first over the origin
        for area in last_areas:
            if area not in first_areas: first_areas.append(area)
    is a list operation (C06's `appendNew`).  `appendNewE enum` is the same step with the new areas
    taken through an enumerator — `enum = id` is the code (`appendNew_is_list_order`), any other
    enumerator is `first_areas.extend(set(last_areas).difference(first_areas))`, the shape the
    property forbids.

  No new behaviour is modelled here: `formationCoreWith singlesOrder` and `sectionsOfE id` are
  C05's / C06's functions (theorems `formationCore_is_sorted_singles`, `sectionsOf_is_list_order`).
-/
import ASV.Model.Candidates
import ASV.Model.Regions
namespace ASV.Determinism

/-! ### `create_candidates_from_protoclusters` -/
section formation
open ASV.CC

/-- `_sorted_protoclusters(set(unassigned + singles))`: what the final loop iterates -/
def singlesOrder (un2 singles : List Proto) : List Proto := sortProtos (dedup (un2 ++ singles))

/-- the same loop without the re-sort: `unassigned` as it is, then the promoted singles that are
    not in it, in the order the set yields them -/
def singlesOrderUnsorted (un2 singles : List Proto) : List Proto :=
  un2 ++ singles.filter fun s => !un2.contains s

/-- C05's `formationCore` with the iteration order of the final loop as a parameter
    (`final unassigned singles`) -/
def formationCoreWith (final : List Proto → List Proto → List Proto) (ps : List Proto) (wrap : Option Int) :
    E (List Cand) :=
  if ps.isEmpty then .ok []
  else
    let un0 := sortProtos ps
    match findHybrids un0 wrap with
    | .error e => .error e
    | .ok (hybridGroups, un1) =>
      match buildCandidates wrap .hybrid ⟨[], []⟩ hybridGroups with
      | .error e => .error e
      | .ok t1 =>
        match findInterleaved un1 (sortCands t1.values) wrap with
        | .error e => .error e
        | .ok (interleavedGroups, un2) =>
          match buildCandidates wrap .interleaved t1 interleavedGroups with
          | .error e => .error e
          | .ok t2 =>
            match buildCandidates wrap .neighbouring t2 (findNeighbouring un2 (sortCands t2.values)) with
            | .error e => .error e
            | .ok t3 =>
              match addSingles wrap t3 (final un2 t3.singles) with
              | .error e => .error e
              | .ok singles => .ok (sortCands t3.values ++ singles)

/-- `create_candidates_from_protoclusters` with that parameter -/
def formationWith (final : List Proto → List Proto → List Proto) (ps : List Proto) (wrap : Option Int) :
    E (List Cand) :=
  match formationCoreWith final ps wrap with
  | .error e => .error e
  | .ok cs =>
    if (assigned cs).length != ps.length then .error "assertion"
    else .ok (sortCands cs)

/-- the code: the `singles` set iterated in the order `enum` gives, then sorted -/
def formationE (enum : List Proto → List Proto) : List Proto → Option Int → E (List Cand) :=
  formationWith fun un2 singles => singlesOrder un2 (enum singles)

/-- the forbidden shape: the set's own order reaches the loop -/
def formationUnsortedE (enum : List Proto → List Proto) : List Proto → Option Int → E (List Cand) :=
  formationWith fun un2 singles => singlesOrderUnsorted un2 (enum singles)

/-- the observable of a candidate list: kind and member ids, in order -/
def candSummary (r : E (List Cand)) : Option (List (Kind × List Nat)) :=
  match r with
  | .ok cs => some (cs.map fun c => (c.kind, c.members.map (·.id)))
  | .error _ => none

end formation

/-! ### `Record.create_regions` -/
section regions
open ASV.Regions

/-- the areas the loop appends to `first_areas` (= `set(last_areas).difference(first_areas)`), in
    the order the loop appends them -/
def newAreas (first last : List Feat) : List Feat := (appendNew first last).drop first.length

/-- merging the last section into the first with the new areas taken through `enum` -/
def appendNewE (enum : List Feat → List Feat) (first last : List Feat) : List Feat :=
  first ++ enum (newAreas first last)

/-- C06's `mergeFirstLast` with that step -/
def mergeFirstLastE (enum : List Feat → List Feat) (wrap : Option Int) : Nat → List Sec → E (List Sec)
  | 0, secs => pure secs
  | fuel + 1, secs =>
    match secs with
    | first :: second :: more =>
      let rest := second :: more
      match rest.getLast? with
      | none => pure secs
      | some last =>
        if !locationsOverlap first.1 last.1 then pure secs
        else do
          let location ← connect [first.1, last.1] wrap
          mergeFirstLastE enum wrap fuel ((location, appendNewE enum first.2 last.2) :: rest.dropLast)
    | _ => pure secs

/-- C06's `sectionsOf` with that step -/
def sectionsOfE (enum : List Feat → List Feat) (wrap : Option Int) (cands subs : List Feat) : E (List Sec) := do
  let areas ← sortAreas (cands ++ subs)
  match areas with
  | [] => pure []
  | first :: rest =>
    let secs ← sweepAreas wrap first.loc [first] rest
    mergeFirstLastE enum wrap secs.length secs

/-- the observable: per section (= region) the ids of its areas, in order -/
def sectionIds (r : E (List Sec)) : Option (List (List Nat)) :=
  match r with
  | .ok secs => some (secs.map fun s => s.2.map (·.id))
  | .error _ => none

end regions

end ASV.Determinism
