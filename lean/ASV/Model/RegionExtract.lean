/-
  Model of `antismash/common/secmet/features/region/helpers.py` (the code behind
  `Region.write_to_genbank`): extraction of one region of a record into its own GenBank record.
  One Lean function per Python function, same branch order.  The code modelled is the repaired one
  (fixes/D10, D21, D21b, D21c, D21d, D21e).

  Self-contained Biopython-level structures (C10's files are not used):
    `BioFeature`  a `SeqFeature`: type, location, the qualifiers the helpers read or write
                  (`Quals`), and `tag`, an opaque stand-in for *all other* qualifiers, which the
                  helpers only ever copy.
    `BioRecord`   a `SeqRecord`: sequence and feature list.
    `RegionData`  as in Python, with the numbers (`get_*_number()`) and locations of the region's
                  candidate clusters / their protoclusters / subregions resolved.

  Biopython facts taken as given (trusted base, exercised by the correspondence):
    `record[a:b]` keeps exactly the features with `a <= location.start and location.end <= b`,
    shifted by `-a` part by part (`SeqFeature._shift`), qualifiers copied; `r1 + r2` concatenates
    the sequences; the GenBank writer/parser round-trips exact locations, strands ±1 and qualifiers.

  Errors (`Except String`): "KeyError" (a dictionary/qualifier lookup fails), "value-error",
  "assertion" — the exceptions the Python raises at the same places.
-/
import ASV.Model.LocOps
import ASV.Model.LocString
namespace ASV.RegionExtract
open ASV

/-- the qualifiers `helpers.py` reads or writes (numbers already `int(...)`-ed) -/
structure Quals where
  /-- region: `candidate_cluster_numbers` ([] = missing or empty: the code tests truthiness) -/
  candNumbers : List Int := []
  /-- region: `subregion_numbers` -/
  subNumbers : List Int := []
  /-- cand_cluster: `candidate_cluster_number` -/
  candNumber : Option Int := none
  /-- cand_cluster: `protoclusters` -/
  protoNumbers : Option (List Int) := none
  /-- protocluster / proto_core: `protocluster_number` -/
  protoNumber : Option Int := none
  /-- protocluster: `core_location` (text) -/
  coreLoc : Option String := none
  /-- subregion: `subregion_number` -/
  subNumber : Option Int := none
  /-- CDS_motif: `leader_location`, `tail_location` (text) -/
  leaderLoc : Option String := none
  tailLoc : Option String := none
deriving DecidableEq, Repr, Inhabited

structure BioFeature where
  /-- stands for every qualifier the helpers never look at (copied verbatim) -/
  tag : Int
  type : String
  loc : Loc
  q : Quals := {}
deriving DecidableEq, Repr, Inhabited

structure BioRecord where
  seq : List Char
  features : List BioFeature
deriving DecidableEq, Repr, Inhabited

def BioRecord.length (r : BioRecord) : Int := r.seq.length

structure Area where
  number : Int
  loc : Loc
deriving DecidableEq, Repr, Inhabited

structure ProtoArea where
  number : Int
  loc : Loc
  core : Loc
deriving DecidableEq, Repr, Inhabited

structure CandArea where
  number : Int
  loc : Loc
  protos : List ProtoArea
deriving DecidableEq, Repr, Inhabited

/-- `RegionData(start, end, candidate_clusters, subregions)` -/
structure RegionData where
  start : Int
  «end» : Int
  cands : List CandArea
  subs : List Area
deriving DecidableEq, Repr, Inhabited

/-- `[f(x) for x in xs]` where `f` may raise: the first exception ends the loop -/
def mapE {α β} (f : α → E β) : List α → E (List β)
  | [] => .ok []
  | a :: as =>
    match f a with
    | .error e => .error e
    | .ok b =>
      match mapE f as with
      | .error e => .error e
      | .ok bs => .ok (b :: bs)

/-- `RegionData.crosses_origin`: `start >= end` (a region covering a whole circular record ends
    where it starts) -/
def RegionData.crossesOrigin (rd : RegionData) : Bool := decide (rd.start ≥ rd.end)

/-- the antiSMASH structured comment: which NOTE, `Orig. start`, `Orig. end` -/
structure Annotations where
  crossNote : Bool
  origStart : String
  origEnd : String
deriving DecidableEq, Repr, Inhabited

/-- `_build_annotations` -/
def buildAnnotations (rd : RegionData) : Annotations :=
  { crossNote := rd.crossesOrigin, origStart := toString rd.start, origEnd := toString rd.end }

/-! ### Biopython slicing -/

/-- `SimpleLocation._shift` / `CompoundLocation._shift` -/
def shiftLoc (l : Loc) (k : Int) : Loc :=
  match l with
  | .simple p => .simple ⟨p.lo + k, p.hi + k, p.strand⟩
  | .compound ps => .compound (ps.map fun p => ⟨p.lo + k, p.hi + k, p.strand⟩)

/-- the features of `record[start:stop]` -/
def sliceFeatures (fs : List BioFeature) (start stop : Int) : List BioFeature :=
  fs.filterMap fun f =>
    if start ≤ f.loc.start && f.loc.end ≤ stop then some { f with loc := shiftLoc f.loc (-start) } else none

/-- the sequence of `record[start:stop]` for `0 ≤ start`, `0 ≤ stop` -/
def sliceSeq (s : List Char) (start stop : Int) : List Char := (s.take stop.toNat).drop start.toNat

/-- the record written for a region -/
structure Extract where
  seq : List Char
  features : List BioFeature
  annotations : Annotations
deriving DecidableEq, Repr, Inhabited

/-- a feature of the region record; `alias = some i` when it *is* the parent's i-th feature object
    (cross-origin features are not copied), so that changes to it are changes to the parent -/
structure Working where
  f : BioFeature
  «alias» : Option Nat := none
deriving Repr, Inhabited

/-! ### `_build_record_from_cross_origin`, `_build_base_record` -/

/-- "features covering all of the record do so from wherever the record starts" -/
def wholeFix (L : Int) (location : Loc) : Loc :=
  if location.len = L then Loc.simple ⟨0, L, location.strand⟩ else location

/-- one iteration of the loop over `record.features` gathering cross-origin features: the parent's
    feature afterwards (location reassigned or not) and the gathered feature, if any -/
def crossStep (rd : RegionData) (L regionLen : Int) (f : BioFeature) : E (BioFeature × Option BioFeature) :=
  if bridgesOrigin f.loc then
    match offsetLocation f.loc (-rd.start) L with
    | .error e => .error e
    | .ok location =>
      if (wholeFix L location).end > regionLen || bridgesOrigin (wholeFix L location) then .ok (f, none)
      else .ok ({ f with loc := wholeFix L location }, some { f with loc := wholeFix L location })
  else .ok (f, none)

/-- the gathered features in order, each remembering which parent feature it is -/
def collectCross : Nat → List (BioFeature × Option BioFeature) → List Working
  | _, [] => []
  | i, (_, none) :: rest => collectCross (i + 1) rest
  | i, (_, some g) :: rest => ⟨g, some i⟩ :: collectCross (i + 1) rest

/-- the whole loop: the parent's features afterwards and the gathered features -/
def gatherCrossOrigin (rd : RegionData) (L regionLen : Int) (fs : List BioFeature) :
    E (List BioFeature × List Working) :=
  match mapE (crossStep rd L regionLen) fs with
  | .error e => .error e
  | .ok steps => .ok (steps.map (·.1), collectCross 0 steps)

/-- `_build_record_from_cross_origin`: (sequence, features of the region record, parent features afterwards) -/
def buildRecordFromCrossOrigin (rd : RegionData) (rec : BioRecord) :
    E (List Char × List Working × List BioFeature) := do
  if !rd.crossesOrigin then throw "assertion"
  let L := rec.length
  let pre := sliceFeatures rec.features rd.start L
  let post0 := sliceFeatures rec.features 0 rd.end
  let seq := sliceSeq rec.seq rd.start L ++ sliceSeq rec.seq 0 rd.end
  let regionLen : Int := seq.length
  let post ← mapE (fun f => match offsetLocation f.loc (L - rd.start) L with
    | .error e => .error e
    | .ok l => .ok { f with loc := l }) post0
  let (parent, cross) ← gatherCrossOrigin rd L regionLen rec.features
  pure (seq, pre.map (⟨·, none⟩) ++ cross ++ post.map (⟨·, none⟩), parent)

/-- `_build_base_record` -/
def buildBaseRecord (rd : RegionData) (rec : BioRecord) : E (List Char × List Working × List BioFeature) :=
  if rd.crossesOrigin then buildRecordFromCrossOrigin rd rec
  else pure (sliceSeq rec.seq rd.start rd.end,
             (sliceFeatures rec.features rd.start rd.end).map (⟨·, none⟩), rec.features)

/-! ### `_adjust_motif`, `_adjust_protocluster`, `_number_by_position`, `_adjust_features` -/

/-- one of the two qualifiers of `_adjust_motif` -/
def adjustMotifLoc (text : String) (rd : RegionData) (L : Int) : E String :=
  match locFromString text with
  | none => throw "value-error"
  | some loc => do
    let parts := loc.parts.map fun part =>
      let newStart := part.lo - rd.start
      let newEnd := part.hi - rd.start
      if newStart < 0 then (⟨newStart + L, newEnd + L, part.strand⟩ : Part) else ⟨newStart, newEnd, part.strand⟩
    let built ← buildLocationFromOthers (parts.map Loc.simple)
    pure (locToString built)

/-- `_adjust_motif` -/
def adjustMotif (q : Quals) (rd : RegionData) (L : Int) : E Quals := do
  let leader ← match q.leaderLoc with
    | none => pure none
    | some t => do pure (some (← adjustMotifLoc t rd L))
  let tail ← match q.tailLoc with
    | none => pure none
    | some t => do pure (some (← adjustMotifLoc t rd L))
  pure { q with leaderLoc := leader, tailLoc := tail }

/-- `_adjust_protocluster` -/
def adjustProtocluster (f : BioFeature) (p : ProtoArea) (rd : RegionData) (newNumber L : Int) : E BioFeature :=
  if f.type == "protocluster" then
    match offsetLocation p.core (-rd.start) L with
    | .error e => .error e
    | .ok newLoc => .ok { f with q := { f.q with coreLoc := some (locToString newLoc), protoNumber := some newNumber } }
  else .ok { f with q := { f.q with protoNumber := some newNumber } }

/-- Python `d[k] = v` on an insertion-ordered dict -/
def dictSet {α} (d : List (Int × α)) (k : Int) (v : α) : List (Int × α) :=
  match d with
  | [] => [(k, v)]
  | (k', v') :: rest => if k' = k then (k, v) :: rest else (k', v') :: dictSet rest k v

/-- `d[k]` -/
def dictGet {α} (d : List (Int × α)) (k : Int) : E α :=
  match d.find? (·.1 == k) with
  | some kv => pure kv.2
  | none => throw "KeyError"

/-- `Feature.start`: the first part's start, or the last part's on the reverse strand -/
def areaStart (l : Loc) : Int :=
  if l.strand != .rev then (l.parts.head?.map (·.lo)).getD 0 else (l.parts.getLast?.map (·.lo)).getD 0

abbrev PosKey := Int × Int × Int

/-- `position(number)` inside `_number_by_position` -/
def positionKey (rd : RegionData) (L : Int) (number : Int) (loc : Loc) : PosKey :=
  let start := areaStart loc - rd.start
  let start := if start < 0 then start + L
    else if bridgesOrigin loc && !rd.crossesOrigin then start - L
    else start
  (start, -loc.len, number)

/-- tuple comparison -/
def keyLe (a b : PosKey) : Bool :=
  a.1 < b.1 || (a.1 == b.1 && (a.2.1 < b.2.1 || (a.2.1 == b.2.1 && a.2.2 ≤ b.2.2)))

def insertKey (x : PosKey) : List PosKey → List PosKey
  | [] => [x]
  | y :: ys => if keyLe x y then x :: y :: ys else y :: insertKey x ys

/-- `sorted(areas, key=position)` (the keys end in the distinct numbers, so the order is total) -/
def sortKeys (l : List PosKey) : List PosKey := l.foldr insertKey []

/-- `enumerate(..., 1)` turned into the dictionary `{number: new}` -/
def enumerateFrom (n : Int) : List PosKey → List (Int × Int)
  | [] => []
  | k :: ks => (k.2.2, n) :: enumerateFrom (n + 1) ks

/-- `_number_by_position(areas, region, record_length)` -/
def numberByPosition (areas : List (Int × Loc)) (rd : RegionData) (L : Int) : List (Int × Int) :=
  enumerateFrom 1 (sortKeys (areas.map fun a => positionKey rd L a.1 a.2))

/-- `protoclusters_by_original_number` -/
def protoDict (rd : RegionData) : List (Int × ProtoArea) :=
  rd.cands.foldl (fun d c => c.protos.foldl (fun d p => dictSet d p.number p) d) []

def candDict (rd : RegionData) : List (Int × Loc) :=
  rd.cands.foldl (fun d c => dictSet d c.number c.loc) []

def subDict (rd : RegionData) : List (Int × Loc) :=
  rd.subs.foldl (fun d s => dictSet d s.number s.loc) []

structure Renumbering where
  protos : List (Int × Int)
  cands : List (Int × Int)
  subs : List (Int × Int)
deriving Repr, Inhabited

def renumbering (rd : RegionData) (L : Int) : Renumbering :=
  { protos := numberByPosition ((protoDict rd).map fun kv => (kv.1, kv.2.loc)) rd L,
    cands := numberByPosition (candDict rd) rd L,
    subs := numberByPosition (subDict rd) rd L }

/-- `[str(new[int(num)]) for num in numbers]` guarded by `if numbers:` -/
def renumberList (d : List (Int × Int)) (xs : List Int) : E (List Int) :=
  if xs.isEmpty then .ok xs else mapE (dictGet d) xs

/-- the body of the loop of `_adjust_features` for one feature -/
def adjustFeature (rd : RegionData) (L : Int) (rn : Renumbering) (f : BioFeature) : E BioFeature :=
  if f.type == "region" then
    match renumberList rn.cands f.q.candNumbers with
    | .error e => .error e
    | .ok cands =>
      match renumberList rn.subs f.q.subNumbers with
      | .error e => .error e
      | .ok subs => .ok { f with q := { f.q with candNumbers := cands, subNumbers := subs } }
  else if f.type == "cand_cluster" then
    match f.q.candNumber with
    | none => .error "KeyError"
    | some n =>
      match dictGet rn.cands n with
      | .error e => .error e
      | .ok new =>
        match f.q.protoNumbers with
        | none => .error "KeyError"
        | some ps =>
          match mapE (dictGet rn.protos) ps with
          | .error e => .error e
          | .ok newPs => .ok { f with q := { f.q with candNumber := some new, protoNumbers := some newPs } }
  else if f.type == "protocluster" || f.type == "proto_core" then
    match f.q.protoNumber with
    | none => .error "KeyError"
    | some n =>
      match dictGet (protoDict rd) n with
      | .error e => .error e
      | .ok p =>
        match dictGet rn.protos n with
        | .error e => .error e
        | .ok new => adjustProtocluster f p rd new L
  else if f.type == "subregion" then
    match f.q.subNumber with
    | none => .error "KeyError"
    | some n =>
      match dictGet rn.subs n with
      | .error e => .error e
      | .ok new => .ok { f with q := { f.q with subNumber := some new } }
  else if f.type == "CDS_motif" then
    match adjustMotif f.q rd L with
    | .error e => .error e
    | .ok q => .ok { f with q := q }
  else .ok f

/-- `_adjust_features` -/
def adjustFeatures (rd : RegionData) (L : Int) (ws : List Working) : E (List Working) :=
  let rn := renumbering rd L
  mapE (fun w => match adjustFeature rd L rn w.f with
    | .error e => .error e
    | .ok g => .ok { w with f := g }) ws

/-! ### `write_to_genbank` -/

def modifyAt (l : List BioFeature) (i : Nat) (g : BioFeature → BioFeature) : List BioFeature :=
  match l, i with
  | [], _ => []
  | x :: xs, 0 => g x :: xs
  | x :: xs, i + 1 => x :: modifyAt xs i g

/-- changes made to aliased features (location, qualifiers) are changes to the parent's features -/
def applyAliases (parent : List BioFeature) : List Working → List BioFeature
  | [] => parent
  | w :: ws =>
    match w.alias with
    | some i => applyAliases (modifyAt parent i fun f => { f with loc := w.f.loc, q := w.f.q, tag := w.f.tag }) ws
    | none => applyAliases parent ws

/-- the restore loop: `feature.location = original_locations[id(feature)]`,
    `feature.qualifiers = original_qualifiers[id(feature)]` -/
def restore : List BioFeature → List (Loc × Quals × Int) → List BioFeature
  | f :: fs, (l, q, t) :: os => { f with loc := l, q := q, tag := t } :: restore fs os
  | fs, _ => fs

structure Written where
  extract : Extract
  /-- the parent's features when the file has been written, before the restore loop -/
  parentBeforeRestore : List BioFeature
  /-- … and after it -/
  parentAfter : List BioFeature
deriving Repr, Inhabited

/-- `write_to_genbank(region, record, handle)`: the record that is written, and the parent record's
    features afterwards -/
def writeToGenbank (rd : RegionData) (rec : BioRecord) : E Written := do
  let originals := rec.features.map fun f => (f.loc, f.q, f.tag)
  let (seq, ws, parent1) ← buildBaseRecord rd rec
  let adjusted ← adjustFeatures rd rec.length ws
  let parent2 := applyAliases parent1 adjusted
  let annotations := buildAnnotations rd
  pure { extract := { seq := seq, features := adjusted.map (·.f), annotations := annotations },
         parentBeforeRestore := parent2,
         parentAfter := restore parent2 originals }

end ASV.RegionExtract
