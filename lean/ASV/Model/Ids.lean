/-
  C16 model — record / gene identifier sanitisation.

  Literal transcription of (the repaired, see fixes/D14*, fixes/D15*)
    antismash/common/record_processing.py : generate_unique_id, fix_record_name_id (+ _shorten_ids),
                                            the id part of pre_process_sequences
    antismash/common/secmet/features/cds_feature.py : _sanitise_id_value, CDSFeature.get_name
    antismash/common/secmet/record.py : Record.add_gene (name index), Record.add_cds_feature

  Strings are `List Char` (Python `str` = sequence of code points).  Python sets of strings are
  lists used only through membership (`contains`) and `setAdd`.  The three regular expressions of
  `_shorten_ids` are deterministic scanners (justification next to each).
  No imports outside ASV.Model / ASV.Generated.
-/
import ASV.Model.Loc
import ASV.Model.LocString
import ASV.Generated.Ids
namespace ASV.Ids
open ASV.Generated.Ids

abbrev Str := List Char

/-- the errors the modelled code can raise; `fuel` and `assertion` are proved unreachable -/
inductive Err where
  | runtime     -- RuntimeError of generate_unique_id (max_length exceeded)
  | noName      -- AntismashInputError("record has no name")
  | noMatch     -- AntismashInputError("no sequences matched filter: …")
  | assertion   -- the `assert len(all_record_ids) == len(sequences)`
  | fuel        -- (model only) the `while name in existing_ids` loop did not stop
  deriving DecidableEq, Repr

/-- `set.add` -/
def setAdd (x : Str) (s : List Str) : List Str := if s.contains x then s else x :: s

/-! ### generate_unique_id -/

/-- `f"{prefix}_{counter}"` -/
def mkName (pre : Str) (counter : Nat) : Str := pre ++ '_' :: Nat.toDigits 10 counter

/-- the `while name in existing_ids: counter += 1` loop with explicit fuel -/
def genLoop (pre : Str) (taken : List Str) : Nat → Nat → Option (Str × Nat)
  | 0, _ => none
  | fuel + 1, c => if taken.contains (mkName pre c) then genLoop pre taken fuel (c + 1)
                   else some (mkName pre c, c)

/-- `generate_unique_id(prefix, existing_ids, start, max_length)`; `maxLength ≤ 0` = no limit.
    Fuel `|taken| + 1` always suffices (`Proofs/Ids.genLoop_total`). -/
def generateUniqueId (pre : Str) (taken : List Str) (start : Nat) (maxLength : Int) : Except Err (Str × Nat) :=
  match genLoop pre taken (taken.length + 1) start with
  | none => .error .fuel
  | some (name, c) =>
    if 0 < maxLength ∧ maxLength < (name.length : Int) then .error .runtime else .ok (name, c)

/-! ### the regular expressions of `_shorten_ids` as scanners (ASCII classes) -/

/-- `\w` (ASCII part) -/
def isWord (c : Char) : Bool := c.isAlphanum || c == '_'

/-- `(\d+)\b` at the head of `s`: the maximal digit run, non-empty, followed by the end of the
    string or a non-word character.  Greedy = only candidate: after fewer digits the next
    character is a digit, so `\b` (digit|digit) fails. -/
def digitsThenBoundary (s : Str) : Option Str :=
  let ds := s.takeWhile Char.isDigit
  let rest := s.dropWhile Char.isDigit
  if ds.isEmpty then none
  else match rest with
    | [] => some ds
    | c :: _ => if isWord c then none else some ds

/-- `x?` : consume the character if it is there.  In every use below, skipping a present `x`
    cannot lead to a match (the next pattern element would have to match `x` and cannot). -/
def optChar (x : Char) : Str → Str
  | c :: cs => if c == x then cs else c :: cs
  | [] => []

/-- `onti?g?(\d+)\b` anchored at the head of `s` -/
def matchContigAt : Str → Option Str
  | 'o' :: 'n' :: 't' :: r => digitsThenBoundary (optChar 'g' (optChar 'i' r))
  | _ => none

/-- `caff?o?l?d?(\d+)\b` anchored at the head of `s` -/
def matchScaffoldAt : Str → Option Str
  | 'c' :: 'a' :: 'f' :: r => digitsThenBoundary (optChar 'd' (optChar 'l' (optChar 'o' (optChar 'f' r))))
  | _ => none

/-- `re.search` for a pattern without look-behind: leftmost start position that matches -/
def searchFrom (m : Str → Option Str) : Str → Option Str
  | [] => m []
  | c :: cs => match m (c :: cs) with
    | some r => some r
    | none => searchFrom m cs

/-- `\bc(\d+)\b`: `prevWord` says whether the character before the current position is a word
    character (start of string: no) -/
def searchC (prevWord : Bool) : Str → Option Str
  | [] => none
  | c :: cs =>
    match (if !prevWord && c == 'c' then digitsThenBoundary cs else none) with
    | some r => some r
    | none => searchC (isWord c) cs

/-- `int(match.group(1))` for ASCII digits -/
def digitsToNat (ds : Str) : Nat := ds.foldl (fun acc c => acc * 10 + (c.toNat - '0'.toNat)) 0

/-- the contig number `_shorten_ids` extracts, if any -/
def contigNumber (s : Str) : Option Nat :=
  match searchFrom matchContigAt s with
  | some ds => some (digitsToNat ds)
  | none =>
    match searchFrom matchScaffoldAt s with
    | some ds => some (digitsToNat ds)
    | none =>
      match searchC false s with
      | some ds => some (digitsToNat ds)
      | none => none

/-- `f"{n:05d}"` -/
def pad5 (n : Nat) : Str :=
  let ds := Nat.toDigits 10 n
  List.replicate (5 - ds.length) '0' ++ ds

/-- `s[-k:]` for `k > 0` -/
def lastN (k : Nat) (s : Str) : Str := s.drop (s.length - k)

/-- the number `_shorten_ids` uses: parsed from the id, else the record index -/
def contigNoOf (recordIndex : Nat) (s : Str) : Nat :=
  match contigNumber s with
  | some n => n
  | none => recordIndex

/-- `_shorten_ids(idstring)` for a record with the given `record_index` (repaired, D15:
    `number = f"{contig_no:05d}"[-12:]`, `f"c{number}_{idstring[:12 - len(number)]}.."`) -/
def shortenIds (recordIndex : Nat) (s : Str) : Str :=
  let number := lastN 12 (pad5 (contigNoOf recordIndex s))
  'c' :: number ++ '_' :: s.take (12 - number.length) ++ ['.', '.']

/-! ### fix_record_name_id -/

/-- the character loop `for char in x: if char in illegal_chars: x = x.replace(char, "")`
    (iterates the original string, every replace removes all occurrences: a filter) -/
def strip (s : Str) : Str := s.filter fun c => !illegalRecordChars.contains c

structure Rec where
  id : Str
  name : Str
  orig : Option Str      -- original_id
  index : Nat            -- record_index (1-based)
  acc : Option Str := none   -- record.annotations.get("accession")
  deriving DecidableEq, Repr

/-- `s[-2]` -/
def secondLast (s : Str) : Option Char := if s.length < 2 then none else s[s.length - 2]?

/-- Python truthiness of `record.original_id` -/
def origSet : Option Str → Bool
  | some (_ :: _) => true
  | _ => false

/-- `record.id.partition(".")[0]` -/
def dotPrefix (s : Str) : Str := s.takeWhile (· != '.')

/-- the RefSeq test: `id[-2] == "." and id.count(".") == 1 and len(prefix) <= 16 and prefix not in ids` -/
def refseqOk (taken : List Str) (s : Str) : Bool :=
  secondLast s == some '.' && s.count '.' == 1 && decide ((dotPrefix s).length ≤ 16) && !taken.contains (dotPrefix s)

/-- `name, _ = generate_unique_id(record.id[:12], all_record_ids, max_length=16)`, then `add` -/
def uniqueFallback (taken : List Str) (pre : Str) (maxLength : Int) : Except Err (Str × List Str) :=
  match generateUniqueId pre taken 0 maxLength with
  | .error e => .error e
  | .ok (n, _) => .ok (n, setAdd n taken)

/-- first block of `fix_record_name_id`: `if len(record.id) > 16 and not allow_long_names: …`;
    returns the new id and set -/
def shortenStep (allowLong : Bool) (taken : List Str) (r : Rec) : Except Err (Str × List Str) :=
  if r.id.length > 16 && !allowLong then
    if refseqOk taken r.id then .ok (dotPrefix r.id, setAdd (dotPrefix r.id) taken)
    else if !taken.contains (shortenIds r.index r.id) then
      .ok (shortenIds r.index r.id, setAdd (shortenIds r.index r.id) taken)
    else uniqueFallback taken (r.id.take 12) 16
  else .ok (r.id, taken)

/-- last block (repaired, D14): strip the illegal characters, keep the result unique -/
def stripStep (allowLong : Bool) (taken : List Str) (id1 : Str) : Except Err (Str × List Str) :=
  if strip id1 != id1 then
    if taken.contains (strip id1) then
      if allowLong then uniqueFallback taken (strip id1) (-1)
      else uniqueFallback taken ((strip id1).take 12) 16
    else .ok (strip id1, setAdd (strip id1) taken)
  else .ok (id1, taken)

/-- the `name` handling: shortened like the id (no uniqueness), then stripped -/
def fixName (allowLong : Bool) (r : Rec) : Str :=
  strip (if r.name.length > 16 && !allowLong then shortenIds r.index r.name else r.name)

/-- `if not record.original_id and old_id != record.id: record.original_id = old_id` -/
def fixOrig (r : Rec) (newId : Str) : Option Str :=
  if !origSet r.orig && r.id != newId then some r.id else r.orig

/-- `if 'accession' in record.annotations and len(record.annotations['accession']) > 16:
    record.annotations['accession'] = _shorten_ids(acc)` (not guarded by `allow_long_names`) -/
def fixAcc (r : Rec) : Option Str :=
  match r.acc with
  | some a => if a.length > 16 then some (shortenIds r.index a) else some a
  | none => none

/-- `fix_record_name_id(record, all_record_ids, allow_long_names)` returning the altered record
    and set -/
def fixRecordNameId (allowLong : Bool) (taken : List Str) (r : Rec) : Except Err (Rec × List Str) :=
  match shortenStep allowLong taken r with
  | .error e => .error e
  | .ok (id1, taken1) =>
    match stripStep allowLong taken1 id1 with
    | .error e => .error e
    | .ok (id2, taken2) =>
      .ok ({ r with id := id2, name := fixName allowLong r, orig := fixOrig r id2, acc := fixAcc r }, taken2)

/-! ### pre_process_sequences, identifier part -/

/-- `len({seq.id for seq in sequences}) < len(sequences)` -/
def hasDup : List Str → Bool
  | [] => false
  | x :: xs => xs.contains x || hasDup xs

/-- the renaming loop over a fresh set -/
def dupPass : List Rec → List Str → Except Err (List Rec × List Str)
  | [], taken => .ok ([], taken)
  | r :: rs, taken =>
    if taken.contains r.id then
      match generateUniqueId r.id taken 0 (-1) with
      | .error e => .error e
      | .ok (n, _) =>
        match dupPass rs (setAdd n taken) with
        | .error e => .error e
        | .ok (out, t) => .ok ({ r with orig := some r.id, id := n } :: out, t)
    else
      match dupPass rs (setAdd r.id taken) with
      | .error e => .error e
      | .ok (out, t) => .ok (r :: out, t)

/-- `for record in sequences: fix_record_name_id(record, all_record_ids, allow_long_headers)` -/
def fixAll (allowLong : Bool) : List Str → List Rec → Except Err (List Rec)
  | _, [] => .ok []
  | taken, r :: rs =>
    match fixRecordNameId allowLong taken r with
    | .error e => .error e
    | .ok (r', t') =>
      match fixAll allowLong t' rs with
      | .error e => .error e
      | .ok out => .ok (r' :: out)

/-- records as read: `record_index = i + 1`, `original_id = None` -/
def mkRecs (start : Nat) : List (Str × Str × Option Str) → List Rec
  | [] => []
  | (i, n, a) :: rest => ⟨i, n, none, start, a⟩ :: mkRecs (start + 1) rest

/-- the uniqueness block: `all_record_ids` and the (possibly renamed) records -/
def uniquePass (recs : List Rec) : Except Err (List Rec × List Str) :=
  let ids := recs.map (·.id)
  if hasDup ids then
    match dupPass recs [] with
    | .error e => .error e
    | .ok (out, t) => if t.length != recs.length then .error .assertion else .ok (out, t)
  else .ok (recs, ids)

/-- `for record in sequences: if not record.id: raise AntismashInputError("record has no name")` -/
def checkNames (recs : List Rec) : Except Err (List Rec) :=
  if recs.any (·.id.isEmpty) then .error .noName else .ok recs

/-- the identifier handling of `pre_process_sequences` (with `checking_required`): input
    `(id, name, accession annotation)` per record in file order -/
def preProcessIds (allowLong : Bool) (inp : List (Str × Str × Option Str)) : Except Err (List Rec) :=
  match uniquePass (mkRecs 1 inp) with
  | .error e => .error e
  | .ok (recs1, taken) =>
    match fixAll allowLong taken recs1 with
    | .error e => .error e
    | .ok recs2 => checkNames recs2

/-! ### the options around the identifier handling: `checking_required`, `--limit-to-record` -/

/-- `checking_required = not (options.reuse_results or options.skip_sanitisation)` -/
def checkingRequired (reuse skip : Bool) : Bool := !(reuse || skip)

/-- `Record.has_name(name)`: the current id, or the remembered original id -/
def hasName (r : Rec) (name : Str) : Bool :=
  if name == r.id then true
  else match r.orig with
    | some o => name == o
    | none => false

/-- `filter_records_by_name(sequences, target)`: the skip mark per record (`True` = skipped);
    an empty target keeps everything, a target nobody carries is an input error -/
def filterByName (recs : List Rec) (target : Str) : Except Err (List Bool) :=
  if target.isEmpty then .ok (recs.map fun _ => false)
  else if recs.countP (·.id == target) == 0 then .error .noMatch
  else .ok (recs.map fun r => r.id != target)

structure Options where
  reuse : Bool := false          -- options.reuse_results
  skip : Bool := false           -- options.skip_sanitisation
  allowLong : Bool := false      -- options.allow_long_headers
  limitTo : Str := []            -- options.limit_to_record

/-- `pre_process_sequences` as far as identifiers and the name filter go: sanitise unless results
    are reused / sanitisation is switched off, check that every record has a name, apply
    `--limit-to-record`.  Result: the records and their skip marks. -/
def preProcess (o : Options) (inp : List (Str × Str × Option Str)) : Except Err (List Rec × List Bool) :=
  match (if checkingRequired o.reuse o.skip then preProcessIds o.allowLong inp else checkNames (mkRecs 1 inp)) with
  | .error e => .error e
  | .ok recs =>
    match filterByName recs o.limitTo with
    | .error e => .error e
    | .ok skips => .ok (recs, skips)

/-! ### gene identifiers: `_sanitise_id_value`, `add_gene`, `add_cds_feature` -/

/-- `_sanitise_id_value` on a present value: every illegal character becomes `_` -/
def sanitiseIdValue (s : Str) : Str := s.map fun c => if illegalGeneChars.contains c then '_' else c

structure Cds where
  loc : Loc
  locusTag : Option Str
  gene : Option Str
  proteinId : Option Str
  deriving Repr

/-- Python truthiness of an optional string -/
def truthy : Option Str → Bool
  | some (_ :: _) => true
  | _ => false

/-- `CDSFeature.get_name()`: locus_tag, gene, protein_id in that order (`none` = ValueError) -/
def Cds.getName (c : Cds) : Option Str :=
  if truthy c.locusTag then c.locusTag else if truthy c.gene then c.gene
  else if truthy c.proteinId then c.proteinId else none

/-- what `CDSFeature.__init__` does with the three identifiers -/
def mkCds (loc : Loc) (locusTag gene proteinId : Option Str) : Cds :=
  ⟨loc, locusTag.map sanitiseIdValue, gene.map sanitiseIdValue, proteinId.map sanitiseIdValue⟩

inductive GErr where
  | noIdentifier   -- ValueError: CDSFeature requires at least one of …
  | dupLocation    -- SecmetInvalidInputError: Multiple CDS features have the same location
  | dupName        -- SecmetInvalidInputError: multiple CDS features have the same name for mapping
  deriving DecidableEq, Repr

/-- the part of a `Record` the gene-name handling reads and writes: the CDS features added so
    far as (name at the time of adding, location) — `_cds_by_name` / `_cds_by_location` have
    exactly these keys — and the Gene features as (name, location) -/
structure GState where
  cdss : List (Str × Loc) := []
  genes : List (Str × Loc) := []

def GState.cdsByName (s : GState) (n : Str) : Option Loc := (s.cdss.find? (·.1 == n)).map (·.2)
/-- `str(cds_feature.location) in self._cds_by_location` (the key is the textual form) -/
def GState.hasLocation (s : GState) (l : Loc) : Bool := s.cdss.any (locChars ·.2 == locChars l)

/-! #### `_location_checksum`: `f"{zlib.crc32(str(location).encode("utf-8")):x}"` -/

/-- one bit of the reflected CRC-32 (polynomial 0xEDB88320) -/
def crcBit (crc : Nat) : Nat := if crc % 2 == 1 then (crc >>> 1) ^^^ 0xEDB88320 else crc >>> 1

def crcByte (crc byte : Nat) : Nat :=
  crcBit (crcBit (crcBit (crcBit (crcBit (crcBit (crcBit (crcBit (crc ^^^ byte))))))))

/-- `zlib.crc32(bytes)` -/
def crc32 (bytes : List Nat) : Nat := (bytes.foldl crcByte 0xFFFFFFFF ^^^ 0xFFFFFFFF) &&& 0xFFFFFFFF

/-- `str.encode("utf-8")` -/
def utf8 (s : Str) : List Nat := s.flatMap fun c => (String.utf8EncodeChar c).map (·.toNat)

def hexChar (d : Nat) : Char := if d < 10 then Char.ofNat (48 + d) else Char.ofNat (87 + d)

/-- most significant digit first; `fuel` digits at most -/
def hexAux : Nat → Nat → Str → Str
  | 0, _, acc => acc
  | fuel + 1, n, acc => if n / 16 = 0 then hexChar (n % 16) :: acc else hexAux fuel (n / 16) (hexChar (n % 16) :: acc)

/-- `f"{n:x}"` for `n < 2^32` -/
def toHex (n : Nat) : Str := hexAux 8 n []

/-- `_location_checksum(feature)` -/
def locationChecksum (l : Loc) : Str := toHex (crc32 (utf8 (locChars l)))

/-- `Record.add_gene` (name index only) -/
def addGene (s : GState) (name : Str) (loc : Loc) : GState := { s with genes := s.genes ++ [(name, loc)] }

/-- `Record.add_cds_feature` for a feature with a translation (repaired, D60: a renamed splice
    variant whose generated name is taken is rejected with the same input error, not by `assert`).
    Returns the new state and the name the feature ended up with. -/
def addCds (s : GState) (c : Cds) : Except GErr (GState × Str) :=
  match c.getName with
  | none => .error .noIdentifier      -- (raised by the constructor already)
  | some name =>
    if s.hasLocation c.loc then .error .dupLocation else
    match s.cdsByName name with
    | none => .ok ({ s with cdss := s.cdss ++ [(name, c.loc)] }, name)
    | some existing =>
      if !truthy c.locusTag then .error .dupName
      else if !(ASV.locationsOverlap c.loc existing ||
                (s.genes.filter (·.1 == name)).any fun g => ASV.locationsOverlap c.loc g.2) then .error .dupName
      else
        -- locus_tag is truthy here, so get_name() is the new locus_tag
        let new := name ++ '_' :: locationChecksum c.loc
        if (s.cdsByName new).isSome then .error .dupName
        else .ok ({ s with cdss := s.cdss ++ [(new, c.loc)] }, new)

/-- one call on the record: `add_gene(Gene(loc, locus_tag=name))` or
    `add_cds_feature(CDSFeature(loc, locus_tag=…, gene=…, protein_id=…))` -/
inductive GOp where
  | gene (name : Str) (loc : Loc)
  | cds (loc : Loc) (locusTag gene proteinId : Option Str)

/-- a rejected call raises before the record is modified -/
def applyOp (s : GState) : GOp → GState
  | .gene name loc => addGene s name loc
  | .cds loc lt g p =>
    match addCds s (mkCds loc lt g p) with
    | .ok (s', _) => s'
    | .error _ => s

def runOps (s : GState) (ops : List GOp) : GState := ops.foldl applyOp s

/-! ### reading a record: `Record.from_biopython` → `CDSFeature.from_biopython` / `Gene.from_biopython` -/

/-- a biopython `gene` or `CDS` feature: location and the qualifiers that carry identifiers
    (`none` = qualifier absent) -/
structure BioFeat where
  isCds : Bool
  loc : Loc
  locusTag : Option Str := none
  gene : Option Str := none
  proteinId : Option Str := none
  pseudo : Bool := false       -- a `pseudo` or `pseudogene` qualifier is present

/-- `pop_locus_qualifier(qualifiers, allow_missing=True, default=None)`: missing or empty → None,
    otherwise the value with the blanks (inserted by biopython at line breaks) removed -/
def popLocus : Option Str → Option Str
  | none => none
  | some s => if s.isEmpty then none else some (s.filter (· != ' '))

/-- `"cds%d_%d" % (start, end)` / `"pseudo%d_%d"` / `f"gene{start}_{end}"` -/
def positionalName (pre : Str) (l : Loc) : Str := pre ++ intChars l.start ++ '_' :: intChars l.end

/-- the `CDSFeature` that `CDSFeature.from_biopython` builds (identifier part): a feature without
    any identifier is named after its position -/
def cdsOfBio (f : BioFeat) : Cds :=
  let lt := popLocus f.locusTag
  let gene := if truthy f.gene || truthy f.proteinId || truthy lt then f.gene
              else some (positionalName (if f.pseudo then "pseudo".toList else "cds".toList) f.loc)
  mkCds f.loc lt gene f.proteinId

/-- `Gene.from_biopython(...).get_name()` -/
def geneNameOfBio (f : BioFeat) : Str :=
  let locus := popLocus f.locusTag
  let name := if truthy f.gene then f.gene else none          -- `pop("gene", [""])[0] or None`
  let name := if truthy locus || truthy name then name else some (positionalName "gene".toList f.loc)
  if truthy locus then locus.getD [] else name.getD []

/-- the feature loop of `Record.from_biopython` for gene / CDS features: the first
    `SecmetInvalidInputError` rejects the whole record -/
def fromBiopython : GState → List BioFeat → Except GErr GState
  | s, [] => .ok s
  | s, f :: fs =>
    if f.isCds then
      match addCds s (cdsOfBio f) with
      | .error e => .error e
      | .ok (s', _) => fromBiopython s' fs
    else fromBiopython (addGene s (geneNameOfBio f) f.loc) fs

end ASV.Ids
