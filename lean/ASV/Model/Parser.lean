/-
  Model of the rule-text front end of `antismash/common/hmm_rule_parser/rule_parser.py`
  (`TokenTypes.classify`, `is_legal_identifier`, `Tokeniser`, `Token`, `Parser.*`,
  `find_condition_identifiers`, the constructor checks of the condition classes,
  `Conditions.__str__` family, `DetectionRule.__init__ / reconstruct_rule_text`) and of
  `cluster_prediction.create_rules`.

  Literal transcription: same order of checks (so the *kind* of the first error agrees), the
  alias splice happens when the parser advances onto an alias identifier (`PS.advance`), raw
  `next(self.tokens)` steps (DESCRIPTION / EXAMPLE free text) do not splice.  Python's recursion
  and `while` loops become recursion on a fuel argument; every call consumes a token, so the
  fuel handed in by `parseRule`/`parseText` (computed from the number of remaining tokens) is
  never exhausted (`Err.fuel` is reported by the driver and counted as a disagreement).

  The model is of the *repaired* code (fixes/D17_nested_not_str.patch: `not (not a)` keeps its
  parentheses when printed; fixes/D43_cds_lone_group_str.patch: `cds((a))` keeps the inner
  parentheses when printed; fixes/D42_alias_self_reference.patch: an alias whose name already
  occurs as an identifier inside an alias definition is rejected).
-/
import ASV.Model.Rules
import ASV.Generated.RuleTokens
namespace ASV.Parser
open ASV ASV.Rules

/-- `TokenTypes` -/
inductive TT where
  | groupOpen | groupClose | listOpen | listClose | identifier | minimum | cds | andOp | orOp
  | notOp | int | comma | score | dot | rule | description | cutoff | neighbourhood | conditions
  | superiors | related | text | category | define | asKw | example | extenders
deriving DecidableEq, Repr, Inhabited

/-- member name as written in the Python enum -/
def TT.ofName : String → Option TT
  | "GROUP_OPEN" => some .groupOpen | "GROUP_CLOSE" => some .groupClose
  | "LIST_OPEN" => some .listOpen | "LIST_CLOSE" => some .listClose
  | "IDENTIFIER" => some .identifier | "MINIMUM" => some .minimum | "CDS" => some .cds
  | "AND" => some .andOp | "OR" => some .orOp | "NOT" => some .notOp | "INT" => some .int
  | "COMMA" => some .comma | "SCORE" => some .score | "DOT" => some .dot | "RULE" => some .rule
  | "DESCRIPTION" => some .description | "CUTOFF" => some .cutoff
  | "NEIGHBOURHOOD" => some .neighbourhood | "CONDITIONS" => some .conditions
  | "SUPERIORS" => some .superiors | "RELATED" => some .related | "TEXT" => some .text
  | "CATEGORY" => some .category | "DEFINE" => some .define | "AS" => some .asKw
  | "EXAMPLE" => some .example | "EXTENDERS" => some .extenders
  | _ => none

def TT.name : TT → String
  | .groupOpen => "GROUP_OPEN" | .groupClose => "GROUP_CLOSE" | .listOpen => "LIST_OPEN"
  | .listClose => "LIST_CLOSE" | .identifier => "IDENTIFIER" | .minimum => "MINIMUM" | .cds => "CDS"
  | .andOp => "AND" | .orOp => "OR" | .notOp => "NOT" | .int => "INT" | .comma => "COMMA"
  | .score => "SCORE" | .dot => "DOT" | .rule => "RULE" | .description => "DESCRIPTION"
  | .cutoff => "CUTOFF" | .neighbourhood => "NEIGHBOURHOOD" | .conditions => "CONDITIONS"
  | .superiors => "SUPERIORS" | .related => "RELATED" | .text => "TEXT" | .category => "CATEGORY"
  | .define => "DEFINE" | .asKw => "AS" | .example => "EXAMPLE" | .extenders => "EXTENDERS"

/-- `TokenTypes.is_a_rule_keyword`: `RULE <= value and value != TEXT` (checked against the
    regenerated numeric table by `C02.keyword_table_agrees`) -/
def TT.isRuleKeyword : TT → Bool
  | .rule | .description | .cutoff | .neighbourhood | .conditions | .superiors | .related
  | .category | .define | .asKw | .example | .extenders => true
  | _ => false

/-- `Tokeniser.mapping.get(text)` through the regenerated table -/
def keywordOf (text : String) : Option TT :=
  (Generated.RuleTokens.mapping.lookup text).bind TT.ofName

/-- `str.isalpha` / `isdigit` / `isalnum`, ASCII only (generators emit ASCII) -/
def isIdChar (c : Char) : Bool := c.isAlpha || c.isDigit || c == '_' || c == '-'

/-- `is_legal_identifier` -/
def isLegalIdentifier (text : String) : Bool :=
  text.toList.any Char.isAlpha && text.toList.all isIdChar && text != "cluster" && text != "score"

/-- `text.isdigit()` -/
def isDigits (cs : List Char) : Bool := !cs.isEmpty && cs.all Char.isDigit

/-- `TokenTypes.classify` -/
def classify (text : String) : TT :=
  match keywordOf text with
  | some t => t
  | none => if isDigits text.toList then .int
            else if isLegalIdentifier text then .identifier else .text

/-- `Token` (line/position are only used in error messages and are not modelled) -/
structure Tok where
  text : String
  type : TT
  aliased : Bool := false
deriving DecidableEq, Repr, Inhabited

def mkTok (text : String) : Tok := ⟨text, classify text, false⟩

inductive Err where
  | syntax   -- RuleSyntaxError
  | value    -- ValueError
  | attr     -- AttributeError (ExampleRecord checks, `None.type`)
  | stop     -- StopIteration escaping `_consume` (empty alias body; unreachable for parser-built aliases)
  | fuel     -- model artefact, never expected
deriving DecidableEq, Repr, Inhabited

def Err.name : Err → String
  | .syntax => "syntax" | .value => "value" | .attr => "attr" | .stop => "stop" | .fuel => "fuel"

/-! ### Tokeniser -/

/-- `string.whitespace` -/
def isWs (c : Char) : Bool :=
  c == ' ' || c == '\t' || c == '\n' || c == '\r' || c == '\x0b' || c == '\x0c'

/-- `char in Tokeniser.mapping` -/
def isSingleCharToken (c : Char) : Bool := (Generated.RuleTokens.mapping.lookup (String.singleton c)).isSome

/-- `Tokeniser._finalise`; `sym` is the current symbol, reversed -/
def finalise (sym : List Char) (acc : List Tok) : List Tok :=
  if sym.isEmpty then acc else mkTok (String.ofList sym.reverse) :: acc

/-- `Tokeniser.tokenise`: `inComment` = between a `#` and the next newline; `acc` reversed -/
def tokGo : List Char → Bool → List Char → List Tok → Except Err (List Tok)
  | [], _, sym, acc => .ok (finalise sym acc).reverse
  | c :: cs, true, sym, acc => tokGo cs (c != '\n') sym acc
  | c :: cs, false, sym, acc =>
      if isWs c then tokGo cs false [] (finalise sym acc)
      else if isSingleCharToken c then tokGo cs false [] (mkTok (String.singleton c) :: finalise sym acc)
      else if c.isAlphanum || c == '-' || c == '_' || c == '.' then tokGo cs false (c :: sym) acc
      else if c == '#' then tokGo cs true [] (finalise sym acc)
      else if !sym.isEmpty && (c == ':' || c == '/') then tokGo cs false (c :: sym) acc
      else .error .syntax

def tokenise (text : String) : Except Err (List Tok) := tokGo text.toList false [] []

/-! ### Printing (`__str__`) and constructor checks of the condition classes -/

def insertStr (x : String) : List String → List String
  | [] => [x]
  | y :: ys => if x < y then x :: y :: ys else if x == y then y :: ys else y :: insertStr x ys
/-- `sorted(set(l))` -/
def sortDedupStr (l : List String) : List String := l.foldr insertStr []

def hasDupStr : List String → Bool
  | [] => false
  | x :: xs => xs.contains x || hasDupStr xs

/-- Python `str` values are modelled as character lists (`String.ofList` at the boundary) -/
def notSpC : List Char := "not ".toList
def notParC : List Char := "not (".toList
def orSep : List Char := " or ".toList
def andSep : List Char := " and ".toList
def notPrefix (neg : Bool) : List Char := if neg then notSpC else []

def Cond.isConj : Cond → Bool
  | .conj _ => true
  | _ => false

def Cond.isGroup : Cond → Bool
  | .group _ _ => true
  | _ => false

def isSingleton {α} : List α → Bool
  | [_] => true
  | _ => false

/-- `sep.join(parts)` -/
def joinChars (sep : List Char) : List (List Char) → List Char
  | [] => []
  | [a] => a
  | a :: rest => a ++ sep ++ joinChars sep rest

mutual
/-- `str(condition)` -/
def printChars : Cond → List Char
  | .single neg n => notPrefix neg ++ n.toList
  | .score neg n s => notPrefix neg ++ "minscore(".toList ++ n.toList ++ ", ".toList ++ (toString s).toList ++ [')']
  | .minimum neg c opts =>
      notPrefix neg ++ "minimum(".toList ++ (toString c).toList ++ ", [".toList
        ++ joinChars ", ".toList ((sortDedupStr opts).map String.toList) ++ "])".toList
  | .cds neg subs =>
      let t := printJoin orSep subs
      -- D26 fix: a lone parenthesised operand keeps its parentheses (`cds(a)` is not valid)
      let t := if isSingleton subs && subs.all Cond.isGroup && !(t.head? == some '(') then '(' :: t ++ [')'] else t
      notPrefix neg ++ "cds(".toList ++ t ++ [')']
  | .group neg subs =>
      let t := printJoin orSep subs
      if isSingleton subs && !(subs.all Cond.isConj) then
        -- D17 fix: a directly nested negation keeps its parentheses
        if neg && notSpC.isPrefixOf t then notParC ++ t ++ [')'] else notPrefix neg ++ t
      else notPrefix neg ++ '(' :: t ++ [')']
  | .conj subs => printJoin andSep subs
def printJoin (sep : List Char) : List Cond → List Char
  | [] => []
  | [c] => printChars c
  | c :: cs => printChars c ++ sep ++ printJoin sep cs
end

def printCond (c : Cond) : String := String.ofList (printChars c)

def printConds (subs : List Cond) : List String := subs.map printCond

mutual
/-- `contains_positive_condition` -/
def positive : Cond → Bool
  | .single neg _ => !neg
  | .score neg _ _ => !neg
  | .minimum neg _ _ => !neg
  | .cds neg subs => !neg && (subs.isEmpty || anyPositive subs)
  | .group neg subs => !neg && (subs.isEmpty || anyPositive subs)
  | .conj subs => subs.isEmpty || anyPositive subs
def anyPositive : List Cond → Bool
  | [] => false
  | c :: cs => positive c || anyPositive cs
end

/-- `Conditions.__init__`: repeated operands (compared by printed text) are refused -/
def checkOperands (subs : List Cond) : Except Err Unit :=
  if hasDupStr (printConds subs) then .error .value else .ok ()

def mkGroup (neg : Bool) (subs : List Cond) : Except Err Cond := do
  checkOperands subs; pure (.group neg subs)
def mkCds (neg : Bool) (subs : List Cond) : Except Err Cond := do
  checkOperands subs; pure (.cds neg subs)
def mkConj (subs : List Cond) : Except Err Cond := do
  checkOperands subs; pure (.conj subs)
/-- `MinimumCondition.__init__` -/
def mkMinimum (neg : Bool) (count : Nat) (opts : List String) : Except Err Cond :=
  if hasDupStr opts then .error .value
  else if count < 1 then .error .value
  else .ok (.minimum neg count opts)

/-! ### Parser state -/

/-- `ExampleRecord` -/
structure Example where
  database : String
  accession : String
  version : Nat
  start : Nat
  stop : Nat
  compound : Option String
deriving Repr, Inhabited

/-- `DetectionRule` (`description` = the texts of the skipped tokens, joined by a blank in Python) -/
structure Rule where
  name : String
  category : String
  cutoff : Nat
  neighbourhood : Nat
  conditions : Cond
  description : List String := []
  examples : List Example := []
  superiors : List String := []
  related : List String := []
  extenders : Option Cond := none
deriving Repr, Inhabited

/-- what a `Parser` instance is constructed with -/
structure Cfg where
  sigs : List String
  cats : List String
  /-- `Multipliers` as exact fractions (numerator, denominator) -/
  cutoffMul : Nat × Nat := (1, 1)
  nbhMul : Nat × Nat := (1, 1)

abbrev Aliases := List (String × List Tok)

structure PS where
  cur : Option Tok
  rest : List Tok
  aliases : Aliases
  rules : List Rule
  /-- `_consumed_tokens`, newest first -/
  consumed : List Tok := []
deriving Repr, Inhabited

def PS.curIs (s : PS) (t : TT) : Bool :=
  match s.cur with
  | some c => c.type == t
  | none => false

/-- `self.current_token and self.current_token.aliased` -/
def PS.curAliased (s : PS) : Bool :=
  match s.cur with
  | some c => c.aliased
  | none => false

def PS.ruleByName (s : PS) (n : String) : Option Rule := s.rules.find? (·.name == n)

/-- the second half of `_consume`: step to the next token, splicing in the alias's tokens when
    that token is an alias identifier (the first spliced token is not looked up again) -/
def PS.advance (s : PS) : Except Err PS :=
  match s.rest with
  | [] => .ok { s with cur := none }
  | n :: rest =>
    if n.type == .identifier then
      match s.aliases.lookup n.text with
      | some body =>
        match body ++ rest with
        | [] => .error .stop
        | b :: more => .ok { s with cur := some b, rest := more }
      | none => .ok { s with cur := some n, rest := rest }
    else .ok { s with cur := some n, rest := rest }

/-- `_consume(expected)` -/
def consume (expected : TT) (s : PS) : Except Err (Tok × PS) :=
  match s.cur with
  | none => .error .syntax
  | some c =>
    if c.type != expected then .error .syntax
    else do
      let s' ← ({ s with consumed := c :: s.consumed }).advance
      pure (c, s')

/-- value of an INT token (`int(token_text)`) -/
def digitsVal (cs : List Char) : Nat := cs.foldl (fun n c => 10 * n + (c.toNat - '0'.toNat)) 0

def consumeInt (s : PS) : Except Err (Nat × PS) := do
  let (t, s) ← consume .int s
  pure (digitsVal t.text.toList, s)

def consumeId (s : PS) : Except Err (String × PS) := do
  let (t, s) ← consume .identifier s
  pure (t.text, s)

/-- the raw `next(self.tokens)` loops of `_parse_description` / `_parse_example`: skip (without
    alias splicing, without recording) up to the next rule keyword; `none` = input exhausted -/
def skipText : Tok → List Tok → List Tok → Option (List Tok × Tok × List Tok)
  | cur, rest, acc =>
    if cur.type.isRuleKeyword then some (acc.reverse, cur, rest)
    else match rest with
      | [] => none
      | n :: r => skipText n r (cur :: acc)

/-- `_parse_comma_separated_ids` -/
def idsLoop : Nat → List String → PS → Except Err (List String × PS)
  | 0, _, _ => .error .fuel
  | fuel + 1, acc, s =>
    if s.curIs .comma then do
      let (_, s) ← consume .comma s
      let (n, s) ← consumeId s
      idsLoop fuel (acc ++ [n]) s
    else .ok (acc, s)

def parseIds (fuel : Nat) (s : PS) : Except Err (List String × PS) := do
  let (n, s) ← consumeId s
  idsLoop fuel [n] s

/-- `_parse_list` -/
def parseList (fuel : Nat) (s : PS) : Except Err (List String × PS) := do
  let (_, s) ← consume .listOpen s
  let (ids, s) ← parseIds fuel s
  let (_, s) ← consume .listClose s
  pure (ids, s)

/-- `_parse_minimum` -/
def parseMinimum (fuel : Nat) (neg : Bool) (s : PS) : Except Err (Cond × PS) := do
  let (_, s) ← consume .minimum s
  let (_, s) ← consume .groupOpen s
  let (count, s) ← consumeInt s
  let (_, s) ← consume .comma s
  let (opts, s) ← parseList fuel s
  let (_, s) ← consume .groupClose s
  let c ← mkMinimum neg count opts
  pure (c, s)

/-- `_parse_score` -/
def parseScore (neg : Bool) (s : PS) : Except Err (Cond × PS) := do
  let (_, s) ← consume .score s
  let (_, s) ← consume .groupOpen s
  let (n, s) ← consumeId s
  let (_, s) ← consume .comma s
  let (v, s) ← consumeInt s
  let (_, s) ← consume .groupClose s
  pure (.score neg n (Int.ofNat v), s)

/-- `_is_not` -/
def isNot (s : PS) : Except Err (Bool × PS) :=
  if s.curIs .notOp then do
    let (_, s) ← consume .notOp s
    pure (true, s)
  else .ok (false, s)

/-- the check at the end of `_parse_conditions` -/
def endCheck (isGroup : Bool) (s : PS) : Except Err Unit :=
  if isGroup then
    match s.cur with
    | none => .error .syntax
    | some c => if c.type != .groupClose then .error .syntax else .ok ()
  else
    match s.cur with
    | none => .ok ()
    | some c =>
      if c.type == .rule || c.type == .define then .ok ()
      else if c.type != .extenders then .error .syntax else .ok ()

/-- `len(conditions) == 1 and isinstance(conditions[0], SingleCondition)` -/
def loneIdentifier : List Cond → Bool
  | [.single _ _] => true
  | _ => false

mutual
/-- `_parse_single_condition` -/
def parseSingle : Nat → Bool → PS → Except Err (Cond × PS)
  | 0, _, _ => .error .fuel
  | fuel + 1, allowCds, s => do
    let (neg, s) ← isNot s
    match s.cur with
    | none => .error .syntax
    | some c =>
      if c.type == .groupOpen then do
        let (subs, s) ← parseGroup fuel allowCds s
        let g ← mkGroup neg subs
        pure (g, s)
      else if allowCds && c.type == .minimum then parseMinimum fuel neg s
      else if allowCds && c.type == .cds then do
        let (subs, s) ← parseCds fuel s
        let g ← mkCds neg subs
        pure (g, s)
      else if c.type == .score then parseScore neg s
      else do
        let (n, s) ← consumeId s
        pure (.single neg n, s)
/-- `_parse_group` -/
def parseGroup : Nat → Bool → PS → Except Err (List Cond × PS)
  | 0, _, _ => .error .fuel
  | fuel + 1, allowCds, s => do
    let (_, s) ← consume .groupOpen s
    let (subs, s) ← parseConditions fuel allowCds true s
    let (_, s) ← consume .groupClose s
    pure (subs, s)
/-- `_parse_cds` -/
def parseCds : Nat → PS → Except Err (List Cond × PS)
  | 0, _ => .error .fuel
  | fuel + 1, s => do
    let (_, s) ← consume .cds s
    let (_, s) ← consume .groupOpen s
    let (subs, s) ← parseConditions fuel false true s
    if loneIdentifier subs then .error .syntax
    else do
      let (_, s) ← consume .groupClose s
      pure (subs, s)
/-- `_parse_conditions`: the returned list holds the operands of the `or`s -/
def parseConditions : Nat → Bool → Bool → PS → Except Err (List Cond × PS)
  | 0, _, _, _ => .error .fuel
  | fuel + 1, allowCds, isGroup, s =>
    if s.cur.isNone then .error .syntax
    else do
      let (lv, s) ← parseSingle fuel allowCds s
      let (conds, s) ← condLoop fuel allowCds [] lv true s
      endCheck isGroup s
      pure (conds, s)
/-- the `while` loop of `_parse_conditions` (`acc` = `conditions`, `pending` = `append_lvalue`) -/
def condLoop : Nat → Bool → List Cond → Cond → Bool → PS → Except Err (List Cond × PS)
  | 0, _, _, _, _, _ => .error .fuel
  | fuel + 1, allowCds, acc, lv, pending, s =>
    if s.curIs .andOp then do
      let (c, s) ← parseAnds fuel lv allowCds s
      condLoop fuel allowCds (acc ++ [c]) lv false s
    else if s.curIs .orOp then do
      let acc := if pending then acc ++ [lv] else acc
      let (_, s) ← consume .orOp s
      let (lv, s) ← parseSingle fuel allowCds s
      condLoop fuel allowCds acc lv true s
    else .ok (if pending then acc ++ [lv] else acc, s)
/-- `_parse_ands` -/
def parseAnds : Nat → Cond → Bool → PS → Except Err (Cond × PS)
  | 0, _, _, _ => .error .fuel
  | fuel + 1, lv, allowCds, s => do
    let (_, s) ← consume .andOp s
    let (c, s) ← parseSingle fuel allowCds s
    let (subs, s) ← andLoop fuel allowCds [lv, c] s
    let g ← mkConj subs
    pure (g, s)
def andLoop : Nat → Bool → List Cond → PS → Except Err (List Cond × PS)
  | 0, _, _, _ => .error .fuel
  | fuel + 1, allowCds, acc, s =>
    if s.curIs .andOp then do
      let (_, s) ← consume .andOp s
      let (c, s) ← parseSingle fuel allowCds s
      andLoop fuel allowCds (acc ++ [c]) s
    else .ok (acc, s)
end

/-! ### Sections of a rule -/

/-- `_parse_description` -/
def parseDescription (s : PS) : Except Err (List String × PS) := do
  let (_, s) ← consume .description s
  match s.cur with
  | none => .error .syntax
  | some c =>
    match skipText c s.rest [] with
    | none => .error .syntax
    | some (skipped, c', rest') => pure (skipped.map (·.text), { s with cur := some c', rest := rest' })

def splitOnChar (sep : Char) : List Char → List (List Char)
  | [] => [[]]
  | c :: cs =>
    if c == sep then [] :: splitOnChar sep cs
    else match splitOnChar sep cs with
      | [] => [[c]]
      | p :: ps => (c :: p) :: ps

/-- Python `int(s)` for the characters a token can hold: digit groups separated by single `_` -/
def pyInt (cs : List Char) : Option Nat :=
  let groups := splitOnChar '_' cs
  if groups.all isDigits then some (digitsVal (cs.filter (· != '_'))) else none

/-- the raw loop over the compound name of an EXAMPLE: nothing to skip at the end of the input,
    otherwise up to the next rule keyword (running out of input is an error) -/
def skipFree (s : PS) : Except Err (List Tok × PS) :=
  match s.cur with
  | none => pure ([], s)
  | some c =>
    match skipText c s.rest [] with
    | none => .error .syntax
    | some (skipped, c', rest') => pure (skipped, { s with cur := some c', rest := rest' })

/-- the checks at the end of `_parse_example` and `ExampleRecord.__init__`: start and end of the range -/
def exampleRange (database : String) (version : Nat) (range : String) : Except Err (Nat × Nat) :=
  match splitOnChar '-' range.toList with
  | [a, b] =>
    match pyInt a with
    | none => .error .syntax
    | some start =>
      match pyInt b with
      | none => .error .syntax
      | some stop =>
        if database != "NCBI" then .error .attr
        else if version < 1 then .error .attr
        else if !(start ≤ stop) then .error .attr
        else pure (start, stop)
  | _ => .error .syntax

def mkExample (database accession : String) (version : Nat) (range : String) (compound : List Tok) :
    Except Err Example := do
  let (start, stop) ← exampleRange database version range
  let compoundName := if compound.isEmpty then none else some (" ".intercalate (compound.map (·.text)))
  pure ⟨database, accession, version, start, stop, compoundName⟩

/-- `_parse_example` + `ExampleRecord.__init__` -/
def parseExample (s : PS) : Except Err (Example × PS) := do
  let (_, s) ← consume .example s
  let (database, s) ← consumeId s
  let (accession, s) ← consumeId s
  let (_, s) ← consume .dot s
  let (version, s) ← consumeInt s
  let (range, s) ← consume .text s
  let (compound, s) ← skipFree s
  let e ← mkExample database accession version range.text compound
  pure (e, s)

/-- `while self.current_token.type == TokenTypes.EXAMPLE` (a `None` token is an AttributeError) -/
def examplesLoop : Nat → List Example → PS → Except Err (List Example × PS)
  | 0, _, _ => .error .fuel
  | fuel + 1, acc, s =>
    match s.cur with
    | none => .error .attr
    | some c =>
      if c.type == .example then do
        let (e, s) ← parseExample s
        examplesLoop fuel (acc ++ [e]) s
      else .ok (acc, s)

/-- `_parse_superiors` -/
def parseSuperiors (fuel : Nat) (s : PS) : Except Err (List String × PS) := do
  let (_, s) ← consume .superiors s
  let (sup, s) ← parseIds fuel s
  if hasDupStr sup then .error .value
  else do
    let trans ← sup.foldlM (fun (acc : List String) name =>
      match s.ruleByName name with
      | none => (.error .value : Except Err (List String))
      | some r => .ok (acc ++ r.superiors)) []
    pure (sortDedupStr (sup ++ trans), s)

/-- weight of the remaining stream: an upper bound on the number of tokens any section can
    still consume (each alias identifier may be replaced by its definition) -/
def PS.budget (s : PS) : Nat :=
  let longest := (s.aliases.map (·.2.length)).foldl max 1
  4 * ((s.rest.length + 2) * (longest + 1)) + 8

/-- `extenders and not extenders.contains_positive_condition()` -/
def extendersNegative : Option Cond → Bool
  | some e => !positive e
  | none => false

/-- `_parse_rule`, first part: `RULE name CATEGORY category` -/
def parseHead (cfg : Cfg) (s : PS) : Except Err ((String × String) × PS) := do
  let (_, s) ← consume .rule s
  if s.curAliased then .error .syntax else
  let (name, s) ← consumeId s
  if s.cur.isNone then .error .syntax else
  let (_, s) ← consume .category s
  let (category, s) ← consumeId s
  if !cfg.cats.contains category then .error .syntax else
  if s.cur.isNone then .error .syntax else
  pure ((name, category), s)

/-- the optional `RELATED` section -/
def parseRelated (fuel : Nat) (s : PS) : Except Err (List String × PS) :=
  if s.curIs .related then do
    let (_, s) ← consume .related s
    parseIds fuel s
  else pure ([], s)

/-- `_parse_rule`, second part: DESCRIPTION, EXAMPLEs, RELATED, SUPERIORS (all optional) -/
def parseMeta (fuel : Nat) (s : PS) :
    Except Err ((List String × List Example × List String × List String) × PS) := do
  let (description, s) ← (if s.curIs .description then parseDescription s else pure ([], s)
    : Except Err (List String × PS))
  let (examples, s) ← examplesLoop fuel [] s
  let (related, s) ← parseRelated fuel s
  if s.cur.isNone then .error .syntax else
  let (superiors, s) ← (if s.curIs .superiors then parseSuperiors fuel s else pure ([], s)
    : Except Err (List String × PS))
  pure ((description, examples, related, superiors), s)

/-- `CUTOFF n NEIGHBOURHOOD m` (kilobases) -/
def parseDistances (s : PS) : Except Err ((Nat × Nat) × PS) := do
  let (_, s) ← consume .cutoff s
  let (cutoff, s) ← consumeInt s
  let (_, s) ← consume .neighbourhood s
  let (neighbourhood, s) ← consumeInt s
  pure ((cutoff * 1000, neighbourhood * 1000), s)

/-- the optional `EXTENDERS` section -/
def parseExtenders (fuel : Nat) (s : PS) : Except Err (Option Cond × PS) :=
  if s.curIs .extenders then do
    let (_, s) ← consume .extenders s
    match s.cur with
    | none => .error .syntax
    | some c =>
      if c.type == .cds then do
        let (body, s) ← parseCds fuel s
        let e ← mkCds false body
        pure (some e, s)
      else if c.type == .identifier then do
        let (e, s) ← parseSingle fuel false s
        match s.cur with
        | some c' => if c'.type != .rule && c'.type != .define then .error .syntax else pure (some e, s)
        | none => pure (some e, s)
      else .error .syntax
  else pure (none, s)

/-- the rule must end where the next `RULE`/`DEFINE` starts -/
def ruleEnd (s : PS) : Except Err Unit :=
  match s.cur with
  | some c => if c.type != .rule && c.type != .define then .error .syntax else pure ()
  | none => pure ()

/-- `_parse_rule` (without the multipliers, applied by the caller) -/
def parseRuleWith (fuel : Nat) (cfg : Cfg) (s : PS) : Except Err (Rule × PS) := do
  let ((name, category), s) ← parseHead cfg s
  let ((description, examples, related, superiors), s) ← parseMeta fuel s
  let ((cutoff, neighbourhood), s) ← parseDistances s
  let (_, s) ← consume .conditions s
  let (subs, s) ← parseConditions fuel true false s
  let conditions ← mkGroup false subs
  let (extenders, s) ← parseExtenders fuel s
  ruleEnd s
  -- DetectionRule.__init__
  if !positive conditions then .error .value else
  if extendersNegative extenders then .error .value else
  pure ({ name, category, cutoff, neighbourhood, conditions,
          description, examples, superiors, related, extenders }, s)

/-- `_parse_rule` with the fuel computed from the remaining input -/
def parseRule (cfg : Cfg) (s : PS) : Except Err (Rule × PS) := parseRuleWith s.budget cfg s

/-- the `while` loop of `_parse_alias` -/
def aliasLoop : Nat → List Tok → PS → Except Err (List Tok × PS)
  | 0, _, _ => .error .fuel
  | fuel + 1, acc, s =>
    match s.cur with
    | none => .ok (acc, s)
    | some c =>
      if c.type.isRuleKeyword then .ok (acc, s)
      else if c.type == .text then .error .value
      else do
        let c' := { c with aliased := true }
        let (_, s) ← consume c.type { s with cur := some c' }
        aliasLoop fuel (acc ++ [c']) s

/-- `_parse_alias` -/
def parseAliasWith (fuel : Nat) (s : PS) : Except Err ((String × List Tok) × PS) := do
  let (_, s) ← consume .define s
  if s.curAliased then .error .syntax else
  let (name, s) ← consumeId s
  let (_, s) ← consume .asKw s
  let (toks, s) ← aliasLoop fuel [] s
  if toks.isEmpty then .error .syntax else
  pure ((name, toks), s)

def parseAlias (s : PS) : Except Err ((String × List Tok) × PS) := parseAliasWith s.budget s

/-- `_verify_alias_name` -/
def verifyAliasName (cfg : Cfg) (rules : List Rule) (name : String) : Except Err Unit :=
  if classify name != .identifier then .error .value
  else if cfg.sigs.contains name then .error .value
  else if rules.any (·.name == name) then .error .value
  else if cfg.cats.contains name then .error .value
  else .ok ()

def usesIdentifier (name : String) (toks : List Tok) : Bool :=
  toks.any fun t => t.type == .identifier && t.text == name

/-- `int(rule.cutoff * multiplier)` for a positive rational multiplier -/
def scale (v : Nat) (m : Nat × Nat) : Nat := v * m.1 / m.2

/-- the main loop of `Parser.__init__` -/
def mainLoop : Nat → Cfg → PS → Except Err PS
  | 0, _, _ => .error .fuel
  | fuel + 1, cfg, s =>
    match s.cur with
    | none => .ok s
    | some c =>
      if c.type == .define then do
        let ((name, toks), s) ← parseAlias s
        verifyAliasName cfg s.rules name
        if (s.aliases.lookup name).isSome then .error .value
        -- D42 fix: the name must not already occur as an identifier inside a definition
        else if usesIdentifier name toks || s.aliases.any (fun a => usesIdentifier name a.2) then .error .value
        else mainLoop fuel cfg { s with aliases := s.aliases ++ [(name, toks)] }
      else if c.type == .rule then do
        let (r, s) ← parseRule cfg s
        let r := { r with cutoff := scale r.cutoff cfg.cutoffMul,
                          neighbourhood := scale r.neighbourhood cfg.nbhMul }
        if s.rules.any (·.name == r.name) then .error .value
        else mainLoop fuel cfg { s with rules := s.rules ++ [r] }
      else .error .syntax

/-- `find_condition_identifiers` (tokens in consumption order) -/
def conditionIdentifiers : List Tok → Bool → List String
  | [], _ => []
  | t :: ts, inConds =>
    if t.type == .conditions then conditionIdentifiers ts true
    else if t.type.isRuleKeyword then conditionIdentifiers ts false
    else if inConds && t.type == .identifier then t.text :: conditionIdentifiers ts inConds
    else conditionIdentifiers ts inConds

/-- `Parser.__init__` on an already tokenised text -/
def parseTokens (cfg : Cfg) (rules : List Rule) (aliases : Aliases) (toks : List Tok) :
    Except Err (List Rule × Aliases) := do
  aliases.forM fun a => verifyAliasName cfg rules a.1
  let aliases := aliases.map fun a => (a.1, a.2.map fun t => { t with aliased := true })
  match toks with
  | [] => .error .value
  | t :: rest =>
    let s ← mainLoop (toks.length + 1) cfg { cur := some t, rest, aliases, rules }
    if (conditionIdentifiers s.consumed.reverse false).any (fun n => !cfg.sigs.contains n) then .error .value
    else pure (s.rules, s.aliases)

/-- `Parser(text, …)`: alias names are verified before the text is tokenised -/
def parseText (cfg : Cfg) (rules : List Rule) (aliases : Aliases) (text : String) :
    Except Err (List Rule × Aliases) := do
  aliases.forM fun a => verifyAliasName cfg rules a.1
  let toks ← tokenise text
  parseTokens cfg rules aliases toks

/-- `create_rules`: the files share the alias table and the rules parsed so far -/
def createRules (cfg : Cfg) : List String → List Rule → Aliases → Except Err (List Rule)
  | [], rules, _ => .ok rules
  | text :: more, rules, aliases => do
    let (rules, aliases) ← parseText cfg rules aliases text
    createRules cfg more rules aliases

/-- the condition text of `reconstruct_rule_text`: outer parentheses stripped when the text starts
    with `(` and ends with `)` -/
def topChars (c : Cond) : List Char :=
  let t := printChars c
  if t.head? == some '(' && t.getLast? == some ')' then (t.drop 1).dropLast else t

/-- `DetectionRule.reconstruct_rule_text` -/
def Rule.reconstruct (r : Rule) : String :=
  let comments := (if r.description.isEmpty then "" else "DESCRIPTION " ++ " ".intercalate r.description ++ " ")
    ++ String.join (r.examples.map fun e =>
        "EXAMPLE " ++ e.database ++ " " ++ e.accession ++ "." ++ toString e.version ++ " "
          ++ toString e.start ++ "-" ++ toString e.stop
          ++ (match e.compound with | some c => " " ++ c | none => "") ++ " ")
  "RULE " ++ r.name ++ " CATEGORY " ++ r.category ++ " " ++ comments
    ++ "CUTOFF " ++ toString (r.cutoff / 1000) ++ " NEIGHBOURHOOD " ++ toString (r.neighbourhood / 1000)
    ++ " CONDITIONS " ++ String.ofList (topChars r.conditions)

end ASV.Parser
