/-
  C10 model, second layer — what is *inside* the class-specific qualifiers (opaque text to
  `ASV/Model/Serial.lean`):

    _parse_format                                             qualifiers/secmet.py
    GeneFunction.__str__ / from_string,
    _GeneFunctionAnnotation.__init__ / __str__ / from_string,
    GeneFunctionAnnotations.add / add_from_qualifier / get_classification   qualifiers/gene_functions.py
    SecMetQualifier.Domain.__str__ / from_string, SecMetQualifier.add_domains / from_biopython   qualifiers/secmet.py
    AntismashFeature.to_biopython / from_biopython            features/antismash_feature.py
    Domain.to_biopython / from_biopython, generate_protein_location_from_qualifiers   features/domain.py
    AntismashDomain.from_biopython (no registered subtype)    features/antismash_domain.py
    CDSMotif.from_biopython                                   features/cds_motif.py

  `_parse_format(fmt, data)` builds a regular expression from a format string and matches it with
  Python's backtracking matcher.  For a format made of `{}` / `{:d}` place holders and literal
  characters other than braces the expression is a sequence of four kinds of items, and the matcher's
  search order is transcribed literally (`rx`): a lazy group `(.+?)` takes one character and extends by
  one as long as the rest does not match; `([0-9]+)` takes every digit and gives back one at a time;
  an optional space is tried with the space first; `$` matches at the end or before a final newline;
  `.` matches anything but a newline.

  Floating point numbers appear in these qualifiers as `str(float)` / `float(str)`; the model keeps the
  text (`float(str(x)) == x` for every float is a CPython guarantee, listed as trusted).
-/
import ASV.Model.Serial
namespace ASV.Serial
open ASV

/-! ### `_parse_format` -/

inductive Tok where
  /-- `{}` → `(.+?)` -/
  | grp
  /-- `{:d}` → `([0-9]+)` -/
  | digits
  /-- any other character (escaped by `re.escape` where needed) -/
  | lit (c : Char)
  /-- a space of the format → `\ ?` -/
  | optSpace
deriving DecidableEq, Repr, Inhabited

abbrev Groups := List (List Char)

/-- the lazy group: `acc` (reversed) is what the group holds so far, `k` matches the rest of the pattern -/
def lazyGo (k : List Char → Option Groups) : List Char → List Char → Option Groups
  | acc, [] => (k []).map (acc.reverse :: ·)
  | acc, x :: r =>
    match k (x :: r) with
    | some gs => some (acc.reverse :: gs)
    | none => if x = '\n' then none else lazyGo k (x :: acc) r

/-- the greedy digit group -/
def greedyGo (k : List Char → Option Groups) : List Char → List Char → Option Groups
  | acc, [] => (k []).map (acc.reverse :: ·)
  | acc, x :: r =>
    if x.isDigit then
      match greedyGo k (x :: acc) r with
      | some gs => some gs
      | none => (k (x :: r)).map (acc.reverse :: ·)
    else (k (x :: r)).map (acc.reverse :: ·)

/-- `re.search("^" + items + "$", data)`: the groups of the first match in the matcher's search order -/
def rx : List Tok → List Char → Option Groups
  | [], xs => if xs = [] ∨ xs = ['\n'] then some [] else none
  | .lit c :: ts, xs =>
    match xs with
    | x :: r => if x = c then rx ts r else none
    | [] => none
  | .optSpace :: ts, xs =>
    match xs with
    | x :: r =>
      if x = ' ' then
        match rx ts r with
        | some gs => some gs
        | none => rx ts xs
      else rx ts xs
    | [] => rx ts xs
  | .grp :: ts, xs =>
    match xs with
    | x :: r => if x = '\n' then none else lazyGo (rx ts) [x] r
    | [] => none
  | .digits :: ts, xs =>
    match xs with
    | x :: r => if x.isDigit then greedyGo (rx ts) [x] r else none
    | [] => none

/-- the items of a format string: `{}`, `{:d}`, spaces, other characters; `none` for anything else with
    braces (`{{`, `}}`, other format specifications are outside the model) -/
def fmtToks : List Char → Option (List Tok)
  | [] => some []
  | '{' :: '}' :: rest => (fmtToks rest).map (.grp :: ·)
  | '{' :: ':' :: 'd' :: '}' :: rest => (fmtToks rest).map (.digits :: ·)
  -- the one other specification the code uses (`{:.3f}`): any non-integer specification is a `(.+?)`
  | '{' :: ':' :: '.' :: '3' :: 'f' :: '}' :: rest => (fmtToks rest).map (.grp :: ·)
  | c :: rest =>
    if c = '{' ∨ c = '}' then none
    else (fmtToks rest).map ((if c = ' ' then .optSpace else .lit c) :: ·)

/-- `str.format` for the same format strings -/
def render : List Tok → Groups → List Char
  | [], _ => []
  | .lit c :: ts, gs => c :: render ts gs
  | .optSpace :: ts, gs => ' ' :: render ts gs
  | .grp :: ts, g :: gs => g ++ render ts gs
  | .digits :: ts, g :: gs => g ++ render ts gs
  | .grp :: ts, [] => render ts []
  | .digits :: ts, [] => render ts []

/-- `_parse_format(fmt, data)`; `none` = ValueError (no match) -/
def parseFormat (fmt data : String) : Option (List String) :=
  match fmtToks fmt.toList with
  | none => none
  | some ts => (rx ts data.toList).map (·.map String.ofList)

/-! ### gene functions -/

inductive GeneFn where
  | other | core | additional | transport | regulatory | resistance
deriving DecidableEq, Repr, Inhabited

/-- `str(GeneFunction)` -/
def GeneFn.label : GeneFn → String
  | .other => "other"
  | .core => "biosynthetic"
  | .additional => "biosynthetic-additional"
  | .transport => "transport"
  | .regulatory => "regulatory"
  | .resistance => "resistance"

def GeneFn.all : List GeneFn := [.other, .core, .additional, .transport, .regulatory, .resistance]

/-- `GeneFunction.from_string` -/
def GeneFn.ofLabel (s : String) : Option GeneFn := GeneFn.all.find? (fun f => f.label == s)

/-- `_GeneFunctionAnnotation` -/
structure Annot where
  fn : GeneFn
  tool : String
  description : String
  product : Option String
deriving DecidableEq, Repr, Inhabited

/-- ASCII white space as `str.split()` sees it -/
def isPySpace (c : Char) : Bool :=
  c = ' ' || c = '\t' || c = '\n' || c = '\r' || c = '\x0b' || c = '\x0c' || c = '\x1c' || c = '\x1d' || c = '\x1e' || c = '\x1f'

/-- `len(s.split())` -/
def wordCount : List Char → Nat
  | [] => 0
  | c :: rest =>
    if isPySpace c then wordCount rest
    else match rest with
      | [] => 1
      | d :: _ => if isPySpace d then 1 + wordCount rest else wordCount rest

/-- `_GeneFunctionAnnotation.__init__` -/
def Annot.mk' (fn : GeneFn) (tool description : String) (product : Option String) : E Annot :=
  if tool.isEmpty || wordCount tool.toList != 1 then throw "assertion"
  else if description.isEmpty then throw "assertion"
  else if fn == .core && (product.getD "").isEmpty then throw "value-error"
  else pure ⟨fn, tool, description, product⟩

def fmt4 : List Tok := [.grp, .optSpace, .lit '(', .grp, .lit ')', .optSpace, .grp, .lit ':', .optSpace, .grp]
def fmt3 : List Tok := [.grp, .optSpace, .lit '(', .grp, .lit ')', .optSpace, .grp]

/-- `str(annotation)` -/
def Annot.chars (a : Annot) : List Char :=
  if (a.product.getD "").isEmpty then render fmt3 [a.fn.label.toList, a.tool.toList, a.description.toList]
  else render fmt4 [a.fn.label.toList, a.tool.toList, (a.product.getD "").toList, a.description.toList]
def Annot.toStr (a : Annot) : String := String.ofList a.chars

/-- `_GeneFunctionAnnotation.from_string` -/
def Annot.ofChars (text : List Char) : E Annot :=
  match (match rx fmt4 text with | some p => some p | none => rx fmt3 text) with
  | some [f, t, p, d] =>
    match GeneFn.ofLabel (String.ofList f) with
    | none => throw "value-error"
    | some fn => Annot.mk' fn (String.ofList t) (String.ofList d) (some (String.ofList p))
  | some [f, t, d] =>
    match GeneFn.ofLabel (String.ofList f) with
    | none => throw "value-error"
    | some fn => Annot.mk' fn (String.ofList t) (String.ofList d) none
  | _ => throw "value-error"
def Annot.fromStr (s : String) : E Annot := Annot.ofChars s.toList

/-- `GeneFunctionAnnotations.add`: an annotation equal to a present one is not added -/
def annAdd (l : List Annot) (fn : GeneFn) (tool description : String) (product : Option String) : E (List Annot) := do
  let new ← Annot.mk' fn tool description product
  pure (if l.contains new then l else l ++ [new])

/-- `GeneFunctionAnnotations.add_from_qualifier` -/
def annFromQualifier (l : List Annot) : List String → E (List Annot)
  | [] => pure l
  | s :: rest => do
    let a ← Annot.fromStr s
    let l ← annAdd l a.fn a.tool a.description a.product
    annFromQualifier l rest

/-- `GeneFunctionAnnotations.get_classification` -/
def classification (l : List Annot) : GeneFn :=
  if l.isEmpty then .other
  else if l.any (·.fn == .core) then .core
  else
    match l.filter (·.tool == "smcogs") with
    | a :: _ => if a.fn != .other then a.fn else agree
    | [] => agree
where
  agree : GeneFn :=
    match ((l.filter (·.tool != "smcogs")).map (·.fn)).eraseDups with
    | [f] => f
    | _ => .other

/-- the `gene_functions` / `gene_kind` qualifiers `CDSFeature.to_biopython` writes -/
def annQuals (l : List Annot) : Quals :=
  if l.isEmpty then [] else [("gene_functions", l.map Annot.toStr), ("gene_kind", [(classification l).label])]

/-! ### sec_met domains -/

/-- `SecMetQualifier.Domain`; `evalue`, `bitscore` are the `str(float)` texts, `nseeds` is `str(int)` -/
structure SMDom where
  name : String
  evalue : String
  bitscore : String
  nseeds : String
  tool : String
deriving DecidableEq, Repr, Inhabited

def smFmtString : String := "{} (E-value: {}, bitscore: {}, seeds: {}, tool: {})"
def smFmt : List Tok := (fmtToks smFmtString.toList).getD []

def SMDom.chars (d : SMDom) : List Char :=
  render smFmt [d.name.toList, d.evalue.toList, d.bitscore.toList, d.nseeds.toList, d.tool.toList]
def SMDom.toStr (d : SMDom) : String := String.ofList d.chars

/-- `SecMetQualifier.Domain.from_string` (conversion of the three numbers to `float` / `int`: trusted layer) -/
def SMDom.ofChars (text : List Char) : E SMDom :=
  match rx smFmt text with
  | some [n, e, b, s, t] => pure ⟨String.ofList n, String.ofList e, String.ofList b, String.ofList s, String.ofList t⟩
  | _ => throw "value-error"
def SMDom.fromStr (s : String) : E SMDom := SMDom.ofChars s.toList

/-- `SecMetQualifier.add_domains`: a domain whose name is present already is dropped -/
def smAdd (l : List SMDom) (new : List SMDom) : List SMDom :=
  new.foldl (fun acc d => if acc.any (·.name == d.name) then acc else acc ++ [d]) l

def smParseAll : List String → E (List SMDom)
  | [] => pure []
  | s :: rest => do
    let d ← SMDom.fromStr s
    let ds ← smParseAll rest
    pure (d :: ds)

/-- `SecMetQualifier.from_biopython` -/
def smFromQualifier (q : List String) : E (List SMDom) := do
  let ds ← smParseAll q
  pure (smAdd [] ds)

/-! ### type II PKS annotation of a protocluster -/

/-- `T2PKSQualifier`; `weights` is `molecular_weights` in dictionary order with the weight as the text `f"{w:.3f}"` -/
structure T2 where
  starters : List String
  elongations : List String
  classes : List String
  weights : List (String × String)
deriving DecidableEq, Repr, Inhabited

/-- `WEIGHT_TEMPLATE = "{} (Da): {:.3f}"` -/
def t2WeightFmt : List Tok := [.grp, .optSpace, .lit '(', .lit 'D', .lit 'a', .lit ')', .lit ':', .optSpace, .grp]

def t2WeightStr (e : String × String) : String := String.ofList (render t2WeightFmt [e.1.toList, e.2.toList])

/-- `T2PKSQualifier.to_biopython_qualifiers` -/
def T2.toQuals (t : T2) : Quals :=
  let q : Quals := [("t2pks_starter_units", t.starters)]
  let q := if t.elongations.isEmpty then q
    else Q.set (Q.set q "t2pks_malonyl_elongations" t.elongations) "t2pks_molecular_weights" (t.weights.map t2WeightStr)
  if t.classes.isEmpty then q else Q.set q "t2pks_product_classes" t.classes

/-- `d[k] = v` for a dictionary of strings -/
def dictSet : List (String × String) → String → String → List (String × String)
  | [], k, v => [(k, v)]
  | (k', v') :: rest, k, v => if k' = k then (k, v) :: rest else (k', v') :: dictSet rest k v

/-- the loop over the written weights -/
def t2ParseWeights : List String → List (String × String) → E (List (String × String))
  | [], acc => pure acc
  | s :: rest, acc =>
    match rx t2WeightFmt s.toList with
    | some [c, w] => t2ParseWeights rest (dictSet acc (String.ofList c) (String.ofList w))
    | _ => throw "value-error"

/-- `T2PKSQualifier.from_biopython_qualifiers(leftovers)`: the annotation, if any, and what is left -/
def T2.fromQuals (l : Quals) : E (Option T2 × Quals) :=
  let starters := (Q.get? l "t2pks_starter_units").getD []
  let l := Q.erase l "t2pks_starter_units"
  if starters.isEmpty then pure (none, l)
  else
    let elongations := (Q.get? l "t2pks_malonyl_elongations").getD []
    let l := Q.erase l "t2pks_malonyl_elongations"
    let raw := (Q.get? l "t2pks_molecular_weights").getD []
    let l := Q.erase l "t2pks_molecular_weights"
    let classes := (Q.get? l "t2pks_product_classes").getD []
    let l := Q.erase l "t2pks_product_classes"
    match t2ParseWeights raw [] with
    | .error e => throw e
    | .ok weights =>
      -- the constructor: elongations and weights come together
      if elongations.isEmpty != weights.isEmpty then throw "value-error"
      else pure (some ⟨starters, elongations, classes, weights⟩, l)

/-! ### Pfam identifier, `db_xref` and gene ontology terms of a `PFAMDomain` -/

/-- what `PFAMDomain` holds besides the `Domain` attributes -/
structure PfamX where
  description : String
  /-- `PF` and five digits -/
  identifier : String
  version : Option Int := none
  /-- `gene_ontologies.go_entries` in the order the terms were added -/
  go : Option (List (String × String)) := none
deriving DecidableEq, Repr, Inhabited

/-- `full_identifier` -/
def PfamX.fullId (p : PfamX) : String :=
  match p.version with
  | some v => if v = 0 then p.identifier else String.ofList (p.identifier.toList ++ '.' :: intChars v)
  | none => p.identifier

def insertGo (e : String × String) : List (String × String) → List (String × String)
  | [] => [e]
  | y :: ys => if e.1 < y.1 then e :: y :: ys else y :: insertGo e ys
/-- `sorted(go_entries.items())` (ids are distinct: only the id decides) -/
def sortGo (g : List (String × String)) : List (String × String) := g.foldl (fun acc e => insertGo e acc) []

/-- `f"{go_id}: {go_description}"` -/
def goStr (e : String × String) : String := String.ofList (e.1.toList ++ ':' :: ' ' :: e.2.toList)

/-- the three qualifiers `PFAMDomain.to_biopython` adds -/
def PfamX.quals (p : PfamX) : Quals :=
  match p.go with
  | some g =>
    [("description", [p.description]), ("db_xref", p.fullId :: sortStrs (g.map (·.1))), ("gene_ontologies", (sortGo g).map goStr)]
  | none => [("description", [p.description]), ("db_xref", [p.fullId])]

/-- the `db_xref` values `PFAMDomain.from_biopython` leaves among the leftovers of a written domain: the sorted GO ids -/
def PfamX.leftXref (p : PfamX) : List String :=
  match p.go with
  | some g => sortStrs (g.map (·.1))
  | none => []

/-- `text.partition(": ")` when the separator is there -/
def partitionColonSpace : List Char → Option (List Char × List Char)
  | ':' :: ' ' :: rest => some ([], rest)
  | c :: rest => (partitionColonSpace rest).map fun (a, b) => (c :: a, b)
  | [] => none

/-- `GOQualifier.from_biopython` -/
def goFromQualifier : List String → List (String × String) → E (List (String × String))
  | [], acc => pure acc
  | s :: rest, acc =>
    match partitionColonSpace s.toList with
    | some (i, d) => goFromQualifier rest (dictSet acc (String.ofList i) (String.ofList d))
    | none => throw "value-error"

/-- the identifier checks of `PFAMDomain.__init__`: optional `.version`, then `PF` and five decimal digits -/
def parsePfamName (name : String) : E (String × Option Int) :=
  let cs := name.toList
  let ident := cs.takeWhile (· != '.')
  let rest := cs.dropWhile (· != '.')
  let version : E (Option Int) :=
    match rest with
    | [] => pure none
    | _ :: v => match parseInt v with
      | some i => pure (some i)
      | none => throw "value-error"
  match version with
  | .error e => throw e
  | .ok v =>
    if ident.length = 7 ∧ ident.take 2 = ['P', 'F'] ∧ (ident.drop 2).all Char.isDigit then pure (String.ofList ident, v)
    else throw "value-error"

/-- the part of `PFAMDomain.from_biopython` that reads these qualifiers: description, identifier and version,
    gene ontology terms, and the `db_xref` values that stay among the leftovers -/
def PfamX.read (q : Quals) : E (PfamX × List String) :=
  match Q.get? q "description" with
  | none => throw "KeyError"
  | some [] => throw "IndexError"
  | some (description :: _) =>
    -- `for i, ref in enumerate(xref): if ref.startswith("PF"): name = ref; xref.pop(i); break`: the first entry goes either way
    match (Q.get? q "db_xref").getD [] with
    | [] => throw "value-error"
    | first :: others =>
      if !(['P', 'F'].isPrefixOf first.toList) then throw "value-error"
      else if description.isEmpty then throw "value-error"
      else
        match parsePfamName first with
        | .error e => throw e
        | .ok (ident, version) =>
          match (Q.get? q "gene_ontologies").getD [] with
          | [] => pure (⟨description, ident, version, none⟩, others)
          | terms =>
            match goFromQualifier terms [] with
            | .error e => throw e
            | .ok g => pure (⟨description, ident, version, some g⟩, others)

/-! ### domains and motifs: `AntismashFeature` → `Domain` → `AntismashDomain` / `CDSMotif` -/

inductive DomKind where
  /-- `AntismashDomain` whose tool has no registered subtype; feature type `aSDomain` -/
  | asDomain
  /-- `CDSMotif` with a tool (not `ExternalCDSMotif`, not `Prepeptide`); feature type `CDS_motif` -/
  | motif
  /-- the `Domain` part of a `PFAMDomain` (its own qualifiers are `PfamX`); feature type `PFAM_domain` -/
  | pfam
deriving DecidableEq, Repr, Inhabited

def DomKind.type : DomKind → String
  | .asDomain => "aSDomain"
  | .motif => "CDS_motif"
  | .pfam => "PFAM_domain"

/-- the state of such a feature; `score` is the text `str(float)`, `evalue` the text `f"{x:.2E}"` (three
    significant digits: what the value is *after* its first round trip) -/
structure Dom where
  /-- location, type, notes, `_qualifiers`, `created_by_antismash`, codon start -/
  feat : Feat
  tool : String
  locusTag : String
  pStart : Int
  pEnd : Int
  /-- `Domain.domain` -/
  domain : Option String := none
  /-- `asf.hits`: sorted, without duplicates -/
  asf : List String := []
  domainId : Option String := none
  database : Option String := none
  detection : Option String := none
  label : Option String := none
  evalue : Option String := none
  score : Option String := none
  /-- `_translation` ("" = not set) -/
  translation : String := ""
deriving DecidableEq, Repr, Inhabited

/-- `if value: mine[key] = [value]` -/
def setOpt (q : Quals) (k : String) (v : Option String) : Quals :=
  match v with
  | some s => if s.isEmpty then q else Q.set q k [s]
  | none => q

/-- `if value is not None: mine[key] = [text]` -/
def setSome (q : Quals) (k : String) (v : Option String) : Quals :=
  match v with
  | some s => Q.set q k [s]
  | none => q

/-- the `mine` of `Domain.to_biopython` (the subclass adds nothing) -/
def Dom.mineDomain (d : Dom) : Quals :=
  let q := Q.set [] "protein_start" [strOfInt d.pStart]
  let q := Q.set q "protein_end" [strOfInt d.pEnd]
  let q := setOpt q "aSDomain" d.domain
  if d.asf.isEmpty then q else Q.set q "ASF" d.asf

/-- the `mine` of `AntismashFeature.to_biopython(qualifiers)` -/
def Dom.mine (d : Dom) : Quals :=
  let q := setOpt [] "label" d.label
  let q := setSome q "score" d.score
  let q := setSome q "evalue" d.evalue
  let q := setOpt q "locus_tag" (some d.locusTag)
  let q := setOpt q "translation" (some d.translation)
  let q := setOpt q "database" d.database
  let q := setOpt q "detection" d.detection
  let q := if d.feat.byAS then setOpt q "domain_id" d.domainId else q
  let q := setOpt q "aSTool" (some d.tool)
  Q.update q d.mineDomain

/-- `Domain.to_biopython` -/
def Dom.toBio (d : Dom) : E Bio := d.feat.toBio d.mine

/-- `leftovers.pop(key, [""])[0]`, the value -/
def firstOr (q : Quals) (k : String) : E String :=
  match Q.get? q k with
  | some (v :: _) => pure v
  | some [] => throw "IndexError"
  | none => pure ""

/-- `value or None` -/
def orNone (s : String) : Option String := if s.isEmpty then none else some s
/-- `text.replace(" ", "")` -/
def noSpaces (s : String) : String := String.ofList (s.toList.filter (· != ' '))
/-- `sorted(set(values))` -/
def canonSet (l : List String) : List String := sortStrs (dedup l)

/-- `if key in leftovers: float(leftovers.pop(key)[0])` (the text is kept) -/
def popNumber (q : Quals) (k : String) : E (Option String) :=
  match Q.get? q k with
  | some (v :: _) => pure (some v)
  | some [] => throw "IndexError"
  | none => pure none

/-- `generate_protein_location_from_qualifiers` for qualifiers that carry `protein_start`; the older
    format without it (regeneration from the parent CDS) is outside the model -/
def protLoc (q : Quals) : E (Int × Int) := do
  let rawStart ← firstOr q "protein_start"
  let rawEnd ← firstOr q "protein_end"
  if rawStart.isEmpty then throw "unsupported"
  else
    match intOfStr rawStart with
    | none => throw "value-error"
    | some s =>
      let e ←
        if rawEnd.isEmpty then
          match Q.get? q "translation" with
          | some v => pure (s + v.length)
          | none => throw "KeyError"
        else match intOfStr rawEnd with
          | some e => pure e
          | none => throw "value-error"
      if e < s then throw "value-error" else pure (s, e)

/-- `AntismashDomain.from_biopython` / `CDSMotif.from_biopython` down to `Feature.from_biopython` -/
def Dom.fromBio (kind : DomKind) (b : Bio) : E Dom := do
  let l := b.quals
  let tool ← match kind with
    | .asDomain =>
      match Q.get? l "aSTool" with
      | none => throw "value-error"
      | some [] => throw "IndexError"
      | some (t :: _) => pure t
    | .motif => do
      let t ← firstOr l "aSTool"
      if t.isEmpty then throw "unsupported" else pure t
    | .pfam =>
      match Q.get? l "aSTool" with
      | none => throw "KeyError"
      | some [] => throw "IndexError"
      | some (t :: _) => pure t
  let l := Q.erase l "aSTool"
  let (ps, pe) ← protLoc l
  let tag0 ← firstOr l "locus_tag"
  let l := Q.erase l "locus_tag"
  let tag := noSpaces (if tag0.isEmpty then "(unknown)" else tag0)
  -- an empty locus tag: `raise ValueError` in AntismashDomain.from_biopython, `assert locus_tag` in CDSMotif.from_biopython;
  -- an empty tool: refused by `AntismashFeature.__init__`
  if tag.isEmpty then throw (match kind with | .asDomain => "value-error" | .motif => "assertion" | .pfam => "assertion")
  else if tool.isEmpty then throw "value-error"
  else
    -- Domain.from_biopython
    let l := Q.erase (Q.erase l "protein_start") "protein_end"
    let domain ← firstOr l "aSDomain"
    let l := Q.erase l "aSDomain"
    let asf := canonSet ((Q.get? l "ASF").getD [])
    let l := Q.erase l "ASF"
    -- AntismashFeature.from_biopython
    let domainId ← firstOr l "domain_id"
    let l := Q.erase l "domain_id"
    let database ← firstOr l "database"
    let l := Q.erase l "database"
    let detection ← firstOr l "detection"
    let l := Q.erase l "detection"
    let label ← firstOr l "label"
    let l := Q.erase l "label"
    let translation ← firstOr l "translation"
    let l := Q.erase l "translation"
    if translation.toList.contains '*' then throw "value-error"
    else
      let evalue ← popNumber l "evalue"
      let l := Q.erase l "evalue"
      let score ← popNumber l "score"
      let l := Q.erase l "score"
      let feat ← applyLeftovers ⟨b.loc, kind.type, [], [], true, none⟩ l
      let domainId := (orNone domainId).map noSpaces
      if kind == .asDomain && (domainId.getD "").isEmpty then throw "assertion"
      else pure ⟨feat, tool, tag, ps, pe, orNone domain, asf, domainId, orNone database, orNone detection,
                 (orNone label).map noSpaces, evalue, score, translation⟩

/-! ### `PFAMDomain` as a feature: `PfamX` on top of the `Domain` layers -/

structure Pfam where
  dom : Dom
  x : PfamX
deriving DecidableEq, Repr, Inhabited

/-- the `mine` of `AntismashFeature.to_biopython` before the subclasses' qualifiers are merged in -/
def Dom.mineAF (d : Dom) : Quals :=
  let q := setOpt [] "label" d.label
  let q := setSome q "score" d.score
  let q := setSome q "evalue" d.evalue
  let q := setOpt q "locus_tag" (some d.locusTag)
  let q := setOpt q "translation" (some d.translation)
  let q := setOpt q "database" d.database
  let q := setOpt q "detection" d.detection
  let q := if d.feat.byAS then setOpt q "domain_id" d.domainId else q
  setOpt q "aSTool" (some d.tool)

/-- `PFAMDomain.to_biopython`: its three qualifiers go through `Domain.to_biopython(mine)` and
    `AntismashFeature.to_biopython(mine)` (each `mine.update(qualifiers)`) -/
def Pfam.mine (p : Pfam) : Quals := Q.update p.dom.mineAF (Q.update p.dom.mineDomain p.x.quals)
def Pfam.toBio (p : Pfam) : E Bio := p.dom.feat.toBio p.mine

/-- `PFAMDomain.from_biopython`: description, the first `db_xref` entry (removed from the list in place, the others
    stay among the leftovers), gene ontology terms, then the `Domain` layers -/
def Pfam.fromBio (b : Bio) : E Pfam := do
  let (x, others) ← PfamX.read b.quals
  let l := Q.set (Q.erase (Q.erase b.quals "description") "gene_ontologies") "db_xref" others
  let d ← Dom.fromBio .pfam ⟨b.loc, b.type, l⟩
  pure ⟨d, x⟩

/-! ### `ExternalCDSMotif`: a `CDS_motif` of another tool keeps the qualifiers it arrived with -/

/-- the qualifiers the parent classes write only because they need *some* value -/
def extPlaceholders : List String := ["aSTool", "protein_start", "protein_end", "locus_tag"]

/-- `ExternalCDSMotif.to_biopython`: `written` is what `CDSMotif.to_biopython` produced; the placeholders are removed,
    then the original qualifiers are put back (`dict.update`: an original `locus_tag` returns, at the end) -/
def extWrite (written original : Quals) : Quals := Q.update (extPlaceholders.foldl Q.erase written) original

/-- the other order — originals first, placeholders removed afterwards — for comparison -/
def extWriteRestoreFirst (written original : Quals) : Quals := extPlaceholders.foldl Q.erase (Q.update written original)

/-- the keys `Domain.from_biopython` / `AntismashFeature.from_biopython` consume from an external motif's qualifiers on
    reading (`locus_tag` is not among them: the placeholder tag is set already) — and, because `ExternalCDSMotif` holds
    the very dictionary they consume, from its `original_qualifiers` -/
def extConsumed : List String :=
  ["protein_start", "protein_end", "aSDomain", "ASF", "domain_id", "database", "detection", "label", "translation", "evalue", "score"]

/-- `original_qualifiers` of the motif read from a feature with qualifiers `q` -/
def extOriginal (q : Quals) : Quals := extConsumed.foldl Q.erase q

end ASV.Serial
