/-
  Model of `str(location)` (Biopython's textual form, as stored in qualifiers such as
  `core_location`) and of `location_from_string` (locations.py), at character level.
  Exact positions only: `<5`, `>9` and `UnknownPosition()` are outside the modelled domain.
-/
import ASV.Model.Loc
namespace ASV

def natChars (n : Nat) : List Char := Nat.toDigits 10 n
def intChars (i : Int) : List Char := if i < 0 then '-' :: natChars i.natAbs else natChars i.toNat

def strandChars : Strand → List Char
  | .fwd => ['(', '+', ')']
  | .rev => ['(', '-', ')']
  | .zero => ['(', '?', ')']
  | .none => []

/-- `[start:end](strand)` -/
def partChars (p : Part) : List Char :=
  '[' :: intChars p.lo ++ ':' :: intChars p.hi ++ ']' :: strandChars p.strand

def joinParts : List (List Char) → List Char
  | [] => []
  | [x] => x
  | x :: rest => x ++ ',' :: ' ' :: joinParts rest

def locChars : Loc → List Char
  | .simple p => partChars p
  | .compound ps => ['j', 'o', 'i', 'n', '{'] ++ joinParts (ps.map partChars) ++ ['}']

def locToString (l : Loc) : String := String.ofList (locChars l)

/-! #### parsing (`location_from_string`) -/

/-- `int(text)` for an optional minus sign followed by decimal digits -/
def parseInt (cs : List Char) : Option Int :=
  match cs with
  | [] => none
  | '-' :: ds => if !ds.isEmpty && ds.all Char.isDigit then some (-(Nat.ofDigitChars 10 ds 0 : Nat)) else none
  | ds => if ds.all Char.isDigit then some (Nat.ofDigitChars 10 ds 0 : Nat) else none

/-- `string.split(c, 1)` → (before, after) when `c` occurs -/
def splitFirst (c : Char) : List Char → Option (List Char × List Char)
  | [] => none
  | x :: xs => if x = c then some ([], xs) else
      match splitFirst c xs with
      | some (a, b) => some (x :: a, b)
      | none => none

/-- the strand of `parse_single_location`: decided by the second-to-last character -/
def parseStrand (s : List Char) : Option Strand :=
  match (s.reverse.drop 1).head? with
  | some '-' => some Strand.rev
  | some '+' => some Strand.fwd
  | some '?' => some Strand.zero
  | _ => if s.contains '(' then none else some Strand.none

/-- `parse_single_location` -/
def parseSingle (s : List Char) : Option Part := do
  let (beforeColon, afterColon) ← splitFirst ':' s
  let start ← parseInt (beforeColon.drop 1)
  let (endText, _) ← splitFirst ']' afterColon
  let «end» ← parseInt endText
  let strand ← parseStrand s
  pure ⟨start, «end», strand⟩

/-- `combined_location.split(', ')` -/
def splitCommaSpace : List Char → List Char → List (List Char)
  | acc, [] => [acc.reverse]
  | acc, ',' :: ' ' :: rest => acc.reverse :: splitCommaSpace [] rest
  | acc, c :: rest => splitCommaSpace (c :: acc) rest

/-- `location_from_string` -/
def locFromChars (s : List Char) : Option Loc :=
  if !s.contains '{' then (parseSingle s).map Loc.simple
  else do
    let (_, combined) ← splitFirst '{' s.dropLast
    let parts ← (splitCommaSpace [] combined).mapM parseSingle
    pure (.compound parts)

def locFromString (s : String) : Option Loc := locFromChars s.toList

/-! #### with the Biopython operator (`join` / `order`) of a multi-part location kept

`Loc` itself carries no operator (every other operation ignores it); for the textual round trip the operator
is the text before `{`, kept verbatim by `location_from_string` (`CompoundLocation(locations, operator=operator)`). -/

/-- `str(location)` for a location whose compound operator is `op` -/
def opLocChars (op : List Char) : Loc → List Char
  | .simple p => partChars p
  | .compound ps => op ++ '{' :: joinParts (ps.map partChars) ++ ['}']

/-- `location_from_string`, returning the operator it passes to `CompoundLocation` (none for a simple location) -/
def locFromCharsOp (s : List Char) : Option (Option (List Char) × Loc) :=
  if !s.contains '{' then (parseSingle s).map fun p => (none, Loc.simple p)
  else do
    let (op, combined) ← splitFirst '{' s.dropLast
    let parts ← (splitCommaSpace [] combined).mapM parseSingle
    pure (some op, .compound parts)

/-- the operator a location built from `op` carries -/
def Loc.opOf (op : List Char) : Loc → Option (List Char)
  | .simple _ => none
  | .compound _ => some op

end ASV
