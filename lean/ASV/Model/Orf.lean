/-
  Model of `antismash/common/all_orfs.py` (C15): `scan_orfs`, `find_intergenic_areas`,
  `_find_cross_origin_intergenic`, the scanning half of `find_all_orfs`, the label of
  `create_feature_from_location` and the search of `get_trimmed_orf`.
  One Lean function per Python function / loop, same branch order, same `<` vs `<=`.

  The model is of the tree *with* fixes/D13, D28, D29, D57 applied (reverse-strand wrapped parts in
  transcription order; `loc_start >= loc_end` wraps; `last` never moves backwards) and
  *without* a repair of D23 (the `end - start < minimum_length` cull, pinned by the repo's own
  `test_no_hits`): the cull is transcribed as it is.

  Taken as given (trusted base, exercised by the correspondence):
    `str.upper()` on ASCII input is `Char.toUpper` per character;
    `Seq.reverse_complement()` is reverse + the per-character map of Biopython's
      `ambiguous_dna_complement` (regenerated into `ASV.Orf.Gen.complementPairs`), other
      characters unchanged;
    Python `%` with a positive right operand is `Int.emod`.
-/
import ASV.Model.Loc
import ASV.Model.ProtDna
import ASV.Model.Lookup
import ASV.Generated.Orf
namespace ASV.Orf
open ASV

abbrev Seq := List Char

/-- `seq.upper()` (ASCII) -/
def upper (s : Seq) : Seq := s.map Char.toUpper

/-- `seq[i:i+3]` -/
def codonAt (w : Seq) (i : Nat) : Seq := (w.drop i).take 3

/-- `codon in START_CODONS` -/
def isStart (c : Seq) : Bool := Gen.startCodons.contains c
/-- `codon in STOP_CODONS` -/
def isStop (c : Seq) : Bool := Gen.stopCodons.contains c

/-- `len(range(frame, seq_len - 2, 3))` -/
def frameCount (n frame : Nat) : Nat := (n - 2 - frame + 2) / 3

/-- the inner loop `for i in range(frame, seq_len - 2, 3)` of `scan_orfs`, from position `i`
    with `cnt` iterations to go and the `start` latch; yields `(start, i)` for every match
    appended, `i` being the index of the stop codon (`end = i + 2`). -/
def scanLoop (w : Seq) (minLen : Int) : Nat → Nat → Option Nat → List (Nat × Nat)
  | 0, _, _ => []
  | cnt + 1, i, start =>
    let codon := codonAt w i
    -- use the earliest possible start
    if start.isNone && isStart codon then scanLoop w minLen cnt (i + 3) (some i)
    else if isStop codon then
      match start with
      -- skip stops without a matching start
      | none => scanLoop w minLen cnt (i + 3) none
      | some s =>
        -- cull genes smaller than the cutoff: `end - start < minimum_length`, `end = i + 2`
        if ((i : Int) + 2) - (s : Int) < minLen then scanLoop w minLen cnt (i + 3) none
        else (s, i) :: scanLoop w minLen cnt (i + 3) none
    else scanLoop w minLen cnt (i + 3) start

/-- one pass of `for frame in [0, 1, 2]` over the (upper-cased) sequence -/
def scanFrame (w : Seq) (minLen : Int) (frame : Nat) : List (Nat × Nat) :=
  scanLoop w minLen (frameCount w.length frame) frame none

/-- strand of the reported location (`direction` is 1 or -1) -/
def dirStrand (fwd : Bool) : Strand := if fwd then .fwd else .rev

/-- "calculate the appropriate location on the record": from the match `(start, i)` to the
    location appended to `matches`.  `recLen = none` is `record_length=None`. -/
def orfLoc (fwd : Bool) (n : Nat) (offset : Int) (recLen : Option Int) (s i : Nat) : Loc :=
  let «end» : Int := (i : Int) + 2
  let locStart0 : Int := if fwd then (s : Int) + offset else (n : Int) + offset - «end» - 1
  let locEnd0 : Int := if fwd then «end» + offset + 1 else (n : Int) + offset - (s : Int)
  let st := dirStrand fwd
  match recLen with
  | none =>
    -- `loc_start >= loc_end` never holds here (theorem `orfLoc_none_simple`); Python would
    -- raise on `FeatureLocation(loc_start, None)`
    if locStart0 ≥ locEnd0 then .compound [] else .simple ⟨locStart0, locEnd0, st⟩
  | some L =>
    let locStart := (locStart0 + L) % L
    let locEnd := ((locEnd0 - 1 + L) % L) + 1
    if locStart ≥ locEnd then
      let parts := [⟨locStart, L, st⟩, ⟨0, locEnd, st⟩]
      .compound (if fwd then parts else parts.reverse)
    else .simple ⟨locStart, locEnd, st⟩

/-- `key=lambda x: min(x.start, x.end)` -/
def sortKey (l : Loc) : Int := min l.start l.end

/-- stable insertion (for `sorted`, which is stable) -/
def insertByKey (x : Loc) : List Loc → List Loc
  | [] => [x]
  | y :: ys => if sortKey x ≤ sortKey y then x :: y :: ys else y :: insertByKey x ys
def sortByKey (l : List Loc) : List Loc := l.foldr insertByKey []

/-- the matches of all three frames, in the order they are appended -/
def scanMatches (w : Seq) (minLen : Int) : List (Nat × Nat) :=
  scanFrame w minLen 0 ++ scanFrame w minLen 1 ++ scanFrame w minLen 2

/-- `scan_orfs(seq, direction, offset, minimum_length, record_length)` -/
def scanOrfs (seq : Seq) (fwd : Bool) (offset : Int) (minLen : Int) (recLen : Option Int) : List Loc :=
  let w := upper seq
  sortByKey ((scanMatches w minLen).map fun m => orfLoc fwd w.length offset recLen m.1 m.2)

/-! ### reverse complement (Biopython, table regenerated) -/

def complement (c : Char) : Char :=
  match Gen.complementPairs.find? (·.1 == c) with
  | some p => p.2
  | none => c
def revComp (s : Seq) : Seq := (s.map complement).reverse

/-! ### `find_intergenic_areas` -/

/-- a CDS as the gap search sees it: `cds.location.start`, `cds.location.end` -/
structure Gene where
  start : Int
  «end» : Int
deriving DecidableEq, Repr, Inhabited

/-- the `for cds in cds_features` loop with the `last` cursor, then the trailing area -/
def intergenicLoop (start «end» pad : Int) : List Gene → Int → List (Int × Int)
  | [], last => if last < «end» then [(max start last, «end»)] else []
  | g :: gs, last =>
    -- if there's a gap of sufficient size, add it
    if g.start + pad > last then
      (max start last, min «end» (g.start + pad)) :: intergenicLoop start «end» pad gs (max last (g.end - pad))
    -- in case of existing CDS features overlapping, update the last end position
    else if g.start ≤ last ∧ last ≤ g.end then intergenicLoop start «end» pad gs (max last (g.end - pad))
    else intergenicLoop start «end» pad gs last

/-- `sorted(cds_features, key=lambda feature: int(feature.location.start))` (stable; fixes/D66-C15) -/
def insertGene (x : Gene) : List Gene → List Gene
  | [] => [x]
  | y :: ys => if x.start ≤ y.start then x :: y :: ys else y :: insertGene x ys
def sortGenes (l : List Gene) : List Gene := l.foldr insertGene []

/-- `find_intergenic_areas(start, end, cds_features, min_length, padding)` -/
def findIntergenic (start «end» : Int) (genes : List Gene) (minLen pad : Int) : List (Int × Int) :=
  (intergenicLoop start «end» pad (sortGenes genes) start).filter fun a => decide (a.2 - a.1 ≥ minLen)

/-! ### `_find_cross_origin_intergenic` -/

/-- the `enumerate` loop that looks for the areas touching the origin; `none` = an `assert`
    failed.  `assert not post_origin` passes for `None` and for index 0. -/
def originScan (L : Int) : List (Int × Int) → Nat → Option Nat → Option Nat → Option (Option Nat × Option Nat)
  | [], _, pre, post => some (pre, post)
  | a :: rest, i, pre, post =>
    let chkPost := if a.1 = 0 then (if post.getD 0 = 0 then some (some i) else none) else some post
    match chkPost with
    | none => none
    | some post' =>
      let chkPre := if a.2 = L then (if pre.getD 0 = 0 then some (some i) else none) else some pre
      match chkPre with
      | none => none
      | some pre' => originScan L rest (i + 1) pre' post'

/-- `_find_cross_origin_intergenic`: `parts` = per area part `(part.start, part.end, genes
    found by the record lookup for that part)`; `none` = `AssertionError`/`IndexError` -/
def crossOriginIntergenic (parts : List (Int × Int × List Gene)) (L minLen pad : Int) :
    Option (List (Int × Int)) :=
  let areas := parts.flatMap fun p => findIntergenic p.1 p.2.1 p.2.2 minLen pad
  match originScan L areas 0 none none with
  | none => none
  | some (some pre, some post) =>
    match areas[pre]?, areas[post]? with
    | some preA, some postA =>
      let popped := areas.eraseIdx post
      let start := preA.1 - L
      if start < 0 ∧ pre < popped.length then some (popped.set pre (start, postA.2)) else none
    | _, _ => none
  | some _ => some areas

/-! ### `find_all_orfs` (scanning half) -/

/-- `seq[a:b]` for `0 ≤ a`, `0 ≤ b` -/
def slice (s : Seq) (a b : Int) : Seq := (s.drop a.toNat).take (b.toNat - a.toNat)

/-- the chunk scanned for one intergenic area -/
def chunkOf (rec : Seq) (start «end» : Int) : Seq :=
  if start ≥ 0 then slice rec start «end»
  -- bit before origin + bit after origin
  else rec.drop ((rec.length : Int) + start).toNat ++ slice rec 0 «end»

/-- the `for start, end in intergenic_areas` loop: `none` = `assert end <= len(record)` failed -/
def scanAreas (rec : Seq) (minLen : Int) : List (Int × Int) → Option (List Loc)
  | [] => some []
  | (start, «end») :: rest =>
    if «end» ≤ (rec.length : Int) then
      let chunk := chunkOf rec start «end»
      let here := scanOrfs chunk true start minLen (some rec.length)
        ++ scanOrfs (revComp chunk) false start minLen (some rec.length)
      (scanAreas rec minLen rest).map (here ++ ·)
    else none

/-- the `if area: … else: …` head of `find_all_orfs`: `cross` = `area.crosses_origin()`; `parts`
    = `(start, end, genes the record lookup returned)` for the whole record / the area (one
    entry) or for each part of an origin-crossing area -/
def orfAreas (L : Int) (cross : Bool) (parts : List (Int × Int × List Gene)) (minLen pad : Int) :
    Option (List (Int × Int)) :=
  if cross then crossOriginIntergenic parts L minLen pad
  else match parts with
    | [p] => some (findIntergenic p.1 p.2.1 p.2.2 minLen pad)
    | _ => none

/-- `find_all_orfs` up to the creation of the features: the locations, in the order found -/
def findAllOrfs (rec : Seq) (cross : Bool) (parts : List (Int × Int × List Gene)) (minLen pad : Int) :
    Option (List Loc) :=
  (orfAreas rec.length cross parts minLen pad).bind (scanAreas rec minLen)

/-- what the gap search reads off a CDS feature: `cds.location.start`, `cds.location.end` -/
def geneOf (g : Lookup.Gene) : Gene := ⟨g.loc.start, g.loc.end⟩

/-- the gene lists `find_all_orfs` works with, obtained from the record itself (C08's model of
    `Record.get_cds_features_within_location`): `genes` = `record.get_cds_features()` in record
    order, `area` = `area.location` or `none`.  Returns `(area.crosses_origin(), parts)`. -/
def recordParts (L : Int) (genes : List Lookup.Gene) (area : Option Loc) :
    Bool × List (Int × Int × List Gene) :=
  match area with
  | none => (false, [(0, L, genes.map geneOf)])
  | some a =>
    if Lookup.crosses a then
      (true, a.parts.map fun p => (p.lo, p.hi, (Lookup.within genes (.simple p) true).map geneOf))
    else (false, [(a.start, a.end, (Lookup.within genes a true).map geneOf)])

/-- `find_all_orfs(record, area, min_length, max_overlap)` on a record given by its sequence and
    its CDS features -/
def findAllOrfsRec (rec : Seq) (genes : List Lookup.Gene) (area : Option Loc) (minLen pad : Int) :
    Option (List Loc) :=
  let rp := recordParts rec.length genes area
  findAllOrfs rec rp.1 rp.2 minLen pad

/-- `return sorted(new_features)`: stable, by `Feature.__lt__` (C08's model `Lookup.locLt`:
    key `(start — or the negative head start of an origin-crossing location —, len)`) -/
def insertLoc (x : Loc) : List Loc → List Loc
  | [] => [x]
  | y :: ys => if Lookup.locLt y x then y :: insertLoc x ys else x :: y :: ys
def sortLocs (l : List Loc) : List Loc := l.foldr insertLoc []

/-- `find_all_orfs(record, area, …)`: the locations of the features returned, in the order returned -/
def findAllOrfsSorted (rec : Seq) (genes : List Lookup.Gene) (area : Option Loc) (minLen pad : Int) :
    Option (List Loc) :=
  (findAllOrfsRec rec genes area minLen pad).map sortLocs

/-! ### `create_feature_from_location`: the default label -/

def zeroPad (digits : Nat) (s : String) : String :=
  String.ofList (List.replicate (digits - s.length) '0') ++ s

def fmtInt (digits : Nat) (x : Int) : String :=
  if x < 0 then "-" ++ zeroPad (digits - 1) (toString x.natAbs) else zeroPad digits (toString x.toNat)

/-- `allorf_{start+1:0{digits}}_{end:0{digits}}`, `digits = len(str(len(record)))` -/
def orfLabel (recLen : Nat) (l : Loc) : String :=
  let digits := (toString recLen).length
  match l with
  | .compound (p :: q :: rest) =>
    let last := (q :: rest).getLast (by simp)
    let (a, b) := if l.strand == .rev then (last, p) else (p, last)
    "allorf_" ++ fmtInt digits (a.lo + 1) ++ "_" ++ fmtInt digits b.hi
  | _ => "allorf_" ++ fmtInt digits (l.start + 1) ++ "_" ++ fmtInt digits l.end

/-! ### the translation of the new feature

  `Record.get_aa_translation_from_location` and the `M` replacement of
  `create_feature_from_location`, for codons over upper/lower-case ACGT.  Biopython's
  `Seq.translate(table=id)` walks `range(0, n - n % 3, 3)`, looks the upper-cased codon up in the
  table's forward table, and on a stop codon stops (`to_stop`) or emits `*`; any other codon
  (ambiguity codes: Biopython's ambiguous table decides) is outside this model: `none`.  The
  forward table and stop codons are regenerated from `Bio.Data.CodonTable` on every run. -/

/-- `for i in range(0, n - n % 3, 3): codon = sequence[i:i+3]` -/
def codonsOf (x : Seq) : List Seq := (List.range (x.length / 3)).map fun i => codonAt x (3 * i)

/-- `forward_table[codon]` -/
def lookupAa (tbl : List (Seq × Char)) (c : Seq) : Option Char := (tbl.find? fun p => p.1 == c).map (·.2)

/-- the codon loop of `_translate_str` -/
def translateCodons (tbl : List (Seq × Char)) (stops : List Seq) (toStop : Bool) : List Seq → Option (List Char)
  | [] => some []
  | c :: cs =>
    match lookupAa tbl c with
    | some aa => (translateCodons tbl stops toStop cs).map (aa :: ·)
    | none =>
      if stops.contains c then
        (if toStop then some [] else (translateCodons tbl stops toStop cs).map ('*' :: ·))
      else none

/-- `Seq.translate(to_stop=…, table=…)` -/
def bioTranslate (tbl : List (Seq × Char)) (stops : List Seq) (toStop : Bool) (x : Seq) : Option (List Char) :=
  translateCodons tbl stops toStop (codonsOf (upper x))

/-- `for invalid in "*BJOUZ": string_version = string_version.replace(invalid, "X")` -/
def replaceInvalid (aa : List Char) : List Char :=
  aa.map fun c => if ['*', 'B', 'J', 'O', 'U', 'Z'].contains c then 'X' else c

/-- `Record.get_aa_translation_from_location` from the extracted nucleotides on (the explicit
    trimming to whole codons is what the codon loop does anyway) -/
def aaTranslation (tbl : List (Seq × Char)) (stops : List Seq) (extracted : Seq) : Option (List Char) :=
  let x := extracted.filter (· != '-')
  match bioTranslate tbl stops true x with
  | none => none
  | some [] => (bioTranslate tbl stops false x).map replaceInvalid   -- "go past stop codons"
  | some aa => some (replaceInvalid aa)

/-- `create_feature_from_location`: "always start with methionine"; `none` also stands for the
    `IndexError` on an empty translation -/
def featureTranslation (tbl : List (Seq × Char)) (stops : List Seq) (extracted : Seq) : Option (List Char) :=
  match aaTranslation tbl stops extracted with
  | some (a :: rest) => some (if a != 'M' then 'M' :: rest else a :: rest)
  | _ => none

/-! ### `get_trimmed_orf` (search for the latest admissible start codon)

  Models the tree with fixes/D57 applied: the new location is
  `get_sub_location_from_offsets(orf.location, starts[-1], len(seq))` (C09's exon walk), so the
  trimming follows the parts in transcription order for multi-part / origin-crossing ORFs. -/

/-- outcome of the search: `ValueError`, `None`, or `starts[-1]` -/
inductive TrimSearch where
  | valueError
  | none
  | start (k : Nat)
deriving DecidableEq, Repr

/-- `for i in range(start, end, 3)` collecting start codons; returns `starts[-1]` -/
def lastStart (seq : Seq) : Nat → Nat → Option Nat → Option Nat
  | 0, _, acc => acc
  | cnt + 1, i, acc => lastStart seq cnt (i + 3) (if isStart (codonAt seq i) then some i else acc)

/-- lower end of the search range: `max(0, len(seq) - (max_length - (max_length % 3)))` -/
def trimLo (n maxLen : Int) : Int := max 0 (n - (maxLen - maxLen % 3))
/-- upper end (exclusive): `min(len(seq) - min_length, include)` -/
def trimHi (n minLen incl : Int) : Int := min (n - minLen) incl

/-- `get_trimmed_orf` up to the construction of the new location; `seq` is the extracted ORF
    (not upper-cased by the code); `incl`/`maxLen` are `None` when absent -/
def trimSearch (seq : Seq) (incl : Option Int) (minLen : Int) (maxLen : Option Int) : TrimSearch :=
  let n : Int := seq.length
  let maxLen := maxLen.getD n
  let incl := incl.getD n
  if minLen > maxLen then .valueError
  else if minLen > n then .none
  else if maxLen < n - incl then .none
  else
    let start := trimLo n maxLen
    let «end» := trimHi n minLen incl
    let cnt := if «end» > start then ((«end» - start + 2) / 3).toNat else 0
    match lastStart seq cnt start.toNat Option.none with
    | Option.none => .none
    | some k => .start k

inductive Trim where
  | valueError
  | none
  | found (l : Loc)
deriving DecidableEq, Repr

/-- `get_trimmed_orf(orf, record, include, min_length, max_length)`: `loc = orf.location`,
    `seq = orf.extract(record.seq)` -/
def trimmedOrf (seq : Seq) (loc : Loc) (incl : Option Int) (minLen : Int) (maxLen : Option Int) : Trim :=
  match trimSearch seq incl minLen maxLen with
  | .valueError => .valueError
  | .none => .none
  | .start k =>
    match ProtDna.subLocationFromOffsets loc k seq.length with
    | .ok l => .found l
    | _ => .valueError

end ASV.Orf
