/-
  C12 — the caller: the part of `main.write_outputs` that writes the per-region GenBank files.

      bio_records = [record.to_biopython() for record in results.records]
      add_antismash_comments(list(zip(results.records, bio_records)), options)
      if options.region_gbks:
          for record, bio_record in zip(results.records, bio_records):
              for region in record.get_regions():
                  region.write_to_genbank(directory=options.output_dir, record=bio_record)

  Modelled: the pairing (every record of the results zipped with ITS OWN converted record, records without
  regions included — they take their place in both lists and contribute no file), the loop over the
  regions of a record in region-number order, the file name `<record id>.region<number>.gbk` (as the pair
  id, number) and `write_to_genbank` itself (Model/RegionExtract.lean).  Data, not modelled:
  `Record.to_biopython` (C10's ground; `AnalysedRecord.bio` is its result, carrying the structured comment
  `add_antismash_comments` put there) and `Region.write_to_genbank` forming `RegionData` from the region.
  One converted record serves all regions of its record one after the other; that the next write finds it as
  the previous one did is `C12.parent_restored` / `C12.annotations_parent_unchanged`.
-/
import ASV.Model.RegionExtract
namespace ASV.RegionExtract
open ASV

/-- a record of the results: its id, what `record.to_biopython()` returns for it, and the `RegionData` of its
    regions in the order of `record.get_regions()` (region numbers 1, 2, …) -/
structure AnalysedRecord where
  id : String
  bio : BioRecord
  regions : List RegionData
deriving Repr, Inhabited

/-- a region file: `<id>.region<number>.gbk` and what was written into it -/
structure RegionFile where
  id : String
  number : Nat
  written : Written
deriving Repr, Inhabited

/-- `for region in record.get_regions(): region.write_to_genbank(directory, record=bio_record)`; `k` is the
    number of the first region of the list -/
def writeRegionsOf (id : String) (bio : BioRecord) : Nat → List RegionData → E (List RegionFile)
  | _, [] => .ok []
  | k, rd :: rest =>
    match writeToGenbank rd bio with
    | .error e => .error e
    | .ok w =>
      match writeRegionsOf id bio (k + 1) rest with
      | .error e => .error e
      | .ok fs => .ok (⟨id, k, w⟩ :: fs)

/-- `for record, bio_record in zip(records, bio_records): …` over a list of pairs -/
def writePairs : List (AnalysedRecord × BioRecord) → E (List RegionFile)
  | [] => .ok []
  | (r, bio) :: rest =>
    match writeRegionsOf r.id bio 1 r.regions with
    | .error e => .error e
    | .ok fs =>
      match writePairs rest with
      | .error e => .error e
      | .ok more => .ok (fs ++ more)

/-- the region-file part of `main.write_outputs(results, options)` with `options.region_gbks` -/
def writeRegionFiles (records : List AnalysedRecord) : E (List RegionFile) :=
  let bioRecords := records.map (·.bio)
  writePairs (records.zip bioRecords)

end ASV.RegionExtract
