/-
  C11 ↔ C14 bridge (model side): the abstract `ModRules` of `Model/Results.lean` instantiated with
  C14's transcription of `classify` / `Module.add_component` (`Model/Modules.lean`).

  A stored `Component` carries a whole `HMMResult`; module building only looks at
  `hit_id`, `detailed_names[1:]`, `query_start`, `query_end` and the locus (`absC`).
-/
import ASV.Model.Results
import ASV.Model.Modules
namespace ASV.Results

/-- `HMMResult.detailed_names[1:]`: follow the internal hits while there is exactly one -/
def detailedTail : HMMResult → List String
  | .mk _ _ _ _ _ [k] => k.hitId :: detailedTail k
  | _ => []

/-- what module building sees of a stored component -/
def absC (c : Component) : Modules.Comp :=
  ⟨c.domain.hitId, detailedTail c.domain, c.domain.qStart, c.domain.qEnd, c.locus⟩

/-- `classify(name)` succeeds; re-adding the components to `Module(first)` with the rest of the list
    as look-ahead (`Module.from_json`) raises nothing -/
def c14Rules : ModRules where
  classifiable := fun name => (Modules.classify name).isSome
  accepts := fun first comps =>
    match Modules.replayGo (Modules.Module.new first) (comps.map absC) with
    | .ok _ => true
    | .error _ => false

end ASV.Results
