/-
  Model of `antismash/common/hmm_rule_parser/cluster_prediction.py` (C03):
    apply_cluster_rules (with the per-cutoff cache; the circular flag is stored in the cache — D1 repaired —
      and is the record length on every circular record — D34 repaired),
    find_protoclusters (origin-spanning anchors first — connected as whole locations, D38 repaired —,
      sorted sweep against the last core, first/last fix-up),
    _extend_area_location (the whole-record split never cuts into the location — D35 repaired),
    apply_extenders, remove_redundant_protoclusters,
    merge_over_origin (merging to a fixpoint — D18 repaired; merged neighbourhoods through
      _extend_area_location — D36 repaired; also applied before extenders and superiors — D37 repaired), strip_inferior_domains, build_results,
    detect_protoclusters_and_signatures (dynamic-profile hits are an input).
  One Lean function per Python function, same branch order, same `<` / `<=`, same iteration sources.
  Python exceptions are `Except` values ("value-error", "assertion", "IndexError", "KeyError").

  `Record.get_cds_features_within_location` belongs to another property (C08).  Every function here
  takes it as the parameter `within : Lookup`; `withinSpec` below is its specification.
-/
import ASV.Model.LocOps
import ASV.Model.Rules
namespace ASV.Proto
open ASV ASV.Rules

/-- a CDS feature: name, location, profile hits (profile, 2·bitscore), and whether the name is a key
    of `results_by_id` -/
structure GeneInfo where
  id : Gene
  loc : Loc
  hits : List (Prof × Int) := []
  hasRes : Bool := true
deriving Repr, Inhabited

/-- `DetectionRule` -/
structure RuleM where
  name : String
  cutoff : Int
  nbhd : Int
  cond : Cond
  superiors : List String := []
  extenders : Option Cond := none
deriving Repr, Inhabited

/-- the record: length, topology and the CDS features in `record.get_cds_features()` order -/
structure Rec where
  len : Int
  circular : Bool
  genes : List GeneInfo
deriving Repr, Inhabited

/-- `wrap_point` handed to `connect_locations` -/
def Rec.wrap (r : Rec) : Option Int := if r.circular then some r.len else none
/-- `wrap_point` handed to `get_distance_between_locations` (0 = None) -/
def Rec.wrapI (r : Rec) : Int := if r.circular then r.len else 0

/-- `record.get_cds_features_within_location(location, with_overlapping)` -/
abbrev Lookup := Loc → Bool → List GeneInfo

/-! ### specification of the lookup (what C08 establishes for the real function) -/

def keepGene (loc : Loc) (ov : Bool) (g : GeneInfo) : Bool :=
  locationContainsOther loc g.loc || (ov && locationsOverlap g.loc loc)

def dedupGenes : List GeneInfo → List GeneInfo
  | [] => []
  | g :: gs => g :: (dedupGenes gs).filter (·.id != g.id)

/-- single-part location: the genes contained in it (or sharing a base with it, when overlapping ones
    are asked for), in record order; multi-part location: the genes sharing a base with each part in
    turn, without repeats, then the same filter against the whole location -/
def withinSpec (r : Rec) : Lookup := fun loc ov =>
  if loc.parts.length > 1 then
    (dedupGenes (loc.parts.flatMap fun p => r.genes.filter fun g => locationsOverlap g.loc (.simple p))).filter (keepGene loc ov)
  else r.genes.filter (keepGene loc ov)

/-! ### `_extend_area_location` -/

def extendArea (r : Rec) (loc : Loc) (distance : Int) (force : Bool) : E Loc := do
  if loc.strand == .none && loc.parts.length != 1 then throw "assertion"
  if r.circular && loc.parts.length > 1 && !bridgesOrigin loc then throw "value-error"
  let maxParts : Nat := if r.circular then 2 else 1
  let distance := if r.circular then min distance ((r.len - loc.len) / 2 + 1) else distance
  if loc.parts.length > maxParts then throw "value-error"
  let fwd := if loc.strand != .fwd then makeForwards loc else loc
  let ext ← extendLocation fwd distance r.len r.circular
  let result ← connect [ext] r.wrap
  let result :=
    if bridgesOrigin loc && result.len == r.len && !bridgesOrigin result && force then
      match loc.parts.head?, loc.parts.getLast? with
      | some p0, some pn =>
        let mid := (p0.lo - pn.hi) / 2 + pn.hi
        Loc.compound [⟨mid, r.len, result.strand⟩, ⟨0, max pn.hi (mid - 1), result.strand⟩]
      | _, _ => result
    else result
  if result.parts.length > maxParts then throw "value-error"
  pure result

/-! ### protoclusters and the constructor checks of `Protocluster` / `CDSCollection` / `Feature` -/

structure PC where
  rule : String
  core : Loc
  loc : Loc
deriving Repr, Inhabited, DecidableEq

def dupEnds : List Part → Bool
  | [] => false
  | p :: ps => ps.any (·.hi == p.hi) || dupEnds ps

def mkPC (rule : String) (core surrounds : Loc) : E PC := do
  if bridgesOrigin core && !bridgesOrigin surrounds then throw "value-error"
  if surrounds.parts.length < core.parts.length then throw "assertion"
  if surrounds.parts.length > 1 then
    if surrounds.parts.length != 2 then throw "assertion"
    match surrounds.parts with
    | [_, q] => if q.lo != 0 then throw "value-error"
    | _ => pure ()
  match surrounds.parts with
  | [] => throw "assertion"
  | p :: ps => if !ps.all (·.strand == p.strand) then throw "assertion"
  if surrounds.parts.length > 1 && dupEnds surrounds.parts then throw "value-error"
  if surrounds.start > surrounds.end then throw "assertion"
  if surrounds.start < 0 then throw "value-error"
  if surrounds.parts.length > 1 && surrounds.strand != .fwd then throw "value-error"
  pure ⟨rule, core, surrounds⟩

/-! ### `apply_cluster_rules` -/

/-- what the cache holds per cutoff: the nearby genes and the circular flag -/
structure NearInfo where
  nearby : List GeneInfo
  circ : Int
deriving Repr, Inhabited

def nearInfo (within : Lookup) (r : Rec) (g : GeneInfo) (cutoff : Int) : E NearInfo := do
  let location ← connect [g.loc] r.wrap
  if location.parts.length > 2 then throw "assertion"
  let window ← extendArea r location cutoff false
  pure ⟨within window true, if r.circular then r.len else 0⟩

/-- the `Details` that `rule.detect(cds_name, nearby_features, nearby_results, circular_origin)` builds -/
def envOf (ni : NearInfo) (cutoff : Int) : Env :=
  Env.ofLocs (ni.nearby.map (·.id)) ((ni.nearby.filter (·.hasRes)).map (·.id))
    (fun h => match ni.nearby.find? (·.id == h) with | some x => x.hits | none => [])
    (fun h => match ni.nearby.find? (·.id == h) with | some x => x.loc | none => default)
    cutoff ni.circ

/-- the rule loop of one gene, with `info_by_range` -/
def evalRulesCached (within : Lookup) (r : Rec) (g : GeneInfo) :
    List (Int × NearInfo) → List RuleM → E (List (RuleM × Met))
  | _, [] => pure []
  | cache, rule :: rest => do
    let (ni, cache') ← match cache.lookup rule.cutoff with
      | some ni => (pure (ni, cache) : E _)
      | none => do
        let ni ← nearInfo within r g rule.cutoff
        pure (ni, (rule.cutoff, ni) :: cache)
    let m := detect (envOf ni rule.cutoff) g.id rule.cond
    let more ← evalRulesCached within r g cache' rest
    pure ((rule, m) :: more)

/-- the same loop without the cache -/
def evalRulesDirect (within : Lookup) (r : Rec) (g : GeneInfo) (rules : List RuleM) : E (List (RuleM × Met)) :=
  rules.mapM fun rule => do
    let ni ← nearInfo within r g rule.cutoff
    pure (rule, detect (envOf ni rule.cutoff) g.id rule.cond)

/-- `if matching.met and matching.matches` -/
def Met.fires (m : Met) : Bool := m.met && !m.reasons.isEmpty

abbrev RuleResults := List (GeneInfo × List (RuleM × Met))

def ruleResults (within : Lookup) (r : Rec) (rules : List RuleM) : E RuleResults :=
  (r.genes.filter (·.hasRes)).mapM fun g => do
    let res ← evalRulesCached within r g [] rules
    pure (g, res)

/-- `cluster_type_hits[rule]`: the genes where the rule fires and their ancillary genes (with repeats) -/
def hitsFor (res : RuleResults) (rule : String) : List Gene :=
  res.flatMap fun x => x.2.flatMap fun y =>
    if y.1.name == rule && Met.fires y.2 then x.1.id :: y.2.ancillary.map (·.1) else []

/-- `cds_domains_by_cluster_type` as a list of (gene, rule, profiles) entries; a key exists iff an entry does -/
abbrev Doms := List (Gene × String × List Prof)

def domsOf (res : RuleResults) : Doms :=
  res.flatMap fun x => x.2.flatMap fun y =>
    if Met.fires y.2 then (x.1.id, y.1.name, y.2.reasons) :: y.2.ancillary.map (fun a => (a.1, y.1.name, [a.2])) else []

def Doms.keys (d : Doms) (g : Gene) : List String := (d.filter (·.1 == g)).map (·.2.1)
def Doms.get (d : Doms) (g : Gene) (rule : String) : List Prof :=
  (d.filter fun e => e.1 == g && e.2.1 == rule).flatMap (·.2.2)

/-! ### `find_protoclusters`: cores -/

def dedupIds : List Gene → List Gene
  | [] => []
  | g :: gs => g :: (dedupIds gs).filter (· != g)

/-- stable insertion by `Feature.__lt__` (what `sorted` does with `<`) -/
def insertFeat (x : Loc) : List Loc → E (List Loc)
  | [] => pure [x]
  | y :: ys => do
    if (← featureLt y x) then
      let more ← insertFeat x ys
      pure (y :: more)
    else pure (x :: y :: ys)

def sortFeats : List Loc → E (List Loc)
  | [] => pure []
  | x :: xs => do
    let s ← sortFeats xs
    insertFeat x s

/-- the `while cds_features:` loop; the cores are kept last-first -/
def sweepCores (r : Rec) (cutoff : Int) : List Loc → List Loc → E (List Loc)
  | coresRev, [] => pure coresRev
  | [], cds :: rest => do
    let c ← connect [cds] r.wrap
    sweepCores r cutoff [c] rest
  | previous :: older, cds :: rest => do
    let dummy ← extendArea r previous cutoff false
    if dummy.len < previous.len then throw "assertion"
    if locationsOverlap cds dummy then
      let merged ← connect [previous, cds] r.wrap
      sweepCores r cutoff (merged :: older) rest
    else
      let c ← connect [cds] r.wrap
      sweepCores r cutoff (c :: previous :: older) rest

/-- "check for over-origin clusters within cutoff, which should only be first and last cores" -/
def fixFirstLast (r : Rec) (cutoff : Int) (cores : List Loc) : E (List Loc) :=
  match cores with
  | [] => throw "assertion"
  | first :: rest =>
    match rest.getLast? with
    | none => pure cores
    | some last =>
      if r.circular && first.start > last.start && getDistance first last r.wrapI < cutoff then do
        let merged ← connect [last, first] r.wrap
        pure (merged :: rest.dropLast)
      else pure cores

/-- the cores of one rule from the locations of its anchoring genes (any order) -/
def findCores (r : Rec) (cutoff : Int) (anchors : List Loc) : E (List Loc) := do
  let sorted ← sortFeats anchors
  let cross := sorted.filter bridgesOrigin
  let rest ← sortFeats (sorted.filter fun l => !bridgesOrigin l)
  let crossCores ← cross.mapM fun c => connect [c] r.wrap
  let coresRev ← sweepCores r cutoff crossCores.reverse rest
  fixFirstLast r cutoff coresRev.reverse

def geneLoc (r : Rec) (g : Gene) : Loc :=
  match r.genes.find? (·.id == g) with | some x => x.loc | none => default

def findRule (rules : List RuleM) (name : String) : E RuleM :=
  match rules.find? (·.name == name) with | some x => pure x | none => throw "KeyError"

/-- the protoclusters of one rule before extenders / redundancy / merging -/
def clustersOfRule (r : Rec) (rule : RuleM) (anchors : List Gene) : E (List PC) := do
  -- record order restricted to the anchoring genes stands for the (unordered) set of names
  let locs := (r.genes.filter fun g => anchors.contains g.id).map (·.loc)
  let cores ← findCores r rule.cutoff locs
  cores.mapM fun core => do
    let surrounds ← extendArea r core rule.nbhd true
    mkPC rule.name core surrounds

/-! ### `apply_extenders` -/

/-- `rule.can_extend_to(cds, hits)` -/
def canExtend (rule : RuleM) (g : GeneInfo) : Option Met :=
  rule.extenders.map fun c =>
    evalC (Env.ofLocs [g.id] [g.id] (fun h => if h == g.id then g.hits else []) (fun _ => g.loc) rule.cutoff 0)
      g.id false c

def extendsTo (rule : RuleM) (g : GeneInfo) : Option (List Prof) :=
  match canExtend rule g with
  | some m => if m.met then some m.reasons else none
  | none => none

/-- `mark_extendable`: the genes it yields -/
def markExt (r : Rec) (rule : RuleM) (core : Loc) : GeneInfo → List GeneInfo → List GeneInfo
  | _, [] => []
  | prev, cds :: rest =>
    if locationContainsOther core cds.loc then markExt r rule core prev rest
    else if getDistance cds.loc prev.loc r.wrapI > rule.cutoff then []
    else match extendsTo rule cds with
      | some _ => cds :: markExt r rule core cds rest
      | none => markExt r rule core prev rest

/-- `cycle(items, index, direction)` -/
def cycle (r : Rec) (items : List GeneInfo) (index : Nat) (forwards : Bool) : List GeneInfo :=
  if forwards then
    if r.circular then items.drop index ++ items.take index else items.drop index
  else
    if r.circular then (items.take index).reverse ++ (items.drop (index + 1)).reverse else (items.take index).reverse

/-- `bisect.bisect_left(cdses, core)` on the sorted gene tuple -/
def bisectLeft (items : List GeneInfo) (core : Loc) : E Nat := do
  let flags ← items.mapM fun g => featureLt g.loc core
  pure (flags.takeWhile id).length

def extendCluster (within : Lookup) (r : Rec) (rules : List RuleM) (pc : PC) : E (PC × Doms) := do
  let rule ← findRule rules pc.rule
  let index ← bisectLeft r.genes pc.core
  let coreCds := within pc.core false
  let inCore : Doms := coreCds.filterMap fun cds => (extendsTo rule cds).map fun ms => (cds.id, rule.name, ms)
  match coreCds.head?, coreCds.getLast? with
  | some firstC, some lastC =>
    let back := markExt r rule pc.core firstC (cycle r r.genes index false)
    let core1 ← back.foldlM (fun core cds => connect [cds.loc, core] r.wrap) pc.core
    let forw := markExt r rule core1 lastC (cycle r r.genes index true)
    let core2 ← forw.foldlM (fun core cds => connect [cds.loc, core] r.wrap) core1
    if !locationContainsOther core2 pc.core then throw "assertion"
    let surrounds ← extendArea r core2 rule.nbhd true
    let pc' ← mkPC rule.name core2 surrounds
    let added : Doms := (back ++ forw).filterMap fun cds => (extendsTo rule cds).map fun ms => (cds.id, rule.name, ms)
    pure (pc', inCore ++ added)
  | _, _ => throw "IndexError"

def applyExtenders (within : Lookup) (r : Rec) (rules : List RuleM) (clusters : List PC) : E (List PC × Doms) := do
  let out ← clusters.mapM (extendCluster within r rules)
  pure (out.map (·.1), out.flatMap (·.2))

/-! ### `remove_redundant_protoclusters` -/

/-- `get_first_and_last` -/
def firstLast (within : Lookup) (pc : PC) : E (Loc × Loc) :=
  match within pc.core false with
  | [] => throw "IndexError"
  | f :: more => pure (f.loc, ((f :: more).getLast?.map (·.loc)).getD f.loc)

/-- the inner loop over the clusters of one superior; returns `is_redundant` -/
def redundantInner (within : Lookup) (pc : PC) (first last : Loc) : Bool → List PC → E Bool
  | red, [] => pure red
  | red, other :: rest =>
    if locationContainsOther other.core pc.core then redundantInner within pc first last true rest
    else do
      let (otherFirst, otherLast) ← firstLast within other
      if (← featureLt otherLast first) then redundantInner within pc first last red rest
      else if (← featureLt last otherFirst) then redundantInner within pc first last red rest
      else pure true

def redundantOuter (within : Lookup) (clusters : List PC) (pc : PC) (first last : Loc) : List String → E Bool
  | [] => pure false
  | sup :: more => do
    if (← redundantInner within pc first last false (clusters.filter (·.rule == sup))) then pure true
    else redundantOuter within clusters pc first last more

def isRedundant (within : Lookup) (rules : List RuleM) (clusters : List PC) (pc : PC) : E Bool := do
  let (first, last) ← firstLast within pc
  let rule ← findRule rules pc.rule
  redundantOuter within clusters pc first last rule.superiors

/-- keep the elements for which the test says `true` (in order; the first error wins) -/
def filterE {α : Type} (p : α → E Bool) : List α → E (List α)
  | [] => pure []
  | a :: l => do
    let b ← p a
    let rest ← filterE p l
    pure (if b then a :: rest else rest)

def removeRedundant (within : Lookup) (rules : List RuleM) (clusters : List PC) : E (List PC) :=
  filterE (fun pc => do
    let red ← isRedundant within rules clusters pc
    pure (!red)) clusters

/-! ### `merge_over_origin` (merging to a fixpoint) -/

def mergePair (r : Rec) (rules : List RuleM) (first second : PC) : E PC := do
  let rule ← findRule rules first.rule
  let core ← connect [first.core, second.core] r.wrap
  let surrounds ← extendArea r core rule.nbhd true
  mkPC first.rule core surrounds

def insertByStart (x : PC × Loc) : List (PC × Loc) → List (PC × Loc)
  | [] => [x]
  | y :: ys => if y.2.start ≤ x.2.start then y :: insertByStart x ys else x :: y :: ys
/-- `group.sort(key=lambda x: x[1].start)` (stable) -/
def sortByStart (l : List (PC × Loc)) : List (PC × Loc) := l.foldr insertByStart []

/-- one round of the merge loop: the first pair (i < j) whose second core shares a base with the
    cutoff-extended first core is merged into position i -/
def mergeStep (r : Rec) (rules : List RuleM) (cutoff : Int) : List (PC × Loc) → E (Option (List (PC × Loc)))
  | [] => pure none
  | (first, ext) :: rest =>
    match rest.findIdx? (fun x => locationsOverlap x.1.core ext) with
    | some j =>
      match rest[j]? with
      | some other => do
        let merged ← mergePair r rules first other.1
        let e ← extendLocation merged.core cutoff r.len r.circular
        pure (some ((merged, e) :: rest.eraseIdx j))
      | none => pure none
    | none => do
      match ← mergeStep r rules cutoff rest with
      | some rest' => pure (some ((first, ext) :: rest'))
      | none => pure none

def mergeFix (r : Rec) (rules : List RuleM) (cutoff : Int) : Nat → List (PC × Loc) → E (List (PC × Loc))
  | 0, group => pure group
  | fuel + 1, group => do
    match ← mergeStep r rules cutoff group with
    | none => pure group
    | some g => mergeFix r rules cutoff fuel g

def mergeOverOrigin (r : Rec) (rules : List RuleM) (clusters : List PC) : E (List PC) := do
  let withExt ← clusters.mapM fun pc => do
    let rule ← findRule rules pc.rule
    let e ← extendLocation pc.core rule.cutoff r.len r.circular
    pure (pc, e)
  let products := (clusters.map (·.rule)).eraseDups
  let groups ← products.mapM fun prod => do
    let group := withExt.filter (·.1.rule == prod)
    if group.length < 2 then pure group
    else do
      let rule ← findRule rules prod
      mergeFix r rules rule.cutoff group.length (sortByStart group)
  pure (groups.flatten.map (·.1))

/-! ### `strip_inferior_domains`, `build_results`, the whole pipeline -/

def stripInferior (rules : List RuleM) (d : Doms) : Doms :=
  d.filter fun e =>
    match rules.find? (·.name == e.2.1) with
    | some rule => !(rule.superiors.any fun s => (d.keys e.1).contains s)
    | none => true

structure Out where
  pc : PC
  defs : List (Gene × List Prof)
deriving Repr, Inhabited

/-- the clusters before / after each stage (the intermediate lists feed the executable spec) -/
structure Stages where
  anchors : List (String × List Gene)
  found : List PC
  extended : List PC
  kept : List PC
  final : List Out
deriving Repr, Inhabited

def detectStages (within : Lookup) (r : Rec) (rules : List RuleM) : E Stages := do
  if r.genes.isEmpty then return ⟨[], [], [], [], []⟩
  let res ← if (r.genes.filter (·.hasRes)).isEmpty then (pure [] : E RuleResults) else ruleResults within r rules
  let anchors := (rules.map fun rule => (rule.name, dedupIds (hitsFor res rule.name))).filter fun x => !x.2.isEmpty
  let doms0 := domsOf res
  let found ← anchors.mapM fun x => do
    let rule ← findRule rules x.1
    clustersOfRule r rule x.2
  let found ← mergeOverOrigin r rules found.flatten
  let (extended, domsExt) ← applyExtenders within r rules found
  -- cores that extenders brought within the cutoff of each other are joined before superiors are
  -- considered (D66-C03): `extended` is what `remove_redundant_protoclusters` receives
  let extended ← mergeOverOrigin r rules extended
  let kept ← removeRedundant within rules extended
  let doms := stripInferior rules (doms0 ++ domsExt)
  let final := kept.map fun pc =>
    let cds := (within pc.loc false).filter fun g => !g.hits.isEmpty
    ⟨pc, (cds.map fun g => (g.id, doms.get g.id pc.rule)).filter fun x => !x.2.isEmpty⟩
  pure ⟨anchors, found, extended, kept, final⟩

/-- `detect_protoclusters_and_signatures(record, ruleset)`: protoclusters with their definition domains -/
def detectProtoclusters (within : Lookup) (r : Rec) (rules : List RuleM) : E (List Out) := do
  let s ← detectStages within r rules
  pure s.final

end ASV.Proto
