/-
  Literal model of Python's `bisect.bisect_right` / `bisect.bisect_left` (Lib/bisect.py, pure-Python version):
      while lo < hi: mid = (lo + hi) // 2; if <test on a[mid]>: lo = mid + 1 else: hi = mid;  return lo
  `keep a[mid]` is the test that moves `lo` up: `not (x < a[mid])` for bisect_right, `a[mid] < x` for bisect_left.
  The loop runs at most `hi - lo` times; the fuel is that bound.  No imports (driver-linkable).
-/
namespace ASV.Bisect

def loop {α} (keep : α → Bool) (a : List α) : Nat → Nat → Nat → Nat
  | 0, lo, _ => lo
  | fuel + 1, lo, hi =>
    if lo < hi then
      let mid := (lo + hi) / 2
      match a[mid]? with
      | some y => if keep y then loop keep a fuel (mid + 1) hi else loop keep a fuel lo mid
      | none => lo        -- unreachable: mid < hi ≤ len(a)
    else lo

/-- `bisect(a, x, lo)` with `hi = len(a)` -/
def bisect {α} (keep : α → Bool) (a : List α) (lo : Nat := 0) : Nat := loop keep a (a.length - lo) lo a.length

end ASV.Bisect
