/-
  C10 model: `CDSFeature.to_biopython / from_biopython` (features/cds_feature.py) — names, product, translation,
  translation table, the `sec_met_domain` and `gene_functions` / `gene_kind` qualifiers (qualifier-level models in
  `ASV/Model/SerialQual.lean`) on top of the generic `Feature` part.

  Outside this model: the NRPS_PKS qualifier (a feature that carries one is refused as "unsupported"), names generated
  for nameless CDS (`cds<start>_<end>`), and what `_ensure_valid_translation` checks against the record's sequence —
  that check is the parameter `trOK translation location` (valid characters, fits the location after the codon_start
  shift and the record).
-/
import ASV.Model.SerialQual
namespace ASV.Serial
open ASV

structure Cds where
  /-- location, type `CDS`, notes, free qualifiers, `created_by_antismash`, codon start -/
  feat : Feat
  locusTag : Option String := none
  proteinId : Option String := none
  gene : Option String := none
  product : String := ""
  translation : String
  translTable : Int := 1
  secMet : List SMDom := []
  geneFns : List Annot := []
deriving DecidableEq, Repr, Inhabited

/-- `_sanitise_id_value` -/
def sanitiseId (s : String) : String :=
  String.ofList (s.toList.map fun c => if "!\"#$%&()*+,:; \r\n\t=>?@[]^`'{|}/".toList.contains c then '_' else c)

/-- the translation setter: an alternative start codon reads as methionine -/
def startWithM (s : String) : String :=
  match s.toList with
  | [] => s
  | _ :: rest => String.ofList ('M' :: rest)

/-- the `mine` of `CDSFeature.to_biopython` -/
def Cds.mine (c : Cds) : Quals :=
  let q : Quals := [("translation", [c.translation])]
  let q := setOpt q "gene" c.gene
  let q := if c.translTable = 0 then q else Q.set q "transl_table" [strOfInt c.translTable]
  let q := setOpt q "locus_tag" c.locusTag
  let q := setOpt q "protein_id" c.proteinId
  let q := setOpt q "product" (some c.product)
  let q := if c.geneFns.isEmpty then q
    else Q.set (Q.set q "gene_functions" (c.geneFns.map Annot.toStr)) "gene_kind" [(classification c.geneFns).label]
  if c.secMet.isEmpty then q else Q.set q "sec_met_domain" (c.secMet.map SMDom.toStr)

def Cds.toBio (c : Cds) : E Bio := c.feat.toBio c.mine

/-- `leftovers.pop(key, [None])[0]` -/
def popOpt (q : Quals) (k : String) : E (Option String) :=
  match Q.get? q k with
  | some (v :: _) => pure (some v)
  | some [] => throw "IndexError"
  | none => pure none

/-- `sec_met = leftovers.pop("sec_met_domain", None); if sec_met: SecMetQualifier.from_biopython(sec_met)` -/
def readSecMet (l : Quals) : E (List SMDom) :=
  match Q.get? l "sec_met_domain" with
  | some (v :: vs) => smFromQualifier (v :: vs)
  | _ => pure []

/-- `gene_functions = leftovers.pop("gene_functions", []); if gene_functions: add_from_qualifier(gene_functions)` -/
def readGeneFns (l : Quals) : E (List Annot) :=
  match Q.get? l "gene_functions" with
  | some (v :: vs) => annFromQualifier [] (v :: vs)
  | _ => pure []

/-- the record's table unless the feature has its own -/
def readTable (defaultTable : Int) (l : Quals) : E Int :=
  match Q.get? l "transl_table" with
  | none => pure defaultTable
  | some [] => throw "IndexError"
  | some (t :: _) => match intOfStr t with
    | some i => pure i
    | none => throw "value-error"

/-- the location the translation has to fit: shifted by a codon start, if there is one -/
def readShifted (loc : Loc) (l : Quals) : E Loc :=
  match Q.get? l "codon_start" with
  | some (s :: _) => do let d ← firstDigit s; frameshift loc d false
  | some [] => throw "IndexError"
  | none => pure loc

/-- `CDSFeature.from_biopython`; `defaultTable` is the record's translation table -/
def Cds.fromBio (defaultTable : Int) (trOK : String → Loc → Bool) (b : Bio) : E Cds := do
  let l := b.quals
  let proteinId ← popOpt l "protein_id"
  let l := Q.erase l "protein_id"
  let tag0 ← firstOr l "locus_tag"
  let l := Q.erase l "locus_tag"
  let locusTag := if tag0.isEmpty then none else some (noSpaces tag0)
  let gene ← popOpt l "gene"
  let l := Q.erase l "gene"
  let named (o : Option String) : Bool := !(o.getD "").isEmpty
  if !(named gene || named proteinId || named locusTag) then throw "unsupported"
  else
    let table ← readTable defaultTable l
    let l := Q.erase l "transl_table"
    if !(b.loc.strand == .fwd || b.loc.strand == .rev) then throw "value-error"
    else
      let loc ← readShifted b.loc l
      let translation ← firstOr l "translation"
      let l := Q.erase l "translation"
      if translation.isEmpty || !trOK translation loc then throw "value-error"
      else
        let product ← firstOr l "product"
        let l := Q.erase l "product"
        let secMet ← readSecMet l
        let l := Q.erase l "sec_met_domain"
        let geneFns ← readGeneFns l
        let l := Q.erase l "gene_functions"
        if !((Q.get? l "NRPS_PKS").getD []).isEmpty then throw "unsupported"
        else
          let l := Q.erase l "NRPS_PKS"
          let feat ← applyLeftovers ⟨b.loc, "CDS", [], [], false, none⟩ l
          pure ⟨feat, locusTag.map sanitiseId, proteinId.map sanitiseId, gene.map sanitiseId, product, startWithM translation,
                table, secMet, geneFns⟩

end ASV.Serial
