/-
  C09 model — protein → nucleotide coordinate conversion.
  One Lean function per Python function, same branch order, same `<` / `<=`.
  Models the tree WITH the repairs fixes/D8_sub_location_transcription_order.patch,
  fixes/D8c_frameshift_origin_spanning.patch and fixes/D9_tta_marker_sub_location.patch.

    antismash/common/secmet/locations.py
      convert_protein_position_to_dna        → `convertProteinToDna`
      get_sub_location_from_offsets  (D8)    → `subLocationFromOffsets`  (loop body: `subParts`)
      _adjust_location_by_offset             → `adjustByOffset`
      frameshift_location_by_qualifier       → `frameshift`      (int `raw_start` only)
    antismash/common/secmet/features/feature.py
      Feature.get_sub_location_from_protein_coordinates → `subLocation`
    antismash/common/secmet/features/prepeptide.py
      Prepeptide.to_biopython (location part)           → `prepeptideSections`
    antismash/modules/tta/tta.py
      TTAResults.new_feature_from_other (location part) → `ttaLocation`
      detect (codon loop body)                          → `ttaDetectMarker`
    antismash/common/secmet/features/feature.py / locations.py
      Feature.__init__ (overlapping-exon refusal), location_contains_overlapping_exons → `featureAt`

  Not modelled (inputs not generated): fuzzy positions (`<5`, `>9`), the "truncate to an ambiguous
  end" branch, string-valued `codon_start`.
    antismash/common/secmet/features/prepeptide.py  (write-out / rebuild cycle)
      Prepeptide.from_biopython (location part), unchanged tree: `build_location_from_others`
        over [leader?, core, tail?]  (shared model `ASV.buildLocationFromOthers`, Model/LocOps.lean) → `rebuildUnrepaired`
      _combine_sections (fix D107, fixes/D107_… owned by C10)                                      → `combineSections`
      to_biopython → from_biopython → to_biopython                                                → `prepeptideRebuild`, `prepeptideSecondPass`
    antismash/common/secmet/features/cds_feature.py / record.py  (gene translation)
      CDSFeature.from_biopython (table choice), _ensure_valid_translation (generation branch),
      Record.get_aa_translation_from_location, CDSFeature.translation setter → `cdsTable`, `aaTranslation`, `forceMet`,
      `cdsGeneratedTranslation`
    antismash/common/secmet/record.py / locations.py  (features read back)
      Record.from_biopython (per-feature location handling: misc_feature prefilter), location_bridges_origin with
      `allow_reversing` and its in-place reversal, remove_redundant_exons (shared `ASV.removeRedundantExons`)
        → `readLocation`, `bridgesOriginAR`
  No imports outside ASV.Model (driver-linkable).
-/
import ASV.Model.Loc
import ASV.Model.LocOps
namespace ASV.ProtDna
open ASV

/-- result of a Python call: value, `ValueError` (incl. subclasses) or `AssertionError` -/
inductive Res (α : Type) where
  | ok (a : α)
  | valueError
  | assertion
deriving DecidableEq, Repr, Inhabited

/-- exceptions propagate -/
def Res.bind {α β : Type} (r : Res α) (f : α → Res β) : Res β :=
  match r with
  | .ok a => f a
  | .valueError => .valueError
  | .assertion => .assertion

/-- `location.strand == -1` -/
def isRev (l : Loc) : Bool := l.strand == .rev

/-- `sorted(parts, key=lambda x: x.start)` — stable -/
def insertPart (x : Part) : List Part → List Part
  | [] => [x]
  | y :: ys => if x.lo ≤ y.lo then x :: y :: ys else y :: insertPart x ys
def sortParts (l : List Part) : List Part := l.foldr insertPart []

/-- state of the gap walk in `convert_protein_position_to_dna` -/
structure Walk where
  gap : Int
  lastEnd : Int
  ds : Int
  de : Int
  sf : Bool
  ef : Bool
deriving Repr

/-- one iteration of `for part in parts:` (the `break` is a no-op state once both are found) -/
def walkStep (w : Walk) (part : Part) : Walk :=
  if w.sf && w.ef then w else
  let gap := w.gap + (part.lo - w.lastEnd)
  let (sf, ds) := if !w.sf && part.mem (w.ds + gap) then (true, w.ds + gap) else (w.sf, w.ds)
  let (ef, de) := if !w.ef && part.mem (w.de + gap - 1) then (true, w.de + gap) else (w.ef, w.de)
  ⟨gap, part.hi, ds, de, sf, ef⟩

/-- `convert_protein_position_to_dna(start, end, location)` -/
def convertProteinToDna (s e : Int) (l : Loc) : Res (Int × Int) :=
  if !(decide (0 ≤ s) && decide (s < e) && decide (e ≤ l.len / 3)) then .valueError else
  let ds := if isRev l then l.start + l.len - e * 3 else l.start + s * 3
  let de := if isRev l then l.start + l.len - s * 3 else l.start + e * 3
  match l with
  | .simple _ =>
    if !(decide (l.start ≤ ds) && decide (ds < de) && decide (de ≤ l.end)) then .valueError
    else .ok (ds, de)
  | .compound ps =>
    match sortParts ps with
    | [] => .assertion   -- unreachable: a CompoundLocation has ≥ 2 parts
    | p0 :: rest =>
      let w := (p0 :: rest).foldl walkStep ⟨0, p0.lo, ds, de, false, false⟩
      if !w.sf then .assertion
      else if !w.ef then .assertion
      else if !(decide (l.start ≤ w.ds) && decide (w.ds < w.de) && decide (w.de ≤ l.end)) then .valueError
      else .ok (w.ds, w.de)

/-- the new part built from `part` for the section `[first, last)` of it (relative to the part's
    first transcribed base) -/
def slicePart (rev : Bool) (st : Strand) (p : Part) (first last : Int) : Part :=
  if rev then ⟨p.hi - last, p.hi - first, st⟩ else ⟨p.lo + first, p.lo + last, st⟩

/-- loop of `get_sub_location_from_offsets`: `off` is `part_offset` on entry to the iteration -/
def subParts (rev : Bool) (st : Strand) : List Part → Int → Int → Int → List Part
  | [], _, _, _ => []
  | p :: ps, off, s, e =>
    let first := max (s - off) 0
    let last := min (e - off) p.len
    let new := if first < last then [slicePart rev st p first last] else []
    let off' := off + p.len
    if off' ≥ e then new else new ++ subParts rev st ps off' s e

/-- `parts[0] if len(parts) == 1 else CompoundLocation(parts)` (the constructor rejects < 2 parts) -/
def locOfNewParts : List Part → Res Loc
  | [] => .valueError
  | [p] => .ok (.simple p)
  | ps => .ok (.compound ps)

/-- `get_sub_location_from_offsets(location, start, end)` -/
def subLocationFromOffsets (l : Loc) (s e : Int) : Res Loc :=
  if !(decide (0 ≤ s) && decide (s < e) && decide (e ≤ l.len)) then .valueError else
  locOfNewParts (subParts (isRev l) l.strand l.parts 0 s e)

/-- `Feature.get_sub_location_from_protein_coordinates(start, end)` (exact positions) -/
def subLocation (l : Loc) (s e : Int) : Res Loc :=
  if !(decide (0 ≤ s) && decide (s ≤ l.len / 3 - 1)) then .valueError
  else if !(decide (1 ≤ e) && decide (e ≤ l.len / 3)) then .valueError
  else if s ≥ e then .valueError
  else match l with
  | .compound _ => subLocationFromOffsets l (s * 3) (e * 3)
  | .simple p =>
    (convertProteinToDna s e l).bind fun (ds, de) =>
      if !(decide (ds < de)) then .valueError
      else if !(l.mem ds) then .valueError
      else
        let endContained := (l.mem de || decide (de = l.end)) || (p.mem de || decide (de = p.hi))
        if !endContained then .valueError
        else .ok (.simple ⟨ds, de, l.strand⟩)

/-- `adjust_single_location(part)`; `FeatureLocation(start, end)` raises when `end < start` -/
def adjustSingle (p : Part) (offset : Int) : Res Part :=
  let q : Part := if p.strand == .rev then ⟨p.lo, p.hi + offset, p.strand⟩ else ⟨p.lo + offset, p.hi, p.strand⟩
  if q.hi < q.lo then .valueError else .ok q

/-- `_adjust_location_by_offset(location, offset)` -/
def adjustByOffset (l : Loc) (offset : Int) : Res Loc :=
  if offset = 0 then .ok l
  else if !(decide (-2 ≤ offset) && decide (offset ≤ 2)) then .assertion
  else match l with
  | .simple p => (adjustSingle p offset).bind fun q => .ok (.simple q)
  | .compound [] => .assertion   -- unreachable
  | .compound (p :: rest) =>
    if !bridgesOrigin l && (if isRev l then decide (p.hi ≠ l.end) else decide (p.lo ≠ l.start)) then .assertion
    else (adjustSingle p offset).bind fun q => .ok (.compound (q :: rest))

/-- `frameshift_location_by_qualifier(location, raw_start: int, undo)` -/
def frameshift (l : Loc) (rawStart : Int) (undo : Bool) : Res Loc :=
  let cs := rawStart - 1
  if !(decide (0 ≤ cs) && decide (cs ≤ 2)) then .valueError else
  let cs := if isRev l then -cs else cs
  let cs := if undo then -cs else cs
  adjustByOffset l cs

/-- location part of `Prepeptide.to_biopython`: (leader?, core, tail?) for the given leader and tail
    lengths (in residues); the first failing call aborts -/
def prepeptideSections (l : Loc) (leaderLen tailLen : Int) : Res (Option Loc × Loc × Option Loc) :=
  let total := l.len / 3
  (if leaderLen ≠ 0 then (subLocation l 0 leaderLen).bind fun r => .ok (some r) else .ok none).bind fun leader =>
  (subLocation l leaderLen (total - tailLen)).bind fun core =>
  (if tailLen ≠ 0 then (subLocation l (total - tailLen) total).bind fun r => .ok (some r) else .ok none).bind fun tail =>
  .ok (leader, core, tail)

/-- `len(set(xs)) != len(xs)` -/
def hasDup : List Int → Bool
  | [] => false
  | x :: xs => xs.contains x || hasDup xs

/-- `location_contains_overlapping_exons(location)`: two exons END at the same coordinate -/
def containsOverlappingExons (l : Loc) : Bool :=
  if l.parts.length == 1 then false else hasDup (l.parts.map (·.hi))

/-- the part of `Feature.__init__` that can refuse a location built here: the constructor of every
    annotation (TTA marker, motif, domain) raises ValueError for exons sharing an end coordinate -/
def featureAt (r : Res Loc) : Res Loc :=
  r.bind fun l => if containsOverlappingExons l then .valueError else .ok l

/-- location of the marker made by `TTAResults.new_feature_from_other(feature, offset)` -/
def ttaLocation (l : Loc) (offset : Int) : Res Loc :=
  featureAt (subLocationFromOffsets l offset (offset + 3))

/-- one iteration of the codon loop of `tta.detect` for a codon at `offset` that reads "tta":
    `none` = skipped (the codon cannot be held by a feature), else the marker's location -/
def ttaDetectMarker (l : Loc) (offset : Int) : Res (Option Loc) :=
  (subLocationFromOffsets l offset (offset + 3)).bind fun r =>
    .ok (if containsOverlappingExons r then none else some r)

/-! ### partial genes (fuzzy `<`/`>` positions) and the text form of `codon_start` -/

/-- per part: (start is a `BeforePosition`, end is an `AfterPosition`) -/
abbrev Fuzz := List (Bool × Bool)

/-- `isinstance(location.end, AfterPosition)`: `location.end` is the end position object of the FIRST part
    attaining the maximal end (Python `max`) -/
def endIsAfter : List Part → Fuzz → Bool
  | p :: ps, f :: fs =>
    let rec go (best : Int) (flag : Bool) : List Part → Fuzz → Bool
      | q :: qs, g :: gs => if q.hi > best then go q.hi g.2 qs gs else go best flag qs gs
      | _, _ => flag
    go p.hi f.2 ps fs
  | _, _ => false

/-- `isinstance(location.start, BeforePosition)` (first part attaining the minimal start) -/
def startIsBefore : List Part → Fuzz → Bool
  | p :: ps, f :: fs =>
    let rec go (best : Int) (flag : Bool) : List Part → Fuzz → Bool
      | q :: qs, g :: gs => if q.lo < best then go q.lo g.1 qs gs else go best flag qs gs
      | _, _ => flag
    go p.lo f.1 ps fs
  | _, _ => false

/-- the condition under which a protein end past the gene is truncated instead of refused -/
def ambiguousEnd (l : Loc) (fz : Fuzz) : Bool :=
  (!isRev l && endIsAfter l.parts fz) || (isRev l && startIsBefore l.parts fz)

/-- `Feature.get_sub_location_from_protein_coordinates` including the branch for partial genes: an `end`
    beyond the product is truncated to the product's length when the gene's 3' end is ambiguous -/
def subLocationFuzzy (amb : Bool) (l : Loc) (s e : Int) : Res Loc :=
  if !(decide (0 ≤ s) && decide (s ≤ l.len / 3 - 1)) then .valueError
  else if decide (1 ≤ e) && decide (e ≤ l.len / 3) then subLocation l s e
  else if decide (e > 0) && amb then subLocation l s (l.len / 3)
  else .valueError

/-- `int(raw_start[0]) - 1` of the text form of the qualifier: `none` = not a digit (→ SecmetInvalidInputError);
    only ASCII digits are modelled, the empty string is not generated (IndexError) -/
def codonStartOfText (raw : String) : Option Int :=
  match raw.toList with
  | c :: _ => if c.isDigit then some (c.toNat - 48 : Nat) else none
  | [] => none

/-- `frameshift_location_by_qualifier(location, raw_start: str, undo)` -/
def frameshiftText (l : Loc) (raw : String) (undo : Bool) : Res Loc :=
  match codonStartOfText raw with
  | some c => frameshift l c undo
  | none => .valueError

/-! ### the gene's own translation (`CDSFeature.from_biopython` without a usable /translation) -/

/-- the table `CDSFeature.from_biopython` uses BOTH as the gene's `transl_table` attribute AND to generate a missing
    translation: the CDS's own /transl_table qualifier if present, else the record's table -/
def cdsTable (recordTable : Nat) (qual : Option Nat) : Nat := qual.getD recordTable

/-- `Record.get_aa_translation_from_location(location, table)` on the per-codon translation `aas` of the gene's whole
    codons under that table (`*` = stop): up to the first stop; if that is empty, through the stops; then
    `*BJOUZ` → `X` -/
def aaTranslation (aas : List Char) : List Char :=
  let toStop := aas.takeWhile (· != '*')
  let seq := if toStop.isEmpty then aas else toStop
  seq.map fun c => if "*BJOUZ".toList.contains c then 'X' else c

/-- the `CDSFeature.translation` setter: an alternate start codon is shown as methionine -/
def forceMet : List Char → List Char
  | [] => []
  | _ :: r => 'M' :: r

/-- translation stored for a CDS that came without one; `tr t` = per-codon translation of the gene's location
    under table `t` -/
def cdsGeneratedTranslation (tr : Nat → List Char) (recordTable : Nat) (qual : Option Nat) : List Char :=
  forceMet (aaTranslation (tr (cdsTable recordTable qual)))

/-! ### `Feature.start` / `Feature.end`: the gene's ends in transcription order -/

/-- `Feature.start`: `parts[0].start` unless the strand is −1, then `parts[-1].start` -/
def featureStart (l : Loc) : Int :=
  if isRev l then (l.parts.getLast?.map (·.lo)).getD 0 else (l.parts.head?.map (·.lo)).getD 0

/-- `Feature.end`: `parts[-1].end` unless the strand is −1, then `parts[0].end` -/
def featureEnd (l : Loc) : Int :=
  if isRev l then (l.parts.head?.map (·.hi)).getD 0 else (l.parts.getLast?.map (·.hi)).getD 0

/-! ### features read back through `Record.from_biopython` (antiSMASH output re-read, --reuse-results) -/

/-- `check(location)` inside `location_bridges_origin` for a reverse-strand location is `orderInvalid true`; the
    function with its `allow_reversing` flag, INCLUDING its effect on `location.parts` (Python reverses the list in
    place and leaves it reversed when the reversed order is valid): returns (answer, parts afterwards) -/
def bridgesOriginAR (allowReversing : Bool) (l : Loc) : Bool × Loc :=
  match l with
  | .simple _ => (false, l)
  | .compound ps =>
    match l.strand with
    | .fwd => (orderInvalid false ps, l)
    | .rev =>
      if orderInvalid true ps then
        if allowReversing then
          if !orderInvalid true ps.reverse then (false, .compound ps.reverse) else (true, l)
        else (true, l)
      else (false, l)
    | _ => (bridgesOrigin l, l)

/-- what `Record.from_biopython` does to the location of one feature of a record that can be circular
    (`taxon == "bacteria"`): only a misc_feature that bridges the origin is passed through `remove_redundant_exons`;
    the test is made with `allow_reversing=False` and therefore touches nothing -/
def readLocation (canBeCircular isMisc : Bool) (l : Loc) : Loc :=
  let (bridges, l') := bridgesOriginAR false l
  if canBeCircular && isMisc && bridges then removeRedundantExons l' else l'

/-! ### write-out / rebuild of a prepeptide: `to_biopython` → `Prepeptide.from_biopython` -/

/-- `[leader_location]? + [core.location] + [tail_location]?` as collected by `from_biopython` -/
def sectionList (x : Option Loc × Loc × Option Loc) : List Loc := x.1.toList ++ [x.2.1] ++ x.2.2.toList

/-- unchanged tree: `build_location_from_others(locations)` (the list is never empty here) -/
def rebuildUnrepaired (sections : List Loc) : Res Loc :=
  match buildLocationFromOthers sections with
  | .ok r => .ok r
  | .error _ => .valueError

/-- one iteration of `for section in sections:` of `_combine_sections` (D107): the first part of the new
    section is merged into the last kept part when it continues it (down on −, up otherwise) -/
def combineStep (parts : List Part) (sec : Loc) : List Part :=
  match parts.getLast?, sec.parts with
  | some prev, first :: rest =>
    if prev.strand == first.strand then
      if first.strand == .rev && decide (first.hi = prev.lo) then
        parts.dropLast ++ [⟨first.lo, prev.hi, first.strand⟩] ++ rest
      else if first.strand != .rev && decide (first.lo = prev.hi) then
        parts.dropLast ++ [⟨prev.lo, first.hi, first.strand⟩] ++ rest
      else parts ++ sec.parts
    else parts ++ sec.parts
  | _, _ => parts ++ sec.parts

/-- `_combine_sections(sections)` (D107) -/
def combineSections (sections : List Loc) : Res Loc :=
  locOfNewParts (sections.foldl combineStep [])

/-- location of the prepeptide rebuilt by `Prepeptide.from_biopython` from the core feature written by
    `to_biopython` (`repaired` = the tree has fix D107) -/
def rebuildLocation (repaired : Bool) (sections : List Loc) : Res Loc :=
  if repaired then combineSections sections else rebuildUnrepaired sections

/-- … and `cls(location, …)`: the constructor refuses exons sharing an end coordinate (`featureAt`) -/
def prepeptideRebuild (repaired : Bool) (l : Loc) (leaderLen tailLen : Int) : Res Loc :=
  (prepeptideSections l leaderLen tailLen).bind fun x => featureAt (rebuildLocation repaired (sectionList x))

/-- the sections positioned again from the rebuilt prepeptide (`rebuilt.to_biopython()`) -/
def prepeptideSecondPass (repaired : Bool) (l : Loc) (leaderLen tailLen : Int) :
    Res (Option Loc × Loc × Option Loc) :=
  (prepeptideRebuild repaired l leaderLen tailLen).bind fun l' => prepeptideSections l' leaderLen tailLen

end ASV.ProtDna
