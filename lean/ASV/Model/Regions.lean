/-
  C06 — model of the area bookkeeping of `antismash/common/secmet/record.py`:
    Record.add_protocluster / add_candidate_cluster / add_subregion / add_region,
    Record.clear_protoclusters / clear_candidate_clusters / clear_subregions / clear_regions,
    Record.create_regions (with the D7 repair: first/last sections are merged for as long as they overlap),
    Record.add_region (with the D39 repair: the overlap rejection looks at every existing region),
    Region.__init__ / CandidateCluster.__init__ / CDSCollection.__init__ (location, checks, parent links),
    the `parent` setter of CDSCollection, get_*_number.
  One Lean function per Python function, same branch order; mutation through `self` becomes a
  returned `State`.  Python objects are represented by a fresh `id` (object identity) plus their
  location; dictionaries keyed by objects become association lists keyed by ids (newest binding
  first), and — like the Python dictionaries — are never emptied by the `clear_*` methods.

  Errors (`Except String`): "assertion", "value-error", "IndexError", "KeyError" (an id that does not
  name a live object — harness misuse, never produced by the Python code), "fuel" (never observed).

  Not modelled (other properties' business): the CDS caches of the collections (`add_cds` on
  protoclusters / candidates / subregions, C08), candidate formation (C05; the harness feeds the
  groups the real code formed).  `get_cds_features_within_location(region.location)` is modelled by
  its documented meaning (the genes contained in the location) — the harness only places disjoint
  single-part genes, for which the two agree (C08 covers the general case).
  The `other in self` short cut of `CDSCollection.__lt__` never fires between two features of the
  same list (a feature is not a child of its sibling) and is left out.
-/
import ASV.Model.LocOps
namespace ASV.Regions
open ASV

inductive Kind where
  | proto | cand | sub | region
deriving DecidableEq, Repr, Inhabited

/-- a CDSCollection object: identity, location, and the children it was constructed from -/
structure Feat where
  id : Nat
  kind : Kind
  loc : Loc
  /-- candidate: ids of its protoclusters; region: ids of its candidate clusters -/
  kids : List Nat := []
  /-- region: ids of its subregions -/
  subs : List Nat := []
  /-- region: indices of the CDS features linked to it by `add_region` -/
  cdses : List Nat := []
deriving DecidableEq, Repr, Inhabited

/-- a Python dict keyed by object identity: newest binding first -/
abbrev Dict (β : Type) := List (Nat × β)

def Dict.get {β} : Dict β → Nat → Option β
  | [], _ => none
  | (k', v) :: r, k => if k' = k then some v else Dict.get r k

def Dict.set {β} (d : Dict β) (k : Nat) (v : β) : Dict β := (k, v) :: d

structure State where
  /-- `len(record)` -/
  len : Int
  circular : Bool
  /-- locations of the record's CDS features (fixed during a history) -/
  cds : List Loc := []
  protos : List Feat := []
  cands : List Feat := []
  subs : List Feat := []
  regions : List Feat := []
  /-- candidate clusters that were constructed but are not in the record (parent links of their
      protoclusters already point at them) -/
  pool : List Feat := []
  numP : Dict Nat := []
  numC : Dict Nat := []
  numS : Dict Nat := []
  numR : Dict Nat := []
  /-- `CDSCollection._parent` of every object whose parent was ever assigned -/
  parent : Dict (Option Nat) := []
  /-- `CDSFeature.region` by CDS index -/
  cdsRegion : Dict (Option Nat) := []
  /-- next object id for protoclusters, subregions and candidate clusters -/
  nextId : Nat := 0
  /-- next object id for regions (a separate id space: regions are only ever parents) -/
  nextRid : Nat := 0
deriving Repr, Inhabited

def State.wrap (s : State) : Option Int := if s.circular then some s.len else none

def State.parentOf (s : State) (id : Nat) : Option Nat := (s.parent.get id).join
def State.regionOfCds (s : State) (i : Nat) : Option Nat := (s.cdsRegion.get i).join

/-! ### list helpers -/

def insertAt {α} (l : List α) (i : Nat) (x : α) : List α := l.take i ++ x :: l.drop i

def findId (l : List Feat) (id : Nat) : Option Feat := l.find? (·.id == id)

def findAll (l : List Feat) (ids : List Nat) : E (List Feat) :=
  ids.mapM fun i => match findId l i with
    | some f => pure f
    | none => throw "KeyError"

/-- `bisect.bisect_left(a, x)` with `a[mid] < x` supplied as `lt` (the loop runs at most
    `len(a)` times; the fuel is never exhausted) -/
def bisectLeft (lt : Feat → E Bool) (a : List Feat) : Nat → Nat → Nat → E Nat
  | 0, lo, _ => pure lo
  | fuel + 1, lo, hi =>
    if lo < hi then
      let mid := (lo + hi) / 2
      match a[mid]? with
      | none => throw "IndexError"
      | some y => do
        if (← lt y) then bisectLeft lt a fuel (mid + 1) hi
        else bisectLeft lt a fuel lo mid
    else pure lo

/-- `for i in range(index, len(l)): numbering[l[i]] = i + 1`, started at position `i` with the
    remaining elements -/
def renumberFrom (d : Dict Nat) : Nat → List Feat → Dict Nat
  | _, [] => d
  | i, f :: r => renumberFrom (d.set f.id (i + 1)) (i + 1) r

def renumber (d : Dict Nat) (l : List Feat) (index : Nat) : Dict Nat :=
  renumberFrom d index (l.drop index)

/-- the three assertions shared by every `add_*` -/
def checkInside (s : State) (loc : Loc) : E Unit := do
  if !(loc.start ≥ 0) then throw "assertion"
  if !(loc.end ≤ s.len) then throw "assertion"

/-- bisect insert + renumbering, shared shape of add_protocluster / add_candidate_cluster / add_subregion;
    `lt y` is the comparison the bisection makes with the element `y` in the middle -/
def insertSortedWith (lt : Feat → E Bool) (l : List Feat) (d : Dict Nat) (x : Feat) : E (List Feat × Dict Nat) := do
  let index ← bisectLeft lt l (l.length + 1) 0 l.length
  let l' := insertAt l index x
  pure (l', renumber d l' index)

/-- `bisect.bisect_left(l, x)`: goes right while `l[mid] < x` (add_candidate_cluster) -/
def insertSorted (l : List Feat) (d : Dict Nat) (x : Feat) : E (List Feat × Dict Nat) :=
  insertSortedWith (fun y => collectionLt y.loc x.loc) l d x

/-- `bisect.bisect_right(l, x)`: goes right unless `x < l[mid]`, so `x` lands after every element
    with an equal key (add_protocluster / add_subregion: re-adding areas in file order keeps that order) -/
def insertSortedRight (l : List Feat) (d : Dict Nat) (x : Feat) : E (List Feat × Dict Nat) :=
  insertSortedWith (fun y => do pure (!(← collectionLt x.loc y.loc))) l d x

/-! ### construction of collections -/

/-- the checks of `CDSCollection.__init__` + `Feature.__init__` on the location of a new collection -/
def collectionInitCheck (loc : Loc) : E Unit := do
  let parts := loc.parts
  if parts.length > 1 then
    if parts.length != 2 then throw "assertion"
    match parts with
    | [_, q] => if q.lo != 0 then throw "value-error"
    | _ => pure ()
  if (strandsUsed parts).length != 1 then throw "assertion"
  -- Feature.__init__
  if parts.length > 1 then
    match parts with
    | [p, q] => if partsOverlap p q then throw "value-error"
    | _ => pure ()
  if !(loc.start ≤ loc.end) then throw "assertion"
  if loc.start < 0 then throw "value-error"
  if parts.length > 1 && loc.strand != .fwd then throw "value-error"

/-- `child.parent = parent` for each child in order: asserts containment, then stores the link -/
def setParents (parentDict : Dict (Option Nat)) (parent : Feat) : List Feat → E (Dict (Option Nat))
  | [] => pure parentDict
  | c :: rest =>
    if !locationContainsOther parent.loc c.loc then throw "assertion"
    else setParents (parentDict.set c.id (some parent.id)) parent rest

/-- `SubRegion(location)` / `Protocluster(core, location)`: a fresh childless collection -/
def mkLeaf (s : State) (k : Kind) (loc : Loc) : E (State × Feat) := do
  collectionInitCheck loc
  pure ({ s with nextId := s.nextId + 1 }, { id := s.nextId, kind := k, loc := loc })

/-- `CandidateCluster(kind, protoclusters, circular_wrap_point=wrap)` -/
def mkCand (s : State) (protoIds : List Nat) : E (State × Feat) := do
  if protoIds.isEmpty then throw "value-error"
  let ps ← findAll s.protos protoIds
  let loc ← connect (ps.map (·.loc)) s.wrap
  collectionInitCheck loc
  let c : Feat := { id := s.nextId, kind := .cand, loc := loc, kids := protoIds }
  let parent ← setParents s.parent c ps
  pure ({ s with nextId := s.nextId + 1, parent := parent }, c)

/-- `wrap_point = max(location.parts[0].end …) if any(loc.crosses_origin() …) else None` of `Region.__init__` -/
def regionWrap (locations : List Loc) : E (Option Int) :=
  if locations.any bridgesOrigin then do
    let ends ← locations.mapM fun (l : Loc) => match l.parts with
      | p :: _ => pure p.hi
      | [] => throw "IndexError"
    pure (some (maxList ends))
  else pure none

/-- `Region(candidate_clusters, subregions)` -/
def mkRegion (s : State) (cands subs : List Feat) : E (State × Feat) := do
  if cands.isEmpty && subs.isEmpty then throw "value-error"
  let children := subs ++ cands
  let locations := children.map (·.loc)
  let wrap ← regionWrap locations
  let loc ← connect locations wrap
  collectionInitCheck loc
  let r : Feat := { id := s.nextRid, kind := .region, loc := loc, kids := cands.map (·.id), subs := subs.map (·.id) }
  let parent ← setParents s.parent r children
  pure ({ s with nextRid := s.nextRid + 1, parent := parent }, r)

/-! ### adding -/

def addProtocluster (s : State) (loc : Loc) : E State := do
  let (s, x) ← mkLeaf s .proto loc
  checkInside s x.loc
  let (l, d) ← insertSortedRight s.protos s.numP x
  pure { s with protos := l, numP := d }

def addSubregion (s : State) (loc : Loc) : E State := do
  let (s, x) ← mkLeaf s .sub loc
  checkInside s x.loc
  let (l, d) ← insertSortedRight s.subs s.numS x
  pure { s with subs := l, numS := d }

/-- `Record.add_candidate_cluster(c)` for a constructed candidate waiting in the pool -/
def addCandidate (s : State) (id : Nat) : E State := do
  match findId s.pool id with
  | none => throw "KeyError"
  | some x =>
    checkInside s x.loc
    let (l, d) ← insertSorted s.cands s.numC x
    pure { s with cands := l, numC := d, pool := s.pool.filter (·.id != id) }

/-- indices of the CDS features inside `loc` -/
def cdsWithin (cds : List Loc) (loc : Loc) : List Nat :=
  (List.range cds.length).filter fun i => match cds[i]? with
    | some c => locationContainsOther loc c
    | none => false

/-- the rest of the scan of `add_region` once the insertion point is known: overlap rejection only -/
def checkNoOverlap (region : Feat) : List Feat → E Unit
  | [] => pure ()
  | ex :: rest =>
    if locationsOverlap region.loc ex.loc then throw "value-error"
    else checkNoOverlap region rest

/-- the scan of `add_region` (with the D39 repair: every existing region is checked for overlap):
    overlap rejection, and the first existing region the new one is smaller than gives the index -/
def regionIndex (region : Feat) : Nat → List Feat → E Nat
  | i, [] => pure i
  | i, ex :: rest => do
    if locationsOverlap region.loc ex.loc then throw "value-error"
    if (← collectionLt region.loc ex.loc) then do
      checkNoOverlap region rest
      pure i
    else regionIndex region (i + 1) rest

/-- `Record.add_region(region)` -/
def addRegion (s : State) (region : Feat) : E State := do
  checkInside s region.loc
  let index ← regionIndex region 0 s.regions
  let linked := cdsWithin s.cds region.loc
  let region := { region with cdses := linked }
  let l := insertAt s.regions index region
  let d := renumber s.numR l index
  let cr := linked.foldl (fun (acc : Dict (Option Nat)) i => acc.set i (some region.id)) s.cdsRegion
  pure { s with regions := l, numR := d, cdsRegion := cr }

/-! ### clearing -/

def setNone (d : Dict (Option Nat)) (ids : List Nat) : Dict (Option Nat) :=
  ids.foldl (fun acc i => acc.set i none) d

/-- `Record.clear_regions()` -/
def clearRegions (s : State) : State :=
  let (par, cr) := s.regions.foldl (fun (acc : Dict (Option Nat) × Dict (Option Nat)) r =>
      (setNone (setNone acc.1 r.kids) r.subs, setNone acc.2 r.cdses)) (s.parent, s.cdsRegion)
  { s with regions := [], parent := par, cdsRegion := cr }

/-! ### `Record.create_regions()` -/

/-- `x < y` on collections, as used by `areas.sort()`; stable insertion: `x` goes before the first
    element that is not smaller than it (elements equal to `x` came later in the input) -/
def insertArea (x : Feat) : List Feat → E (List Feat)
  | [] => pure [x]
  | y :: ys => do
    if (← collectionLt y.loc x.loc) then
      let r ← insertArea x ys
      pure (y :: r)
    else pure (x :: y :: ys)

/-- `areas.sort()` (stable) -/
def sortAreas : List Feat → E (List Feat)
  | [] => pure []
  | x :: xs => do
    let r ← sortAreas xs
    insertArea x r

abbrev Sec := Loc × List Feat

/-- the sweep: `location`, `included_areas` are the section under construction -/
def sweepAreas (wrap : Option Int) : Loc → List Feat → List Feat → E (List Sec)
  | location, included, [] => pure [(location, included)]
  | location, included, area :: rest =>
    if !locationsOverlap area.loc location then do
      let tail ← sweepAreas wrap area.loc [area] rest
      pure ((location, included) :: tail)
    else do
      let location' ← connect [area.loc, location] wrap
      sweepAreas wrap location' (included ++ [area]) rest

/-- `for area in last_areas: if area not in first_areas: first_areas.append(area)` -/
def appendNew (first last : List Feat) : List Feat :=
  last.foldl (fun acc a => if acc.any (·.id == a.id) then acc else acc ++ [a]) first

/-- `while len(sections) > 1: … if not overlap(first, last): break; merge last into first` -/
def mergeFirstLast (wrap : Option Int) : Nat → List Sec → E (List Sec)
  | 0, secs => pure secs
  | fuel + 1, secs =>
    match secs with
    | first :: second :: more =>
      let rest := second :: more
      match rest.getLast? with
      | none => pure secs
      | some last =>
        if !locationsOverlap first.1 last.1 then pure secs
        else do
          let location ← connect [first.1, last.1] wrap
          mergeFirstLast wrap fuel ((location, appendNew first.2 last.2) :: rest.dropLast)
    | _ => pure secs

/-- `for _, areas in sections: self.add_region(Region(candidates, subs))` -/
def addSections (s : State) : List Sec → E State
  | [] => pure s
  | (_, areas) :: rest => do
    let candidates := areas.filter (·.kind == .cand)
    let subs := areas.filter (·.kind != .cand)
    let (s1, r) ← mkRegion s candidates subs
    let s2 ← addRegion s1 r
    addSections s2 rest

/-- the sections `create_regions(candidate_clusters, subregions)` forms from the given areas -/
def sectionsOf (wrap : Option Int) (cands subs : List Feat) : E (List Sec) := do
  let areas ← sortAreas (cands ++ subs)
  match areas with
  | [] => pure []
  | first :: rest =>
    let secs ← sweepAreas wrap first.loc [first] rest
    mergeFirstLast wrap secs.length secs

/-- `Record.create_regions(candidate_clusters=cands, subregions=subs)` with explicitly passed lists -/
def createRegionsOf (s : State) (cands subs : List Feat) : E State := do
  if cands.isEmpty && subs.isEmpty then pure s
  else
    let secs ← sectionsOf s.wrap cands subs
    addSections s secs

def sections (s : State) : E (List Sec) := sectionsOf s.wrap s.cands s.subs

/-- `Record.create_regions()`: the record's own candidate clusters and subregions -/
def createRegions (s : State) : E State := createRegionsOf s s.cands s.subs

/-- `Record.clear_candidate_clusters()` -/
def clearCandidates (s : State) : E State := do
  let par := s.cands.foldl (fun acc c => setNone acc c.kids) s.parent
  let s := { s with cands := [], parent := par }
  if !s.regions.isEmpty then createRegions (clearRegions s) else pure s

/-- `Record.clear_protoclusters()` -/
def clearProtoclusters (s : State) : E State := clearCandidates { s with protos := [] }

/-- `Record.clear_subregions()` -/
def clearSubregions (s : State) : E State := do
  let s := { s with subs := [] }
  if !s.regions.isEmpty then createRegions (clearRegions s) else pure s

/-! ### operation histories -/

inductive Op where
  | addProto (loc : Loc)
  | addSub (loc : Loc)
  /-- construct a candidate cluster from protoclusters of the record (not yet added) -/
  | mkCand (protoIds : List Nat)
  /-- add a constructed candidate cluster to the record -/
  | addCand (id : Nat)
  /-- `protocluster.parent = candidate` for protoclusters the candidate lists (the D40 repair of
      `create_candidates_from_protoclusters` does this when it drops a redundant candidate) -/
  | reparent (protoIds : List Nat) (candId : Nat)
  /-- `record.add_region(Region(cands, subs))` -/
  | addRegion (candIds subIds : List Nat)
  | clearProtos | clearCands | clearSubs | clearRegions
  | createRegions
  /-- `record.create_regions(candidate_clusters=[…], subregions=[…])`: candidate clusters of the record or
      constructed ones that were never added, subregions of the record -/
  | createRegionsWith (candIds subIds : List Nat)
deriving Repr, Inhabited

def step (s : State) : Op → E State
  | .addProto loc => addProtocluster s loc
  | .addSub loc => addSubregion s loc
  | .mkCand ids => do
    let (s, c) ← mkCand s ids
    pure { s with pool := s.pool ++ [c] }
  | .addCand id => addCandidate s id
  | .reparent pids cid => do
    match findId (s.cands ++ s.pool) cid with
    | none => throw "KeyError"
    | some c =>
      let ps ← findAll s.protos pids
      -- only re-pointing at a candidate that lists the protoclusters is modelled
      if !(pids.all fun k => c.kids.contains k) then throw "KeyError"
      let parent ← setParents s.parent c ps
      pure { s with parent := parent }
  | .addRegion cs ss => do
    let cands ← findAll s.cands cs
    let subs ← findAll s.subs ss
    let (s, r) ← mkRegion s cands subs
    addRegion s r
  | .clearProtos => clearProtoclusters s
  | .clearCands => clearCandidates s
  | .clearSubs => clearSubregions s
  | .clearRegions => pure (clearRegions s)
  | .createRegions => createRegions s
  | .createRegionsWith cs ss => do
    let cands ← findAll (s.cands ++ s.pool) cs
    let subs ← findAll s.subs ss
    -- only lists without repeated areas are modelled
    if !(decide (cs ++ ss).Nodup) then throw "KeyError"
    createRegionsOf s cands subs

def run (s : State) : List Op → E State
  | [] => pure s
  | op :: rest => do
    let s' ← step s op
    run s' rest

/-! ### observables: `get_*_number`, parent numbers -/

def numberOf (d : Dict Nat) (f : Feat) : Option Nat := d.get f.id

/-- is the parent link of object `k` (held anywhere, in the record or not) alive: none, or a region of the
    record / a candidate cluster of the record that lists `k` -/
def parentAlive (s : State) (k : Nat) : Bool :=
  match s.parentOf k with
  | none => true
  | some p => s.regions.any (fun r => r.id == p && (r.kids ++ r.subs).contains k) ||
              s.cands.any (fun c => c.id == p && c.kids.contains k)

/-- position (1-based) of the object with this id in a list, by identity -/
def posOf (l : List Feat) (id : Nat) : Option Nat :=
  match l.findIdx? (·.id == id) with
  | some i => some (i + 1)
  | none => none

end ASV.Regions
