/-
  C11 — model of the `to_json` / `from_json` / `regenerate_previous_results` layers of the module
  results classes, over a small ordered JSON tree.

  One Lean function per Python function, same key order (Python dicts and `orjson` keep insertion
  order), same order of guards, same defaults for optional keys.  Python `raise` = `refuse e`,
  `return None` = `discard`, a rebuilt object = `reuse x`.

  Modelled (file : function):
    common/hmmscan_refinement.py : HMMResult.__init__/add_internal_hits/overlaps_with/to_json/from_json
    detection/nrps_pks_domains/module_identification.py : Component.to_json/from_json,
        Module.to_json/from_json   (re-adding the components = abstract `ModRules.accepts`, C14 owns it)
    detection/nrps_pks_domains/domain_identification.py : CDSResult.to_json/from_json,
        NRPSPKSDomains.to_json/from_json
    common/secmet/qualifiers/secmet.py : SecMetQualifier.Domain.to_json/from_json
    common/hmm_rule_parser/cluster_prediction.py : CDSResults.to_json/from_json (with the D51 repair:
        definition domains are written sorted), RuleDetectionResults.to_json/from_json,
        Multipliers.__post_init__
    common/serialiser.py : feature_to_json/feature_from_json ; secmet Protocluster.to_biopython[0] /
        from_biopython restricted to the qualifiers a rule-detected protocluster carries
    detection/hmm_detection/__init__.py : HMMDetectionResults.__init__/to_json/from_json,
        regenerate_previous_results (strictness, rule names, fungal multipliers)
    detection/sideloader/data_structures.py : Tool, SubRegionAnnotation, ProtoclusterAnnotation,
        SideloadedResults (to_json/from_json/__init__ checks/build_location/start/end);
        sideloader.regenerate_previous_results (with the D56 repair: requested annotations are compared)
    common/hmmer.py : HmmerHit.__post_init__/to_json/from_json, HmmerResults.to_json/from_json/refilter ;
        detection/{full,cluster}_hmmer regenerate_previous_results
    modules/tta/tta.py : TTAResults.to_json/from_json/new_feature_from_location ; tta.run_on_record
    common/hmm_rule_parser/cluster_prediction.py : the gene-less early exit of detect_protoclusters_and_signatures;
        hmm_detection get_ruleset (multipliers) and run_on_record (what is stored)
    common/serialiser.py : AntismashResults.to_json / from_file (schema handling, modules per record);
        main.read_data (taxon of the saved run)
    main.py : run_module (with the D52 repair: `is not None` instead of truthiness)

  Python floats are carried as exact decimals `mant·10^exp` (normalised); comparisons are exact.
  No imports outside ASV.Model (driver-linkable).
-/
import ASV.Model.Loc
import ASV.Model.LocString
namespace ASV.Results

/-! ### numbers, JSON tree, outcomes -/

/-- a Python float carried as the exact decimal `mant · 10^exp`; normal form: `mant % 10 ≠ 0`,
    or `mant = 0 ∧ exp = 0` -/
structure Dec where
  mant : Int
  exp : Int
deriving DecidableEq, Repr, Inhabited

namespace Dec
/-- both mantissas scaled to the smaller exponent -/
def scaled (a b : Dec) : Int × Int :=
  let e := min a.exp b.exp
  (a.mant * 10 ^ (a.exp - e).toNat, b.mant * 10 ^ (b.exp - e).toNat)
def le (a b : Dec) : Bool := decide ((scaled a b).1 ≤ (scaled a b).2)
def lt (a b : Dec) : Bool := decide ((scaled a b).1 < (scaled a b).2)
def ofInt (i : Int) : Dec := ⟨i, 0⟩
def zero : Dec := ⟨0, 0⟩
def one : Dec := ⟨1, 0⟩
end Dec

/-- ordered JSON tree (objects keep their key order, as Python dicts and orjson do) -/
inductive J where
  | null
  | bool (b : Bool)
  | int (i : Int)
  | num (d : Dec)
  | str (s : String)
  | arr (l : List J)
  | obj (kv : List (String × J))
deriving Repr, Inhabited

/-- the exception classes the modelled code raises -/
inductive Err where
  | key | value | assertion | type | runtime
deriving DecidableEq, Repr, Inhabited

/-- result of `from_json` / `regenerate_previous_results`:
    an object (`reuse`), `None` (`discard`: the module runs afresh) or an exception (`refuse`) -/
inductive Outcome (α : Type) where
  | reuse (a : α)
  | discard
  | refuse (e : Err)
deriving Repr, DecidableEq

namespace Outcome
def bind {α β} : Outcome α → (α → Outcome β) → Outcome β
  | .reuse a, f => f a
  | .discard, _ => .discard
  | .refuse e, _ => .refuse e
instance : Monad Outcome where
  pure := .reuse
  bind := Outcome.bind
def isReuse {α} : Outcome α → Bool
  | .reuse _ => true
  | _ => false
def map' {α β} (f : α → β) : Outcome α → Outcome β
  | .reuse a => .reuse (f a)
  | .discard => .discard
  | .refuse e => .refuse e
end Outcome

/-- `for x in xs: out.append(f(x))` with exceptions propagating -/
def mapO {α β} (f : α → Outcome β) : List α → Outcome (List β)
  | [] => .reuse []
  | x :: xs => do
    let y ← f x
    let ys ← mapO f xs
    pure (y :: ys)

/-- `dict[key]` / `dict.get(key)`: first match (Python dicts have no duplicate keys) -/
def lookup (k : String) : List (String × J) → Option J
  | [] => none
  | (k', v) :: rest => if k' == k then some v else lookup k rest

/-- `data[key]` then a type-preserving coercion (`str(..)`, `int(..)`, `float(..)` on a value that
    already has that JSON type); other JSON types are outside the modelled domain (`type`) -/
def reqStr (kv : List (String × J)) (k : String) : Outcome String :=
  match lookup k kv with
  | some (.str s) => .reuse s
  | none => .refuse .key
  | _ => .refuse .type
def reqInt (kv : List (String × J)) (k : String) : Outcome Int :=
  match lookup k kv with
  | some (.int i) => .reuse i
  | none => .refuse .key
  | _ => .refuse .type
def reqNum (kv : List (String × J)) (k : String) : Outcome Dec :=
  match lookup k kv with
  | some (.num d) => .reuse d
  | none => .refuse .key
  | _ => .refuse .type
def reqArr (kv : List (String × J)) (k : String) : Outcome (List J) :=
  match lookup k kv with
  | some (.arr l) => .reuse l
  | none => .refuse .key
  | _ => .refuse .type
def reqObj (kv : List (String × J)) (k : String) : Outcome (List (String × J)) :=
  match lookup k kv with
  | some (.obj l) => .reuse l
  | none => .refuse .key
  | _ => .refuse .type
def asStr : J → Outcome String
  | .str s => .reuse s
  | _ => .refuse .type
def asObj : J → Outcome (List (String × J))
  | .obj kv => .reuse kv
  | _ => .refuse .type

def isIntLit (o : Option J) (n : Int) : Bool :=
  match o with
  | some (.int i) => i == n
  | _ => false
def isStrLit (o : Option J) (s : String) : Bool :=
  match o with
  | some (.str t) => t == s
  | _ => false

def jStrs (l : List String) : J := .arr (l.map .str)
/-- a JSON array of strings -/
def asStrs : J → Outcome (List String)
  | .arr l => mapO asStr l
  | _ => .refuse .type

/-! ### HMMResult (hmmscan_refinement.py) -/

inductive HMMResult where
  | mk (hitId : String) (qStart qEnd : Int) (evalue bitscore : Dec) (internal : List HMMResult)
deriving Repr, Inhabited

namespace HMMResult
def hitId : HMMResult → String | .mk a _ _ _ _ _ => a
def qStart : HMMResult → Int | .mk _ a _ _ _ _ => a
def qEnd : HMMResult → Int | .mk _ _ a _ _ _ => a
def evalue : HMMResult → Dec | .mk _ _ _ a _ _ => a
def bitscore : HMMResult → Dec | .mk _ _ _ _ a _ => a
def internal : HMMResult → List HMMResult | .mk _ _ _ _ _ a => a

/-- `hit.overlaps_with(self)` for a parent spanning `[qs, qe)` -/
def overlapsSpan (qs qe : Int) (k : HMMResult) : Bool := decide (qe > k.qStart) && decide (k.qEnd > qs)

/-- `HMMResult.__init__` + `add_internal_hits`: every internal hit must be co-located -/
def make (hitId : String) (qs qe : Int) (ev bs : Dec) (kids : List HMMResult) : Outcome HMMResult :=
  if kids.all (overlapsSpan qs qe) then .reuse (.mk hitId qs qe ev bs kids) else .refuse .value

mutual
/-- `to_json`: the slots in order, `internal_hits` only when non-empty -/
def toJson : HMMResult → J
  | .mk hitId qs qe ev bs kids =>
    .obj ([("hit_id", .str hitId), ("query_start", .int qs), ("query_end", .int qe),
           ("evalue", .num ev), ("bitscore", .num bs)]
          ++ (match kids with
              | [] => []
              | _ :: _ => [("internal_hits", .arr (toJsons kids))]))
def toJsons : List HMMResult → List J
  | [] => []
  | h :: t => toJson h :: toJsons t
end

mutual
/-- `from_json`: internal hits first (`data.get("internal_hits", [])`), then the constructor -/
def fromJson : J → Outcome HMMResult
  | .obj kv => do
    let kids ← kidsOf kv
    let hitId ← reqStr kv "hit_id"
    let qs ← reqInt kv "query_start"
    let qe ← reqInt kv "query_end"
    let ev ← reqNum kv "evalue"
    let bs ← reqNum kv "bitscore"
    make hitId qs qe ev bs kids
  | _ => .refuse .type
/-- `[from_json(hit) for hit in data.get("internal_hits", [])]` -/
def kidsOf : List (String × J) → Outcome (List HMMResult)
  | [] => .reuse []
  | (k, v) :: rest => if k == "internal_hits" then fromArr v else kidsOf rest
def fromArr : J → Outcome (List HMMResult)
  | .arr l => fromList l
  | _ => .refuse .type
def fromList : List J → Outcome (List HMMResult)
  | [] => .reuse []
  | x :: xs => do
    let h ← fromJson x
    let t ← fromList xs
    pure (h :: t)
end

mutual
/-- class invariant established by the constructor: internal hits overlap their parent, recursively -/
def valid : HMMResult → Bool
  | .mk _ qs qe _ _ kids => kids.all (overlapsSpan qs qe) && validAll kids
def validAll : List HMMResult → Bool
  | [] => true
  | h :: t => valid h && validAll t
end
end HMMResult

/-! ### Component / Module / CDSResult / NRPSPKSDomains -/

structure Component where
  domain : HMMResult
  locus : String
deriving Repr, Inhabited

/-- the stored fields of a `Module`; `_starter`, `_loader`, … are re-derived by re-adding -/
structure Module where
  components : List Component
  firstInCds : Bool
deriving Repr, Inhabited

/-- abstract interface to module building (property C14):
    `classifiable name` — `classify(name)` does not raise;
    `accepts first comps` — re-adding `comps` one by one with `add_component(c, rest)` to a fresh
    `Module(first)` raises no `IncompatibleComponentError`. -/
structure ModRules where
  classifiable : String → Bool
  accepts : Bool → List Component → Bool

namespace Component
def toJson (c : Component) : J := .obj [("domain", c.domain.toJson), ("locus", .str c.locus)]
/-- `cls(HMMResult.from_json(data["domain"]), data["locus"])`; the constructor classifies the
    profile name (ValueError) and asserts a non-empty locus -/
def fromJson (r : ModRules) : J → Outcome Component
  | .obj kv => do
    let dj ← match lookup "domain" kv with
      | some j => Outcome.reuse j
      | none => Outcome.refuse .key
    let d ← HMMResult.fromJson dj
    let locus ← reqStr kv "locus"
    if !r.classifiable d.hitId then .refuse .value
    else if locus.isEmpty then .refuse .assertion
    else .reuse ⟨d, locus⟩
  | _ => .refuse .type
def valid (r : ModRules) (c : Component) : Bool :=
  c.domain.valid && r.classifiable c.domain.hitId && !c.locus.isEmpty
end Component

namespace Module
def toJson (m : Module) : J :=
  .obj [("components", .arr (m.components.map Component.toJson)), ("first_in_cds", .bool m.firstInCds)]
/-- `cls(data.get("first_in_cds", True))`, then every component re-added -/
def fromJson (r : ModRules) : J → Outcome Module
  | .obj kv => do
    let first ← match lookup "first_in_cds" kv with
      | some (.bool b) => Outcome.reuse b
      | none => Outcome.reuse true
      | _ => Outcome.refuse .type
    let cj ← reqArr kv "components"
    let comps ← mapO (Component.fromJson r) cj
    if r.accepts first comps then .reuse ⟨comps, first⟩ else .refuse .value
  | _ => .refuse .type
def valid (r : ModRules) (m : Module) : Bool :=
  m.components.all (Component.valid r) && r.accepts m.firstInCds m.components
end Module

structure CDSResult where
  domainHmms : List HMMResult
  motifHmms : List HMMResult
  modules : List Module
deriving Repr, Inhabited

namespace CDSResult
def toJson (c : CDSResult) : J :=
  .obj [("domain_hmms", .arr (c.domainHmms.map HMMResult.toJson)),
        ("motif_hmms", .arr (c.motifHmms.map HMMResult.toJson)),
        ("modules", .arr (c.modules.map Module.toJson))]
def fromJson (r : ModRules) : J → Outcome CDSResult
  | .obj kv => do
    let d ← reqArr kv "domain_hmms"
    let d ← mapO HMMResult.fromJson d
    let m ← reqArr kv "motif_hmms"
    let m ← mapO HMMResult.fromJson m
    let mo ← reqArr kv "modules"
    let mo ← mapO (Module.fromJson r) mo
    pure ⟨d, m, mo⟩
  | _ => .refuse .type
def valid (r : ModRules) (c : CDSResult) : Bool :=
  c.domainHmms.all HMMResult.valid && c.motifHmms.all HMMResult.valid && c.modules.all (Module.valid r)
end CDSResult

/-- what `from_json` sees of the record -/
structure Ctx where
  recordId : String
  cdsNames : List String
  /-- `len(record)` when the record is circular -/
  origin : Option Int := none
  /-- `record.original_id`: the identifier before pre-processing renamed a duplicate — never consulted
      by any record guard (`record.id` only) -/
  originalId : Option String := none
deriving Repr, Inhabited

structure NrpsPks where
  recordId : String
  cds : List (String × CDSResult)
deriving Repr, Inhabited

namespace NrpsPks
def schemaVersion : Int := 4
def toJson (x : NrpsPks) : J :=
  .obj [("cds_results", .obj (x.cds.map fun p => (p.1, p.2.toJson))),
        ("schema_version", .int schemaVersion),
        ("record_id", .str x.recordId)]
/-- one `cds_results` item: `record.get_cds_by_name` (KeyError), then `CDSResult.from_json` -/
def itemFromJson (r : ModRules) (ctx : Ctx) (p : String × J) : Outcome (String × CDSResult) :=
  if !ctx.cdsNames.contains p.1 then .refuse .key
  else do
    let c ← CDSResult.fromJson r p.2
    pure (p.1, c)
/-- schema mismatch → None, record id mismatch → None (both via `json.get`) -/
def fromJson (r : ModRules) (ctx : Ctx) : J → Outcome NrpsPks
  | .obj kv =>
    if !isIntLit (lookup "schema_version" kv) schemaVersion then .discard
    else if !isStrLit (lookup "record_id" kv) ctx.recordId then .discard
    else do
      let items ← reqObj kv "cds_results"
      let cds ← mapO (itemFromJson r ctx) items
      pure ⟨ctx.recordId, cds⟩
  | _ => .refuse .type
def valid (r : ModRules) (ctx : Ctx) (x : NrpsPks) : Bool :=
  x.recordId == ctx.recordId && x.cds.all fun p => ctx.cdsNames.contains p.1 && p.2.valid r
end NrpsPks

/-- `generate_domain_features`: the identifiers of the aSDomain features of one gene,
    `nrpspksdomains_<gene>_<hit id>.<n>` with `n` counting the hits of that profile in order
    (distinct hits; equal hits share a dictionary key in the code and are not modelled) -/
def domainIdsGo (gene : String) : List String → List HMMResult → List String
  | _, [] => []
  | seen, h :: rest =>
    let n := (seen.filter (· == h.hitId)).length + 1
    ("nrpspksdomains_" ++ gene ++ "_" ++ h.hitId ++ "." ++ String.ofList (Nat.toDigits 10 n))
      :: domainIdsGo gene (seen ++ [h.hitId]) rest
/-- all domain features `from_json` (through `annotate_domains`) adds to the record, gene by gene -/
def NrpsPks.domainIds (x : NrpsPks) : List String :=
  x.cds.flatMap fun p => domainIdsGo p.1 [] p.2.domainHmms

/-! ### rule-based detection: SecMetQualifier.Domain, CDSResults, protoclusters as features,
    RuleDetectionResults, HMMDetectionResults -/

structure SDomain where
  name : String
  evalue : Dec
  bitscore : Dec
  nseeds : Int
  tool : String
deriving DecidableEq, Repr, Inhabited

namespace SDomain
def toJson (d : SDomain) : J := .arr [.str d.name, .num d.evalue, .num d.bitscore, .int d.nseeds, .str d.tool]
/-- `assert len(json) == 5`, then the five coercions -/
def fromJson : J → Outcome SDomain
  | .arr [.str n, .num e, .num b, .int s, .str t] => .reuse ⟨n, e, b, s, t⟩
  | .arr [_, _, _, _, _] => .refuse .type
  | .arr _ => .refuse .assertion
  | _ => .refuse .type
end SDomain

/-- insertion into a strictly ascending list of strings (Python: adding to a set, read back sorted) -/
def insertS (x : String) : List String → List String
  | [] => [x]
  | y :: ys => if x < y then x :: y :: ys else if x == y then y :: ys else y :: insertS x ys
/-- a Python `set` of strings, represented by its sorted list -/
def setOf (l : List String) : List String := l.foldr insertS []
/-- strictly ascending -/
def strictAsc : List String → Bool
  | [] => true
  | [_] => true
  | x :: y :: rest => decide (x < y) && strictAsc (y :: rest)

structure CdsRes where
  cdsName : String
  domains : List SDomain
  /-- `definition_domains`: product ↦ set of profile names (each set as its sorted list) -/
  defDomains : List (String × List String)
deriving DecidableEq, Repr, Inhabited

namespace CdsRes
/-- `to_json` (repaired, D51): `{key: sorted(val) …}` -/
def toJson (c : CdsRes) : J :=
  .obj [("cds_name", .str c.cdsName),
        ("domains", .arr (c.domains.map SDomain.toJson)),
        ("definition_domains", .obj (c.defDomains.map fun p => (p.1, jStrs (setOf p.2))))]
def defItem (p : String × J) : Outcome (String × List String) := do
  let l ← asStrs p.2
  pure (p.1, setOf l)
/-- domains, then `record.get_cds_by_name` (KeyError), then the sets; the constructor asserts
    that there is at least one domain -/
def fromJson (ctx : Ctx) : J → Outcome CdsRes
  | .obj kv => do
    let dj ← reqArr kv "domains"
    let doms ← mapO SDomain.fromJson dj
    let name ← reqStr kv "cds_name"
    if !ctx.cdsNames.contains name then .refuse .key
    else do
      let dd ← reqObj kv "definition_domains"
      let dd ← mapO defItem dd
      if doms.isEmpty then .refuse .assertion else .reuse ⟨name, doms, dd⟩
  | _ => .refuse .type
def valid (ctx : Ctx) (c : CdsRes) : Bool :=
  ctx.cdsNames.contains c.cdsName && !c.domains.isEmpty && c.defDomains.all fun p => strictAsc p.2
end CdsRes

/-- `str(int)` -/
def intStr (i : Int) : String := String.ofList (intChars i)
/-- `int(text)` -/
def strInt (s : String) : Option Int := parseInt s.toList

/-- ASCII reading of `str.isalnum()` -/
def isAlnum (c : Char) : Bool := c.isAlphanum
/-- the product check of `Protocluster.__init__` -/
def productOk (p : String) : Bool :=
  let cs := p.toList.filter fun c => c != '-' && c != '_'
  let alnum := !cs.isEmpty && cs.all isAlnum
  match p.toList.head?, p.toList.getLast? with
  | some a, some z => alnum && a != '-' && a != '_' && z != '-' && z != '_'
  | _, _ => false

/-- a rule-detected `Protocluster` as far as its serialised feature goes.  `number` / `contigEdge`
    are present exactly when the protocluster is attached to a record (`_parent_record`). -/
structure Proto where
  loc : Loc
  core : Loc
  tool : String
  product : String
  cutoff : Int
  neighbourhood : Int
  rule : String
  category : String
  number : Option Int := none
  contigEdge : Option Bool := none
deriving DecidableEq, Repr, Inhabited

namespace Proto
def boolStr (b : Bool) : String := if b then "True" else "False"
def q1 (k v : String) : String × J := (k, .arr [.str v])
/-- `serialiser.feature_to_json(cluster.to_biopython()[0])`: qualifiers in sorted key order -/
def toJson (p : Proto) : J :=
  .obj [("location", .str (locToString p.loc)),
        ("type", .str "protocluster"),
        ("qualifiers", .obj (
          [q1 "aStool" p.tool]
          ++ (if p.category.isEmpty then [] else [q1 "category" p.category])
          ++ (match p.contigEdge with | some b => [q1 "contig_edge" (boolStr b)] | none => [])
          ++ [q1 "core_location" (locToString p.core), q1 "cutoff" (intStr p.cutoff),
              q1 "detection_rule" p.rule, q1 "neighbourhood" (intStr p.neighbourhood),
              q1 "product" p.product]
          ++ (match p.number with | some n => [q1 "protocluster_number" (intStr n)] | none => [])
          ++ [q1 "tool" "antismash"]))]
/-- `leftovers.pop(key)[0]` -/
def qual (quals : List (String × J)) (k : String) : Option String :=
  match lookup k quals with
  | some (.arr (.str s :: _)) => some s
  | _ => none
/-- `Protocluster.__init__` checks -/
def ctorOk (loc core : Loc) (product : String) : Outcome Unit :=
  if bridgesOrigin core && !bridgesOrigin loc then .refuse .value
  else if loc.parts.length < core.parts.length then .refuse .assertion
  else if !productOk product then .refuse .value
  else .reuse ()
/-- `Protocluster.from_biopython(serialiser.feature_from_json(json))`; the run-specific
    `protocluster_number` and `contig_edge` are dropped; a missing mandatory qualifier is a
    ValueError; sideloaded protoclusters and extra qualifiers are outside the modelled domain -/
def fromJson : J → Outcome Proto
  | .obj kv => do
    let locText ← reqStr kv "location"
    let ty ← reqStr kv "type"
    let quals ← reqObj kv "qualifiers"
    match locFromString locText with
    | none => .refuse .value
    | some loc =>
      if ty != "protocluster" then .refuse .assertion
      else
        let category := (qual quals "category").getD ""
        match qual quals "neighbourhood", qual quals "cutoff", qual quals "product",
              qual quals "aStool", qual quals "detection_rule", qual quals "core_location" with
        | some n, some c, some product, some tool, some rule, some coreText =>
          match strInt n, strInt c, locFromString coreText with
          | some n, some c, some core => do
            ctorOk loc core product
            pure { loc := loc, core := core, tool := tool, product := product, cutoff := c,
                   neighbourhood := n, rule := rule, category := category }
          | _, _, _ => .refuse .value
        | _, _, _, _, _, _ => .refuse .value
  | _ => .refuse .type
/-- forget the record-specific numbering (what `from_biopython` does) -/
def detach (p : Proto) : Proto := { p with number := none, contigEdge := none }
/-- `record.add_protocluster`: the record supplies number and contig-edge flag again -/
def attach (p : Proto) (n : Int) (edge : Bool) : Proto := { p with number := some n, contigEdge := some edge }
/-- class invariant: both locations have at least one part (every Biopython location does) and
    the constructor's checks hold -/
def valid (p : Proto) : Bool :=
  !p.loc.parts.isEmpty && !p.core.parts.isEmpty && (ctorOk p.loc p.core p.product).isReuse
end Proto

structure RuleRes where
  tool : String
  byCluster : List (Proto × List CdsRes)
  outside : List CdsRes
  cutoffMult : Dec
  neighMult : Dec
deriving DecidableEq, Repr, Inhabited

namespace RuleRes
def schemaVersion : Int := 4
def toJson (x : RuleRes) : J :=
  .obj [("schema_version", .int schemaVersion),
        ("tool", .str x.tool),
        ("cds_by_protocluster", .arr (x.byCluster.map fun p =>
            .arr [p.1.toJson, .arr (p.2.map CdsRes.toJson)])),
        ("outside_protoclusters", .arr (x.outside.map CdsRes.toJson)),
        ("multipliers", .obj [("cutoff", .num x.cutoffMult), ("neighbourhood", .num x.neighMult)])]
def pairFromJson (ctx : Ctx) : J → Outcome (Proto × List CdsRes)
  | .arr [pj, .arr cj] => do
    let p ← Proto.fromJson pj
    let c ← mapO (CdsRes.fromJson ctx) cj
    pure (p, c)
  | .arr _ => .refuse .value
  | _ => .refuse .type
/-- `Multipliers(**json["multipliers"])` with `__post_init__` -/
def multFromJson (kv : List (String × J)) : Outcome (Dec × Dec) := do
  let m ← reqObj kv "multipliers"
  match lookup "cutoff" m, lookup "neighbourhood" m with
  | some (.num c), some (.num n) =>
    if m.length != 2 then .refuse .type
    else if c.le Dec.zero then .refuse .value
    else if n.le Dec.zero then .refuse .value
    else .reuse (c, n)
  | _, _ => .refuse .type
/-- schema mismatch (`json.get("schema_version", 1)`) → None -/
def fromJson (ctx : Ctx) : J → Outcome RuleRes
  | .obj kv =>
    if !isIntLit (lookup "schema_version" kv) schemaVersion then .discard
    else do
      let cj ← reqArr kv "cds_by_protocluster"
      let byCluster ← mapO (pairFromJson ctx) cj
      let oj ← reqArr kv "outside_protoclusters"
      let outside ← mapO (CdsRes.fromJson ctx) oj
      let (c, n) ← multFromJson kv
      let tool ← reqStr kv "tool"
      pure ⟨tool, byCluster, outside, c, n⟩
  | _ => .refuse .type
def valid (ctx : Ctx) (x : RuleRes) : Bool :=
  x.byCluster.all (fun p => p.1.valid && p.2.all (CdsRes.valid ctx)) && x.outside.all (CdsRes.valid ctx)
  && Dec.lt Dec.zero x.cutoffMult && Dec.lt Dec.zero x.neighMult
/-- every stored protocluster detached -/
def detach (x : RuleRes) : RuleRes := { x with byCluster := x.byCluster.map fun p => (p.1.detach, p.2) }
/-- `get_predicted_protoclusters` -/
def protoclusters (x : RuleRes) : List Proto := x.byCluster.map (·.1)
end RuleRes

/-! #### CDSResults.annotate / RuleDetectionResults.annotate_cds_features -/

inductive FnKind where
  | core | additional
deriving DecidableEq, Repr, Inhabited

/-- a `_GeneFunctionAnnotation` -/
structure GeneFn where
  kind : FnKind
  tool : String
  description : String
  product : Option String
deriving DecidableEq, Repr, Inhabited

/-- `GeneFunctionAnnotations`: the ordered annotations and the index `add` consults for duplicates
    (`_by_function`, flattened; `_by_tool` is not read by the modelled code) -/
structure GeneFns where
  annotations : List GeneFn := []
  byFunction : List GeneFn := []
deriving DecidableEq, Repr, Inhabited

/-- `GeneFunctionAnnotations.add`: an annotation equal to one in the index is not added again -/
def GeneFns.add (g : GeneFns) (f : GeneFn) : GeneFns :=
  if g.byFunction.contains f then g else ⟨g.annotations ++ [f], g.byFunction ++ [f]⟩
/-- `GeneFunctionAnnotations.clear`: every container is reset -/
def GeneFns.clear (_g : GeneFns) : GeneFns := ⟨[], []⟩
/-- the index holds exactly the annotations -/
def GeneFns.consistent (g : GeneFns) : Bool := g.byFunction == g.annotations

/-- what `annotate` touches of a CDS: its `sec_met` qualifier and its gene functions -/
structure CdsState where
  secmet : Option (List SDomain) := none
  functions : GeneFns := {}
deriving DecidableEq, Repr, Inhabited

/-- `CDSFeature.strip_antismash_annotations` (what `main.read_data` does to every reloaded record):
    an empty `sec_met` qualifier, gene functions cleared -/
def CdsState.strip (st : CdsState) : CdsState := ⟨some [], st.functions.clear⟩

/-- `SecMetQualifier.add_domains`: a domain whose name is already present is skipped -/
def addDomains (existing new : List SDomain) : List SDomain :=
  new.foldl (fun acc d => if acc.any (·.name == d.name) then acc else acc ++ [d]) existing
def addFn (fs : GeneFns) (f : GeneFn) : GeneFns := fs.add f

/-- `CDSResults.annotate(tool)` (with the D51 repair: definition domains are visited sorted) -/
def CdsRes.annotate (tool : String) (st : CdsState) (c : CdsRes) : CdsState :=
  let existing : List SDomain := match st.secmet with
    | some ex => ex
    | none => []
  -- `if not self.cds.sec_met` (None or no domains): a new qualifier; otherwise the existing domain ids
  -- count as matching and the new domains are appended
  let doms := addDomains existing c.domains
  let pre := existing.map (·.name)
  let allMatching := pre ++ c.defDomains.flatMap (·.2)
  let fns1 := c.defDomains.foldl (fun fs p =>
      (setOf p.2).foldl (fun fs n => addFn fs ⟨.core, tool, n, some p.1⟩) fs) st.functions
  let fns2 := doms.foldl (fun fs d =>
      if allMatching.contains d.name then fs else addFn fs ⟨.additional, d.tool, d.name, none⟩) fns1
  ⟨some doms, fns2⟩

def updState (m : List (String × CdsState)) (name : String) (f : CdsState → CdsState) : List (String × CdsState) :=
  if m.any (·.1 == name) then m.map fun p => if p.1 == name then (p.1, f p.2) else p
  else m ++ [(name, f {})]

/-- `annotate_cds_features` on a record without previous annotations: every CDSResults of every
    protocluster in order, then those outside; the result per gene (in order of first annotation) -/
def RuleRes.annotateAll (x : RuleRes) : List (String × CdsState) :=
  (x.byCluster.flatMap (·.2) ++ x.outside).foldl
    (fun m c => updState m c.cdsName (fun st => c.annotate x.tool st)) []

def strictnessLevels : List String := ["strict", "relaxed", "loose"]

structure HmmDet where
  recordId : String
  rules : RuleRes
  enabledTypes : List String
  strictness : String
deriving DecidableEq, Repr, Inhabited

/-- the options `regenerate_previous_results` of hmm_detection consults -/
structure HmmOpts where
  strictness : String
  /-- `get_ruleset(options).get_rule_names()` -/
  ruleNames : List String
  fungi : Bool
  cutoffMult : Dec
  neighMult : Dec
deriving Repr, Inhabited

def setEq (a b : List String) : Bool := a.all (b.contains ·) && b.all (a.contains ·)

namespace HmmDet
def schemaVersion : Int := 2
def toJson (x : HmmDet) : J :=
  .obj [("record_id", .str x.recordId),
        ("schema_version", .int schemaVersion),
        ("enabled_types", jStrs x.enabledTypes),
        ("rule_results", x.rules.toJson),
        ("strictness", .str x.strictness)]
/-- `json["enabled_types"]` -/
def enabledOf (kv : List (String × J)) : Outcome (List String) :=
  match lookup "enabled_types" kv with
  | some j => asStrs j
  | none => .refuse .key
/-- `json.get("strictness", "relaxed")` -/
def strictnessOf (kv : List (String × J)) : Outcome String :=
  match lookup "strictness" kv with
  | some (.str s) => .reuse s
  | none => .reuse "relaxed"
  | _ => .refuse .type
def fromJson (ctx : Ctx) : J → Outcome HmmDet
  | .obj kv =>
    match lookup "schema_version" kv with
    | none => .refuse .key
    | some sv =>
      if !isIntLit (some sv) schemaVersion then .refuse .value
      else match lookup "record_id" kv with
        | none => .refuse .key
        | some rid =>
          if !isStrLit (some rid) ctx.recordId then .refuse .assertion
          else match lookup "rule_results" kv with
            | none => .refuse .key
            | some rj =>
              match RuleRes.fromJson ctx rj with
              | .refuse e => .refuse e
              | .discard => .refuse .value
              | .reuse rr => do
                let et ← enabledOf kv
                let strictness ← strictnessOf kv
                if !strictnessLevels.contains strictness then .refuse .value
                else .reuse ⟨ctx.recordId, rr, et, strictness⟩
  | _ => .refuse .type
/-- `regenerate_previous_results(results, record, options)` -/
def regenerate (ctx : Ctx) (o : HmmOpts) (j : J) : Outcome HmmDet :=
  match j with
  | .obj [] => .discard
  | _ =>
    match fromJson ctx j with
    | .reuse x =>
      -- a strictness mismatch is only logged
      if !setEq x.enabledTypes o.ruleNames then .refuse .runtime
      else if o.fungi && x.rules.cutoffMult != o.cutoffMult then .refuse .runtime
      else if o.fungi && x.rules.neighMult != o.neighMult then .refuse .runtime
      else .reuse x
    | other => other
def valid (ctx : Ctx) (x : HmmDet) : Bool :=
  x.recordId == ctx.recordId && x.rules.valid ctx && strictnessLevels.contains x.strictness
end HmmDet

/-! ### producing side of hmm_detection: get_ruleset multipliers, the gene-less early exit of
    detect_protoclusters_and_signatures, run_on_record -/

/-- a detection rule as far as rule-set selection goes: its name, the first strictness level whose
    rule file defines it (0 strict, 1 relaxed, 2 loose) and its category -/
structure RuleInfo where
  name : String
  level : Nat
  category : String
deriving DecidableEq, Repr, Inhabited

def strictnessIndex (s : String) : Nat :=
  if s == "strict" then 0 else if s == "relaxed" then 1 else 2

/-- `get_ruleset(options).get_rule_names()`: the rules of every rule file up to the requested
    strictness, limited to `--hmmdetection-limit-to-rule-names` / `…-categories` when given.  The
    result depends on the strictness whatever was asked for earlier in the process (no stale cache). -/
def rulesetNames (rules : List RuleInfo) (strictness : String) (limitNames limitCats : List String) : List String :=
  ((rules.filter fun r => decide (r.level ≤ strictnessIndex strictness)).filter fun r =>
      (limitNames.isEmpty || limitNames.contains r.name) && (limitCats.isEmpty || limitCats.contains r.category)).map (·.name)

/-- `get_ruleset(options).multipliers`: the defaults unless the taxon is fungi -/
def rulesetMultipliers (o : HmmOpts) : Dec × Dec :=
  if o.fungi then (o.cutoffMult, o.neighMult) else (Dec.one, Dec.one)

/-- `detect_protoclusters_and_signatures` on a record without CDS features:
    `RuleDetectionResults({}, ruleset.tool, [], ruleset.multipliers)` -/
def RuleRes.noGenes (tool : String) (mult : Dec × Dec) : RuleRes := ⟨tool, [], [], mult.1, mult.2⟩

/-- `run_on_record(record, None, options)` given what detection returned:
    `HMMDetectionResults(record.id, results, sorted(rule names), options.hmmdetection_strictness)`
    (`o.ruleNames` is the sorted list of rule names) -/
def HmmDet.runOnRecord (ctx : Ctx) (o : HmmOpts) (detected : RuleRes) : HmmDet :=
  ⟨ctx.recordId, detected, o.ruleNames, o.strictness⟩

/-- … on a record without genes -/
def HmmDet.runNoGenes (ctx : Ctx) (o : HmmOpts) (tool : String) : HmmDet :=
  HmmDet.runOnRecord ctx o (RuleRes.noGenes tool (rulesetMultipliers o))

/-- `check_options`: multipliers positive, strictness known -/
def HmmOpts.ok (o : HmmOpts) : Bool :=
  strictnessLevels.contains o.strictness && Dec.lt Dec.zero o.cutoffMult && Dec.lt Dec.zero o.neighMult

/-! ### sideloader -/

abbrev QMap := List (String × List String)

/-- `_qualifier_mapping`: a bare string becomes a one-element list -/
def qualifierMapping (kv : List (String × J)) : Outcome QMap :=
  mapO (fun p => match p.2 with
    | .str s => Outcome.reuse (p.1, [s])
    | .arr l => do let l ← mapO asStr l; pure (p.1, l)
    | _ => .refuse .type) kv
def qmapJson (m : QMap) : J := .obj (m.map fun p => (p.1, jStrs p.2))
/-- `raw.get(key, {})` then `_qualifier_mapping` -/
def optQMap (kv : List (String × J)) (k : String) : Outcome QMap :=
  match lookup k kv with
  | none => .reuse []
  | some (.obj m) => qualifierMapping m
  | _ => .refuse .type

structure Tool where
  name : String
  version : String
  description : String
  configuration : QMap
deriving DecidableEq, Repr, Inhabited

namespace Tool
def nameOk (n : String) : Bool := n.toList.all fun c => c.isAlpha || c == '_' || c == '-' || c == ' '
def toJson (t : Tool) : J :=
  .obj [("name", .str t.name), ("version", .str t.version), ("description", .str t.description),
        ("configuration", qmapJson t.configuration)]
def fromJson : J → Outcome Tool
  | .obj kv => do
    let name ← reqStr kv "name"
    let version ← reqStr kv "version"
    let description ← match lookup "description" kv with
      | some (.str s) => Outcome.reuse s
      | none => Outcome.reuse ""
      | _ => Outcome.refuse .type
    let conf ← optQMap kv "configuration"
    if !nameOk name then .refuse .value else .reuse ⟨name, version, description, conf⟩
  | _ => .refuse .type
end Tool

/-- Python truthiness of `circular_origin` (None and 0 are falsy) -/
def originOn (o : Option Int) : Bool := match o with | some n => n != 0 | none => false
def originJson (o : Option Int) : J := match o with | some n => .int n | none => .null
def reqTool (kv : List (String × J)) : Outcome Tool :=
  match lookup "tool" kv with
  | some j => Tool.fromJson j
  | none => .refuse .key
def optInt (kv : List (String × J)) (k : String) (d : Int) : Outcome Int :=
  match lookup k kv with
  | some (.int i) => .reuse i
  | none => .reuse d
  | _ => .refuse .type

structure SubAnn where
  origin : Option Int
  start : Int
  stop : Int
  label : String
  details : QMap
  tool : Tool
deriving DecidableEq, Repr, Inhabited

namespace SubAnn
/-- `SubRegionAnnotation.__init__` -/
def make (start stop : Int) (label : String) (tool : Tool) (details : QMap) (origin : Option Int) : Outcome SubAnn :=
  if !originOn origin && stop ≤ start then .refuse .value
  else if originOn origin && origin.getD 0 < 0 then .refuse .value
  else if originOn origin && start > origin.getD 0 then .refuse .value
  else .reuse ⟨origin, start, stop, label, details, tool⟩
/-- `dict(vars(self))` with the tool converted in place -/
def toJson (s : SubAnn) : J :=
  .obj [("circular_origin", originJson s.origin), ("start", .int s.start), ("end", .int s.stop),
        ("label", .str s.label), ("details", qmapJson s.details), ("tool", s.tool.toJson)]
def fromJson (origin : Option Int) : J → Outcome SubAnn
  | .obj kv => do
    let start ← reqInt kv "start"
    let stop ← reqInt kv "end"
    let label ← reqStr kv "label"
    let tool ← reqTool kv
    let details ← optQMap kv "details"
    make start stop label tool details origin
  | _ => .refuse .type
/-- `build_location` -/
def location (s : SubAnn) : Loc :=
  if originOn s.origin && s.start > s.stop then
    .compound [⟨s.start, s.origin.getD 0, .fwd⟩, ⟨0, s.stop, .fwd⟩]
  else .simple ⟨s.start, s.stop, .none⟩
def valid (origin : Option Int) (s : SubAnn) : Bool :=
  s.origin == origin && (make s.start s.stop s.label s.tool s.details origin).isReuse && Tool.nameOk s.tool.name
end SubAnn

structure ProtoAnn where
  origin : Option Int
  coreStart : Int
  coreEnd : Int
  product : String
  tool : Tool
  details : QMap
  nLeft : Int
  nRight : Int
deriving DecidableEq, Repr, Inhabited

namespace ProtoAnn
/-- `ProtoclusterAnnotation.__init__` -/
def make (coreStart coreEnd : Int) (product : String) (tool : Tool) (details : QMap) (nLeft nRight : Int)
    (origin : Option Int) : Outcome ProtoAnn :=
  if !originOn origin then
    if coreEnd ≤ coreStart then .refuse .value
    else if nLeft < 0 || nRight < 0 then .refuse .value
    else if coreStart - nLeft < 0 then .refuse .value
    else .reuse ⟨origin, coreStart, coreEnd, product, tool, details, nLeft, nRight⟩
  else if origin.getD 0 < 0 then .refuse .value
  else if coreStart > origin.getD 0 then .refuse .value
  else .reuse ⟨origin, coreStart, coreEnd, product, tool, details, nLeft, nRight⟩
def toJson (p : ProtoAnn) : J :=
  .obj [("circular_origin", originJson p.origin), ("core_start", .int p.coreStart), ("core_end", .int p.coreEnd),
        ("product", .str p.product), ("tool", p.tool.toJson), ("details", qmapJson p.details),
        ("neighbourhood_left", .int p.nLeft), ("neighbourhood_right", .int p.nRight)]
def fromJson (origin : Option Int) : J → Outcome ProtoAnn
  | .obj kv => do
    let cs ← reqInt kv "core_start"
    let ce ← reqInt kv "core_end"
    let product ← reqStr kv "product"
    let tool ← reqTool kv
    let details ← optQMap kv "details"
    let nl ← optInt kv "neighbourhood_left" 0
    let nr ← optInt kv "neighbourhood_right" 0
    make cs ce product tool details nl nr origin
  | _ => .refuse .type
/-- the `start` / `end` properties (Python `%` is the floored modulo, as Lean's `Int.emod` for a
    positive divisor) -/
def start (p : ProtoAnn) : Int :=
  if originOn p.origin then (p.coreStart + p.origin.getD 0 - p.nLeft) % p.origin.getD 0 else p.coreStart - p.nLeft
def stop (p : ProtoAnn) : Int :=
  if originOn p.origin then (p.coreEnd + p.origin.getD 0 + p.nRight) % p.origin.getD 0 else p.coreEnd + p.nRight
def coreLocation (p : ProtoAnn) : Loc :=
  if originOn p.origin && p.coreStart > p.coreEnd then
    .compound [⟨p.coreStart, p.origin.getD 0, .fwd⟩, ⟨0, p.coreEnd, .fwd⟩]
  else .simple ⟨p.coreStart, p.coreEnd, .none⟩
def location (p : ProtoAnn) : Loc :=
  if originOn p.origin && p.start > p.stop then
    .compound [⟨p.start, p.origin.getD 0, .fwd⟩, ⟨0, p.stop, .fwd⟩]
  else .simple ⟨p.start, p.stop, .none⟩
def valid (origin : Option Int) (p : ProtoAnn) : Bool :=
  p.origin == origin && Tool.nameOk p.tool.name
  && (make p.coreStart p.coreEnd p.product p.tool p.details p.nLeft p.nRight origin).isReuse
end ProtoAnn

structure Sideloaded where
  recordId : String
  subregions : List SubAnn
  protoclusters : List ProtoAnn
deriving DecidableEq, Repr, Inhabited

namespace Sideloaded
def schemaVersion : Int := 1
def toJson (x : Sideloaded) : J :=
  .obj [("record_id", .str x.recordId), ("schema_version", .int schemaVersion),
        ("protoclusters", .arr (x.protoclusters.map ProtoAnn.toJson)),
        ("subregions", .arr (x.subregions.map SubAnn.toJson))]
def fromJson (ctx : Ctx) : J → Outcome Sideloaded
  | .obj kv =>
    match lookup "schema_version" kv with
    | none => .refuse .key
    | some sv =>
      if !isIntLit (some sv) schemaVersion then .refuse .value
      else match lookup "record_id" kv with
        | none => .refuse .key
        | some rid =>
          if !isStrLit (some rid) ctx.recordId then .refuse .assertion
          else do
            let sj ← reqArr kv "subregions"
            let subs ← mapO (SubAnn.fromJson ctx.origin) sj
            let pj ← reqArr kv "protoclusters"
            let protos ← mapO (ProtoAnn.fromJson ctx.origin) pj
            pure ⟨ctx.recordId, subs, protos⟩
  | _ => .refuse .type
/-- `regenerate_previous_results` (with the D56 repair).  `requested` is what
    `load_single_record_annotations` yields for the current `--sideload*` options, `none` when the
    current run requests no sideloading (`is_enabled(options)` false): annotations requested for
    this run must be the ones being reused, otherwise the run stops. -/
def regenerate (ctx : Ctx) (requested : Option Sideloaded) (j : J) : Outcome Sideloaded :=
  match j with
  | .obj [] => .discard
  | _ =>
    match fromJson ctx j with
    | .reuse x =>
      match requested with
      | none => .reuse x
      | some r =>
        if r.subregions != x.subregions || r.protoclusters != x.protoclusters then .refuse .runtime
        else .reuse x
    | other => other
/-- `get_predicted_subregions` / `get_predicted_protoclusters`: (location, core, tool, label/product) -/
def predictedSubregions (x : Sideloaded) : List (Loc × String × String) :=
  x.subregions.map fun s => (s.location, s.tool.name, s.label)
def predictedProtoclusters (x : Sideloaded) : List (Loc × Loc × String × String) :=
  x.protoclusters.map fun p => (p.location, p.coreLocation, p.tool.name, p.product)
def valid (ctx : Ctx) (x : Sideloaded) : Bool :=
  x.recordId == ctx.recordId && x.subregions.all (SubAnn.valid ctx.origin) && x.protoclusters.all (ProtoAnn.valid ctx.origin)
end Sideloaded

/-! #### the sideloader's own options: load_single_record_annotations, run_on_record,
     regenerate_previous_results as a function of every option the module reads -/

/-- what the sideloader sees of the record -/
structure RecInfo where
  id : String
  originalId : Option String := none
  length : Int
  circular : Bool
  /-- (name, start, end) of every CDS feature -/
  cds : List (String × Int × Int)
deriving Repr, Inhabited

/-- every option the sideloader reads, one field each.  The annotation *files* are represented by
    what they parse to for this record (`fileSubs`, `fileProtos`: schema validation and
    `from_schema_json` are input parsing) and by how many were named (`nFiles`, for `is_enabled`). -/
structure SideOpts where
  nFiles : Nat := 0
  fileSubs : List SubAnn := []
  fileProtos : List ProtoAnn := []
  /-- `--sideload-simple ACCESSION:START-END` -/
  simple : Option (String × Int × Int) := none
  /-- `--sideload-by-cds` -/
  markers : List String := []
  /-- `--sideload-size-by-cds` -/
  padding : Int := 20000
deriving Repr, Inhabited

namespace RecInfo
def origin (r : RecInfo) : Option Int := if r.circular then some r.length else none
/-- `record.has_name` -/
def hasName (r : RecInfo) (n : String) : Bool :=
  n == r.id || (match r.originalId with | some o => n == o | none => false)
def ctx (r : RecInfo) : Ctx := ⟨r.id, r.cds.map (·.1), r.origin, r.originalId⟩
end RecInfo

/-- the tool of command-line annotations -/
def manualTool : Tool := ⟨"manual", "N/A", "command line argument", []⟩

namespace SideOpts
/-- `is_enabled(options)` -/
def enabled (o : SideOpts) : Bool := o.nFiles != 0 || o.simple.isSome || !o.markers.isEmpty

/-- the `--sideload-simple` sub-region, if it names this record -/
def manualArea (r : RecInfo) (o : SideOpts) : Outcome (List SubAnn) :=
  match o.simple with
  | some (acc, s, e) =>
    if r.hasName acc then (SubAnn.make s (min e r.length) "" manualTool [] r.origin).map' fun x => [x]
    else .reuse []
  | none => .reuse []

/-- one `--sideload-by-cds` sub-region: the gene padded by `--sideload-size-by-cds` on both sides;
    wrapped on a circular record, clamped on a linear one; unknown genes are skipped (warning) -/
def markerArea (r : RecInfo) (padding : Int) (name : String) : Outcome (Option SubAnn) :=
  match r.cds.find? (·.1 == name) with
  | none => .reuse none
  | some (_, cs, ce) =>
    let start := cs - padding
    let stop := ce + padding
    if r.circular then
      (SubAnn.make ((start + r.length) % r.length) (stop % r.length) name manualTool [] (some r.length)).map' some
    else (SubAnn.make (max 0 start) (min stop r.length) name manualTool [] none).map' some

/-- `load_single_record_annotations(options.sideload, record, options.sideload_simple,
    options.sideload_cds_markers, options.sideload_cds_padding)` (the final "area contains a complete
    CDS" input check is not modelled) -/
def load (r : RecInfo) (o : SideOpts) : Outcome Sideloaded := do
  let manual ← manualArea r o
  let marked ← mapO (markerArea r o.padding) o.markers
  pure ⟨r.id, o.fileSubs ++ manual ++ marked.filterMap id, o.fileProtos⟩

/-- `SubRegionAnnotation.from_schema_json(raw, tool, circular_origin=…)`: `raw["tool"] = tool.to_json()`,
    then `from_json` -/
def subFromSchema (tool : Tool) (origin : Option Int) : J → Outcome SubAnn
  | .obj kv => SubAnn.fromJson origin (.obj (("tool", tool.toJson) :: kv))
  | _ => .refuse .type
/-- `ProtoclusterAnnotation.from_schema_json` -/
def protoFromSchema (tool : Tool) (origin : Option Int) : J → Outcome ProtoAnn
  | .obj kv => ProtoAnn.fromJson origin (.obj (("tool", tool.toJson) :: kv))
  | _ => .refuse .type

/-- the areas one record entry of an annotation file contributes (`json_record.get(…, [])`) -/
def areasOfEntry (tool : Tool) (origin : Option Int) (kv : List (String × J)) : Outcome (List SubAnn × List ProtoAnn) := do
  let subs ← match lookup "subregions" kv with
    | some (.arr l) => mapO (subFromSchema tool origin) l
    | none => Outcome.reuse []
    | _ => Outcome.refuse .type
  let protos ← match lookup "protoclusters" kv with
    | some (.arr l) => mapO (protoFromSchema tool origin) l
    | none => Outcome.reuse []
    | _ => Outcome.refuse .type
  pure (subs, protos)

/-- one (validated) annotation file in `load_single_record_annotations`: the tool, then every record
    entry whose name is one of the record's identifiers, in file order -/
def loadFile (r : RecInfo) : J → Outcome (List SubAnn × List ProtoAnn)
  | .obj kv => do
    let tool ← reqTool kv
    let entries ← reqArr kv "records"
    let parts ← mapO (fun e => match e with
      | .obj ekv =>
        match lookup "name" ekv with
        | some (.str n) => if r.hasName n then areasOfEntry tool r.origin ekv else Outcome.reuse ([], [])
        | none => Outcome.refuse .key
        | _ => Outcome.refuse .type
      | _ => Outcome.refuse .type) entries
    pure (parts.flatMap (·.1), parts.flatMap (·.2))
  | _ => .refuse .type

/-- all `--sideload` files in the order given: sub-regions and protoclusters accumulate per kind -/
def loadFiles (r : RecInfo) (files : List J) : Outcome (List SubAnn × List ProtoAnn) := do
  let parts ← mapO (loadFile r) files
  pure (parts.flatMap (·.1), parts.flatMap (·.2))

/-- `run_on_record(record, previous_results, options)` -/
def runOnRecord (r : RecInfo) (o : SideOpts) (previous : Option Sideloaded) : Outcome Sideloaded :=
  match previous with
  | some p => .reuse p
  | none => load r o

/-- `regenerate_previous_results(results, record, options)` with the options spelled out -/
def regenerate (r : RecInfo) (o : SideOpts) (j : J) : Outcome Sideloaded :=
  if o.enabled then
    match j with
    | .obj [] => .discard
    | _ =>
      -- the stored results are decoded first; an error there comes before loading
      match Sideloaded.fromJson r.ctx j with
      | .reuse _ =>
        match load r o with
        | .reuse req => Sideloaded.regenerate r.ctx (some req) j
        | .discard => .discard
        | .refuse e => .refuse e
      | other => other
  else Sideloaded.regenerate r.ctx none j
end SideOpts

/-! ### HMMer-based results (hmmer.py, full_hmmer / cluster_hmmer) -/

structure HmmerHit where
  location : String
  label : String
  locusTag : String
  domain : String
  evalue : Dec
  score : Dec
  identifier : String
  description : String
  pStart : Int
  pEnd : Int
  translation : String
deriving DecidableEq, Repr, Inhabited

namespace HmmerHit
/-- `__post_init__` -/
def make (h : HmmerHit) : Outcome HmmerHit :=
  if h.pStart ≥ h.pEnd then .refuse .value
  else if (h.translation.length : Int) != h.pEnd - h.pStart then .refuse .value
  else .reuse h
/-- `dict(vars(self))`: the dataclass fields in order -/
def toJson (h : HmmerHit) : J :=
  .obj [("location", .str h.location), ("label", .str h.label), ("locus_tag", .str h.locusTag),
        ("domain", .str h.domain), ("evalue", .num h.evalue), ("score", .num h.score),
        ("identifier", .str h.identifier), ("description", .str h.description),
        ("protein_start", .int h.pStart), ("protein_end", .int h.pEnd), ("translation", .str h.translation)]
/-- keyword argument of `HmmerHit(**data)`: a missing key is a TypeError -/
def kwStr (kv : List (String × J)) (k : String) : Outcome String :=
  match lookup k kv with
  | some (.str s) => .reuse s
  | _ => .refuse .type
def kwInt (kv : List (String × J)) (k : String) : Outcome Int :=
  match lookup k kv with
  | some (.int s) => .reuse s
  | _ => .refuse .type
def kwNum (kv : List (String × J)) (k : String) : Outcome Dec :=
  match lookup k kv with
  | some (.num s) => .reuse s
  | _ => .refuse .type
/-- `HmmerHit(**data)`: a missing or surplus key is a TypeError -/
def fromJson : J → Outcome HmmerHit
  | .obj kv => do
    let a ← kwStr kv "location"
    let b ← kwStr kv "label"
    let c ← kwStr kv "locus_tag"
    let d ← kwStr kv "domain"
    let e ← kwNum kv "evalue"
    let f ← kwNum kv "score"
    let g ← kwStr kv "identifier"
    let h ← kwStr kv "description"
    let i ← kwInt kv "protein_start"
    let j ← kwInt kv "protein_end"
    let k ← kwStr kv "translation"
    if kv.length != 11 then .refuse .type else make ⟨a, b, c, d, e, f, g, h, i, j, k⟩
  | _ => .refuse .type
def valid (h : HmmerHit) : Bool := (make h).isReuse
end HmmerHit

structure HmmerRes where
  recordId : String
  evalue : Dec
  score : Dec
  database : String
  tool : String
  hits : List HmmerHit
deriving DecidableEq, Repr, Inhabited

namespace HmmerRes
def schemaVersion : Int := 2
def toJson (x : HmmerRes) : J :=
  .obj [("hits", .arr (x.hits.map HmmerHit.toJson)), ("record id", .str x.recordId),
        ("schema", .int schemaVersion), ("max evalue", .num x.evalue), ("min score", .num x.score),
        ("database", .str x.database), ("tool", .str x.tool)]
def fromJson (ctx : Ctx) : J → Outcome HmmerRes
  | .obj kv =>
    if !isStrLit (lookup "record id" kv) ctx.recordId then .discard
    else if !isIntLit (lookup "schema" kv) schemaVersion then .discard
    else match lookup "max evalue" kv, lookup "min score" kv with
      | none, _ => .refuse .value
      | _, none => .refuse .value
      | some (.null), _ => .refuse .value
      | _, some (.null) => .refuse .value
      | some (.num ev), some (.num sc) =>
        match lookup "hits" kv with
        | some (.arr hj) => do
          let hits ← mapO HmmerHit.fromJson hj
          let db ← reqStr kv "database"
          let tool ← reqStr kv "tool"
          pure ⟨ctx.recordId, ev, sc, db, tool, hits⟩
        | _ => .refuse .type
      | _, _ => .refuse .assertion
  | _ => .refuse .type
/-- `refilter(max_evalue, min_score)` -/
def refilter (x : HmmerRes) (maxEvalue minScore : Dec) : Outcome HmmerRes :=
  if Dec.lt x.evalue maxEvalue then .refuse .value
  else if Dec.lt minScore x.score then .refuse .value
  else .reuse { x with hits := x.hits.filter (fun h => Dec.le minScore h.score && Dec.le h.evalue maxEvalue),
                       evalue := maxEvalue, score := minScore }
/-- `regenerate_previous_results` of full_hmmer / cluster_hmmer with the module constants
    `MAX_EVALUE`, `MIN_SCORE` -/
def regenerate (ctx : Ctx) (maxEvalue minScore : Dec) (j : J) : Outcome HmmerRes :=
  match j with
  | .obj [] => .discard
  | _ =>
    match fromJson ctx j with
    | .reuse x =>
      if Dec.lt minScore x.score || Dec.lt x.evalue maxEvalue then .discard
      else refilter x maxEvalue minScore
    | other => other
/-- `f"{i+1:04d}"` -/
def pad4 (n : Nat) : String :=
  let ds := Nat.toDigits 10 n
  String.ofList (List.replicate (4 - ds.length) '0' ++ ds)
/-- `add_to_record`: the identifiers of the PFAM domain features, `<tool>_<locus tag>_<i+1:04d>` -/
def domainIds (x : HmmerRes) : List String :=
  (List.range x.hits.length).zip x.hits |>.map fun p => x.tool ++ "_" ++ p.2.locusTag ++ "_" ++ pad4 (p.1 + 1)
/-- invariant of results produced by `run_hmmer`: hits are well-formed and within the thresholds -/
def valid (ctx : Ctx) (x : HmmerRes) : Bool :=
  x.recordId == ctx.recordId && x.hits.all fun h => h.valid && Dec.le x.score h.score && Dec.le h.evalue x.evalue
end HmmerRes

/-! #### full_hmmer / cluster_hmmer run_on_record: the PFAM database version guard -/

inductive HmmerModule where
  | full | cluster
deriving DecidableEq, Repr, Inhabited

/-- the options the two modules read, one field each, plus what
    `pfamdb.find_latest_database_version(options.database_dir)` finds -/
structure PfamOpts where
  fullVersion : String := "latest"
  clusterVersion : String := "latest"
  latestAvailable : String
deriving Repr, Inhabited

/-- `str.split(sep)` -/
def splitGo (sep : Char) : List Char → List Char → List (List Char)
  | acc, [] => [acc.reverse]
  | acc, c :: rest => if c == sep then acc.reverse :: splitGo sep [] rest else splitGo sep (c :: acc) rest
def splitPath (p : String) : List String := (splitGo '/' [] p.toList).map String.ofList

/-- the element after the last `"pfam"` -/
def afterLastPfam : List String → Option String → Option String
  | [], found => found
  | x :: rest, found =>
    if x == "pfam" then afterLastPfam rest (rest.head?) else afterLastPfam rest found

/-- `pfamdb.get_db_version_from_path` (the float-format check on the version is not modelled) -/
def dbVersionOfPath (p : String) : Outcome String :=
  let parts := splitPath p
  if !parts.contains "pfam" then .refuse .value
  else match afterLastPfam parts none with
    | some v => .reuse v
    | none => .refuse .value      -- "pfam" is the last component (IndexError in the code)

/-- `float(component)` for a component made of decimal digits (other spellings are not modelled) -/
def parseVersionPart (cs : List Char) : Option Nat :=
  if !cs.isEmpty && cs.all Char.isDigit then some (Nat.ofDigitChars 10 cs 0) else none
/-- `tuple(map(float, version.split(".")))` -/
def versionKey (v : String) : Option (List Nat) := (splitGo '.' [] v.toList).mapM parseVersionPart
/-- Python's tuple comparison -/
def listLt : List Nat → List Nat → Bool
  | [], [] => false
  | [], _ :: _ => true
  | _ :: _, [] => false
  | a :: as, b :: bs => decide (a < b) || (a == b && listLt as bs)
def versionLt (a b : List Nat × String) : Bool := listLt a.1 b.1 || (a.1 == b.1 && decide (a.2 < b.2))
/-- `path.find_latest_database_version` over the version directories that hold the required file:
    `sorted(potentials)[-1][1]`; a directory name that is not a version, or no directory at all, is a ValueError -/
def versionKeys : List String → Option (List (List Nat × String))
  | [] => some []
  | v :: vs =>
    match versionKey v, versionKeys vs with
    | some k, some r => some ((k, v) :: r)
    | _, _ => none
def latestVersion (installed : List String) : Outcome String :=
  match versionKeys installed with
  | none => .refuse .value
  | some [] => .refuse .value
  | some (k :: ks) => .reuse (ks.foldl (fun best c => if versionLt best c then c else best) k).2

namespace PfamOpts
/-- the version this module's run uses: its *own* option, `latest` resolved against the database directory -/
def wanted (m : HmmerModule) (o : PfamOpts) : String :=
  let v := match m with
    | .full => o.fullVersion
    | .cluster => o.clusterVersion
  if v == "latest" then o.latestAvailable else v
end PfamOpts

/-- what `run_on_record` does with regenerated results: keep them, or search again in a database -/
inductive HmmerRun where
  | keep (r : HmmerRes)
  | rerun (version : String)
deriving DecidableEq, Repr

/-- `run_on_record(record, results, options)` of full_hmmer / cluster_hmmer -/
def hmmerRunOnRecord (m : HmmerModule) (o : PfamOpts) (results : Option HmmerRes) : Outcome HmmerRun :=
  match results with
  | some r =>
    match dbVersionOfPath r.database with
    | .reuse prev => if o.wanted m == prev then .reuse (.keep r) else .reuse (.rerun (o.wanted m))
    | .discard => .discard
    | .refuse e => .refuse e
  | none => .reuse (.rerun (o.wanted m))

/-! ### TTA -/

structure TTA where
  recordId : String
  gc : Dec
  threshold : Dec
  /-- the location of each marked codon (one part, or several when a codon is split over exons) -/
  codons : List Loc
deriving DecidableEq, Repr, Inhabited

namespace TTA
def schemaVersion : Int := 3
/-- `"TTA codons": [str(feature.location) …]` -/
def toJson (x : TTA) : J :=
  .obj [("TTA codons", .arr (x.codons.map fun l => .str (locToString l))),
        ("schema_version", .int schemaVersion), ("record_id", .str x.recordId),
        ("gc_content", .num x.gc), ("threshold", .num x.threshold)]
/-- `location_from_string(location)` -/
def codonFromJson : J → Outcome Loc
  | .str s =>
    match locFromString s with
    | some l => .reuse l
    | none => .refuse .value
  | _ => .refuse .type
/-- `TTAResults.from_json` under the current option `tta_threshold = opt` -/
def fromJson (opt : Dec) : J → Outcome TTA
  | .obj kv =>
    match lookup "schema_version" kv with
    | none => .refuse .key
    | some sv =>
      if !isIntLit (some sv) schemaVersion then .discard
      else do
        let rid ← reqStr kv "record_id"
        let gc ← reqNum kv "gc_content"
        let old ← reqNum kv "threshold"
        -- old results excluded everything because the GC content was too low: rerun
        if Dec.lt gc old && Dec.le opt gc then .discard
        else if Dec.le opt gc then do
          let cj ← reqArr kv "TTA codons"
          let codons ← mapO codonFromJson cj
          pure ⟨rid, gc, opt, codons⟩
        else pure ⟨rid, gc, opt, []⟩
  | _ => .refuse .type
def regenerate (opt : Dec) (j : J) : Outcome TTA :=
  match j with
  | .obj [] => .discard
  | _ => fromJson opt j
/-- the features `new_feature_from_location` creates: one per stored location -/
def features (x : TTA) : List Loc := x.codons
/-- `run_on_record`: previous results are kept only for the record they were computed on -/
def keptByRun (x : TTA) (recordId : String) : Bool := x.recordId == recordId
/-- `add_to_record` refuses another record -/
def addToRecord (x : TTA) (recordId : String) : Outcome (List Loc) :=
  if x.recordId != recordId then .refuse .value else .reuse x.features
/-- `detect`: what a fresh run stores, given the locations of all TTA codons of the record's genes -/
def detect (recordId : String) (gc opt : Dec) (allCodons : List Loc) : TTA :=
  if Dec.lt gc opt then ⟨recordId, gc, opt, []⟩ else ⟨recordId, gc, opt, allCodons⟩
/-- Biopython locations always have at least one part -/
def locsOk (l : List Loc) : Bool := l.all fun x => !x.parts.isEmpty
end TTA

/-! ### the results file: serialiser.AntismashResults.to_json / from_file, main.read_data -/

/-- one entry of `records`: everything `dump_records` writes for the record itself (`fields`:
    record_to_json, areas, original_id, gc_content — the record round trip is C10's subject) and the
    per-module results -/
structure FileRec where
  fields : List (String × J)
  modules : List (String × J)
deriving Repr, Inhabited

structure ResultsFile where
  version : String
  inputFile : String
  records : List FileRec
  timings : J
  taxon : String
deriving Repr, Inhabited

namespace ResultsFile
/-- `AntismashResults.SCHEMA_VERSION` -/
def schemaVersion : Int := 4
/-- `AntismashResults.COMPATIBLE_SCHEMAS[4]` -/
def compatibleSchemas : List Int := [3, 2, 1]

def recToJson (r : FileRec) : J := .obj (r.fields ++ [("modules", .obj r.modules)])
/-- `to_json`: the file's own schema number is written under the key "schema" -/
def toJson (f : ResultsFile) : J :=
  .obj [("version", .str f.version), ("input_file", .str f.inputFile),
        ("records", .arr (f.records.map recToJson)), ("timings", f.timings),
        ("taxon", .str f.taxon), ("schema", .int schemaVersion)]

/-- `schema = data.get("schema", 1)`; accepted iff `schema == current or schema in COMPATIBLE[current]`
    (Python compares `True == 1`) -/
def schemaAccepted (o : Option J) : Bool :=
  match o with
  | none => compatibleSchemas.contains 1
  | some (.int n) => n == schemaVersion || compatibleSchemas.contains n
  | some (.bool b) => compatibleSchemas.contains (if b then 1 else 0)
  | some _ => false

def eraseKey (k : String) : List (String × J) → List (String × J)
  | [] => []
  | (k', v) :: rest => if k' == k then eraseKey k rest else (k', v) :: eraseKey k rest

/-- `rec["modules"]` of one record entry (the record part stays as it is) -/
def recFromJson : J → Outcome FileRec
  | .obj kv =>
    match lookup "modules" kv with
    | some (.obj m) => .reuse ⟨eraseKey "modules" kv, m⟩
    | none => .refuse .key
    | _ => .refuse .type
  | _ => .refuse .type

/-- `AntismashResults.from_file` after the text has been parsed; `timings` are not read back -/
def fromJson : J → Outcome ResultsFile
  | .obj kv =>
    if !schemaAccepted (lookup "schema" kv) then .refuse .value
    else do
      let version ← reqStr kv "version"
      let inputFile ← reqStr kv "input_file"
      let taxon ← match lookup "taxon" kv with
        | some (.str t) => Outcome.reuse t
        | none => Outcome.reuse "bacteria"
        | _ => Outcome.refuse .type
      let rj ← reqArr kv "records"
      let records ← mapO recFromJson rj
      pure ⟨version, inputFile, records, .obj [], taxon⟩
  | _ => .refuse .type

/-- `main.read_data` on reuse: the taxon of the saved run replaces the option -/
def readDataTaxon (_optionTaxon : String) (f : ResultsFile) : String := f.taxon
def valid (f : ResultsFile) : Bool := f.records.all fun r => (lookup "modules" r.fields).isNone
end ResultsFile

/-! ### main.run_module -/

/-- what `run_module` did: the entry left in `module_results`, and the argument `run_on_record`
    was called with (if it was called) -/
structure RunTrace (ρ : Type) where
  stored : Option ρ
  ranWith : Option (Option ρ)

/-- `run_module(record, module, options, module_results, timings)` (repaired, D52: a regenerated
    object is kept when it `is not None`, whatever its truthiness).
    `previous` – the JSON popped from `module_results`; `regen` – the module's
    `regenerate_previous_results`; `inAll` – `module in options.all_enabled_modules`;
    `enabled` – `module.is_enabled(options)`; `run` – `module.run_on_record(record, results, options)`. -/
def runModule {ρ} (previous : Option J) (regen : J → Outcome ρ) (inAll enabled : Bool)
    (run : Option ρ → ρ) : Outcome (RunTrace ρ) :=
  let regenerated : Outcome (Option ρ) :=
    match previous with
    | none => .reuse none
    | some j =>
      match regen j with
      | .reuse r => .reuse (some r)
      | .discard => .reuse none
      | .refuse e => .refuse e
  match regenerated with
  | .refuse e => .refuse e
  | .discard => .discard
  | .reuse results =>
    if !inAll then .reuse ⟨results, none⟩
    else if !enabled then .reuse ⟨results, none⟩
    else .reuse ⟨some (run results), some results⟩

end ASV.Results
