/-
  C18: the parent-side filters of `pre_process_sequences` (`record_processing.py`), run in the
  calling process between the two trips through `parallel_function`:
    filter_records_by_name(sequences, options.limit_to_record)
    the minimum-length loop
    filter_records_by_count(sequences, options.limit)
  on the part of a record they read and write: id, sequence length, skip flag.
  `filter_records_by_count` sorts by `(-len, index)` and walks the sorted list; since marking a
  record never changes whether a later record is counted, the walk is modelled by the count of
  not-skipped records that sort before a record (`rankAmongMeaningful`).
-/
import ASV.Model.ParallelWorkers
namespace ASV.Parallel

structure FRec where
  id : String
  len : Nat
  skip : Option String
deriving DecidableEq, Repr

/-- `filter_records_by_name`: no target → nothing; otherwise every other record is skipped, and no
    match at all is an `AntismashInputError` -/
def filterByName (target : String) (rs : List FRec) : Except String (List FRec) :=
  if target.isEmpty then .ok rs
  else if rs.any (fun r => r.id == target) then
    .ok (rs.map fun r => if r.id != target then { r with skip := some ("did not match filter: " ++ target) } else r)
  else .error "AntismashInputError"

/-- `if len(sequence.seq) < options.minlength: sequence.skip = f"smaller than minimum length ({minlength})"` -/
def filterByMinLength (minlength : Nat) (rs : List FRec) : List FRec :=
  rs.map fun r => if r.len < minlength then
    { r with skip := some ("smaller than minimum length (" ++ toString minlength ++ ")") } else r

/-- position of record `i` among the meaningful (not skipped) records in the order
    `sorted(enumerate(records), key=lambda x: (-len(x[1]), x[0]))`, counted from 1 -/
def rankAmongMeaningful (rs : List FRec) (i : Nat) (r : FRec) : Nat :=
  1 + ((rs.zipIdx.filter fun (q : FRec × Nat) =>
        !truthy q.1.skip && (decide (q.1.len > r.len) || (q.1.len == r.len && decide (q.2 < i)))).length)

/-- `filter_records_by_count(records, maximum)` (`maximum = -1`: no limit): the altered records and
    whether the limit was hit -/
def filterByCount (maximum : Int) (rs : List FRec) : List FRec × Bool :=
  if maximum = -1 || maximum > rs.length then (rs, false)
  else
    let marked := rs.zipIdx.map fun (p : FRec × Nat) =>
      if !truthy p.1.skip && decide ((rankAmongMeaningful rs p.2 p.1 : Int) > maximum) then
        ({ p.1 with skip := some ("skipping all but largest " ++ toString maximum ++ " meaningful records (--limit) ") }, true)
      else (p.1, false)
    (marked.map (·.1), marked.any (·.2))

/-- the three filters in the order `pre_process_sequences` applies them -/
def parentFilters (target : String) (minlength : Nat) (maximum : Int) (rs : List FRec) :
    Except String (List FRec × Bool) :=
  match filterByName target rs with
  | .error e => .error e
  | .ok rs₁ => .ok (filterByCount maximum (filterByMinLength minlength rs₁))

end ASV.Parallel
