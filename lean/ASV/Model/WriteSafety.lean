/-
  C20 — effect machine for "a failed or refused write never damages existing results".

  Transcribed Python (one Lean function per Python function, same statement order):
    antismash/common/json.py        `_base_convertor`, `dumps`            → `encode`, `encodeList`, `encodeKvs`
    antismash/common/serialiser.py  `dump_records` (the two loops)        → `convertModules`, `convertRecords`
                                    `dump_records` (tail, with a handle)  → `dumpRecords`
                                    `AntismashResults.to_json`/`write_to_file` → `writeToFile`
    antismash/main.py               `_ignore_patterns`                    → `ignorePatterns`
                                    `prepare_output_directory`            → `prepareOutputDir`
                                    `_run_antismash` (from `prepare_output_directory` on) → `runPipeline`

  The file system is explicit state (`Dir`: the listing of one directory, each entry with its
  content); every Python statement with an externally visible effect appends an `Ev` to the trace.
  Faults are part of the *input*: every module result, every record, every nested value may
  independently be one that raises / cannot be serialised, so a "fault plan" is any such input and
  the first fault in program order is the one that fires.
-/
import ASV.Model.PosixPath
namespace ASV.WriteSafety
open ASV.PosixPath (Path)

/-- Python exception class name; `write_to_file` intercepts exactly `TypeError` -/
abbrev Exn := String
def typeError : Exn := "TypeError"
def indexError : Exn := "IndexError"
def inputError : Exn := "AntismashInputError"

/-! ### values handed to `json.dumps` -/

/-- what a `to_json()` may return, as far as `orjson.dumps(default=_base_convertor)` can tell -/
inductive PyVal where
  | none
  | bool (b : Bool)
  | int (n : Int)
  | str (s : String)
  | list (xs : List PyVal)
  | dict (kvs : List (String × PyVal))
  | seq (s : String)                    -- a Bio `Seq`
  | seqConv (s : String) (v : PyVal)    -- a `Seq` subclass that also has `to_json()` returning `v`
  | conv (v : PyVal)                    -- an object whose `to_json()` returns `v`
  | convRaises (e : Exn)                -- an object whose `to_json()` raises
  | dunder (v : PyVal)                  -- an object with only `__json__()`, returning `v`
  | dunderRaises (e : Exn)
  | both (v w : PyVal)                  -- `to_json()` returns `v`, `__json__()` returns `w`
  | opaque                              -- no conversion method at all
deriving Repr, Inhabited

/-- the rendered document as a token stream (`raw` = bytes that were there before, never parsed) -/
inductive Tok where
  | raw (s : String)
  | null
  | bool (b : Bool)
  | int (n : Int)
  | str (s : String)
  | key (s : String)
  | lbrack | rbrack | lbrace | rbrace
deriving Repr, Inhabited, DecidableEq

abbrev Bytes := List Tok

/-- orjson serialises integers of the signed/unsigned 64-bit range only -/
def intOk (n : Int) : Bool := decide (-9223372036854775808 ≤ n) && decide (n ≤ 18446744073709551615)

mutual
/-- `orjson.dumps(obj, default=_base_convertor)`: native types directly; anything else through
    `_base_convertor` (`Seq` → `str`, then `to_json`, then `__json__`, else `TypeError`), whose result
    is serialised in turn.  Every failure surfaces as `TypeError` (`none`). -/
def encode : PyVal → Option Bytes
  | .none => some [.null]
  | .bool b => some [.bool b]
  | .int n => if intOk n then some [.int n] else Option.none
  | .str s => some [.str s]
  | .list xs =>
    match encodeList xs with
    | some ts => some (.lbrack :: ts ++ [.rbrack])
    | Option.none => Option.none
  | .dict kvs =>
    match encodeKvs kvs with
    | some ts => some (.lbrace :: ts ++ [.rbrace])
    | Option.none => Option.none
  | .seq s => some [.str s]
  | .seqConv s _ => some [.str s]
  | .conv v => encode v
  | .convRaises _ => Option.none
  | .dunder v => encode v
  | .dunderRaises _ => Option.none
  | .both v _ => encode v
  | .opaque => Option.none
def encodeList : List PyVal → Option Bytes
  | [] => some []
  | x :: xs =>
    match encode x with
    | Option.none => Option.none
    | some t =>
      match encodeList xs with
      | Option.none => Option.none
      | some ts => some (t ++ ts)
def encodeKvs : List (String × PyVal) → Option Bytes
  | [] => some []
  | (k, v) :: rest =>
    match encode v with
    | Option.none => Option.none
    | some t =>
      match encodeKvs rest with
      | Option.none => Option.none
      | some ts => some (.key k :: t ++ ts)
end

/-! ### results, records, events -/

/-- a value of the wrong type sitting in a record's results dictionary (typically raw JSON left
    over from `--reuse-results` for a module that was never regenerated); `n` = number of items -/
inductive Raw where
  | dict (n : Nat)
  | list (n : Nat)
  | str (s : String)
  | int (n : Int)
  | bool (b : Bool)
deriving Repr, Inhabited, DecidableEq

/-- Python truthiness, `bool(value)` -/
def Raw.truthy : Raw → Bool
  | .dict n => n != 0
  | .list n => n != 0
  | .str s => s != ""
  | .int n => n != 0
  | .bool b => b

/-- one value of a record's `{module name: results}` dictionary.  `truthy` is `bool(obj)` of a
    `ModuleResults` object (classes with `__len__` are falsy when empty); the unchanged code never
    consults it, which is the point of carrying it -/
inductive ModSpec where
  | none                                 -- `None`: skipped (`continue`)
  | mod (truthy : Bool) (v : PyVal)      -- a `ModuleResults` whose `to_json()` returns `v`
  | raises (truthy : Bool) (e : Exn)     -- a `ModuleResults` whose `to_json()` raises `e`
  | invalid (raw : Raw)                  -- neither: `TypeError`, whatever its value
deriving Repr, Inhabited

/-- `m_results is None` — the skip test of `dump_records` -/
def ModSpec.isNone : ModSpec → Bool
  | .none => true
  | _ => false

/-- `isinstance(m_results, ModuleResults)` -/
def ModSpec.isModuleResults : ModSpec → Bool
  | .mod _ _ => true
  | .raises _ _ => true
  | _ => false

/-- `bool(m_results)` -/
def ModSpec.truthy : ModSpec → Bool
  | .none => false
  | .mod t _ => t
  | .raises t _ => t
  | .invalid raw => raw.truthy

/-- a secmet record: only whether its own conversion (`to_biopython`, `record_to_json`, …) raises -/
structure RecSpec where
  fault : Option Exn
deriving Repr, Inhabited

abbrev ModDict := List (String × ModSpec)

/-- `AntismashResults` -/
structure Results where
  records : List RecSpec
  results : List ModDict
  timings : PyVal
deriving Repr, Inhabited

inductive Ev where
  | recConv (i : Nat)        -- conversion of record `i` begins (`secmet.to_biopython()`)
  | modConv (i j : Nat)      -- `to_json()` of the `j`-th dictionary entry of record `i` is called
  | logErr                   -- `logging.error`
  | openW (name : String)    -- `open(name, "w")`
  | write (name : String)    -- `handle.write`
  | remove (name : String)   -- `os.remove`
  | mkdir                    -- `os.mkdir(output_dir)`
  | mkdirSub (name : String) -- `os.mkdir` of a directory inside the output directory
  | prepared                 -- `prepare_output_directory` returned
  | annotated                -- `annotate_records` called
  | outputsWritten           -- `write_outputs` called
deriving Repr, Inhabited, DecidableEq

/-- a trace and either an exception or a value -/
structure Res (α : Type) where
  trace : List Ev
  out : Except Exn α

/-- `for module, m_results in result.items()` — `j` counts dictionary entries, `None` included:
    `if m_results is None: continue`; `if isinstance(m_results, ModuleResults): modules[module] =
    m_results.to_json()`; `else: raise TypeError` -/
def convertModules (i : Nat) : Nat → ModDict → Res (List (String × PyVal))
  | _, [] => ⟨[], .ok []⟩
  | j, (name, m) :: rest =>
    if m.isNone then convertModules i (j + 1) rest
    else
      match m with
      | .mod _ v =>
        let r := convertModules i (j + 1) rest
        ⟨.modConv i j :: r.trace, match r.out with | .ok ms => .ok ((name, v) :: ms) | .error e => .error e⟩
      | .raises _ e => ⟨[.modConv i j], .error e⟩
      | _ => ⟨[], .error typeError⟩

/-- `for i, secmet in enumerate(secmet_records): result = results[i]; …` -/
def convertRecords : Nat → List RecSpec → List ModDict → Res (List (List (String × PyVal)))
  | _, [], _ => ⟨[], .ok []⟩
  | _, _ :: _, [] => ⟨[], .error indexError⟩
  | i, r :: rs, res :: ress =>
    match r.fault with
    | some e => ⟨[.recConv i], .error e⟩
    | Option.none =>
      let m := convertModules i 0 res
      match m.out with
      | .error e => ⟨.recConv i :: m.trace, .error e⟩
      | .ok mods =>
        let rest := convertRecords (i + 1) rs ress
        ⟨.recConv i :: m.trace ++ rest.trace,
         match rest.out with | .ok ds => .ok (mods :: ds) | .error e => .error e⟩

/-- `json.dumps` of the list of per-record documents (only the module dictionaries are modelled) -/
def encodeRecords : List (List (String × PyVal)) → Option Bytes
  | [] => some []
  | mods :: rest =>
    match encodeKvs mods with
    | Option.none => Option.none
    | some t =>
      match encodeRecords rest with
      | Option.none => Option.none
      | some ts => some (.lbrace :: t ++ .rbrace :: ts)

/-! ### the directory that holds the target -/

structure Entry where
  name : String
  isDir : Bool
  content : Bytes
deriving Repr, Inhabited, DecidableEq

/-- listing of one directory (names are unique in every generated input) -/
abbrev Dir := List Entry

/-- `open(name, "w")`: an existing file is truncated in place, a missing one is created -/
def Dir.openW (d : Dir) (n : String) : Dir :=
  if d.any (fun e => e.name == n) then
    d.map fun e => if e.name == n then { e with content := [] } else e
  else d ++ [⟨n, false, []⟩]

/-- `handle.write(text)` on the open file `n` -/
def Dir.append (d : Dir) (n : String) (b : Bytes) : Dir :=
  d.map fun e => if e.name == n then { e with content := e.content ++ b } else e

def Dir.contentOf (d : Dir) (n : String) : Option Bytes :=
  (d.find? fun e => e.name == n).map (·.content)

/-- the `handle` argument: a file name, an already open stream (an entry of `Dir` that is appended
    to), or — `dump_records` only — `None` -/
inductive Handle where
  | path (name : String)
  | io (name : String)
  | absent
deriving Repr, Inhabited

structure Out where
  trace : List Ev
  err : Option Exn
  dir : Dir
deriving Repr, DecidableEq

/-- `if isinstance(handle, str): handle = open(handle, "w")` then `handle.write(text)` -/
def emit (h : Handle) (d : Dir) (text : Bytes) : List Ev × Dir :=
  match h with
  | .path n => ([.openW n, .write n], (d.openW n).append n text)
  | .io n => ([.write n], d.append n text)
  | .absent => ([], d)

/-- the document of `AntismashResults.to_json()` as far as it is modelled -/
def docFull (recs timings : Bytes) : Bytes :=
  [.lbrace, .key "records", .lbrack] ++ recs ++ [.rbrack, .key "timings"] ++ timings ++ [.rbrace]

/-- the document `dump_records` writes -/
def docRecords (recs : Bytes) : Bytes := .lbrack :: recs ++ [.rbrack]

/-- `AntismashResults.write_to_file`: `converted = json.dumps(self.to_json())` inside
    `try … except TypeError` (log, re-raise as `TypeError`), only then `open` and `write` -/
def writeToFile (r : Results) (h : Handle) (d : Dir) : Out :=
  let c := convertRecords 0 r.records r.results
  match c.out with
  | .error e =>
    if e == typeError then ⟨c.trace ++ [.logErr], some typeError, d⟩ else ⟨c.trace, some e, d⟩
  | .ok mods =>
    match encodeRecords mods with
    | Option.none => ⟨c.trace ++ [.logErr], some typeError, d⟩
    | some recs =>
      match encode r.timings with
      | Option.none => ⟨c.trace ++ [.logErr], some typeError, d⟩
      | some t =>
        let w := emit h d (docFull recs t)
        ⟨c.trace ++ w.1, Option.none, w.2⟩

/-- `dump_records(results, records, handle)`: the loops run outside any `try`; with a handle,
    `json.dumps(data)` is tried (`TypeError`: log and re-raise) before `open` and `write` -/
def dumpRecords (records : List RecSpec) (results : List ModDict) (h : Handle) (d : Dir) : Out :=
  let c := convertRecords 0 records results
  match c.out with
  | .error e => ⟨c.trace, some e, d⟩
  | .ok mods =>
    match h with
    | .absent => ⟨c.trace, Option.none, d⟩
    | _ =>
      match encodeRecords mods with
      | Option.none => ⟨c.trace ++ [.logErr], some typeError, d⟩
      | some recs =>
        let w := emit h d (docRecords recs)
        ⟨c.trace ++ w.1, Option.none, w.2⟩

/-! ### text → bytes: the codec of the file object -/

/-- the codec a text file object encodes with: the one named in `open(..., encoding=…)`, or — when
    none is named — the interpreter's default, which follows the locale (ASCII under `LC_ALL=C`
    without UTF-8 mode) -/
inductive Codec where
  | utf8
  | latin1
  | ascii
deriving Repr, Inhabited, DecidableEq

def Codec.canEncode : Codec → Char → Bool
  | .utf8, _ => true            -- every `Char` (surrogates are not `Char`s, and orjson has rejected them)
  | .latin1, c => decide (c.toNat < 256)
  | .ascii, c => decide (c.toNat < 128)

/-- the characters a token contributes to the document text -/
def Tok.chars : Tok → List Char
  | .raw s => s.toList
  | .str s => s.toList
  | .key s => s.toList
  | _ => []

/-- `text.encode(codec)` succeeds -/
def encodable (c : Codec) (text : Bytes) : Bool := text.all fun t => t.chars.all c.canEncode

/-- the process environment as far as writing is concerned -/
structure Env where
  /-- `locale.getencoding()`: what `open(path, "w")` *without* `encoding=` would use -/
  localeCodec : Codec
deriving Repr, Inhabited, DecidableEq

/-- `open(handle, "w", encoding="utf-8")`: both `write_to_file` and `dump_records` name the codec,
    so the environment is not consulted -/
def fileCodec (_env : Env) : Codec := .utf8

/-- `handle = open(path, "w", encoding=c)`; `handle.write(text)`: the file is truncated by `open`, the
    text is encoded by the file object's codec inside `write` — **after** the truncation.  An
    unencodable character raises `UnicodeEncodeError` there and leaves the file empty.  (A stream
    passed in by the caller brings its own codec; it is taken to accept the text.) -/
def emitWith (c : Codec) (h : Handle) (d : Dir) (text : Bytes) : List Ev × Dir × Option Exn :=
  match h with
  | .path n =>
    if encodable c text then ([.openW n, .write n], (d.openW n).append n text, Option.none)
    else ([.openW n, .write n], d.openW n, some "UnicodeEncodeError")
  | .io n => ([.write n], d.append n text, Option.none)
  | .absent => ([], d, Option.none)

/-- `write_to_file` in an environment: as `writeToFile`, with the last step spelled out -/
def writeToFileIn (env : Env) (r : Results) (h : Handle) (d : Dir) : Out :=
  let c := convertRecords 0 r.records r.results
  match c.out with
  | .error e =>
    if e == typeError then ⟨c.trace ++ [.logErr], some typeError, d⟩ else ⟨c.trace, some e, d⟩
  | .ok mods =>
    match encodeRecords mods with
    | Option.none => ⟨c.trace ++ [.logErr], some typeError, d⟩
    | some recs =>
      match encode r.timings with
      | Option.none => ⟨c.trace ++ [.logErr], some typeError, d⟩
      | some t =>
        let w := emitWith (fileCodec env) h d (docFull recs t)
        ⟨c.trace ++ w.1, w.2.2, w.2.1⟩

/-- `dump_records` in an environment -/
def dumpRecordsIn (env : Env) (records : List RecSpec) (results : List ModDict) (h : Handle) (d : Dir) : Out :=
  let c := convertRecords 0 records results
  match c.out with
  | .error e => ⟨c.trace, some e, d⟩
  | .ok mods =>
    match h with
    | .absent => ⟨c.trace, Option.none, d⟩
    | _ =>
      match encodeRecords mods with
      | Option.none => ⟨c.trace ++ [.logErr], some typeError, d⟩
      | some recs =>
        let w := emitWith (fileCodec env) h d (docRecords recs)
        ⟨c.trace ++ w.1, w.2.2, w.2.1⟩

/-- the target path names an existing directory: `open(path, "w")` raises `IsADirectoryError` -/
def targetIsDir (h : Handle) (d : Dir) : Bool :=
  match h with
  | .path n => d.any fun e => e.name == n && e.isDir
  | _ => false

/-- `write_to_file` when the target may be a directory: the conversion runs as always; only then is the
    path opened, and opening a directory fails without changing anything -/
def writeToFileAt (env : Env) (r : Results) (h : Handle) (d : Dir) : Out :=
  let o := writeToFileIn env r h d
  if targetIsDir h d && o.err.isNone then
    match h with
    | .path n => ⟨(convertRecords 0 r.records r.results).trace ++ [.openW n], some "IsADirectoryError", d⟩
    | _ => o
  else o

/-! ### the output directory -/

/-- what is found at the output directory's path -/
inductive Target where
  | absent
  | file
  | dir (entries : Dir)
deriving Repr, Inhabited, DecidableEq

structure PrepIn where
  target : Target
  /-- the `input_file` argument (sequence file, or the results file being reused) -/
  inputFile : String
  /-- `os.getcwd()` -/
  cwd : String
  /-- the `name` argument: the output directory as given (non-empty) -/
  name : String
  /-- `config.logfile` (`""` when no log file was requested) -/
  logfile : String
deriving Repr, Inhabited

/-- `os.path.join(name, entry)` for a directory entry -/
def entryPath (p : PrepIn) (e : Entry) : Path := PosixPath.join p.name.toList e.name.toList

/-- `_ignore_patterns(entry)`: `True` means "this entry counts as other files".
    `entry.endswith('/input') and os.path.isdir(entry)`, then — only when a log file is configured —
    `os.path.abspath(entry) == os.path.abspath(config.logfile)` -/
def ignorePatterns (p : PrepIn) (e : Entry) : Bool :=
  if "/input".toList.isSuffixOf (entryPath p e) && e.isDir then false
  else if p.logfile != "" &&
      PosixPath.abspath p.cwd.toList (entryPath p e) == PosixPath.abspath p.cwd.toList p.logfile.toList then false
  else true

/-- `glob` pattern `*.region???.gbk` on one file name (hidden names never match a `*`) -/
def isRegionGbk (n : String) : Bool :=
  let cs := n.toList
  let k := cs.length
  !(cs.head? == some '.') && decide (14 ≤ k)
    && ((cs.drop (k - 14)).take 7 == ".region".toList) && (cs.drop (k - 4) == ".gbk".toList)

/-- `input_file.endswith(".json")` -/
def reuseMode (p : PrepIn) : Bool := ".json".toList.isSuffixOf p.inputFile.toList

structure PrepOut where
  trace : List Ev
  err : Option Exn
  target : Target
deriving Repr, DecidableEq

/-- `prepare_output_directory` (with an explicit, non-empty directory name) -/
def prepareOutputDir (p : PrepIn) : PrepOut :=
  match p.target with
  | .absent => ⟨[.mkdir], Option.none, .dir []⟩
  | .file => ⟨[], some inputError, .file⟩
  | .dir es =>
    if !reuseMode p && !(es.filter (ignorePatterns p)).isEmpty then
      ⟨[], some inputError, .dir es⟩
    else
      ⟨(es.filter fun e => isRegionGbk e.name).map (fun e => .remove e.name), Option.none,
       .dir (es.filter fun e => !isRegionGbk e.name)⟩

/-! ### the tail of `_run_antismash` -/

structure PipeIn where
  prep : PrepIn
  results : Results
  /-- `canonical_base_filename(...) + ".json"`, relative to the output directory -/
  jsonName : String
deriving Repr, Inhabited

/-- `prepare_output_directory(…)`; analysis (no modelled effect); `results.write_to_file(json)`;
    `annotate_records`; `write_outputs` — an exception ends the run where it is raised -/
def runPipeline (p : PipeIn) : PrepOut :=
  let a := prepareOutputDir p.prep
  match a.err, a.target with
  | Option.none, .dir es =>
    let w := writeToFile p.results (.path p.jsonName) es
    match w.err with
    | some e => ⟨a.trace ++ .prepared :: w.trace, some e, .dir w.dir⟩
    | Option.none => ⟨a.trace ++ .prepared :: w.trace ++ [.annotated, .outputsWritten], Option.none, .dir w.dir⟩
  | Option.none, t => ⟨a.trace, Option.none, t⟩   -- unreachable: acceptance always yields a directory
  | some e, t => ⟨a.trace, some e, t⟩


/-! ### results that come back from a results file (`--reuse-results`) -/

/-- what `AntismashResults.from_file` puts into `results` for a module whose `to_json()` value was
    `v`: the raw JSON value — a dict, list, string, number or boolean, i.e. *not* a `ModuleResults` —
    or `None` for JSON `null` -/
def jsonShape : PyVal → ModSpec
  | .none => .none
  | .bool b => .invalid (.bool b)
  | .int n => .invalid (.int n)
  | .str s => .invalid (.str s)
  | .list xs => .invalid (.list xs.length)
  | .dict kvs => .invalid (.dict kvs.length)
  | .seq s => .invalid (.str s)
  | .seqConv s _ => .invalid (.str s)
  | .conv v => jsonShape v
  | .convRaises _ => .invalid (.dict 0)
  | .dunder v => jsonShape v
  | .dunderRaises _ => .invalid (.dict 0)
  | .both v _ => jsonShape v
  | .opaque => .invalid (.dict 0)

/-- one record's `modules` as read back: entries that were skipped when writing are not there -/
def reloadDict : ModDict → ModDict
  | [] => []
  | (k, .mod _ v) :: rest => (k, jsonShape v) :: reloadDict rest
  | _ :: rest => reloadDict rest

/-- `read_data` in reuse mode on a file written from `r` (fault-free): plain records, raw module
    values, timings cleared — what the run holds if no module regenerates its results -/
def reload (r : Results) : Results :=
  ⟨(r.results.take r.records.length).map fun _ => ⟨Option.none⟩,
   (r.results.take r.records.length).map reloadDict, .dict []⟩

/-! ### option handling around the two functions: derived names -/

/-- the options these functions read and (through `update_config`) write -/
structure Options where
  /-- `--output-basename`, `""` when not given; filled in by the first `canonical_base_filename` -/
  outputBasename : String
  /-- `--output-dir`; filled in by `prepare_output_directory` when empty -/
  outputDir : String
  /-- `--logfile` -/
  logfile : String
deriving Repr, Inhabited, DecidableEq

/-- `ext.lower() in (".gz", ".bz", ".xz")` -/
def isCompressionExt (ext : Path) : Bool :=
  let l := ext.map Char.toLower
  l == ".gz".toList || l == ".bz".toList || l == ".xz".toList

/-- `canonical_base_filename(input_file, directory, options)`: the option if set, else the input's
    base name without its extension (two extensions for compressed input), remembered in the options -/
def canonicalBaseFilename (inputFile directory : String) (o : Options) : String × Options :=
  if o.outputBasename != "" then
    (String.ofList (PosixPath.join directory.toList o.outputBasename.toList), o)
  else
    let se := PosixPath.splitext (PosixPath.basename inputFile.toList)
    let base := if isCompressionExt se.2 then (PosixPath.splitext se.1).1 else se.1
    (String.ofList (PosixPath.join directory.toList base), { o with outputBasename := String.ofList base })

/-- `prepare_output_directory(name, input_file)` as it is called -/
structure CallIn where
  /-- what exists at the output directory's (effective) path -/
  target : Target
  inputFile : String
  cwd : String
  /-- the `name` argument, possibly empty -/
  nameArg : String
  opts : Options
deriving Repr, Inhabited

/-- the head of `prepare_output_directory`: `input_prefix = basename(canonical_base_filename(input_file,
    "", config))`; `if not name: name = abspath(input_prefix); update_config(output_dir=name)` -/
def effective (c : CallIn) : PrepIn × Options :=
  let cb := canonicalBaseFilename c.inputFile "" c.opts
  let inputPrefix := PosixPath.basename cb.1.toList
  if c.nameArg == "" then
    let name := String.ofList (PosixPath.abspath c.cwd.toList inputPrefix)
    (⟨c.target, c.inputFile, c.cwd, name, cb.2.logfile⟩, { cb.2 with outputDir := name })
  else
    (⟨c.target, c.inputFile, c.cwd, c.nameArg, cb.2.logfile⟩, cb.2)

/-- `prepare_output_directory` from its first line -/
def prepareCall (c : CallIn) : PrepOut × Options :=
  (prepareOutputDir (effective c).1, (effective c).2)

/-- `_run_antismash` from `prepare_output_directory` on, names derived as the code derives them -/
structure RunIn where
  call : CallIn
  results : Results
  /-- `results.input_file` -/
  resultsInputFile : String
deriving Repr, Inhabited

/-- `json_filename = canonical_base_filename(results.input_file, options.output_dir, options) + ".json"`,
    as a name inside the output directory -/
def RunIn.jsonName (r : RunIn) : String :=
  let o := (effective r.call).2
  String.ofList (PosixPath.basename (canonicalBaseFilename r.resultsInputFile o.outputDir o).1.toList) ++ ".json"

def RunIn.toPipe (r : RunIn) : PipeIn := ⟨(effective r.call).1, r.results, r.jsonName⟩

def runTail (r : RunIn) : PrepOut := runPipeline r.toPipe


/-! ### `run_antismash`: logging is set up before anything else -/

/-- where `config.logfile` lies with respect to the output directory -/
inductive LogPlace where
  | nowhere                 -- no log file, or one outside the output directory
  | entry (m : String)      -- directly inside it, under the name `m`
  | below (s : String)      -- further down, inside its subdirectory `s`
deriving Repr, Inhabited, DecidableEq

/-- `some rest` when `l = pre ++ rest` -/
def stripPrefix : List Path → List Path → Option (List Path)
  | [], l => some l
  | _ :: _, [] => Option.none
  | a :: as, b :: bs => if a == b then stripPrefix as bs else Option.none

/-- the (lexical) identity of a path, as `abspath` computes it: kept leading slashes and components -/
def pathId (cwd q : Path) : Nat × List Path :=
  (PosixPath.leadSlashes (PosixPath.absArg cwd q),
   PosixPath.normComps true (PosixPath.splitSlash (PosixPath.absArg cwd q)))

def logPlace (p : PrepIn) : LogPlace :=
  if p.logfile == "" then .nowhere
  else
    let a := pathId p.cwd.toList p.name.toList
    let l := pathId p.cwd.toList p.logfile.toList
    if a.1 != l.1 then .nowhere
    else
      match stripPrefix a.2 l.2 with
      | some [m] => .entry (String.ofList m)
      | some (s :: _ :: _) => .below (String.ofList s)
      | _ => .nowhere

/-- what the log file holds once the run has logged something (the text itself is not modelled) -/
def logText : Tok := .raw "<log>"

/-- `logs.changed_logging(logfile=…)`: `os.makedirs(dirname(logfile))` if missing, then
    `logging.FileHandler(logfile)` (append mode: created if missing); every run logs at least its
    version line.  Only effects inside the output directory are modelled. -/
def setupLogging (place : LogPlace) (t : Target) : Target × List Ev :=
  match place, t with
  | .entry m, .absent => (.dir [⟨m, false, [logText]⟩], [.mkdir])
  | .entry m, .dir es =>
    if es.any (fun e => e.name == m) then
      (.dir (es.map fun e => if e.name == m then { e with content := e.content ++ [logText] } else e), [])
    else (.dir (es ++ [⟨m, false, [logText]⟩]), [])
  | .below s, .absent => (.dir [⟨s, true, []⟩], [.mkdir, .mkdirSub s])
  | .below s, .dir es =>
    if es.any (fun e => e.name == s) then (.dir es, []) else (.dir (es ++ [⟨s, true, []⟩]), [.mkdirSub s])
  | _, t => (t, [])

/-- `run_antismash`: `with changed_logging(...)`: `_run_antismash`; an `AntismashInputError` is logged
    and re-raised, anything else passes through -/
def runAntismash (r : RunIn) : PrepOut :=
  let p := (effective r.call).1
  let s := setupLogging (logPlace p) p.target
  let r' : RunIn := { r with call := { r.call with target := s.1 } }
  let out := runTail r'
  ⟨s.2 ++ out.trace ++ (if out.err == some inputError then [.logErr] else []), out.err, out.target⟩


/-! ### every option `run_antismash` / `_run_antismash` reads before or around the file effects -/

/-- what `--reuse-results` points at, as far as `read_data` / `AntismashResults.from_file` look -/
inductive ReuseFile where
  | empty                       -- zero bytes: "No results contained in file"
  | notJson                     -- `JSONDecodeError` → `ValueError`
  | doc (schema : Option Nat)   -- a results document; `data.get("schema", 1)`
deriving Repr, Inhabited, DecidableEq

/-- `AntismashResults.SCHEMA_VERSION` -/
def schemaVersion : Nat := 4

/-- `AntismashResults.COMPATIBLE_SCHEMAS` (a `defaultdict(set)`) -/
def compatibleSchemas : Nat → List Nat
  | 2 => [1]
  | 3 => [2, 1]
  | 4 => [3, 2, 1]
  | _ => []

/-- `schema != current and schema not in COMPATIBLE_SCHEMAS[current]` is false -/
def schemaAccepted (found : Nat) : Bool :=
  found == schemaVersion || (compatibleSchemas schemaVersion).contains found

/-- the reuse branch of `read_data`: `None` = the results load -/
def readReuse : ReuseFile → Option Exn
  | .empty => some "ValueError"
  | .notJson => some "ValueError"
  | .doc s => if schemaAccepted (s.getD 1) then Option.none else some "ValueError"

/-- what the run is given to read -/
inductive InputKind where
  | sequence                    -- a sequence file (its parsing is not modelled)
  | reuse (f : ReuseFile)
  | nothing                     -- neither: "No sequence file or prior results to read"
deriving Repr, Inhabited, DecidableEq

/-- `read_data(sequence_file, options)`: the exception it raises, if any -/
def readData : InputKind → Option Exn
  | .sequence => Option.none
  | .reuse f => readReuse f
  | .nothing => some "ValueError"

/-- the options (and the two environment facts their handling consults) in the order the code reads them -/
structure RunOpts where
  /-- `--list-plugins`: print and return 0 before anything else -/
  listPlugins : Bool
  /-- `--check-prereqs`: check, print, return 0 / 1 -/
  checkPrereqsOnly : Bool
  /-- environment: `check_prerequisites` does not raise `RuntimeError` -/
  prereqsOk : Bool
  /-- `--profiling` -/
  profile : Bool
  /-- environment: `verify_options` returns `True` -/
  optionsValid : Bool
  /-- at least one module is enabled (otherwise `ValueError`) -/
  anyModule : Bool
  /-- `--debug` / `--verbose`: log level only (and `log_module_runtimes`); they change the log's text,
      which is not modelled, and nothing else -/
  debug : Bool
  verbose : Bool
  /-- what `read_data` finds (read after the module checks, before the output directory is looked at) -/
  input : InputKind
deriving Repr, Inhabited, DecidableEq

structure RunOut where
  out : PrepOut
  /-- the return value, when the run returns -/
  code : Option Nat
deriving Repr, DecidableEq

def profBinName : String := "profiling_results.bin"
def profTxtName : String := "profiling_results"
def profBin : Tok := .raw "<profile data>"
def profTxt : Tok := .raw "<profile report>"

/-- `write_profiling_results(profiler, output_dir/profiling_results)`: `stats.dump_stats(target + ".bin")`,
    then `open(target, "w")` and `write` -/
def writeProfilingResults (d : Dir) : List Ev × Dir :=
  ([.openW profBinName, .write profBinName, .openW profTxtName, .write profTxtName],
   (((d.openW profBinName).append profBinName [profBin]).openW profTxtName).append profTxtName [profTxt])

/-- `run_antismash(sequence_file, options)` with every early exit of `_run_antismash`:
    logging is set up; `--list-plugins`; `--check-prereqs`; `check_prerequisites`; (the profiler is
    started — no file effect); `verify_options`; "no modules enabled"; then the tail modelled by `runTail`;
    profiling results are written only by a run that got through `write_outputs` -/
def runFull (o : RunOpts) (r : RunIn) : RunOut :=
  let p := (effective r.call).1
  let s := setupLogging (logPlace p) p.target
  if o.listPlugins then ⟨⟨s.2, Option.none, s.1⟩, some 0⟩
  else if o.checkPrereqsOnly then ⟨⟨s.2, Option.none, s.1⟩, some (if o.prereqsOk then 0 else 1)⟩
  else if !o.prereqsOk then ⟨⟨s.2, some "RuntimeError", s.1⟩, Option.none⟩
  else if !o.optionsValid then ⟨⟨s.2, Option.none, s.1⟩, some 1⟩
  else if !o.anyModule then ⟨⟨s.2, some "ValueError", s.1⟩, Option.none⟩
  else if (readData o.input).isSome then ⟨⟨s.2, readData o.input, s.1⟩, Option.none⟩
  else
    let out := runTail { r with call := { r.call with target := s.1 } }
    match out.err, out.target with
    | some e, t => ⟨⟨s.2 ++ out.trace ++ (if e == inputError then [.logErr] else []), some e, t⟩, Option.none⟩
    | Option.none, .dir es =>
      if o.profile then
        let w := writeProfilingResults es
        ⟨⟨s.2 ++ out.trace ++ w.1, Option.none, .dir w.2⟩, some 0⟩
      else ⟨⟨s.2 ++ out.trace, Option.none, .dir es⟩, some 0⟩
    | Option.none, t => ⟨⟨s.2 ++ out.trace, Option.none, t⟩, some 0⟩   -- unreachable (`accepted_is_directory`)

end ASV.WriteSafety
