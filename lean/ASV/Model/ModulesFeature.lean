/-
  C14 model, part 3: the saved form of a module — the secmet `Module` feature ("aSModule",
  antismash/common/secmet/features/module.py: `__init__`, `to_biopython`, `from_biopython`,
  `ModuleType`) and its creation from a detection module in `NRPSPKSDomains.add_to_record`.
  Qualifiers are an association list key ↦ optional list of strings (`None` for flag qualifiers).
  Monomer pairings (added much later by the nrps_pks analysis module) are not part of the feature
  as module building creates it and are not modelled; location / generic Feature qualifiers are
  the business of the record properties.
-/
import ASV.Model.Modules
namespace ASV.Modules

inductive ModType
  | unknown | nrps | pks | cal
deriving DecidableEq, Repr

/-- `str(ModuleType)`: the lower-cased member name -/
def ModType.str : ModType → String
  | .unknown => "unknown" | .nrps => "nrps" | .pks => "pks" | .cal => "cal"

/-- `ModuleType.from_string` (ValueError if there is no such member) -/
def ModType.fromString (s : String) : Option ModType :=
  [ModType.unknown, .nrps, .pks, .cal].find? fun t => t.str == s

/-- an AntismashDomain as far as the module feature looks at it -/
structure FDomain where
  name : String      -- `get_name()`
  locus : String     -- `locus_tag`
  strand : Int       -- `location.strand`
deriving DecidableEq, Repr

structure ModFeature where
  domains : List FDomain
  type : ModType
  complete : Bool
  starter : Bool
  final : Bool
  iterative : Bool
deriving DecidableEq, Repr

/-- `_parent_cds_names`: loci in order of first appearance -/
def parentNames : List FDomain → List String → List String
  | [], acc => acc
  | d :: ds, acc => parentNames ds (if acc.contains d.locus then acc else acc ++ [d.locus])

/-- `Module.__init__`: at least one domain, all on one strand -/
def ModFeature.construct (domains : List FDomain) (type : ModType) (complete starter final iterative : Bool) :
    Except Err ModFeature :=
  match domains with
  | [] => .error .valueError
  | d :: ds =>
    if ds.all (fun x => x.strand == d.strand) then .ok ⟨d :: ds, type, complete, starter, final, iterative⟩
    else .error .valueError

abbrev Quals := List (String × Option (List String))

def qget (q : Quals) (k : String) : Option (Option (List String)) := (q.find? fun kv => kv.1 == k).map (·.2)
def qhas (q : Quals) (k : String) : Bool := q.any fun kv => kv.1 == k

def flag (b : Bool) (k : String) : Quals := if b then [(k, none)] else []

/-- `Module.to_biopython` (the module-specific qualifiers) -/
def ModFeature.toBiopython (f : ModFeature) : Quals :=
  [("domains", some (f.domains.map (·.name))),
   ("locus_tags", some ((parentNames f.domains []).mergeSort fun a b => decide (a ≤ b))),
   ("type", some [f.type.str])]
  ++ (if f.complete then [("complete", none)] else [("incomplete", none)])
  ++ flag f.starter "starter_module"
  ++ flag f.final "final_module"
  ++ flag f.iterative "iterative"

/-- `domain.replace(" ", "")` -/
def removeSpaces (s : String) : String := String.ofList (s.toList.filter fun ch => ch != ' ')

def lookupAll (known : String → Option FDomain) : List String → Except Err (List FDomain)
  | [] => .ok []
  | n :: ns =>
    match known (removeSpaces n) with
    | none => .error .valueError          -- KeyError → ValueError("record does not contain domain …")
    | some d =>
      match lookupAll known ns with
      | .error e => .error e
      | .ok ds => .ok (d :: ds)

/-- `Module.from_biopython` with a record whose `get_domain_by_name` is `known` -/
def ModFeature.fromBiopython (known : String → Option FDomain) (q : Quals) : Except Err ModFeature :=
  -- leftovers.pop("locus_tags", None): generated data, ignored
  match qget q "domains" with
  | none => .error .valueError
  | some names =>
    match qget q "type" with
    | none => .error .valueError
    | some tv =>
      match (tv.getD []) with
      | [] => .error .indexError
      | t :: _ =>
        match ModType.fromString t with
        | none => .error .valueError
        | some type =>
          let complete := qhas q "complete"
          if !complete && !qhas q "incomplete" then .error .valueError
          else
            match lookupAll known (names.getD []) with
            | .error e => .error e
            | .ok domains =>
              ModFeature.construct domains type complete (qhas q "starter_module") (qhas q "final_module")
                (qhas q "iterative")

/-! ### `generate_domain_features` and the domain look-up of `add_to_record` -/

/-- `generate_domain_features`: one domain feature per hit of the gene, named
    `nrpspksdomains_<gene>_<profile>.<running number per profile>` -/
def domainFeatures (gene : String) (strand : Int) : List Domain → List (String × Nat) → List (Domain × FDomain)
  | [], _ => []
  | d :: ds, counts =>
    let n := ((counts.find? fun kv => kv.1 == d.label).map (·.2)).getD 0 + 1
    (d, ⟨"nrpspksdomains_" ++ gene ++ "_" ++ d.label ++ "." ++ toString n, gene, strand⟩)
      :: domainFeatures gene strand ds ((d.label, n) :: counts)

/-- the dict `domain_features` keyed by the hit: a later equal hit overwrites an earlier one -/
def tableOf (entries : List (Domain × FDomain)) (hit : Domain) : Option FDomain :=
  (entries.reverse.find? fun e => e.1 == hit).map (·.2)

/-- the per-gene dicts of a gene list (`self.cds_results[record.get_cds_by_name(locus)]`) -/
def geneTables (genes : List Gene) (locus : String) : Domain → Option FDomain :=
  match genes.find? fun g => g.name == locus with
  | some g => tableOf (domainFeatures g.name g.strand g.domains [])
  | none => fun _ => none

/-- the loop over the components in `add_to_record`: a component of the gene that holds the
    module is looked up in that gene's dict, any other one in the dict of its own gene -/
def lookupDomains (tables : String → Domain → Option FDomain) (holder : String) :
    List Comp → Except Err (List FDomain)
  | [] => .ok []
  | c :: cs =>
    let found := if c.locus == holder then tables holder c.domain else tables c.locus c.domain
    match found with
    | none => .error .keyError
    | some d =>
      match lookupDomains tables holder cs with
      | .error e => .error e
      | .ok ds => .ok (d :: ds)

/-- the module type chosen in `add_to_record` -/
def Module.featureType (m : Module) : ModType :=
  if m.isNrps then .nrps else if m.isPks then .pks else if m.isCoaLigase then .cal else .unknown

/-- `add_to_record`: the feature made from a detection module and its domain features -/
def Module.toFeature (m : Module) (domains : List FDomain) : Except Err ModFeature :=
  ModFeature.construct domains m.featureType m.isComplete m.isStarterModule m.isTerminationModule m.isIterative

/-- `add_to_record` for one reported module held by gene `holder` -/
def Module.report (tables : String → Domain → Option FDomain) (holder : String) (m : Module) :
    Except Err ModFeature :=
  match lookupDomains tables holder m.components with
  | .error e => .error e
  | .ok ds => m.toFeature ds

end ASV.Modules
