/-
  C14 model: antismash/detection/nrps_pks_domains/module_identification.py
  (Component, Module, build_modules_for_cds, combine_modules, to_json/from_json) and the caller
  loop of domain_identification.generate_domains — literal transcription, function by function,
  branch by branch.  Every Python `assert` is an explicit `Err.assertion`, every
  `IncompatibleComponentError` an `Err.incompatible`, `classify`'s ValueError an `Err.valueError`.

  Mutation through `self` becomes a returned `Module`; the object identity test
  `self._starter is self._loader` becomes the flag `starterIsLoader`, set in the one place where
  both slots are assigned from the same object (every add_component call receives a distinct
  Component object, so two slots hold the same object iff they were assigned together).

  The domain-class tables come from `ASV.Generated.Modules` (regenerated from the source on every
  run).  No imports outside ASV.Model / ASV.Generated.
-/
import ASV.Generated.Modules
namespace ASV.Modules
open T

/-- an HMMResult as far as module building looks at it: `hit_id`, `detailed_names[1:]`,
    `query_start`, `query_end` -/
structure Domain where
  label : String
  subtypes : List String
  start : Int
  stop : Int
deriving DecidableEq, Repr, Inhabited

/-- a constructed `Component` (its label is classified, its locus non-empty: `mkComp`) -/
structure Comp where
  label : String
  subtypes : List String
  start : Int
  stop : Int
  locus : String
deriving DecidableEq, Repr, Inhabited

inductive Err
  | incompatible   -- IncompatibleComponentError
  | assertion      -- AssertionError
  | valueError     -- ValueError("could not classify domain")
  | indexError     -- IndexError
  | keyError       -- KeyError
deriving DecidableEq, Repr

/-- `classify`: the first key of CLASSIFICATIONS (dict order) whose set contains the name -/
def classify (name : String) : Option String :=
  (classifications.find? (fun kv => kv.2.contains name)).map (·.1)

/-- `label.startswith(prefix)` -/
def hasPrefix (pre s : String) : Bool := pre.toList.isPrefixOf s.toList

namespace Comp
def isAdenylation (c : Comp) : Bool := adenylations.contains c.label
def isAcyltransferase (c : Comp) : Bool := acyltransferases.contains c.label
def isCoaLigase (c : Comp) : Bool := c.label == coaLigaseLabel
def isCondensation (c : Comp) : Bool := condensations.contains c.label
def isStarter (c : Comp) : Bool := starterCollections.any (fun col => col.contains c.label)
def isLoader (c : Comp) : Bool := c.isAcyltransferase || c.isAdenylation || c.isCoaLigase
def isModification (c : Comp) : Bool := modifiers.contains c.label
def isCarrierProtein (c : Comp) : Bool := carrierProteins.contains c.label
def isEnd (c : Comp) : Bool := ends.contains c.label
def isIgnored (c : Comp) : Bool := nonModule.contains c.label
def isSpecial (c : Comp) : Bool := special.contains c.label
def isFusedStarter (c : Comp) : Bool := fusedStarters.contains c.label
def isPksSpecific (c : Comp) : Bool :=
  if hasPrefix pksPrefix c.label then true
  else acyltransferases.contains c.label || ketosynthases.contains c.label
def isNrpsSpecific (c : Comp) : Bool := adenylations.contains c.label || condensations.contains c.label
/-- `subtype`: `detailed_names[1]` if there is one -/
def subtype (c : Comp) : Option String := c.subtypes.head?
def domain (c : Comp) : Domain := ⟨c.label, c.subtypes, c.start, c.stop⟩
end Comp

/-- `Component.__init__`: classify (ValueError), `assert cds_name`, `assert self.classification` -/
def mkComp (locus : String) (d : Domain) : Except Err Comp :=
  match classify d.label with
  | none => .error .valueError
  | some key =>
    if locus.isEmpty then .error .assertion
    else if key.isEmpty then .error .assertion
    else .ok ⟨d.label, d.subtypes, d.start, d.stop, locus⟩

structure Module where
  components : List Comp
  starter : Option Comp
  loader : Option Comp
  modifications : List Comp
  carrier : Option Comp
  end_ : Option Comp
  others : List Comp
  firstInCds : Bool
  unambiguous : Nat
  /-- `self._starter is self._loader` (both set) -/
  starterIsLoader : Bool
deriving DecidableEq, Repr, Inhabited

def Module.new (first : Bool) : Module :=
  { components := [], starter := none, loader := none, modifications := [], carrier := none,
    end_ := none, others := [], firstInCds := first, unambiguous := 0, starterIsLoader := false }

namespace Module
def isEmpty (m : Module) : Bool := m.components.isEmpty
def isPks (m : Module) : Bool := m.components.any Comp.isPksSpecific
def isNrps (m : Module) : Bool :=
  (match m.starter with | some s => s.isNrpsSpecific | none => false)
  || (match m.loader with | some l => l.isNrpsSpecific | none => false)
def isCoaLigase (m : Module) : Bool :=
  match m.starter with | some s => s.isCoaLigase | none => false
def isTransAt (m : Module) : Bool :=
  match m.starter with
  | none => false
  | some s =>
    if !(m.isPks && m.loader.isNone) then false
    else if s.subtype == some transAtSubtype then true
    else m.others.any (fun c => c.label == transAtDocking)
def isIterative (m : Module) : Bool :=
  match m.starter with | some s => s.subtype == some iterativeSubtype | none => false
def isComplete (m : Module) : Bool :=
  if m.starter.isSome && m.starterIsLoader && !m.firstInCds then false
  else if m.starter.isSome && m.loader.isSome && m.carrier.isSome then true
  else m.isTransAt && m.carrier.isSome
def isTerminated (m : Module) : Bool := m.end_.isSome
def isTerminationModule (m : Module) : Bool :=
  match m.end_ with | some e => terminationLabels.contains e.label | none => false
def isStarterModule (m : Module) : Bool :=
  match m.starter with
  | some s => starterModuleLabels.contains s.label || (m.starterIsLoader && m.firstInCds)
  | none => false
/-- the property `Module.start` (`assert self._components`) -/
def startPos (m : Module) : Except Err Int :=
  match m.components with
  | [] => .error .assertion
  | c :: _ => .ok c.start
/-- the property `Module.end`: the end of the last component, not counting a product finalising
    domain (TD / thioesterase) of a module with more than one component: then `components[-2]` -/
def endPos (m : Module) : Except Err Int :=
  match m.components.reverse with
  | [] => .error .assertion
  | last :: rest =>
    match m.end_, rest with
    | some e, second :: _ => if endTrimLabels.contains e.label then .ok second.stop else .ok last.stop
    | _, _ => .ok last.stop
end Module

/-- `list(case) == upcoming[:len(case)]` -/
def caseMatches (upcoming : List String) (case : List String) : Bool := case == upcoming.take case.length

/-- the `valid` flag of ensure_suitable -/
def dtValid (upcoming : List String) : Bool := doubleTransporterCases.any (caseMatches upcoming)

/-- the `longest` value of add_component (the last matching case wins, as in the loop) -/
def dtLongest (upcoming : List String) : Nat :=
  doubleTransporterCases.foldl (fun acc case => if caseMatches upcoming case then case.length else acc) 0

/-- `Module.ensure_suitable` -/
def ensureSuitable (m : Module) (c : Comp) (lookahead : List Comp) : Except Err Unit :=
  if c.isIgnored || c.isSpecial then .ok ()
  else if m.end_.isSome then .error .incompatible
  else if c.isStarter && !c.isLoader then
    if !m.components.isEmpty then .error .incompatible else .ok ()
  else if c.isLoader then
    if m.loader.isSome then .error .incompatible
    else if (match m.starter with | some s => s.isPksSpecific && c.isNrpsSpecific | none => false)
      then .error .incompatible
    else if (match m.starter with | some s => s.isNrpsSpecific && c.isPksSpecific | none => false)
      then .error .incompatible
    else if m.end_.isSome || m.carrier.isSome || !m.modifications.isEmpty then .error .incompatible
    else .ok ()
  else if c.isModification then
    if m.end_.isSome then .error .incompatible
    else if m.carrier.isSome && !(m.isTransAt && c.label == transAtKrLabel) then .error .incompatible
    else .ok ()
  else if c.isCarrierProtein then
    if m.carrier.isSome then
      if dtValid (lookahead.map (·.label)) then .ok () else .error .incompatible
    else .ok ()
  else if c.isEnd then
    if m.end_.isSome then .error .assertion else .ok ()
  else .ok ()

/-- the slot assignment part of `Module.add_component` (after the suitability check) -/
def place (m : Module) (c : Comp) (lookahead : List Comp) : Except Err Module :=
  if c.isStarter && m.starter.isNone then
    if c.isLoader then
      if m.loader.isSome then .error .assertion
      else .ok { m with starter := some c, loader := some c, starterIsLoader := true }
    else .ok { m with starter := some c }
  else if c.isLoader then
    if m.loader.isSome then .error .assertion else .ok { m with loader := some c }
  else if c.isModification then .ok { m with modifications := m.modifications ++ [c] }
  else if c.isCarrierProtein then
    if m.carrier.isNone then .ok { m with carrier := some c }
    else
      let longest := dtLongest (lookahead.map (·.label))
      if longest > 0 then .ok { m with unambiguous := longest, others := m.others ++ [c] }
      else .ok m
  else if c.isEnd then
    if m.end_.isSome then .error .assertion else .ok { m with end_ := some c }
  else .ok { m with others := m.others ++ [c] }

/-- `Module.add_component` -/
def addComponent (m : Module) (c : Comp) (lookahead : List Comp) : Except Err Module :=
  if c.isIgnored then .ok m
  else
    let checked : Except Err Module :=
      if m.unambiguous > 0 then .ok { m with unambiguous := m.unambiguous - 1 }
      else match ensureSuitable m c lookahead with
        | .ok () => .ok m
        | .error e => .error e
    match checked with
    | .error e => .error e
    | .ok m1 =>
      match place m1 c lookahead with
      | .error e => .error e
      | .ok m2 => .ok { m2 with components := m2.components ++ [c] }

/-- `for i, component in enumerate(comps): module.add_component(component, comps[i+1:])`
    (Module.from_json and both loops of combine_modules) -/
def replayGo (m : Module) : List Comp → Except Err Module
  | [] => .ok m
  | c :: rest =>
    match addComponent m c rest with
    | .ok m' => replayGo m' rest
    | .error e => .error e

/-! ### to_json / from_json -/

structure CompJson where
  domain : Domain
  locus : String
deriving DecidableEq, Repr

structure ModuleJson where
  components : List CompJson
  /-- `data.get("first_in_cds", True)` -/
  firstInCds : Option Bool
deriving DecidableEq, Repr

def Comp.toJson (c : Comp) : CompJson := ⟨c.domain, c.locus⟩
def Module.toJson (m : Module) : ModuleJson := ⟨m.components.map Comp.toJson, some m.firstInCds⟩

def mkComps (f : α → Except Err Comp) : List α → Except Err (List Comp)
  | [] => .ok []
  | x :: xs =>
    match f x with
    | .error e => .error e
    | .ok c => match mkComps f xs with
      | .error e => .error e
      | .ok cs => .ok (c :: cs)

def Module.fromJson (j : ModuleJson) : Except Err Module :=
  match mkComps (fun cj => mkComp cj.locus cj.domain) j.components with
  | .error e => .error e
  | .ok comps => replayGo (Module.new (j.firstInCds.getD true)) comps

/-! ### build_modules_for_cds -/

/-- `sorted(domains, key=lambda x: x.query_start)` (stable) -/
def sortDomains (ds : List Domain) : List Domain := ds.mergeSort (fun a b => decide (a.start ≤ b.start))

/-- the main loop; `done ++ [cur]` is the Python list `modules` -/
def buildGo : List Comp → List Module → Module → Except Err (List Module × Module)
  | [], done, cur => .ok (done, cur)
  | c :: rest, done, cur =>
    -- start a new module if we have an explicit starter
    let fresh := c.isStarter && !c.isLoader && !cur.isEmpty
    let done1 := if fresh then done ++ [cur] else done
    let cur1 := if fresh then Module.new false else cur
    match addComponent cur1 c (rest.take 2) with
    | .ok cur2 => buildGo rest done1 cur2
    | .error .incompatible =>
      match addComponent (Module.new false) c [] with
      | .ok cur2 => buildGo rest (done1 ++ [cur1]) cur2
      | .error e => .error e
    | .error e => .error e

def build (domains : List Domain) (cdsName : String) : Except Err (List Module) :=
  match mkComps (mkComp cdsName) (sortDomains domains) with
  | .error e => .error e
  | .ok comps =>
    match buildGo comps [] (Module.new true) with
    | .error e => .error e
    | .ok (done, cur) =>
      let modules := if cur.isEmpty then done else done ++ [cur]
      if modules.any Module.isEmpty then .error .assertion else .ok modules

/-! ### combine_modules -/

structure Combined where
  merged : Option Module
  /-- `previous.modules` afterwards -/
  prev : List Module
  /-- `current.modules` afterwards -/
  cur : List Module
deriving DecidableEq, Repr

/-- the construction of the merged module inside `combine_modules`: the head's components are
    re-added outside the `try` block (an error there propagates), the tail's inside it
    (IncompatibleComponentError → no merge); an incomplete result is discarded -/
def mergeModules (head tail : Module) : Except Err (Option Module) :=
  match replayGo (Module.new false) head.components with
  | .error e => .error e
  | .ok m1 =>
    match replayGo m1 tail.components with
    | .error .incompatible => .ok none
    | .error e => .error e
    | .ok m2 => if !m2.isComplete then .ok none else .ok (some m2)

/-- the last step of `combine_modules`: a single-KR module following the merged trans-AT module
    is taken in as well.  Models the code *with* fixes/D33_combine_kr_after_end.patch (the
    `is_terminated` guard).  `curRest` is `current.modules` after the tail was popped. -/
def absorbTrailingKr (m2 : Module) (curRest : List Module) : Except Err (Module × List Module) :=
  match curRest with
  | [] => .ok (m2, [])
  | next :: curRest2 =>
    match next.components with
    | [kr] =>
      if m2.isTransAt && !m2.isTerminated && kr.label == trailingKrLabel then
        match addComponent m2 kr [] with
        | .error e => .error e
        | .ok m3 => .ok (m3, curRest2)
      else .ok (m2, curRest)
    | _ => .ok (m2, curRest)

/-- `invalid_tail = tail.is_complete() and not tail.components[0].is_fused_starter()` -/
def invalidTail (tail : Module) : Except Err Bool :=
  if tail.isComplete then
    match tail.components with
    | [] => .error .indexError
    | c0 :: _ => .ok (!c0.isFusedStarter)
  else .ok false

/-- `combine_modules(current, previous)`; strands are `cds.location.strand` -/
def combine (curStrand prevStrand : Int) (cur prev : List Module) : Except Err Combined :=
  let unchanged : Combined := ⟨none, prev, cur⟩
  if curStrand != prevStrand then .ok unchanged
  else match prev.getLast?, cur with
  | none, _ => .ok unchanged
  | _, [] => .ok unchanged
  | some head, tail :: curRest =>
    match invalidTail tail with
    | .error e => .error e
    | .ok invalid =>
    if head.isComplete || invalid then .ok unchanged
    else if (head.isPks && tail.isNrps) || (head.isNrps && tail.isPks) then .ok unchanged
    else
      match mergeModules head tail with
      | .error e => .error e
      | .ok none => .ok unchanged
      | .ok (some m2) =>
        match absorbTrailingKr m2 curRest with
        | .error e => .error e
        | .ok (m3, curRest') => .ok ⟨some m3, prev.dropLast ++ [m3], curRest'⟩

/-! ### the caller loop of `generate_domains` -/

structure Gene where
  name : String
  strand : Int
  region : Nat
  domains : List Domain
  hasMotifs : Bool
  /-- position of the gene in the iteration order of `generate_domains` (all genes of all
      regions, also those without domains) -/
  index : Nat := 0
  /-- `location.start` of the gene (only used to order the genes of a region) -/
  start : Nat := 0
deriving Repr

structure GeneResult where
  name : String
  strand : Int
  region : Nat
  modules : List Module
  index : Nat := 0
  /-- the gene had no module at all when it was handled (only docking domains or motif hits);
      bookkeeping for the spec, never read by the loop -/
  bare : Bool := false
deriving Repr

/-- one iteration: `results` holds the genes handled so far (the last one is `prev` when
    `prevLive`), mirrors the in-place updates of both module lists -/
def chainGo : List Gene → List GeneResult → Bool → Except Err (List GeneResult)
  | [], results, _ => .ok results
  | g :: rest, results, prevLive =>
    if g.domains.isEmpty && !g.hasMotifs then chainGo rest results false
    else
      match build g.domains g.name with
      | .error e => .error e
      | .ok modules =>
        let info : GeneResult := ⟨g.name, g.strand, g.region, modules, g.index, modules.isEmpty⟩
        match (if prevLive then results.getLast? else none) with
        | some prev =>
          if !prev.modules.isEmpty && !info.modules.isEmpty && prev.region == info.region then
            if g.strand == -1 then
              -- combine_modules(prev, info): current = prev, previous = info
              match combine prev.strand info.strand prev.modules info.modules with
              | .error e => .error e
              | .ok r => chainGo rest (results.dropLast ++ [{ prev with modules := r.cur }, { info with modules := r.prev }]) true
            else
              match combine info.strand prev.strand info.modules prev.modules with
              | .error e => .error e
              | .ok r => chainGo rest (results.dropLast ++ [{ prev with modules := r.prev }, { info with modules := r.cur }]) true
          else chainGo rest (results ++ [info]) true
        | none => chainGo rest (results ++ [info]) true

/-- the module lists per gene after the final `len(mod.components) > 1` filter -/
def chain (genes : List Gene) : Except Err (List GeneResult) :=
  match chainGo genes [] false with
  | .error e => .error e
  | .ok results => .ok (results.map fun r => { r with modules := r.modules.filter (fun m => m.components.length > 1) })

/-- the order in which `region.cds_children` lists the genes of one region, given the genes in
    record order (ascending start): for a region that crosses the origin of a circular record and
    begins at coordinate `s`, the genes before the origin (start ≥ s) come first, then those after
    it; otherwise record order.  `generate_domains` walks the genes in exactly this order. -/
def regionGenes (cross : Option Nat) (genes : List Gene) : List Gene :=
  match cross with
  | none => genes
  | some s => genes.filter (fun g => decide (g.start ≥ s)) ++ genes.filter (fun g => !decide (g.start ≥ s))

/-- number the genes in iteration order -/
def reindex (genes : List Gene) : List Gene := (genes.zipIdx).map fun (g, i) => { g with index := i }

/-- `generate_domains` on one region -/
def generateRegion (cross : Option Nat) (genes : List Gene) : Except Err (List GeneResult) :=
  chain (reindex (regionGenes cross genes))

end ASV.Modules
