/-
  Model of the remaining operations of `antismash/common/secmet/locations.py` and of
  `Record.extend_location / connect_locations` (record.py), on top of `ASV.Model.Loc`.
  One Lean function per Python function, same case order; every Python `raise ValueError` /
  `assert` that is reachable from the public entry points is an explicit `Except` value:
    "value-error"  — ValueError          "assertion" — AssertionError
    "fuel"         — the Python recursion would not terminate (never observed)
-/
import ASV.Model.Loc
namespace ASV

abbrev E := Except String

def fl (lo hi : Int) (s : Strand := .fwd) : Part := ⟨lo, hi, s⟩

/-! ### hull of already reduced (simple) locations: `connect_locations(..., wrap_point=None)` -/

/-- `locations[0].strand if all(loc.strand == locations[0].strand ...) else None` -/
def commonStrand : List Loc → Strand
  | [] => .none
  | l :: ls => if ls.all (·.strand == l.strand) then l.strand else .none

/-- FeatureLocation(min start, max end, common strand) -/
def hullOf (ls : List Loc) : Loc :=
  .simple ⟨minList (ls.map (·.start)), maxList (ls.map (·.end)), commonStrand ls⟩

/-! ### `split_origin_bridging_location` and `_is_valid_split` -/

/-- forward / unstranded walk: parts go to `upper` while starts increase; the rest is `lower` -/
def splitFwd : List Part → List Part → List Part × List Part
  | upperRev, [] => ([], upperRev.reverse)
  | [], p :: rest => splitFwd [p] rest
  | u :: us, p :: rest =>
    if p.lo > u.lo then splitFwd (p :: u :: us) rest
    else (p :: rest, (u :: us).reverse)

/-- reverse-strand walk: parts go to `lower` while starts decrease; the rest is `upper` -/
def splitRev : List Part → List Part → List Part × List Part
  | lowerRev, [] => (lowerRev.reverse, [])
  | [], p :: rest => splitRev [p] rest
  | l :: ls, p :: rest =>
    if p.lo < l.lo then splitRev (p :: l :: ls) rest
    else ((l :: ls).reverse, p :: rest)

def partsHull (ps : List Part) : Loc := hullOf (ps.map Loc.simple)

/-- `_is_valid_split(lower, upper, strand)` -/
def isValidSplit (lower upper : List Part) (strand : Strand) : Bool :=
  if lower.isEmpty || upper.isEmpty then false
  else if locationsOverlap (partsHull lower) (partsHull upper) then false
  else
    let okOrder := fun (sec : List Part) =>
      let starts := sec.map (·.lo)
      (if strand == .rev then (sortInts starts).reverse else sortInts starts) == starts
    okOrder upper && okOrder lower

def strandsUsed (ps : List Part) : List Strand := ps.foldl (fun acc p => if acc.contains p.strand then acc else acc ++ [p.strand]) []

/-- `split_origin_bridging_location` → (lower, upper) -/
def splitBridging : Loc → E (List Part × List Part)
  | .simple p => pure ([p], [])
  | .compound ps => do
    if (strandsUsed ps).length > 1 then throw "value-error"
    let l := Loc.compound ps
    let (lower, upper) := if l.strand != .rev then splitFwd [] ps else splitRev [] ps
    if lower.isEmpty || upper.isEmpty then throw "value-error"
    if !isValidSplit lower upper l.strand then throw "value-error"
    pure (lower, upper)

/-! ### `_reduce_parts_to_location` -/
def reduceParts (ps : List Part) (wrap : Option Int) : E Loc :=
  match ps with
  | [p] => pure (.simple p)
  | _ =>
    let temp := Loc.compound ps
    if bridgesOrigin temp then
      match wrap with
      | none => throw "value-error"
      | some w => do
        if w ≤ 0 then throw "assertion"
        let (lower, upper) ← splitBridging temp
        pure (.compound [fl (minList (upper.map (·.lo))) w, fl 0 (maxList (lower.map (·.hi)))])
    else pure (.simple ⟨temp.start, temp.end, temp.strand⟩)

/-! ### `_is_wrapping_shorter`, `_split_sections_around_origin`, `_merge_over_origin` -/

def insertLocBy (x : Loc) : List Loc → List Loc
  | [] => [x]
  | y :: ys => if x.start < y.start || (x.start == y.start && x.end ≤ y.end) then x :: y :: ys else y :: insertLocBy x ys
/-- `sorted(locations, key=lambda x: (x.start, x.end))` (stable) -/
def sortLocs (l : List Loc) : List Loc := l.foldr insertLocBy []

/-- note: `first` is never advanced in the Python loop — mirrored -/
def isWrappingShorter (ls : List Loc) (wrap : Int) : Bool :=
  if ls.any bridgesOrigin then true
  else match sortLocs ls with
    | [] => false
    | first :: rest => rest.any fun second => decide (second.start - first.end > wrap / 2)

/-- returns (pre_chunks, post_chunks) -/
def splitSections (ls : List Loc) (origin : Int) : E (List Loc × List Loc) :=
  if !isWrappingShorter ls origin then pure (ls, [])
  else ls.foldlM (init := ([], [])) fun (acc : List Loc × List Loc) l => do
    if bridgesOrigin l then
      let (lower, upper) ← splitBridging l
      let u ← reduceParts upper (some origin)
      let lo ← reduceParts lower (some origin)
      pure (acc.1 ++ [u], acc.2 ++ [lo])
    else
      let s : Loc := .simple (fl l.start l.end)
      if l.start < origin - l.end then pure (acc.1, acc.2 ++ [s]) else pure (acc.1 ++ [s], acc.2)

/-- `_merge_over_origin`.  After the compaction step the working list has at most two entries
    (one hull per side), so the do-while body is transcribed for exactly that shape: the pair is
    merged into one origin-crossing location iff the way over the origin is strictly shorter. -/
def mergeOverOrigin (ls : List Loc) (wrap : Int) : E (List Loc) := do
  let (upper, lower) ← splitSections ls wrap
  let work : List Loc :=
    if !lower.isEmpty && !upper.isEmpty then [hullOf upper, hullOf lower]
    else if !lower.isEmpty then [hullOf lower]
    else if !upper.isEmpty then [hullOf upper]
    else ls
  match work with
  | [location, other] =>
    if location.parts.length != 1 || other.parts.length != 1 then throw "assertion"
    let over := getDistance location other wrap
    let standard := getDistance location other 0
    if over < standard then
      if other.start < location.start then
        pure [.compound [fl location.start wrap, fl 0 other.end]]
      else
        pure [.compound [fl other.start wrap, fl 0 location.end]]
    else pure [location, other]
  | _ => pure work

/-! ### `connect_locations` -/
def connectLocations (fuel : Nat) (ls : List Loc) (wrap : Option Int) : E Loc :=
  match fuel with
  | 0 => throw "fuel"
  | fuel + 1 => do
    if ls.isEmpty then throw "value-error"
    let anyCross := ls.any bridgesOrigin
    if anyCross && wrap.isNone then throw "value-error"
    let red ← ls.mapM fun l => reduceParts l.parts wrap
    match wrap with
    | none => pure (hullOf red)
    | some w =>
      if w ≤ 0 then throw "assertion"
      let merged ← if !anyCross then mergeOverOrigin red w else pure red
      match merged with
      | [one] => pure one
      | _ =>
        let (pre, post) ← splitSections merged w
        if pre.isEmpty then connectLocations fuel post none
        else if post.isEmpty then connectLocations fuel pre none
        else
          let preL ← connectLocations fuel pre (some w)
          let postL ← connectLocations fuel post (some w)
          match preL, postL with
          | .simple p, .simple q =>
            if locationContainsOther preL postL || locationContainsOther postL preL then
              pure (if p.len > q.len then preL else postL)
            else if locationsOverlap preL postL then
              let r ← connectLocations fuel [preL, postL] none
              if r.strand != .fwd then throw "assertion"
              pure r
            else pure (.compound [{ p with strand := .fwd }, { q with strand := .fwd }])
          | _, _ => throw "assertion"

/-- `connect_locations(locations, wrap_point)`; `wrap = none` for linear records -/
def connect (ls : List Loc) (wrap : Option Int) : E Loc := connectLocations 4 ls wrap

/-! ### `make_forwards`, `remove_redundant_exons`, `build_location_from_others` -/
def makeForwards (l : Loc) : Loc :=
  let ps := l.parts.map fun p => fl p.lo p.hi
  Loc.ofParts (if l.strand == .rev then ps.reverse else ps)

def insertBySizeDesc (x : Part) : List Part → List Part
  | [] => [x]
  | y :: ys => if x.len > y.len then x :: y :: ys else y :: insertBySizeDesc x ys
/-- `sorted(parts, key=size, reverse=True)`: stable, equal sizes keep their original order -/
def sortBySizeDesc (l : List Part) : List Part := l.reverse.foldl (fun acc x => insertBySizeDesc x acc) []

def removeRedundantExons : Loc → Loc
  | .simple p => .simple p
  | .compound ps =>
    let kept := (sortBySizeDesc ps).foldl
      (fun (acc : List Part) p => if acc.any (partContains · p) then acc else acc ++ [p]) []
    match kept with
    | [p] => .simple p
    | _ => .compound (ps.filter (kept.contains ·))

/-- `build_location_from_others` (non-empty input) -/
def buildLocationFromOthers : List Loc → E Loc
  | [] => throw "value-error"
  | l :: ls => pure <| ls.foldl (fun (location : Loc) loc =>
      if loc.start = location.end then
        match location.parts.getLast?, loc.parts.head? with
        | some lastP, some firstP =>
          let newSub : Part := ⟨lastP.lo, firstP.hi, location.strand⟩
          if location.parts.length > 1 || loc.parts.length > 1 then
            .compound (location.parts.dropLast ++ [newSub] ++ loc.parts.drop 1)
          else .simple newSub
        | _, _ => location
      else .compound (location.parts ++ loc.parts)) l

/-! ### `offset_location` (with the exclusive-end handling of the repaired code) -/

def shiftedParts (l : Loc) (offset : Int) (hasWrap : Bool) : E (List Part) :=
  l.parts.mapM fun p =>
    let s := p.lo + offset
    let e := p.hi + offset
    if !(s < e) then throw "assertion"
    else if !hasWrap && !(s ≥ 0 && e > 0) then throw "assertion"
    else pure ⟨s, e, p.strand⟩

def rebuild (l : Loc) (ps : List Part) : Loc :=
  match l, ps with
  | .compound _, _ => .compound ps
  | .simple _, [p] => .simple p
  | .simple p, _ => .simple p

/-- merge consecutive parts when the previous part ends where the next starts -/
def mergeAdjacent : List Part → Part → List Part → E (List Part)
  | mergedRev, _, [] => pure mergedRev.reverse
  | mergedRev, previous, part :: rest =>
    if previous.hi = part.lo then
      if previous.strand != part.strand then throw "assertion"
      else match mergedRev with
        -- `merged[-1] = FeatureLocation(merged[-1].start, part.end, part.strand)` (after the repair D58; before it
        -- the previous *part's* start was used and earlier abutting parts were lost)
        | m :: more => mergeAdjacent (⟨m.lo, part.hi, part.strand⟩ :: more) part rest
        | [] => throw "assertion"
    else mergeAdjacent (part :: mergedRev) part rest

/-- the tail of `offset_location`: reduce the shifted parts modulo the wrap point, splitting at the
    origin where needed, check them, and merge parts that became adjacent -/
def wrapParts (parts : List Part) (wrap : Int) : E Loc :=
  let newParts := parts.flatMap fun p =>
    let s := p.lo % wrap
    let e := (p.hi - 1) % wrap + 1
    if 0 ≤ s && s < e && e ≤ wrap then [(⟨s, e, p.strand⟩ : Part)]
    else [⟨s, wrap, p.strand⟩, ⟨0, e, p.strand⟩]
  if !(newParts.all fun p => 0 ≤ p.lo && p.lo < p.hi && p.hi ≤ wrap) then throw "assertion"
  else match newParts with
    | [] => throw "assertion"
    | first :: rest => do
      let merged ← mergeAdjacent [first] first rest
      pure (Loc.ofParts merged)

/-- the "no wrapping required" test: `0 < start + offset < end + offset < wrap_point` -/
def offsetTrivial (l : Loc) (offset wrap : Int) : Bool :=
  decide (0 < l.start + offset) && decide (l.start + offset < l.end + offset) && decide (l.end + offset < wrap)

/-- `offset_location(location, offset, wrap_point=wrap)`; `wrap = 0` stands for None/0 -/
def offsetLocation (l : Loc) (offset : Int) (wrap : Int := 0) : E Loc := do
  if wrap = 0 || offset = 0 then
    if offset = 0 then pure l
    else pure (rebuild l (← shiftedParts l offset (wrap != 0)))
  else
    if wrap < 1 then throw "value-error"
    if l.len = wrap then pure l
    else if offsetTrivial l offset wrap then
      pure (rebuild l (← shiftedParts l offset true))
    else
      let parts ← shiftedParts l offset true
      wrapParts parts wrap

/-! ### `Record.extend_location` -/

/-- `while parts and overlap(parts[-1], upper): upper = FL(min(parts[-1].start, upper.start), max, s); parts.pop()`
    on the reversed list; returns (merged?, upper, remaining parts reversed) -/
def popWhileUpper (maximum : Int) (s : Strand) : Bool → Part → List Part → Bool × Part × List Part
  | m, upper, [] => (m, upper, [])
  | m, upper, last :: restRev =>
    if partsOverlap last upper then popWhileUpper maximum s true ⟨min last.lo upper.lo, maximum, s⟩ restRev
    else (m, upper, last :: restRev)

/-- `while parts and overlap(parts[0], lower): lower = FL(0, max(parts[0].end, lower.end), s); parts.pop(0)` -/
def popWhileLower (s : Strand) : Bool → Part → List Part → Bool × Part × List Part
  | m, lower, [] => (m, lower, [])
  | m, lower, first :: rest =>
    if partsOverlap first lower then popWhileLower s true ⟨0, max first.hi lower.hi, s⟩ rest
    else (m, lower, first :: rest)

/-- `while len(parts) > 1 and overlap(parts[0], parts[-1]): merge them into parts[0]; parts.pop()` -/
def mergeEnds (fuel : Nat) (ps : List Part) : List Part :=
  match fuel with
  | 0 => ps
  | fuel + 1 =>
    match ps with
    | first :: rest =>
      match rest.getLast? with
      | some second =>
        if partsOverlap first second then
          mergeEnds fuel (⟨min first.lo second.lo, max first.hi second.hi,
                           if first.strand == second.strand then first.strand else .zero⟩ :: rest.dropLast)
        else ps
      | none => ps
    | [] => ps

def setHead (ps : List Part) (p : Part) : List Part := match ps with | [] => [] | _ :: r => p :: r
def setLast (ps : List Part) (p : Part) : List Part := ps.dropLast ++ [p]

/-- `Record.extend_location(location, distance)` for a record of length `maximum` -/
def extendLocation (l : Loc) (distance maximum : Int) (circular : Bool) : E Loc := do
  let s := l.strand
  let parts0 := if s == .rev then l.parts.reverse else l.parts
  match parts0.head?, parts0.getLast? with
  | some p0, some pn =>
    let ns := p0.lo - distance
    let ne := pn.hi + distance
    if circular && ns < 0 && ns + maximum ≤ ne then
      -- both sides extend past the edges and then overlap
      let parts1 := setHead parts0 ⟨0, p0.hi, s⟩
      let lastNow := (parts1.getLast?).getD pn
      let parts2 := setLast parts1 ⟨lastNow.lo, maximum, s⟩
      -- ns < 0 holds here
      let (m1, upper, restRev) := popWhileUpper maximum s false ⟨ns + maximum, maximum, s⟩ parts2.reverse
      let parts3 := if m1 then upper :: restRev.reverse else restRev.reverse
      let parts4 :=
        if ne > maximum then
          let (m2, lower, rest) := popWhileLower s false ⟨0, ne % maximum, s⟩ parts3
          if m2 then rest ++ [lower] else rest
        else parts3
      match parts4 with
      | [one] =>
        if one != (⟨0, maximum, s⟩ : Part) then throw "assertion" else pure (.simple one)
      | _ => pure (.compound (if s == .rev then parts4.reverse else parts4))
    else
      let partsA := mergeEnds parts0.length parts0
      match partsA.head? with
      | none => throw "assertion"
      | some sp =>
        let partsB :=
          if sp.lo - distance < 0 && circular then
            (⟨min (maximum + (sp.lo - distance)) maximum, maximum, sp.strand⟩ : Part) :: setHead partsA ⟨0, sp.hi, sp.strand⟩
          else setHead partsA ⟨max 0 (sp.lo - distance), sp.hi, sp.strand⟩
        match partsB.getLast? with
        | none => throw "assertion"
        | some ep =>
          let partsC :=
            if ep.hi + distance > maximum && circular then
              setLast partsB ⟨ep.lo, maximum, ep.strand⟩ ++ [⟨0, min (ep.hi + distance - maximum) maximum, ep.strand⟩]
            else setLast partsB ⟨ep.lo, min (ep.hi + distance) maximum, ep.strand⟩
          let partsD := mergeEnds partsC.length partsC
          match partsD with
          | [one] => pure (.simple one)
          | _ => pure (.compound (if s == .rev then partsD.reverse else partsD))
  | _, _ => throw "assertion"

/-! ### ordering of features (`Feature.__lt__`, `CDSCollection.__lt__` comparators) -/

/-- `get_comparator`: start (pushed negative for origin-spanning features) and length -/
def comparatorStart (l : Loc) : E Int :=
  if bridgesOrigin l then do
    let (_, head) ← splitBridging l
    pure (minList (head.map (·.lo)) - maxList (head.map (·.hi)))
  else pure l.start

/-- `Feature.__lt__` on locations (the `source` tie rule aside) -/
def featureLt (a b : Loc) : E Bool := do
  let sa ← comparatorStart a
  let sb ← comparatorStart b
  pure (sa < sb || (sa == sb && a.len < b.len))

/-- `CDSCollection.__lt__` on locations (child shortcut aside) -/
def collectionLt (a b : Loc) : E Bool := do
  if locationContainsOther a b && !locationContainsOther b a then pure true
  else
    let sa ← comparatorStart a
    let sb ← comparatorStart b
    pure (sa < sb || (sa == sb && -a.len < -b.len))

end ASV
