/-
  Model of the gene ↔ area bookkeeping of `antismash/common/secmet/record.py`
    Record.get_cds_features_within_location, Record.add_cds_feature (+ `_cds_by_name`, `_cds_by_location`,
    `_cds_cache`), Record._link_cds_to_parent, Record.add_protocluster / add_candidate_cluster /
    add_subregion / add_region (CDS linking), Record.clear_regions / clear_subregions /
    clear_candidate_clusters / clear_protoclusters, Record.get_cds_features / get_cds_by_name /
    get_cds_features_within_regions
  and of `CDSCollection.add_cds` (section choice, children), `_CDSCache` / `_SectionedCDSCache` (the gene list,
  the three section lists, their four dirty flags, `cds_children`), `Protocluster.add_cds`, `Region.add_cds`,
  `Feature.is_contained_by / overlaps_with / __lt__` (the latter three via the shared location model).

  Encoding.  A Python list slice `features[a:b]` is the list it denotes; a `while` loop that moves an
  index over a list is the `takeWhile`/`dropWhile` it computes.  The per-object dictionaries and caches
  are flattened into relations keyed by object id (see `Rec`), in insertion order.  `bisect.bisect_left/right`
  is modelled by its documented contract (the partition point), not by its binary search; the list is kept
  sorted (theorem `genes_stay_sorted`), which is bisect's precondition.
  No imports outside ASV.Model (driver-linkable).
-/
import ASV.Model.LocOps
namespace ASV.Lookup
open ASV

/-! ### genes and the order `Feature.__lt__` puts them in -/

/-- a CDS feature: identity (its unique name), location, and the products for which it carries a
    CORE gene function (`gene_functions.get_by_function(GeneFunction.CORE)`) -/
structure Gene where
  id : Nat
  loc : Loc
  cores : List String := []
deriving DecidableEq, Repr, Inhabited

/-- `Feature.is_contained_by(other)` = `location_contains_other(other.location, self.location)` -/
def containedBy (inner outer : Loc) : Bool := locationContainsOther outer inner
/-- `Feature.overlaps_with(other)` = `locations_overlap(self.location, other.location)` -/
def overlapsWith (a b : Loc) : Bool := locationsOverlap a b
/-- `Feature.crosses_origin()` -/
def crosses (l : Loc) : Bool := bridgesOrigin l

/-- first component of `get_comparator` in `Feature.__lt__`.  When `split_origin_bridging_location`
    raises (malformed origin-spanning location) the comparison itself raises in Python; `addCds`
    rejects such genes up front, so the fallback value is never consulted on a record's genes. -/
def cmpStart (l : Loc) : Int :=
  match comparatorStart l with
  | .ok k => k
  | .error _ => l.start

/-- does `get_comparator` return (rather than raise)? -/
def keyExists (l : Loc) : Bool :=
  match comparatorStart l with
  | .ok _ => true
  | .error _ => false

def sortKey (l : Loc) : Int × Int := (cmpStart l, l.len)

/-- tuple comparison `left < right` -/
def pairLt (a b : Int × Int) : Bool := decide (a.1 < b.1) || (a.1 == b.1 && decide (a.2 < b.2))

/-- `Feature.__lt__` (neither side is a `source` feature) -/
def locLt (a b : Loc) : Bool := pairLt (sortKey a) (sortKey b)

/-! ### `Record.get_cds_features_within_location` -/

/-- `if location.start < 0: location = FeatureLocation(0, max(1, location.end))` -/
def clampQuery (q : Part) : Part := if q.lo < 0 then ⟨0, max 1 q.hi, .none⟩ else q

/-- the single-part branch (repaired code).
    * `crossing`  = `features[:linear_start]`: the leading features that cross the origin
    * `linear`    = `features[linear_start:]`
    * `before`    = `features[linear_start:index]` right after `bisect_left(features, dummy, lo=linear_start)`
    * `same`      = what the walk-back loop steps over (trailing features of `before` with the query's start)
    * `earlier`   = `features[linear_start:index]` after the walk-back
    * candidates  = crossing ++ (earlier features reaching past the query start, overlap mode only)
                    ++ features from `index` on while they start before the query's end -/
def within1 (fs : List Gene) (q0 : Part) (ov : Bool) : List Gene :=
  let q := clampQuery q0
  let ql := Loc.simple q
  let crossing := fs.takeWhile fun f => crosses f.loc
  let linear := fs.dropWhile fun f => crosses f.loc
  let before := linear.takeWhile fun f => locLt f.loc ql
  let after := linear.dropWhile fun f => locLt f.loc ql
  let same := (before.reverse.takeWhile fun f => f.loc.start == q.lo).reverse
  let earlier := (before.reverse.dropWhile fun f => f.loc.start == q.lo).reverse
  let cands := crossing
    ++ (if ov then earlier.filter (fun f => decide (f.loc.end > q.lo)) else [])
    ++ (same ++ after).takeWhile (fun f => decide (f.loc.start < q.hi))
  cands.filter fun f => containedBy f.loc ql || (ov && overlapsWith f.loc ql)

/-- `features.extend(f for f in found if f not in features)` (the generator sees the growing list) -/
def extendNew (acc found : List Gene) : List Gene :=
  found.foldl (fun acc f => if acc.contains f then acc else acc ++ [f]) acc

/-- `found.sort(key=lambda feature: feature.crosses_origin())` (stable: False before True) -/
def crossingLast (found : List Gene) : List Gene :=
  found.filter (fun f => !crosses f.loc) ++ found.filter (fun f => crosses f.loc)

/-- `Record.get_cds_features_within_location(location, with_overlapping)` -/
def within (fs : List Gene) (q : Loc) (ov : Bool) : List Gene :=
  if fs.isEmpty then []
  else match q.parts with
    | [] => []
    | [p] => within1 fs p ov
    | ps =>
      let feats := ps.foldl (fun acc p => extendNew acc (crossingLast (within1 fs p true))) []
      if ov then feats else feats.filter fun f => containedBy f.loc q

/-! ### areas (CDS collections) -/

/-- the collection's class; `sideProto` = `SideloadedProtocluster` (a protocluster whose `definition_cdses`
    is always empty) -/
inductive Kind where
  | proto | cand | sub | region | sideProto
deriving DecidableEq, Repr, Inhabited

/-- a `CDSCollection` object: identity, class, location, (protoclusters) core location and product,
    and its child collections (`_children`: a candidate cluster's protoclusters, a region's candidate
    clusters and subregions).  The same Python object may occur in several places (as a registered
    collection and as somebody's child); occurrences are tied together by `id`. -/
inductive AreaT where
  | mk (id : Nat) (kind : Kind) (loc core : Loc) (product : String) (kids : List AreaT)
deriving Repr, Inhabited

namespace AreaT
def id : AreaT → Nat | mk i _ _ _ _ _ => i
def kind : AreaT → Kind | mk _ k _ _ _ _ => k
def loc : AreaT → Loc | mk _ _ l _ _ _ => l
def core : AreaT → Loc | mk _ _ _ c _ _ => c
def product : AreaT → String | mk _ _ _ _ p _ => p
def kids : AreaT → List AreaT | mk _ _ _ _ _ ks => ks
end AreaT

/-- `CollectionSection` -/
inductive Section where
  | pre | cross | post
deriving DecidableEq, Repr, Inhabited

/-- the record, as far as gene ↔ area bookkeeping goes.  Per-object dictionaries and caches are flattened into
    relations keyed by object id (area id, gene id). -/
structure Rec where
  len : Int
  genes : List Gene := []              -- `_cds_features` (sorted)
  byName : List (Nat × Gene) := []     -- `_cds_by_name` (name = gene id)
  byLoc : List Loc := []               -- keys of `_cds_by_location`
  cdsCache : List Gene := []           -- `_cds_cache`
  cdsCacheDirty : Bool := false        -- `_cds_cache_dirty`
  regions : List AreaT := []           -- `_regions`
  protos : List AreaT := []            -- `_protoclusters`
  cands : List AreaT := []             -- `_candidate_clusters`
  subs : List AreaT := []              -- `_subregions`
  members : List (Nat × Nat) := []     -- (area id, gene id): `area._cdses._features`, insertion order, no duplicates
  sections : List ((Nat × Section) × Nat) := []   -- ((area, section), gene): `_pre_origin/_cross_origin/_post_origin._features`
  defs : List (Nat × Nat) := []        -- (protocluster id, gene id): `_definition_cdses`
  regionOf : List (Nat × Option Nat) := []   -- (gene id, region id / None): assignments `cds.region = …`, newest first
  clean : List Nat := []               -- areas whose `_cdses._dirty` is False
  slotClean : List (Nat × Section) := []           -- section caches whose `_dirty` is False
  slotVal : List ((Nat × Section) × List Nat) := []   -- `_cached` of the section caches, newest first
  tupleVal : List (Nat × List (List Nat)) := []    -- the [pre, cross, post] snapshots inside `_cdses._cached`, newest first
  log : List (List (List Nat)) := []   -- what the observing calls returned, oldest first
deriving Repr, Inhabited

def insertNew {α} [BEq α] (l : List α) (x : α) : List α :=
  if l.contains x then l else l ++ [x]

/-- `cds.region` -/
def Rec.regionOfGene (r : Rec) (gid : Nat) : Option Nat :=
  ((r.regionOf.find? fun x => x.1 == gid).map (·.2)).join

/-- `area.cds_children` as ids, in insertion order -/
def Rec.children (r : Rec) (aid : Nat) : List Nat :=
  (r.members.filter fun x => x.1 == aid).map (·.2)

/-- the genes in one section cache of an area, in insertion order -/
def Rec.section (r : Rec) (aid : Nat) (s : Section) : List Nat :=
  (r.sections.filter fun x => x.1 == (aid, s)).map (·.2)

/-- `protocluster.definition_cdses` as ids -/
def Rec.definition (r : Rec) (aid : Nat) : List Nat :=
  (r.defs.filter fun x => x.1 == aid).map (·.2)

/-- the section `CDSCollection.add_cds` files the gene under: the one handed down by the parent, else — when
    the collection or the gene crosses the origin — cross / post (inside the part after the origin) / pre;
    `none` = no section argument, the cache's default (post-origin) applies -/
def chooseSection (areaLoc : Loc) (g : Gene) (given : Option Section) : Option Section :=
  match given with
  | some s => some s
  | none =>
    if decide (areaLoc.parts.length > 1) || crosses g.loc then
      if crosses g.loc then some .cross
      else if decide (areaLoc.parts.length > 1) &&
          (match areaLoc.parts with | _ :: p1 :: _ => containedBy g.loc (.simple p1) | _ => false) then some .post
      else some .pre
    else none

-- `CDSCollection.add_cds` below its containment check, with the subclass tails:
--   section choice; self._cdses.add_cds(cds, section) (both caches marked dirty);
--   for child in self._children: if cds.is_contained_by(child): child.add_cds(cds, section)
--   Protocluster: if cds.is_contained_by(self.core_location) and a CORE function names self.product: add to definition
--   Region: cds.region = self
--   SideloadedProtocluster: `definition_cdses` always returns the empty set, so nothing is recorded for it
-- (a child's own containment check is the `if` that guards the call)
mutual
def pushDown (g : Gene) (given : Option Section) : AreaT → Rec → Rec
  | .mk id kind loc core product kids, r =>
    let sec := chooseSection loc g given
    let s := sec.getD .post
    let r1 := { r with members := insertNew r.members (id, g.id),
                       sections := insertNew r.sections ((id, s), g.id),
                       clean := r.clean.filter (· != id),
                       slotClean := r.slotClean.filter (· != (id, s)) }
    let r2 := pushKids g sec kids r1
    match kind with
    | .proto =>
      if containedBy g.loc core && g.cores.contains product
      then { r2 with defs := insertNew r2.defs (id, g.id) } else r2
    | .region => { r2 with regionOf := (g.id, some id) :: r2.regionOf }
    | _ => r2
def pushKids (g : Gene) (sec : Option Section) : List AreaT → Rec → Rec
  | [], r => r
  | k :: ks, r => pushKids g sec ks (if containedBy g.loc k.loc then pushDown g sec k r else r)
end

/-- `area.add_cds(cds)`: raises ValueError unless the collection contains the CDS -/
def areaAddCds (r : Rec) (a : AreaT) (g : Gene) : E Rec :=
  if containedBy g.loc a.loc then pure (pushDown g none a r) else throw "value-error"

/-- `for collection in collections: if cds.is_contained_by(collection): collection.add_cds(cds)` -/
def linkAll (g : Gene) (areas : List AreaT) (r : Rec) : Rec :=
  areas.foldl (fun r a => if containedBy g.loc a.loc then pushDown g none a r else r) r

/-- `Record._link_cds_to_parent` (repaired: every region is examined) -/
def linkCdsToParent (r : Rec) (g : Gene) : Rec :=
  let r1 := linkAll g r.regions r       -- `cds.region = region` happens inside Region.add_cds as well
  let r2 := linkAll g r1.protos r1
  let r3 := linkAll g r2.cands r2
  linkAll g r3.subs r3

/-- `Record.add_cds_feature` (translation checks aside): duplicate location or name is refused (looked up in
    the two dictionaries), the feature is inserted at `bisect_right` (after features with an equal key, so
    that re-adding features in file order keeps that order), the gene cache is invalidated, the feature is
    linked to the collections containing it and entered into the dictionaries -/
def addCds (r : Rec) (g : Gene) : E Rec :=
  if !keyExists g.loc then throw "value-error"
  else if r.byLoc.contains g.loc then throw "value-error"
  else if r.byName.any (fun x => x.1 == g.id) then throw "value-error"
  else
    let before := r.genes.takeWhile fun f => !locLt g.loc f.loc
    let after := r.genes.dropWhile fun f => !locLt g.loc f.loc
    let r1 := linkCdsToParent { r with genes := before ++ g :: after, cdsCacheDirty := true } g
    pure { r1 with byLoc := r1.byLoc ++ [g.loc], byName := r1.byName ++ [(g.id, g)] }

/-- `for cds in self.get_cds_features_within_location(area.location): area.add_cds(cds)` -/
def addFound (r : Rec) (a : AreaT) : E Rec :=
  (within r.genes a.loc false).foldlM (fun r g => areaAddCds r a g) r

/-- `Record.add_protocluster / add_candidate_cluster / add_subregion / add_region`, chosen by the
    object's class.  The position in the record's list (bisect on `CDSCollection.__lt__`) and the
    numbering are not modelled: no observable of this property depends on them. -/
def addArea (r : Rec) (a : AreaT) : E Rec :=
  if a.loc.start < 0 then throw "assertion"
  else if a.loc.end > r.len then throw "assertion"
  else match a.kind with
    | .proto => addFound { r with protos := r.protos ++ [a] } a
    | .sideProto => addFound { r with protos := r.protos ++ [a] } a
    | .cand => addFound { r with cands := r.cands ++ [a] } a
    | .sub => addFound { r with subs := r.subs ++ [a] } a
    | .region =>
      if r.regions.any fun x => overlapsWith a.loc x.loc then throw "value-error"
      else addFound { r with regions := r.regions ++ [a] } a

/-! ### clearing and re-creating -/

/-- `Record.clear_regions`: every gene listed by a region loses its back link, then the regions go -/
def clearRegions (r : Rec) : Rec :=
  let resets := r.regions.flatMap fun a => (r.children a.id).map fun gid => (gid, (none : Option Nat))
  { r with regionOf := resets.reverse ++ r.regionOf, regions := [] }

/-- `create_regions()` as far as this property goes: one `add_region` per region it builds (the regions
    themselves — which areas, which location — are C06's business and are supplied) -/
def createRegions (r : Rec) (new : List AreaT) : E Rec := new.foldlM addArea r

/-- `if self._regions: self.clear_regions(); self.create_regions()` -/
def resetRegions (r : Rec) (new : List AreaT) : E Rec :=
  if r.regions.isEmpty then pure r else createRegions (clearRegions r) new

/-! ### observing calls (they fill caches) -/

/-- `Record.get_cds_features()` -/
def peekCds (r : Rec) : Rec :=
  let r1 := if r.cdsCacheDirty || r.genes.isEmpty then { r with cdsCache := r.genes, cdsCacheDirty := false } else r
  { r1 with log := r1.log ++ [[r1.cdsCache.map (·.id)]] }

/-- `_CDSCache.features` of one section cache -/
def slotFeatures (r : Rec) (aid : Nat) (s : Section) : Rec × List Nat :=
  if r.slotClean.contains (aid, s) then
    (r, ((r.slotVal.find? fun x => x.1 == (aid, s)).map (·.2)).getD [])
  else
    let v := r.section aid s
    ({ r with slotVal := ((aid, s), v) :: r.slotVal, slotClean := (aid, s) :: r.slotClean }, v)

/-- `_SectionedCDSCache.features` as far as the caches go: regenerated when dirty -/
def peekRegen (r : Rec) (aid : Nat) : Rec :=
  if r.clean.contains aid then r
  else
    let p1 := slotFeatures r aid .pre
    let p2 := slotFeatures p1.1 aid .cross
    let p3 := slotFeatures p2.1 aid .post
    { p3.1 with tupleVal := (aid, [p1.2, p2.2, p3.2]) :: p3.1.tupleVal, clean := aid :: p3.1.clean }

/-- `collection.cds_children`: the tuple's main sequence is the live dictionary itself, its three sections
    are snapshots -/
def peekArea (r : Rec) (aid : Nat) : Rec :=
  let r1 := peekRegen r aid
  let snap := ((r1.tupleVal.find? fun x => x.1 == aid).map (·.2)).getD [[], [], []]
  { r1 with log := r1.log ++ [r1.children aid :: snap] }

/-- `cds in collection` (`CDSCollection.__contains__` → `_CDSCache.__contains__`): no cache is touched -/
def hasCds (r : Rec) (aid gid : Nat) : Rec :=
  { r with log := r.log ++ [[[if (r.children aid).contains gid then 1 else 0]]] }

/-- position of the first `x` in a list -/
def indexIn (x : Nat) : List Nat → Option Nat
  | [] => none
  | y :: ys => if y == x then some 0 else (indexIn x ys).map (· + 1)

/-- `collection.cds_children.index(cds)` (`_SectionedCDSTuple.index` with the default limits): the position in
    insertion order; IndexError when the gene is not listed -/
def indexOf (r : Rec) (aid gid : Nat) : E Rec :=
  let r1 := peekRegen r aid
  match indexIn gid (r1.children aid) with
  | some i => pure { r1 with log := r1.log ++ [[[i]]] }
  | none => throw "IndexError"

def sortNat (l : List Nat) : List Nat := l.foldr (fun x acc => (acc.filter (· < x)) ++ x :: acc.filter (fun y => !(y < x))) []

/-- `Record.get_cds_by_name(name)`: KeyError when absent -/
def getByName (r : Rec) (gid : Nat) : E Rec :=
  match r.byName.find? fun x => x.1 == gid with
  | some (_, g) => pure { r with log := r.log ++ [[[g.id, g.loc.start.toNat, g.loc.end.toNat]]] }
  | none => throw "KeyError"

/-- `Record.get_cds_features_within_regions()` (reported as a sorted list of names: the order of the
    regions in the record's list is not modelled) -/
def withinRegions (r : Rec) : Rec :=
  { r with log := r.log ++ [[sortNat (r.regions.flatMap fun a => r.children a.id)]] }

/-- a gene's annotations are rewritten while it is in the record (`cds.gene_functions.add(...)`,
    `cds.strip_antismash_annotations()`, `Record.strip_antismash_annotations()` gene by gene): the gene object in
    `_cds_features` / `_cds_by_name` / the cached tuple now reports the core products `cs`.
    Model limit, named: this is followed only for a gene that has not been listed by any collection yet
    (`annotation-after-pairing` otherwise) — definition sets are fixed when gene and protocluster meet, and a
    gene re-annotated after that meeting would make them differ from the gene's current annotations. -/
def setCores (r : Rec) (gid : Nat) (cs : List String) : E Rec :=
  if r.members.any (fun x => x.2 == gid) then throw "annotation-after-pairing"
  else
    let f := fun (g : Gene) => if g.id == gid then { g with cores := cs } else g
    pure { r with genes := r.genes.map f, byName := r.byName.map (fun x => (x.1, f x.2)), cdsCache := r.cdsCache.map f }

inductive Op where
  | cds (g : Gene)
  | area (a : AreaT)
  | clearRegions
  | clearSubs (new : List AreaT)      -- `new`: the regions the implied `create_regions()` builds
  | clearCands (new : List AreaT)
  | clearProtos (new : List AreaT)
  | peekCds
  | peekArea (aid : Nat)
  | byName (gid : Nat)
  | withinRegions
  | hasCds (aid gid : Nat)
  | indexOf (aid gid : Nat)
  | setCores (gid : Nat) (cs : List String)
deriving Repr, Inhabited

def step (r : Rec) : Op → E Rec
  | .cds g => addCds r g
  | .area a => addArea r a
  | .clearRegions => pure (clearRegions r)
  | .clearSubs new => resetRegions { r with subs := [] } new
  | .clearCands new => resetRegions { r with cands := [] } new
  | .clearProtos new => resetRegions { r with protos := [], cands := [] } new
  | .peekCds => pure (peekCds r)
  | .peekArea aid => pure (peekArea r aid)
  | .byName gid => getByName r gid
  | .withinRegions => pure (withinRegions r)
  | .hasCds aid gid => pure (hasCds r aid gid)
  | .indexOf aid gid => indexOf r aid gid
  | .setCores gid cs => setCores r gid cs

/-- a history of calls on a fresh record of the given length -/
def run (len : Int) (ops : List Op) : E Rec := ops.foldlM step { len := len }

/-- the annotation rewrite without the model limit: what the code does for *any* gene of the record, also one that
    collections already list (their definition sets are not touched by the rewrite itself — they are re-evaluated
    by the next `add_cds` of that gene, see `pushDown`) -/
def setCoresAny (r : Rec) (gid : Nat) (cs : List String) : Rec :=
  let f := fun (g : Gene) => if g.id == gid then { g with cores := cs } else g
  { r with genes := r.genes.map f, byName := r.byName.map (fun x => (x.1, f x.2)), cdsCache := r.cdsCache.map f }

def stepLoose (r : Rec) : Op → E Rec
  | .setCores gid cs => pure (setCoresAny r gid cs)
  | op => step r op

/-- histories in which genes may be re-annotated at any time (the literal behaviour; the history theorems are
    stated for `run`, which stops at a rewrite of an already listed gene) -/
def runLoose (len : Int) (ops : List Op) : E Rec := ops.foldlM stepLoose { len := len }

end ASV.Lookup
