/-
  Model of `antismash/common/hmmscan_refinement.py` (C13): `HMMResult.merge`,
  `_remove_overlapping`, `remove_incomplete`, `_merge_domain_list`,
  `_merge_immediate_neigbours`, `refine_hmmscan_results` (per gene), and of
  `filter_nonterminal_docking_domains` (per gene).

  The code modelled is the tree with `fixes/D11_total_sort_key.patch` (the set of hits is sorted
  by the total key `(query_start, query_end, hit_id, evalue, bitscore)`) and
  `fixes/D22_merge_spans.patch` (`merge` takes `min` start / `max` end) and
  `fixes/D32_keep_separate_domains.patch` (`_merge_domain_list` keeps a run of fragments when the
  next fragment of the profile is too far away, instead of forgetting it) and
  `fixes/D61_remove_overlapping_by_rank.patch` (`_remove_overlapping` works down the results by
  score and compares each with *every* kept result, not only with the last one) applied.

  Representation (exact, order-isomorphic; see `harness/props/c13.py`):
    * `prof`  — rank of the profile name among the sorted profile names of the case (Python compares
                `hit_id` strings only inside the sort key; equality everywhere else);
    * `ev`    — the e-value is `ev · 2⁻⁶⁰` (exact in binary64), only `min` and `==` are applied to it;
    * `sc`    — the bitscore in tenths (`float(sc / 10)` is strictly monotone in `sc`);
    * float thresholds by cross-multiplication: `0.20·M` → fifths, `1.5·M` → halves,
      `len > 0.5·M`, `len/M > 1/3`, `len₁/M₁ > len₂/M₂` (profile lengths are positive).
  One Lean function per Python function, same branch order, same `<`/`<=`.  No imports.
-/
namespace ASV.Refine

/-- `HMMResult` without internal hits -/
structure Hit where
  prof : Int
  qs : Int
  qe : Int
  ev : Int
  sc : Int
deriving DecidableEq, Repr, Inhabited

/-- `hmm_lengths[hit_id]`, `"regulator" in hit_id`, `hit_id in dockingdomains` -/
structure Env where
  len : Int → Int
  reg : Int → Bool := fun _ => false
  dock : Int → Bool := fun _ => false

namespace Hit
/-- `len(hit)` -/
def length (h : Hit) : Int := h.qe - h.qs

/-- tuple comparison `key(a) <= key(b)` for the key
    `(query_start, query_end, hit_id, evalue, bitscore)` -/
def le (a b : Hit) : Bool :=
  decide (a.qs < b.qs ∨ (a.qs = b.qs ∧ (a.qe < b.qe ∨ (a.qe = b.qe ∧ (a.prof < b.prof ∨ (a.prof = b.prof ∧
    (a.ev < b.ev ∨ (a.ev = b.ev ∧ a.sc ≤ b.sc))))))))

/-- `key=lambda result: result.query_start` -/
def leStart (a b : Hit) : Bool := decide (a.qs ≤ b.qs)

/-- `HMMResult.merge` (callers guarantee equal `hit_id`) -/
def merge (a b : Hit) : Hit :=
  ⟨a.prof, min a.qs b.qs, max a.qe b.qe, min a.ev b.ev, max a.sc b.sc⟩
end Hit

/-! ### Python's stable `sorted` -/

/-- insert `a` before the first element whose key is not smaller (keeps `a` in front of equal keys) -/
def insertBy {α} (le : α → α → Bool) (a : α) : List α → List α
  | [] => [a]
  | b :: l => if le a b then a :: b :: l else b :: insertBy le a l

/-- stable sort: `sorted(l, key=…)` where `le a b ↔ key a <= key b` -/
def sortBy {α} (le : α → α → Bool) : List α → List α
  | [] => []
  | a :: l => insertBy le a (sortBy le l)

/-- a `set` holds equal objects once: drop repeated neighbours of a sorted list -/
def dedupAdj {α} [DecidableEq α] : List α → List α
  | [] => []
  | [a] => [a]
  | a :: b :: l => if a = b then dedupAdj (b :: l) else a :: dedupAdj (b :: l)

/-- `sorted(results_set, key=total key)`: the set's enumeration `l` is arbitrary -/
def sortHits (l : List Hit) : List Hit := dedupAdj (sortBy Hit.le l)

/-! ### `_remove_overlapping` -/

/-- `overlapping(earlier, later)`: `later.query_start < earlier.query_end - 0.20 * max(len[earlier], len[later])` -/
def conflict (env : Env) (previous result : Hit) : Bool :=
  decide (5 * result.qs < 5 * previous.qe - max (env.len result.prof) (env.len previous.prof))

/-- `enumerate(results)` starting at `n` -/
def enumFrom (n : Nat) : List Hit → List (Nat × Hit)
  | [] => []
  | h :: t => (n, h) :: enumFrom (n + 1) t

/-- tuple comparison `key(a) <= key(b)` for the key `(-bitscore, index)`: best score first, the
    earlier of two equal scores first -/
def rankBefore (a b : Nat × Hit) : Bool :=
  decide (b.2.sc < a.2.sc ∨ (a.2.sc = b.2.sc ∧ a.1 ≤ b.1))

/-- `overlapping(results[min(index, other)], results[max(index, other)])` -/
def clashIdx (env : Env) (x y : Nat × Hit) : Bool :=
  if x.1 ≤ y.1 then conflict env x.2 y.2 else conflict env y.2 x.2

/-- the `for index in ranked` loop: `kept` is the accumulator -/
def keepBest (env : Env) : List (Nat × Hit) → List (Nat × Hit) → List (Nat × Hit)
  | kept, [] => kept
  | kept, x :: rest =>
    if kept.any (fun other => clashIdx env x other) then keepBest env kept rest
    else keepBest env (kept ++ [x]) rest

def leIdx (a b : Nat × Hit) : Bool := decide (a.1 ≤ b.1)

/-- `_remove_overlapping(results, hmm_lengths)` (fix D61): by descending score (ties: position),
    a result is kept unless it starts more than the margin before the end of (or ends more than
    the margin after the start of) a kept one; the kept ones are returned in their input order -/
def removeOverlapping (env : Env) (results : List Hit) : List Hit :=
  ((sortBy leIdx (keepBest env [] (sortBy rankBefore (enumFrom 0 results)))).map (·.2))

/-! ### `remove_incomplete` -/

/-- `len(domain) > 0.5 * hmm_lengths[domain.hit_id]` -/
def isComplete (env : Env) (h : Hit) : Bool := decide (2 * h.length > env.len h.prof)

/-- `proportional_length > longest` with `longest` the proportional length of `best`
    (`none`: the initial `0.`) -/
def longer (env : Env) (h : Hit) : Option Hit → Bool
  | none => decide (h.length > 0)
  | some b => decide (h.length * env.len b.prof > b.length * env.len h.prof)

/-- the `enumerate` loop: first strict maximum of the proportional length -/
def longestScan (env : Env) : Option Hit → List Hit → Option Hit
  | best, [] => best
  | best, h :: t => if longer env h best then longestScan env (some h) t else longestScan env best t

/-- `longest > fallback` (1/3) -/
def overFallback (env : Env) (b : Hit) : Bool := decide (3 * b.length > env.len b.prof)

/-- `remove_incomplete(domains, hmm_lengths)` with the default threshold and fallback -/
def removeIncomplete (env : Env) (domains : List Hit) : List Hit :=
  let complete := domains.filter (isComplete env)
  if !complete.isEmpty then complete
  else
    match longestScan env none domains with
    | some b => if overFallback env b then [b] else
        match domains.find? (fun d => env.reg d.prof) with
        | some d => [d]
        | none => []
    | none =>
        match domains.find? (fun d => env.reg d.prof) with
        | some d => [d]
        | none => []

/-! ### `_merge_domain_list` -/

/-- keys of the `categories` dict: first-occurrence order -/
def firstOcc : List Int → List Int
  | [] => []
  | p :: ps => p :: (firstOcc ps).filter (· != p)

/-- the inner loop over `category[1:]`; `span3 = 3 · hmm_lengths[category[0].hit_id]`
    (`other.query_end - merged.query_start < 1.5 * length`, doubled); the result is what the
    category appends to `remaining`: every closed run, then the last `merged` -/
def mergeCat (span3 : Int) : Hit → List Hit → List Hit
  | merged, [] => [merged]
  | merged, other :: rest =>
    if 2 * (other.qe - merged.qs) < span3 then mergeCat span3 (merged.merge other) rest
    else merged :: mergeCat span3 other rest

def mergeDomainList (env : Env) (domains : List Hit) : List Hit :=
  let remaining := (firstOcc (domains.map (·.prof))).flatMap fun p =>
    match domains.filter (fun d => d.prof == p) with
    | [] => []
    | h :: t => mergeCat (3 * env.len h.prof) h t
  sortBy Hit.leStart remaining

/-! ### `_merge_immediate_neigbours` -/

/-- the loop with `result[-1]` as argument -/
def mergeImmFrom (env : Env) : Hit → List Hit → List Hit
  | last, [] => [last]
  | last, domain :: rest =>
    if domain.prof != last.prof then last :: mergeImmFrom env domain rest
    else if 2 * (domain.qe - last.qs) < 3 * env.len domain.prof then
      mergeImmFrom env (last.merge domain) rest
    else last :: mergeImmFrom env domain rest

/-- `_merge_immediate_neigbours`; `domains[0]` of an empty list is an `IndexError` -/
def mergeImmediate? (env : Env) : List Hit → Option (List Hit)
  | [] => none
  | h :: t => some (mergeImmFrom env h t)

def mergeImmediate (env : Env) (l : List Hit) : List Hit := (mergeImmediate? env l).getD []

/-! ### `refine_hmmscan_results`, one gene -/

/-- the list handed to `remove_incomplete`: sorted set, then (neighbour mode) overlap removal and
    neighbour merge, or (default) per-profile merge and overlap removal -/
def beforeIncomplete (env : Env) (neighbour : Bool) (results : List Hit) : List Hit :=
  if neighbour then mergeImmediate env (removeOverlapping env (sortHits results))
  else removeOverlapping env (mergeDomainList env (sortHits results))

/-- the body of the `for cds, results in results_by_id.items()` loop; `results` is the (non-empty)
    set of the gene's hits in an arbitrary enumeration; `[]` = the gene is left out of the result -/
def refine (env : Env) (neighbour : Bool) (results : List Hit) : List Hit :=
  removeIncomplete env (beforeIncomplete env neighbour results)

/-! ### `filter_nonterminal_docking_domains`, one gene -/

/-- a hit survives unless it is a docking domain away from both termini -/
def dockKeep (env : Env) (cdsLength : Int) (h : Hit) : Bool :=
  !(env.dock h.prof && !(decide (cdsLength - max h.qs h.qe < 50) || decide (min h.qs h.qe < 50)))

def dockingFilter (env : Env) (cdsLength : Int) (hits : List Hit) : List Hit :=
  hits.filter (dockKeep env cdsLength)

end ASV.Refine
