/-
  C03 — protoclusters are the maximal cutoff-chains of a rule's anchoring genes.
-/
import ASV.Model.Protocluster
import ASV.Spec.Chains
namespace ASV.C03
open ASV ASV.Proto

/-- a protocluster whose core is contained in the core of a cluster of a superior rule is redundant -/
theorem covered_first (within : Lookup) (pc other : PC) (first last : Loc) (rest : List PC)
    (h : locationContainsOther other.core pc.core = true) (red : Bool) :
    redundantInner within pc first last red (other :: rest) = redundantInner within pc first last true rest := by
  simp [redundantInner, h]

end ASV.C03
