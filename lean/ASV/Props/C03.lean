/-
  C03 — protoclusters are the maximal cutoff-chains of a rule's anchoring genes.
  Property theorems only; helper lemmas live in ASV/Proofs/{ChainSweep,ProtoLine,ChainLinked,ProtoRules}.lean.

  Guards.  `GeneOK len l`: the gene has at least one exon, its exons are in order (it does not
  bridge the origin), every exon is non-empty and inside the record — what `Record.add_cds_feature`
  / `ensure_valid_locations` give for every CDS of a linear record.
  The chain relation is `nearB L c a b`: the two genes, read as spans, share a base or have fewer
  than `c` bases strictly between them (the shorter way round on a ring).
-/
import ASV.Proofs.ChainLinked
namespace ASV.C03
open ASV ASV.Proto ASV.Chains ASV.ChainSweep

/-- **Cores are the maximal chains (linear record).**  For every linear record, every cutoff ≥ 0 and
    every non-empty set of anchoring genes, `find_protoclusters`' core computation succeeds and its
    cores correspond one to one, in order, to groups of anchoring genes such that
      * the groups partition the anchoring genes: every anchoring gene lies in exactly one group and
        no group (hence no core) is without one;
      * inside a group any two genes are linked by steps of the chain relation (neighbouring genes
        separated by less than the cutoff);
      * no gene of one group is within the cutoff of a gene of another (the groups are maximal);
      * each core is a single span, the smallest one covering its group: it starts at the least start
        and ends at the greatest end of the group's genes. -/
theorem cores_are_chains_linear (r : Rec) (hlin : r.circular = false) (c : Int) (hc : 0 ≤ c)
    (anchors : List Loc) (hne : anchors ≠ []) (hok : ∀ l ∈ anchors, GeneOK r.len l) :
    ∃ (groups : List (List Loc)) (cores : List Loc),
      findCores r c anchors = .ok cores ∧
      IsChainPartition (fun a b => nearB 0 c a b = true) anchors groups ∧
      Paired (fun core g => ∃ p, core = Loc.simple p ∧
        (∀ m ∈ g, p.lo ≤ m.start ∧ m.end ≤ p.hi) ∧ (∃ m ∈ g, m.start = p.lo) ∧ (∃ m ∈ g, m.end = p.hi))
        cores groups := by
  obtain ⟨sorted, cores, hperm, hsorted, hfind, hmap, hsimple⟩ := findCores_line r hlin c hc anchors hne hok
  obtain ⟨hpart, hinv⟩ := sweep_is_chain_partition r.len c hc anchors sorted hperm hsorted hok
  refine ⟨(sweep Loc.start Loc.end c sorted).map Grp.members, cores, hfind, hpart, ?_⟩
  refine Paired.map_right Grp.members ?_
  refine (paired_of_map_eq cores (sweep Loc.start Loc.end c sorted) hmap hsimple hinv).imp ?_
  rintro core g ⟨hiv, ⟨p, rfl⟩, hg⟩
  simp only [ivOf, Loc.start, Loc.end, Prod.mk.injEq] at hiv
  refine ⟨p, rfl, ?_, ?_, ?_⟩
  · intro m hm
    have h1 := hg.loMin m hm
    have h2 := hg.hiMax m hm
    omega
  · obtain ⟨m, hm, e⟩ := hg.loAtt
    exact ⟨m, hm, by omega⟩
  · obtain ⟨m, hm, e⟩ := hg.hiAtt
    exact ⟨m, hm, by omega⟩

end ASV.C03
