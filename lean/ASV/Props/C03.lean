/-
  C03 — protoclusters are the maximal cutoff-chains of a rule's anchoring genes.
  Property theorems only; helper lemmas live in ASV/Proofs/{ChainSweep,ProtoLine,ChainLinked,ProtoRules}.lean.

  Guards.  `GeneOK len l`: the gene has at least one exon, its exons are in order (it does not
  bridge the origin), every exon is non-empty and inside the record — what `Record.add_cds_feature`
  / `ensure_valid_locations` give for every CDS of a linear record.
  The chain relation is `nearB L c a b`: the two genes, read as spans, share a base or have fewer
  than `c` bases strictly between them (the shorter way round on a ring).
-/
import ASV.Proofs.ProtoRules
import ASV.Proofs.Components
import ASV.Proofs.ProtoExtend
import ASV.Proofs.ProtoRing
import ASV.Proofs.ProtoRingSep
import ASV.Proofs.ProtoRingFinal
import ASV.Proofs.ProtoRingSup
import ASV.Proofs.ProtoExtendRing
import ASV.Proofs.ProtoRingWide
import ASV.Proofs.ProtoRingMerge
import ASV.Proofs.ProtoExtendTotal
import ASV.Proofs.ProtoRingTwo
namespace ASV.C03
open ASV ASV.Rules ASV.Proto ASV.Chains ASV.ChainSweep

/-- **Cores are the maximal chains (linear record).**  For every linear record, every cutoff ≥ 0 and
    every non-empty set of anchoring genes, `find_protoclusters`' core computation succeeds and its
    cores correspond one to one, in order, to groups of anchoring genes such that
      * the groups partition the anchoring genes: every anchoring gene lies in exactly one group and
        no group (hence no core) is without one;
      * inside a group any two genes are linked by steps of the chain relation (neighbouring genes
        separated by less than the cutoff);
      * no gene of one group is within the cutoff of a gene of another (the groups are maximal);
      * each core is a single span, the smallest one covering its group: it starts at the least start
        and ends at the greatest end of the group's genes. -/
theorem cores_are_chains_linear (r : Rec) (hlin : r.circular = false) (c : Int) (hc : 0 ≤ c)
    (anchors : List Loc) (hne : anchors ≠ []) (hok : ∀ l ∈ anchors, GeneOK r.len l) :
    ∃ (groups : List (List Loc)) (cores : List Loc),
      findCores r c anchors = .ok cores ∧
      IsChainPartition (fun a b => nearB 0 c a b = true) anchors groups ∧
      Paired (fun core g => ∃ p, core = Loc.simple p ∧
        (∀ m ∈ g, p.lo ≤ m.start ∧ m.end ≤ p.hi) ∧ (∃ m ∈ g, m.start = p.lo) ∧ (∃ m ∈ g, m.end = p.hi))
        cores groups := by
  obtain ⟨sorted, cores, hperm, hsorted, hfind, hmap, hsimple⟩ := findCores_line r hlin c hc anchors hne hok
  obtain ⟨hpart, hinv⟩ := sweep_is_chain_partition r.len c hc anchors sorted hperm hsorted hok
  refine ⟨(sweep Loc.start Loc.end c sorted).map Grp.members, cores, hfind, hpart, ?_⟩
  refine Paired.map_right Grp.members ?_
  refine (paired_of_map_eq cores (sweep Loc.start Loc.end c sorted) hmap hsimple hinv).imp ?_
  rintro core g ⟨hiv, ⟨p, rfl⟩, hg⟩
  simp only [ivOf, Loc.start, Loc.end, Prod.mk.injEq] at hiv
  refine ⟨p, rfl, ?_, ?_, ?_⟩
  · intro m hm
    have h1 := hg.loMin m hm
    have h2 := hg.hiMax m hm
    omega
  · obtain ⟨m, hm, e⟩ := hg.loAtt
    exact ⟨m, hm, by omega⟩
  · obtain ⟨m, hm, e⟩ := hg.hiAtt
    exact ⟨m, hm, by omega⟩

/-- the chain computation the executable spec (and the driver) uses yields a chain partition, for
    every relation and every list -/
theorem spec_components_are_chains {α : Type} (rel : α → α → Bool) (xs : List α) :
    IsChainPartition (fun a b => rel a b = true) xs (components rel xs) :=
  components_isChainPartition rel xs

/-- chain partitions are unique: two of them have the same groups (as sets of members) -/
theorem chains_unique {α : Type} {rel : α → α → Prop} {xs : List α} {G G' : List (List α)}
    (h : IsChainPartition rel xs G) (h' : IsChainPartition rel xs G') :
    ∀ g ∈ G, ∃ g' ∈ G', ∀ x, x ∈ g ↔ x ∈ g' :=
  chain_partition_unique h h'

/-- hence, on a linear record, the groups behind the cores of `find_protoclusters` are exactly the
    chains `Chains.components (nearB 0 cutoff)` computes from the anchoring genes — the very
    definition the driver evaluates on the implementation's output — and vice versa -/
theorem cores_match_spec_chains (r : Rec) (hlin : r.circular = false) (c : Int) (hc : 0 ≤ c)
    (anchors : List Loc) (hne : anchors ≠ []) (hok : ∀ l ∈ anchors, GeneOK r.len l) :
    ∃ (groups : List (List Loc)) (cores : List Loc),
      findCores r c anchors = .ok cores ∧
      Paired (fun core g => ∃ p, core = Loc.simple p ∧
        (∀ m ∈ g, p.lo ≤ m.start ∧ m.end ≤ p.hi) ∧ (∃ m ∈ g, m.start = p.lo) ∧ (∃ m ∈ g, m.end = p.hi))
        cores groups ∧
      (∀ g ∈ groups, ∃ k ∈ components (nearB 0 c) anchors, ∀ x, x ∈ g ↔ x ∈ k) ∧
      (∀ k ∈ components (nearB 0 c) anchors, ∃ g ∈ groups, ∀ x, x ∈ k ↔ x ∈ g) := by
  obtain ⟨groups, cores, hfind, hpart, hpaired⟩ := cores_are_chains_linear r hlin c hc anchors hne hok
  have hspec := components_isChainPartition (nearB 0 c) anchors
  exact ⟨groups, cores, hfind, hpaired, chain_partition_unique hpart hspec, chain_partition_unique hspec hpart⟩

/-- **Neighbourhood (linear record).**  The protocluster of a single-span core is that core widened by
    the neighbourhood on both sides, clipped at both record ends: it covers exactly the bases of the
    record within the neighbourhood distance of a base of the core. -/
theorem neighbourhood_linear_exact (r : Rec) (hlin : r.circular = false) (p : Part) (d : Int) (force : Bool)
    (h0 : 0 ≤ p.lo) (h1 : p.lo < p.hi) (h2 : p.hi ≤ r.len) (hd : 0 ≤ d) :
    ∃ q, extendArea r (.simple p) d force = .ok q ∧
      ∀ i, q.mem i = true ↔ (0 ≤ i ∧ i < r.len ∧ ∃ j, p.mem j = true ∧ iabs (i - j) ≤ d) :=
  ⟨_, extendArea_line r hlin p d force,
    extend_simple_line_mem ⟨p.lo, p.hi, .fwd⟩ d r.len h0 h1 h2 hd⟩

/-- **The protoclusters of a rule (linear record)** — the first three sentences of the property for
    every linear record: the protoclusters formed for a rule from its anchoring genes are, one to one
    and in order, the maximal chains of those genes (`cores_are_chains_linear`); each core is the
    smallest span covering its chain; each protocluster is its core widened by the rule's
    neighbourhood, clipped at the record ends. -/
theorem protoclusters_of_rule_linear (r : Rec) (hlin : r.circular = false) (rule : RuleM)
    (hc : 0 ≤ rule.cutoff) (hn : 0 ≤ rule.nbhd) (anchors : List Gene)
    (hne : (r.genes.filter fun g => anchors.contains g.id) ≠ [])
    (hok : ∀ g ∈ r.genes, anchors.contains g.id = true → GeneOK r.len g.loc) :
    ∃ (groups : List (List Loc)) (pcs : List PC),
      clustersOfRule r rule anchors = .ok pcs ∧
      IsChainPartition (fun a b => nearB 0 rule.cutoff a b = true)
        ((r.genes.filter fun g => anchors.contains g.id).map (·.loc)) groups ∧
      Paired (fun pc g => pc.rule = rule.name ∧ ∃ p, pc.core = Loc.simple p ∧
        (∀ m ∈ g, p.lo ≤ m.start ∧ m.end ≤ p.hi) ∧ (∃ m ∈ g, m.start = p.lo) ∧ (∃ m ∈ g, m.end = p.hi) ∧
        pc.loc = Loc.simple ⟨max 0 (p.lo - rule.nbhd), min (p.hi + rule.nbhd) r.len, .fwd⟩)
        pcs groups := by
  have hok' : ∀ l ∈ (r.genes.filter fun g => anchors.contains g.id).map (·.loc), GeneOK r.len l := by
    intro l hl
    obtain ⟨g, hg, rfl⟩ := List.mem_map.1 hl
    simp only [List.mem_filter] at hg
    exact hok g hg.1 hg.2
  obtain ⟨groups, cores, hfind, hpart, hpaired⟩ :=
    cores_are_chains_linear r hlin rule.cutoff hc _ (by simpa using hne) hok'
  have hgroup : ∀ g ∈ groups, ∀ m ∈ g, GeneOK r.len m := by
    intro g hg m hm
    apply hok'
    rw [← hpart.perm.mem_iff]
    simp only [List.mem_flatten]
    exact ⟨g, hg, hm⟩
  obtain ⟨pcs, hpcs, hp2⟩ := mapM_paired
    (fun core => do
      let surrounds ← extendArea r core rule.nbhd true
      mkPC rule.name core surrounds)
    (S := fun (pc : PC) (g : List Loc) => pc.rule = rule.name ∧ ∃ p, pc.core = Loc.simple p ∧
        (∀ m ∈ g, p.lo ≤ m.start ∧ m.end ≤ p.hi) ∧ (∃ m ∈ g, m.start = p.lo) ∧ (∃ m ∈ g, m.end = p.hi) ∧
        pc.loc = Loc.simple ⟨max 0 (p.lo - rule.nbhd), min (p.hi + rule.nbhd) r.len, .fwd⟩)
    (by
      rintro core g ⟨⟨p, rfl, hcov, ⟨m1, hm1, e1⟩, ⟨m2, hm2, e2⟩⟩, hg⟩
      have a1 := (hgroup g hg m1 hm1).start_nonneg
      have a2 := (hgroup g hg m1 hm1).start_lt_end
      have a3 := (hgroup g hg m2 hm2).end_le
      have a4 := (hcov m1 hm1).2
      refine ⟨⟨rule.name, .simple p, .simple ⟨max 0 (p.lo - rule.nbhd), min (p.hi + rule.nbhd) r.len, .fwd⟩⟩, ?_,
        rfl, p, rfl, hcov, ⟨m1, hm1, e1⟩, ⟨m2, hm2, e2⟩, rfl⟩
      simp only [extendArea_line r hlin p rule.nbhd true, bind, Except.bind]
      exact mkPC_simple _ _ _ (by simp only; omega) (by simp only; omega))
    hpaired.with_mem_right
  refine ⟨groups, pcs, ?_, hpart, hp2⟩
  simp only [clustersOfRule, hfind, bind, Except.bind]
  exact hpcs

/-! ### circular records

  `InnerArc L d A B`: the arc `[A, B)` of the ring of length `L` keeps the distance `d` from the origin
  on both sides (`d ≤ A`, `B + d ≤ L`) and spans at most half of the ring (`2·(B − A) ≤ L`).
  `GeneIn L A B l`: `GeneOK` and the gene lies in `[A, B)`.  Under these hypotheses no window wraps, the
  cap of `_extend_area_location` does not bite and `connect_locations` never goes over the origin.
  The full statements (any position on the ring, origin-spanning anchors, chains closing over the origin
  through `merge_over_origin`) are `def`s below; what is missing for them is said in design/C03.md. -/

/-- the full ring statement (not proved): on every circular record the cores after
    `clustersOfRule` + `mergeOverOrigin` correspond to the maximal chains of the ring relation -/
def CoresAreChainsRing : Prop :=
  ∀ (r : Rec) (rules : List RuleM) (rule : RuleM) (anchors : List Gene), r.circular = true → rule ∈ rules →
    0 ≤ rule.cutoff → 0 ≤ rule.nbhd →
    (∀ g ∈ r.genes, g.loc.parts ≠ [] ∧ g.loc.Inside r.len) →
    ∃ found merged groups, clustersOfRule r rule anchors = .ok found ∧ Proto.mergeOverOrigin r rules found = .ok merged ∧
      IsChainPartition (fun a b => nearB r.len rule.cutoff a b = true)
        ((r.genes.filter fun g => anchors.contains g.id).map (·.loc)) groups ∧
      Paired (fun (pc : PC) g => ∀ m ∈ g, ∀ i, (spanLoc r.len m).mem i = true → pc.core.mem i = true) merged groups

/-- **Cores are the maximal chains (circular record, anchors in an inner arc)** — `_partial`: proved
    for anchoring genes inside an `InnerArc` for the rule's cutoff.  The chain relation is the *ring*
    relation `nearB r.len cutoff` (shorter way round); the conclusion is that of `cores_are_chains_linear`. -/
theorem cores_are_chains_ring_partial (r : Rec) (hcirc : r.circular = true) (c A B : Int)
    (harc : InnerArc r.len c A B) (hA : 0 ≤ A) (anchors : List Loc) (hne : anchors ≠ [])
    (hok : ∀ l ∈ anchors, GeneIn r.len A B l) :
    ∃ (groups : List (List Loc)) (cores : List Loc),
      findCores r c anchors = .ok cores ∧
      IsChainPartition (fun a b => nearB r.len c a b = true) anchors groups ∧
      Paired (fun core g => ∃ p, core = Loc.simple p ∧
        (∀ m ∈ g, p.lo ≤ m.start ∧ m.end ≤ p.hi) ∧ (∃ m ∈ g, m.start = p.lo) ∧ (∃ m ∈ g, m.end = p.hi))
        cores groups := by
  have hc := harc.dpos
  have hB : B ≤ r.len := by have := harc.right; omega
  obtain ⟨sorted, cores, hperm, hsorted, hfind, hmap, hsimple⟩ :=
    findCores_arc r c A B hc hA hB (flatOps_ring r hcirc c A B harc) anchors hne hok
  obtain ⟨hpart, hinv⟩ := sweep_is_chain_partition_of (fun a b => nearB r.len c a b = true) c hc anchors sorted
    hperm hsorted (fun l hl => (hok l hl).ok.start_lt_end)
    (fun a ha b hb => nearB_ring_inner_iff r.len c A B harc a b (hok a ha) (hok b hb))
  refine ⟨(sweep Loc.start Loc.end c sorted).map Grp.members, cores, hfind, hpart, ?_⟩
  refine Paired.map_right Grp.members ?_
  refine (paired_of_map_eq cores (sweep Loc.start Loc.end c sorted) hmap hsimple hinv).imp ?_
  rintro core g ⟨hiv, ⟨p, rfl⟩, hg⟩
  simp only [ivOf, Loc.start, Loc.end, Prod.mk.injEq] at hiv
  refine ⟨p, rfl, ?_, ?_, ?_⟩
  · intro m hm
    have h1 := hg.loMin m hm
    have h2 := hg.hiMax m hm
    omega
  · obtain ⟨m, hm, e⟩ := hg.loAtt
    exact ⟨m, hm, by omega⟩
  · obtain ⟨m, hm, e⟩ := hg.hiAtt
    exact ⟨m, hm, by omega⟩

/-- **The protoclusters of a rule (circular record, anchors in an inner arc)** — `_partial`: the arc keeps
    both the cutoff and the neighbourhood away from the origin.  Protoclusters ↔ maximal chains of the
    ring relation, core = smallest span, location = core widened by the neighbourhood on both sides. -/
theorem protoclusters_of_rule_ring_partial (r : Rec) (hcirc : r.circular = true) (rule : RuleM) (A B : Int)
    (harcC : InnerArc r.len rule.cutoff A B) (harcN : InnerArc r.len rule.nbhd A B) (hA : 0 ≤ A)
    (anchors : List Gene) (hne : (r.genes.filter fun g => anchors.contains g.id) ≠ [])
    (hok : ∀ g ∈ r.genes, anchors.contains g.id = true → GeneIn r.len A B g.loc) :
    ∃ (groups : List (List Loc)) (pcs : List PC),
      clustersOfRule r rule anchors = .ok pcs ∧
      IsChainPartition (fun a b => nearB r.len rule.cutoff a b = true)
        ((r.genes.filter fun g => anchors.contains g.id).map (·.loc)) groups ∧
      Paired (fun pc g => pc.rule = rule.name ∧ ∃ p, pc.core = Loc.simple p ∧
        (∀ m ∈ g, p.lo ≤ m.start ∧ m.end ≤ p.hi) ∧ (∃ m ∈ g, m.start = p.lo) ∧ (∃ m ∈ g, m.end = p.hi) ∧
        pc.loc = Loc.simple ⟨p.lo - rule.nbhd, p.hi + rule.nbhd, .fwd⟩)
        pcs groups := by
  have hok' : ∀ l ∈ (r.genes.filter fun g => anchors.contains g.id).map (·.loc), GeneIn r.len A B l := by
    intro l hl
    obtain ⟨g, hg, rfl⟩ := List.mem_map.1 hl
    simp only [List.mem_filter] at hg
    exact hok g hg.1 hg.2
  obtain ⟨groups, cores, hfind, hpart, hpaired⟩ :=
    cores_are_chains_ring_partial r hcirc rule.cutoff A B harcC hA _ (by simpa using hne) hok'
  have hgroup : ∀ g ∈ groups, ∀ m ∈ g, GeneIn r.len A B m := by
    intro g hg m hm
    apply hok'
    rw [← hpart.perm.mem_iff]
    simp only [List.mem_flatten]
    exact ⟨g, hg, hm⟩
  have hn := harcN.dpos; have hnl := harcN.left; have hnr := harcN.right
  obtain ⟨pcs, hpcs, hp2⟩ := mapM_paired
    (fun core => do
      let surrounds ← extendArea r core rule.nbhd true
      mkPC rule.name core surrounds)
    (S := fun (pc : PC) (g : List Loc) => pc.rule = rule.name ∧ ∃ p, pc.core = Loc.simple p ∧
        (∀ m ∈ g, p.lo ≤ m.start ∧ m.end ≤ p.hi) ∧ (∃ m ∈ g, m.start = p.lo) ∧ (∃ m ∈ g, m.end = p.hi) ∧
        pc.loc = Loc.simple ⟨p.lo - rule.nbhd, p.hi + rule.nbhd, .fwd⟩)
    (by
      rintro core g ⟨⟨p, rfl, hcov, ⟨m1, hm1, e1⟩, ⟨m2, hm2, e2⟩⟩, hg⟩
      have a1 := (hgroup g hg m1 hm1).lo
      have a2 := (hgroup g hg m1 hm1).ok.start_lt_end
      have a3 := (hgroup g hg m2 hm2).hi
      have a4 := (hcov m1 hm1).2
      have e3 : max 0 (p.lo - rule.nbhd) = p.lo - rule.nbhd := by omega
      have e4 : min (p.hi + rule.nbhd) r.len = p.hi + rule.nbhd := by omega
      refine ⟨⟨rule.name, .simple p, .simple ⟨p.lo - rule.nbhd, p.hi + rule.nbhd, .fwd⟩⟩, ?_,
        rfl, p, rfl, hcov, ⟨m1, hm1, e1⟩, ⟨m2, hm2, e2⟩, rfl⟩
      simp only [extendArea_ring_inner r hcirc A B rule.nbhd harcN p (by omega) (by omega) (by omega) true, e3, e4,
        bind, Except.bind]
      exact mkPC_simple _ _ _ (by simp only; omega) (by simp only; omega))
    hpaired.with_mem_right
  refine ⟨groups, pcs, ?_, hpart, hp2⟩
  simp only [clustersOfRule, hfind, bind, Except.bind]
  exact hpcs

/-- **Cores are the maximal chains (circular record, anchors in a wide arc)** — `_partial`, but with a much
    weaker hypothesis than `cores_are_chains_ring_partial`: `WideArc L c A B` only asks that the arc `[A, B)`
    lies in the record, that arc and cutoff together fit into it (`(B − A) + c ≤ L`) and that the arc is at
    most half of it.  The arc may touch the origin on either side, the cutoff window of a core may wrap over
    the origin or be capped to the whole record; only a chain that itself crosses the origin (or an
    origin-spanning anchor) is still excluded.  Chain relation: the ring relation `nearB r.len c`. -/
theorem cores_are_chains_ring_wide_partial (r : Rec) (hcirc : r.circular = true) (c A B : Int)
    (harc : WideArc r.len c A B) (anchors : List Loc) (hne : anchors ≠ [])
    (hok : ∀ l ∈ anchors, GeneIn r.len A B l) :
    ∃ (groups : List (List Loc)) (cores : List Loc),
      findCores r c anchors = .ok cores ∧
      IsChainPartition (fun a b => nearB r.len c a b = true) anchors groups ∧
      Paired (fun core g => ∃ p, core = Loc.simple p ∧
        (∀ m ∈ g, p.lo ≤ m.start ∧ m.end ≤ p.hi) ∧ (∃ m ∈ g, m.start = p.lo) ∧ (∃ m ∈ g, m.end = p.hi))
        cores groups := by
  have hc := harc.cpos
  obtain ⟨sorted, cores, hperm, hsorted, hfind, hmap, hsimple⟩ :=
    findCores_arcW r c A B hc harc.lo harc.hi (arcOps_ring_wide r hcirc c A B harc) anchors hne hok
  obtain ⟨hpart, hinv⟩ := sweep_is_chain_partition_of (fun a b => nearB r.len c a b = true) c hc anchors sorted
    hperm hsorted (fun l hl => (hok l hl).ok.start_lt_end)
    (fun a ha b hb => nearB_ring_wide_iff r.len c A B harc a b (hok a ha) (hok b hb))
  refine ⟨(sweep Loc.start Loc.end c sorted).map Grp.members, cores, hfind, hpart, ?_⟩
  refine Paired.map_right Grp.members ?_
  refine (paired_of_map_eq cores (sweep Loc.start Loc.end c sorted) hmap hsimple hinv).imp ?_
  rintro core g ⟨hiv, ⟨p, rfl⟩, hg⟩
  simp only [ivOf, Loc.start, Loc.end, Prod.mk.injEq] at hiv
  refine ⟨p, rfl, ?_, ?_, ?_⟩
  · intro m hm
    have h1 := hg.loMin m hm
    have h2 := hg.hiMax m hm
    omega
  · obtain ⟨m, hm, e⟩ := hg.loAtt
    exact ⟨m, hm, by omega⟩
  · obtain ⟨m, hm, e⟩ := hg.hiAtt
    exact ⟨m, hm, by omega⟩

/-- … and consecutive cores are at least the cutoff apart as spans: every later core starts at least `c`
    positions after every earlier core ends (linear record, and circular record with the anchors in a wide
    arc) — the separation `merge_over_origin` relies on to leave them alone -/
theorem cores_apart_linear (r : Rec) (hlin : r.circular = false) (c : Int) (hc : 0 ≤ c)
    (anchors : List Loc) (hne : anchors ≠ []) (hok : ∀ l ∈ anchors, GeneOK r.len l) :
    ∃ cores, findCores r c anchors = .ok cores ∧ cores.Pairwise (fun a b => a.end + c ≤ b.start) := by
  obtain ⟨sorted, cores, _, hsorted, hfind, hmap, _⟩ := findCores_line r hlin c hc anchors hne hok
  refine ⟨cores, hfind, ?_⟩
  have := sweep_hulls_apart c sorted hsorted
  rw [← hmap, List.pairwise_map] at this
  exact this

theorem cores_apart_ring_wide_partial (r : Rec) (hcirc : r.circular = true) (c A B : Int)
    (harc : WideArc r.len c A B) (anchors : List Loc) (hne : anchors ≠ [])
    (hok : ∀ l ∈ anchors, GeneIn r.len A B l) :
    ∃ cores, findCores r c anchors = .ok cores ∧ cores.Pairwise (fun a b => a.end + c ≤ b.start) := by
  obtain ⟨sorted, cores, _, hsorted, hfind, hmap, _⟩ :=
    findCores_arcW r c A B harc.cpos harc.lo harc.hi (arcOps_ring_wide r hcirc c A B harc) anchors hne hok
  refine ⟨cores, hfind, ?_⟩
  have := sweep_hulls_apart c sorted hsorted
  rw [← hmap, List.pairwise_map] at this
  exact this

/-- **The protoclusters of a rule (circular record, anchors in a wide arc)** — `_partial` only through
    `WideArc` for the *cutoff*; the neighbourhood is any non-negative distance: the location is
    `_extend_area_location`'s closed form — the core widened by `min(nbhd, (L − len)/2 + 1)` on both sides,
    wrapped over the origin or the whole record when the two ends meet — a well-formed area containing
    exactly the bases within that distance of the core, the shorter way round. -/
theorem protoclusters_of_rule_ring_wide_partial (r : Rec) (hcirc : r.circular = true) (rule : RuleM) (A B : Int)
    (harc : WideArc r.len rule.cutoff A B) (hn : 0 ≤ rule.nbhd)
    (anchors : List Gene) (hne : (r.genes.filter fun g => anchors.contains g.id) ≠ [])
    (hok : ∀ g ∈ r.genes, anchors.contains g.id = true → GeneIn r.len A B g.loc) :
    ∃ (groups : List (List Loc)) (pcs : List PC),
      clustersOfRule r rule anchors = .ok pcs ∧
      IsChainPartition (fun a b => nearB r.len rule.cutoff a b = true)
        ((r.genes.filter fun g => anchors.contains g.id).map (·.loc)) groups ∧
      Paired (fun pc g => pc.rule = rule.name ∧ ∃ p, pc.core = Loc.simple p ∧
        (∀ m ∈ g, p.lo ≤ m.start ∧ m.end ≤ p.hi) ∧ (∃ m ∈ g, m.start = p.lo) ∧ (∃ m ∈ g, m.end = p.hi) ∧
        RingArea r.len pc.loc ∧
        ∀ i, pc.loc.mem i = true ↔ (0 ≤ i ∧ i < r.len ∧ ∃ j, p.mem j = true ∧
          ringAbs r.len i j ≤ min rule.nbhd ((r.len - (p.hi - p.lo)) / 2 + 1)))
        pcs groups := by
  have hok' : ∀ l ∈ (r.genes.filter fun g => anchors.contains g.id).map (·.loc), GeneIn r.len A B l := by
    intro l hl
    obtain ⟨g, hg, rfl⟩ := List.mem_map.1 hl
    simp only [List.mem_filter] at hg
    exact hok g hg.1 hg.2
  obtain ⟨groups, cores, hfind, hpart, hpaired⟩ :=
    cores_are_chains_ring_wide_partial r hcirc rule.cutoff A B harc _ (by simpa using hne) hok'
  have hgroup : ∀ g ∈ groups, ∀ m ∈ g, GeneIn r.len A B m := by
    intro g hg m hm
    apply hok'
    rw [← hpart.perm.mem_iff]
    simp only [List.mem_flatten]
    exact ⟨g, hg, hm⟩
  have hlo := harc.lo; have hhi := harc.hi
  obtain ⟨pcs, hpcs, hp2⟩ := mapM_paired
    (fun core => do
      let surrounds ← extendArea r core rule.nbhd true
      mkPC rule.name core surrounds)
    (S := fun (pc : PC) (g : List Loc) => pc.rule = rule.name ∧ ∃ p, pc.core = Loc.simple p ∧
        (∀ m ∈ g, p.lo ≤ m.start ∧ m.end ≤ p.hi) ∧ (∃ m ∈ g, m.start = p.lo) ∧ (∃ m ∈ g, m.end = p.hi) ∧
        RingArea r.len pc.loc ∧
        ∀ i, pc.loc.mem i = true ↔ (0 ≤ i ∧ i < r.len ∧ ∃ j, p.mem j = true ∧
          ringAbs r.len i j ≤ min rule.nbhd ((r.len - (p.hi - p.lo)) / 2 + 1)))
    (by
      rintro core g ⟨⟨p, rfl, hcov, ⟨m1, hm1, e1⟩, ⟨m2, hm2, e2⟩⟩, hg⟩
      have a1 := (hgroup g hg m1 hm1).lo
      have a2 := (hgroup g hg m1 hm1).ok.start_lt_end
      have a3 := (hgroup g hg m2 hm2).hi
      have a4 := (hcov m1 hm1).2
      have hL : 0 < r.len := harc.Lpos (by omega)
      have hd0 : 0 ≤ min rule.nbhd ((r.len - (p.hi - p.lo)) / 2 + 1) := by omega
      have hdL : min rule.nbhd ((r.len - (p.hi - p.lo)) / 2 + 1) ≤ r.len := by omega
      have harea := (extSimpleRing_area p.lo p.hi _ r.len hL (by omega) (by omega) (by omega) hd0 hdL).1
      refine ⟨⟨rule.name, .simple p, extSimpleRing ⟨p.lo, p.hi, .fwd⟩ (min rule.nbhd ((r.len - (p.hi - p.lo)) / 2 + 1)) r.len⟩,
        ?_, rfl, p, rfl, hcov, ⟨m1, hm1, e1⟩, ⟨m2, hm2, e2⟩, harea, ?_⟩
      · simp only [extendArea_ring_simple r hcirc hL p rule.nbhd (by omega) (by omega) (by omega) hn true, bind, Except.bind]
        exact mkPC_simple_area _ _ r.len _ harea
      · intro i
        rw [extSimpleRing_mem ⟨p.lo, p.hi, .fwd⟩ _ r.len (by simp only; omega) (by simp only; omega) (by simp only; omega) hd0 i]
        simp [Part.mem_iff])
    hpaired.with_mem_right
  refine ⟨groups, pcs, ?_, hpart, hp2⟩
  simp only [clustersOfRule, hfind, bind, Except.bind]
  exact hpcs

/-- **`merge_over_origin` leaves the wide-arc protoclusters alone** — so `protoclusters_of_rule_ring_wide_partial`
    speaks about what comes out of the merge stage as well: for anchoring genes in a wide arc of a circular
    record, the protoclusters of the rule are formed as stated there, and `merge_over_origin` applied to them
    returns exactly these protoclusters (a permutation: it sorts them by the start of the cutoff-widened core). -/
theorem merge_is_identity_ring_wide_partial (r : Rec) (hcirc : r.circular = true) (rules : List RuleM) (rule : RuleM)
    (hfind : findRule rules rule.name = .ok rule) (A B : Int)
    (harc : WideArc r.len rule.cutoff A B) (hn : 0 ≤ rule.nbhd)
    (anchors : List Gene) (hne : (r.genes.filter fun g => anchors.contains g.id) ≠ [])
    (hok : ∀ g ∈ r.genes, anchors.contains g.id = true → GeneIn r.len A B g.loc) :
    ∃ (pcs merged : List PC),
      clustersOfRule r rule anchors = .ok pcs ∧
      Proto.mergeOverOrigin r rules pcs = .ok merged ∧ merged.Perm pcs := by
  obtain ⟨groups, pcs, hpcs, hpart, hpaired⟩ :=
    protoclusters_of_rule_ring_wide_partial r hcirc rule A B harc hn anchors hne hok
  have hok' : ∀ l ∈ (r.genes.filter fun g => anchors.contains g.id).map (·.loc), GeneIn r.len A B l := by
    intro l hl
    obtain ⟨g, hg, rfl⟩ := List.mem_map.1 hl
    simp only [List.mem_filter] at hg
    exact hok g hg.1 hg.2
  have hgroup : ∀ g ∈ groups, ∀ m ∈ g, GeneIn r.len A B m := by
    intro g hg m hm
    apply hok'
    rw [← hpart.perm.mem_iff]
    simp only [List.mem_flatten]
    exact ⟨g, hg, hm⟩
  -- every core is a single span inside the arc
  have hin : ∀ pc ∈ pcs, CoreIn A B rule.name pc := by
    intro pc hpc
    obtain ⟨g, hg, hname, p, hp, hcov, ⟨m1, hm1, e1⟩, ⟨m2, hm2, e2⟩, _⟩ := Proto.Paired.forall_left hpaired pc hpc
    have a1 := (hgroup g hg m1 hm1).lo
    have a2 := (hgroup g hg m1 hm1).ok.start_lt_end
    have a3 := (hgroup g hg m2 hm2).hi
    have a4 := (hcov m1 hm1).2
    exact ⟨hname, p, hp, by omega, by omega, by omega⟩
  -- and the cores are at least the cutoff apart
  obtain ⟨cores, hcores, hapart⟩ := cores_apart_ring_wide_partial r hcirc rule.cutoff A B harc _ (by simpa using hne) hok'
  have hc2 := clustersOfRule_cores r rule anchors pcs hpcs
  rw [hcores] at hc2
  simp only [Except.ok.injEq] at hc2
  subst hc2
  rw [List.pairwise_map] at hapart
  obtain ⟨merged, hm, hperm⟩ := mergeOverOrigin_id_wide r hcirc rules rule hfind A B harc pcs hin
    (hapart.imp (fun h => Or.inl h))
  exact ⟨pcs, merged, hpcs, hm, hperm⟩

/-- **The cutoff window of an origin-spanning core** (lemma (i) of the missing list, for two-part cores).  On a
    circular record, for a core `[x, L) + [0, y)` (`0 < y ≤ x < L`, forward strand — the shape
    `connect_locations` returns) and any distance `c ≥ 0`: `_extend_area_location(core, c)` succeeds; the distance
    is capped at `(x − y)/2 + 1` (half of what the core leaves free, plus one); the result is a well-formed area
    containing exactly the bases within that distance of the core the shorter way round (the whole record as
    soon as the two ends pass each other); and a gene shares a base with it — `find_protoclusters`' test for
    joining the gene to the core — iff one of its bases is that close to a base of the core. -/
theorem cutoff_window_origin_spanning_core (r : Rec) (hcirc : r.circular = true) (x y c : Int) (hy0 : 0 < y)
    (hyx : y ≤ x) (hxL : x < r.len) (hc : 0 ≤ c) :
    ∃ W, extendArea r (areaTwo x y r.len .fwd) c false = .ok W ∧ RingArea r.len W ∧
      (∀ i, W.mem i = true ↔ (0 ≤ i ∧ i < r.len ∧
        ∃ j, (areaTwo x y r.len .fwd).mem j = true ∧ ringAbs r.len i j ≤ min c ((x - y) / 2 + 1))) ∧
      ∀ g : Loc, g.PartsNonEmpty → (locationsOverlap g W = true ↔
        ∃ i j, g.mem i = true ∧ 0 ≤ i ∧ i < r.len ∧ (areaTwo x y r.len .fwd).mem j = true ∧
          ringAbs r.len i j ≤ min c ((x - y) / 2 + 1)) :=
  window_two_part r hcirc x y c hy0 hyx hxL hc

/-- **The protocluster of an origin-spanning core** — for a core `[x, L) + [0, y)` on a circular record and any
    neighbourhood `n ≥ 0`: `_extend_area_location(core, n, force_cross_origin=True)` and the `Protocluster`
    constructor both succeed (no `ValueError` "a core location crossing the origin requires the surrounding area
    to also cross the origin", no failed assertion); the location is `nbhdTwo` — both ends moved by
    `min(n, (x − y)/2 + 1)`, or, once they would pass each other, the split `[mid, L) + [0, max(y, mid − 1))` with
    `mid = (x − y)/2 + y` (D35) — it spans the origin, is a well-formed area and covers every base of the core. -/
theorem protocluster_of_origin_spanning_core (r : Rec) (hcirc : r.circular = true) (rule : String) (x y n : Int)
    (hy0 : 0 < y) (hyx : y ≤ x) (hxL : x < r.len) (hn : 0 ≤ n) :
    ∃ W, extendArea r (areaTwo x y r.len .fwd) n true = .ok W ∧
      W = nbhdTwo x y (min n ((x - y) / 2 + 1)) r.len ∧
      mkPC rule (areaTwo x y r.len .fwd) W = .ok ⟨rule, areaTwo x y r.len .fwd, W⟩ ∧
      RingArea r.len W ∧ bridgesOrigin W = true ∧ Covers W (areaTwo x y r.len .fwd) := by
  obtain ⟨W, h1, h2, h3, h4, h5⟩ := protocluster_two_part r hcirc rule x y n hy0 hyx hxL hn
  have : W = nbhdTwo x y (min n ((x - y) / 2 + 1)) r.len := by
    have := extendArea_ring_two_force r hcirc x y n hy0 hyx hxL hn
    rw [h1] at this; cases this; rfl
  exact ⟨W, h1, this, h2, h3, h4, h5⟩

/-- **Chains are never split, on any circular record** (`_partial` with respect to `CoresAreChainsRing`:
    this is its "maximal" half, without any restriction on positions, origin-spanning anchors or chain
    lengths; the "each core is one chain and the smallest span of it" half is proved only under
    `InnerArc`, see above).  For every circular record whose anchoring genes are valid ring locations
    (`RingIn`: exons non-empty and inside the record, origin-bridging genes splittable), whenever the
    protoclusters of a rule have been formed and merged over the origin:
      * every resulting core is a well-formed area of that rule;
      * every anchoring gene of the rule lies inside the core of one of them;
      * any two of them are further apart than the cutoff, measured the shorter way round the ring —
        so genes in different protoclusters are never within the cutoff of each other, also across the
        origin. -/
theorem ring_chains_not_split_partial (r : Rec) (hcirc : r.circular = true) (hL : 0 < r.len) (rules : List RuleM)
    (hrules : ∀ name rule, findRule rules name = .ok rule → 0 ≤ rule.cutoff ∧ rule.cutoff ≤ r.len)
    (rule : RuleM) (hfind : findRule rules rule.name = .ok rule) (anchors : List Gene)
    (hin : ∀ g ∈ r.genes, anchors.contains g.id = true → RingIn r.len g.loc)
    (found merged : List PC) (hfound : clustersOfRule r rule anchors = .ok found)
    (hmerged : Proto.mergeOverOrigin r rules found = .ok merged) :
    (∀ q ∈ merged, q.rule = rule.name ∧ RingArea r.len q.core) ∧
    (∀ g ∈ r.genes, anchors.contains g.id = true → ∃ q ∈ merged, Covers q.core g.loc) ∧
    merged.Pairwise (fun p q => FarApart r.len rule.cutoff p.core q.core) := by
  replace hfound : (findCores r rule.cutoff ((r.genes.filter fun g => anchors.contains g.id).map (·.loc)) >>= fun cores =>
      cores.mapM (fun core => do
        let surrounds ← extendArea r core rule.nbhd true
        mkPC rule.name core surrounds)) = .ok found := hfound
  cases hc : findCores r rule.cutoff ((r.genes.filter fun g => anchors.contains g.id).map (·.loc)) with
  | error e => rw [hc] at hfound; cases hfound
  | ok cores =>
    rw [hc] at hfound
    replace hfound : cores.mapM (fun core => do
        let surrounds ← extendArea r core rule.nbhd true
        mkPC rule.name core surrounds) = .ok found := hfound
    obtain ⟨c1, c2⟩ := findCores_ring_cover r hcirc hL rule.cutoff _ cores
      (by intro a ha
          obtain ⟨g, hg, rfl⟩ := List.mem_map.1 ha
          simp only [List.mem_filter] at hg
          exact hin g hg.1 hg.2) hc
    have hpc : ∀ pc ∈ found, pc.rule = rule.name ∧ pc.core ∈ cores := by
      intro pc hpc
      obtain ⟨core, hcore, hf⟩ := mapM_ok_mem _ cores found hfound pc hpc
      cases he : extendArea r core rule.nbhd true with
      | error e => simp [he, bind, Except.bind] at hf
      | ok s =>
        simp only [he, bind, Except.bind] at hf
        have := mkPC_ok hf
        subst this
        exact ⟨rfl, hcore⟩
    have hcore : ∀ core ∈ cores, ∃ pc ∈ found, pc.core = core := by
      intro core hcore
      obtain ⟨pc, hpcm, hf⟩ := mapM_ok_mem' _ cores found hfound core hcore
      cases he : extendArea r core rule.nbhd true with
      | error e => simp [he, bind, Except.bind] at hf
      | ok s =>
        simp only [he, bind, Except.bind] at hf
        have := mkPC_ok hf
        subst this
        exact ⟨_, hpcm, rfl⟩
    obtain ⟨m1, m2, m3⟩ := mergeOverOrigin_ring r hcirc hL rules hrules found merged
      (fun pc hpcm => c1 _ (hpc pc hpcm).2) hmerged
    have hrule : ∀ q ∈ merged, q.rule = rule.name := by
      intro q hq
      obtain ⟨_, pc, hpcm, e⟩ := m1 q hq
      rw [e]; exact (hpc pc hpcm).1
    refine ⟨fun q hq => ⟨hrule q hq, (m1 q hq).1⟩, ?_, ?_⟩
    · intro g hg hanc
      obtain ⟨k, hk, hcov⟩ := c2 g.loc (List.mem_map.2 ⟨g, List.mem_filter.2 ⟨hg, hanc⟩, rfl⟩)
      obtain ⟨pc, hpcm, rfl⟩ := hcore k hk
      obtain ⟨q, hq, _, hcq⟩ := m3 pc hpcm
      exact ⟨q, hq, hcq.trans hcov⟩
    · refine List.Pairwise.imp_of_mem ?_ m2
      intro p q hp hq hpq
      exact hpq ((hrule p hp).trans (hrule q hq).symm) rule (by rw [hrule p hp]; exact hfind)

/-- **The reported protoclusters on any circular record** (end to end, through extenders, superiors and
    both merges): whenever `detect_protoclusters_and_signatures` returns on a circular record whose genes
    are valid ring locations, every reported core is a well-formed area, and two reported protoclusters of
    the same rule are further apart than that rule's cutoff, the shorter way round the ring — no chain
    is ever reported in two pieces, wherever the origin lies.  (`within` is arbitrary here.) -/
theorem reported_protoclusters_far_apart_ring (within : Lookup) (r : Rec) (hcirc : r.circular = true) (hL : 0 < r.len)
    (rules : List RuleM)
    (hrules : ∀ name rule, findRule rules name = .ok rule → 0 ≤ rule.cutoff ∧ rule.cutoff ≤ r.len)
    (hgenes : ∀ g ∈ r.genes, RingIn r.len g.loc) (outs : List Out)
    (h : detectProtoclusters within r rules = .ok outs) :
    (∀ o ∈ outs, RingArea r.len o.pc.core) ∧
    (outs.map (·.pc)).Pairwise (fun p q => p.rule = q.rule → ∀ rule, findRule rules p.rule = .ok rule →
      FarApart r.len rule.cutoff p.core q.core) := by
  simp only [detectProtoclusters, bind, Except.bind] at h
  cases hs : detectStages within r rules with
  | error e => simp [hs] at h
  | ok s =>
    simp only [hs, pure, Except.pure, Except.ok.injEq] at h
    subst h
    exact detectStages_ring within r hcirc hL rules hrules hgenes s hs

/-- **The per-cutoff cache is transparent** (after the repair of D1): walking the rules of one gene
    with `info_by_range` gives exactly what recomputing the nearby genes for every rule gives, for
    every ruleset — any number of rules, any mixture and order of cutoffs. -/
theorem cache_is_transparent (within : Lookup) (r : Rec) (g : GeneInfo) (rules : List RuleM) :
    evalRulesCached within r g [] rules = evalRulesDirect within r g rules :=
  evalRulesCached_eq within r g rules [] (by intro c ni hc; simp [List.lookup] at hc)

/-- **The anchoring genes of a rule.**  A gene is put into `cluster_type_hits[rule]` exactly when it
    is a gene with hits at which the rule fires in the environment of its own cutoff window (formula
    met with a reason profile — C01 `anchors_iff` relates this to the documented formula), or an
    ancillary gene reported by such a gene. -/
theorem anchor_set (within : Lookup) (r : Rec) (rules : List RuleM) (res : RuleResults)
    (h : ruleResults within r rules = .ok res) (name : String) (g : Gene) :
    g ∈ hitsFor res name ↔
      ∃ gene ∈ r.genes, gene.hasRes = true ∧ ∃ rule ∈ rules, rule.name = name ∧
        ∃ ni, nearInfo within r gene rule.cutoff = .ok ni ∧
          anchors (envOf ni rule.cutoff) gene.id rule.cond = true ∧
          (g = gene.id ∨ g ∈ (detect (envOf ni rule.cutoff) gene.id rule.cond).ancillary.map (·.1)) := by
  obtain ⟨hmem, hall⟩ := ruleResults_mem within r rules res h
  rw [mem_hitsFor]
  constructor
  · rintro ⟨x, hx, y, hy, hname, hf, hg⟩
    obtain ⟨hx1, hx2, hx3⟩ := hmem x hx
    obtain ⟨rule, hr, ni, hni, rfl⟩ := (evalRulesDirect_mem within r x.1 rules x.2 hx3).1 y hy
    exact ⟨x.1, hx1, hx2, rule, hr, hname, ni, hni, hf, hg⟩
  · rintro ⟨gene, hgene, hres, rule, hr, hname, ni, hni, hf, hg⟩
    obtain ⟨x, hx, rfl⟩ := hall gene hgene hres
    obtain ⟨_, _, hx3⟩ := hmem x hx
    exact ⟨x, hx, _, (evalRulesDirect_mem within r x.1 rules x.2 hx3).2 rule hr ni hni, hname, hf, hg⟩

/-- … and every ancillary gene is a *different* gene of the window, closer than the cutoff to the
    firing gene, carrying the profile it is listed with (C01 `ancillary_sound` in this environment). -/
theorem ancillary_within_cutoff (ni : NearInfo) (c : Int)
    (hres : ∀ x ∈ ni.nearby, x.hits ≠ [] → x.hasRes = true) (g : Gene) (cond : Cond) (x : Gene × Prof)
    (hx : x ∈ (detect (envOf ni c) g cond).ancillary) :
    x.1 ≠ g ∧ (∃ y ∈ ni.nearby, y.id = x.1) ∧ (envOf ni c).dist g x.1 < c ∧ (envOf ni c).has x.1 x.2 = true := by
  obtain ⟨hnear, hhas, _⟩ := evalC_anc (envOf ni c) (envOf_wf ni c hres) g false cond x hx
  simp only [Env.near, List.mem_filter, Bool.and_eq_true, bne_iff_ne, ne_eq, Env.inRange, decide_eq_true_eq] at hnear
  obtain ⟨hg, hne, hd⟩ := hnear
  refine ⟨hne, ?_, hd, hhas⟩
  simp only [envOf, Env.ofLocs, List.mem_map] at hg
  exact hg

/-- **EXTENDERS: the admitted genes are determined by the walk rules**, and `Chains.specWalk` (what the
    driver evaluates on the implementation's output) computes them: it satisfies `ExtWalk`, and any list
    satisfying `ExtWalk` equals it. -/
theorem extenders_walk_determined (c : Int) (dist : GeneInfo → GeneInfo → Int) (ext inCore : GeneInfo → Bool)
    (ref : GeneInfo) (w : List GeneInfo) :
    ExtWalk c dist ext inCore ref w (specWalk c dist ext inCore ref w) ∧
    ∀ a, ExtWalk c dist ext inCore ref w a → a = specWalk c dist ext inCore ref w :=
  ⟨specWalk_sound c dist ext inCore w ref, fun _ h => ExtWalk.unique h⟩

/-- **EXTENDERS (linear record)** — "plus any genes admitted by the rule's EXTENDERS clause".  For every
    linear record whose genes satisfy `GeneOK`, every protocluster with a single-span core, and every
    rule whose EXTENDERS clause is in the documented grammar: `apply_extenders` succeeds on it; the genes
    it joins to the core are exactly those the walk rules admit — on the low side starting from the
    first gene inside the core over the genes before the core (nearest first), on the high side starting
    from the last gene inside the core over the genes after it, a gene being admitted iff it satisfies
    the clause by its documented meaning (`extOK`, C01 `sem` at the gene alone) and lies within the cutoff
    (`≤`, set-of-bases distance) of the previously admitted gene / the starting gene, the walk ending at
    the first gene further away; the new core is the smallest span covering the old core and the admitted
    genes; and the protocluster is that core widened by the rule's neighbourhood, clipped at the record ends.
    (`hfirst`/`hlast`/`hsub` are what C08 establishes for `get_cds_features_within_location`.) -/
theorem extenders_linear (within : Lookup) (r : Rec) (hlin : r.circular = false) (rules : List RuleM)
    (pc : PC) (rule : RuleM) (hrule : findRule rules pc.rule = .ok rule) (hn : 0 ≤ rule.nbhd)
    (hext : ∀ c, rule.extenders = some c → c.WF = true)
    (p : Part) (hcore : pc.core = .simple p) (h0 : 0 ≤ p.lo) (h1 : p.lo < p.hi) (h2 : p.hi ≤ r.len)
    (hgenes : ∀ g ∈ r.genes, GeneOK r.len g.loc)
    (first last : GeneInfo) (hfirst : (within pc.core false).head? = some first)
    (hlast : (within pc.core false).getLast? = some last) (hsub : ∀ g ∈ within pc.core false, g ∈ r.genes) :
    ∃ back forw q1 q2 doms,
      ExtWalk rule.cutoff (fun a b => specDistFull 0 a.loc b.loc) (extOK rule)
        (fun g => locationContainsOther pc.core g.loc) first (walkBack r pc.core) back ∧
      (q1.lo, q1.hi) = hullIv (pc.core :: back.map (·.loc)) ∧
      ExtWalk rule.cutoff (fun a b => specDistFull 0 a.loc b.loc) (extOK rule)
        (fun g => locationContainsOther (.simple q1) g.loc) last (walkForward r pc.core) forw ∧
      (q2.lo, q2.hi) = hullIv (Loc.simple q1 :: forw.map (·.loc)) ∧
      extendCluster within r rules pc =
        .ok (⟨rule.name, .simple q2, .simple ⟨max 0 (q2.lo - rule.nbhd), min (q2.hi + rule.nbhd) r.len, .fwd⟩⟩, doms) :=
  extendCluster_line within r hlin rules pc rule hrule hn hext p hcore h0 h1 h2 hgenes first last hfirst hlast hsub

/-- **EXTENDERS (circular record)** — `_partial`: conditional on `apply_extenders` returning for the
    protocluster, and "covers" instead of "smallest span" (see design/C03.md).  On any circular record whose
    genes are valid ring locations, for a protocluster with an area core and a rule whose EXTENDERS clause is
    in the documented grammar: the genes joined to the core are exactly those the walk rules admit when the
    walk goes on round the ring — backwards from the first gene inside the core over the genes before it
    nearest first and then on from the end of the record, forwards from the last gene inside it and then
    on from the start — with distances measured the shorter way round (`≤ cutoff`); the new core is the
    `connect_locations` span of the old core and the admitted genes, a well-formed area that covers the
    old core and every admitted gene. -/
theorem extenders_ring_partial (within : Lookup) (r : Rec) (hcirc : r.circular = true) (hL : 0 < r.len)
    (rules : List RuleM) (hgenes : ∀ g ∈ r.genes, RingIn r.len g.loc) (pc pc' : PC) (d : Doms)
    (harea : RingArea r.len pc.core) (hsub : ∀ g ∈ within pc.core false, g ∈ r.genes)
    (rule : RuleM) (hrule : findRule rules pc.rule = .ok rule) (hext : ∀ c, rule.extenders = some c → c.WF = true)
    (h : extendCluster within r rules pc = .ok (pc', d)) :
    ∃ first last back forw core1,
      (within pc.core false).head? = some first ∧ (within pc.core false).getLast? = some last ∧
      ExtWalk rule.cutoff (fun a b => specDistFull r.len a.loc b.loc) (extOK rule)
        (fun g => locationContainsOther pc.core g.loc) first (walkBackRing r pc.core) back ∧
      joinRing r pc.core back = some core1 ∧
      ExtWalk rule.cutoff (fun a b => specDistFull r.len a.loc b.loc) (extOK rule)
        (fun g => locationContainsOther core1 g.loc) last (walkForwardRing r pc.core) forw ∧
      joinRing r core1 forw = some pc'.core ∧
      RingArea r.len pc'.core ∧ Covers pc'.core pc.core ∧ ∀ g ∈ back ++ forw, Covers pc'.core g.loc :=
  extendCluster_ring within r hcirc hL rules hgenes pc pc' d harea hsub rule hrule hext h

/-- **EXTENDERS on a ring: the call returns** (`_partial`: all genes of the circular record lie in a wide arc
    for the rule's cutoff, the core is a single span of that arc, and the lookup finds at least one gene
    inside the core) — `apply_extenders` then returns for the protocluster: no `ValueError`, no failed
    assertion, no `IndexError`; together with `extenders_ring_partial` this gives what it returns.  Still open:
    totality when genes or the core lie across the origin (two-part cores). -/
theorem extenders_ring_total_wide_partial (within : Lookup) (r : Rec) (hcirc : r.circular = true) (rules : List RuleM)
    (pc : PC) (rule : RuleM) (hrule : findRule rules pc.rule = .ok rule) (hn : 0 ≤ rule.nbhd) (A B : Int)
    (harc : WideArc r.len rule.cutoff A B) (hgenes : ∀ g ∈ r.genes, GeneIn r.len A B g.loc)
    (p : Part) (hcore : pc.core = .simple p) (h0 : A ≤ p.lo) (h1 : p.lo < p.hi) (h2 : p.hi ≤ B)
    (hne : within pc.core false ≠ []) :
    ∃ pc' d, extendCluster within r rules pc = .ok (pc', d) :=
  extendCluster_total_wide within r hcirc rules pc rule hrule hn A B harc hgenes p hcore h0 h1 h2 hne

/-- **Superiors: exact characterisation of the implementation.**  Whenever the redundancy test of a
    protocluster `pc` returns, it returns `true` exactly when, for one of the superiors of `pc`'s rule,
    some protocluster `o` of that superior either has a core containing `pc`'s core, or its first/last
    core genes interleave with `pc`'s in gene order (`Removes`). -/
theorem redundant_iff (within : Lookup) (rules : List RuleM) (clusters : List PC) (pc : PC) (b : Bool)
    (h : isRedundant within rules clusters pc = .ok b) :
    ∃ first last rule, firstLast within pc = .ok (first, last) ∧ findRule rules pc.rule = .ok rule ∧
      (b = true ↔ ∃ s ∈ rule.superiors, ∃ o ∈ clusters, o.rule = s ∧ Removes within pc first last o) := by
  simp only [isRedundant, bind, Except.bind] at h
  cases hfl : firstLast within pc with
  | error e => simp [hfl] at h
  | ok fl =>
    obtain ⟨first, last⟩ := fl
    simp only [hfl] at h
    cases hr : findRule rules pc.rule with
    | error e => simp [hr] at h
    | ok rule =>
      simp only [hr] at h
      exact ⟨first, last, rule, rfl, rfl, redundantOuter_spec within clusters pc first last rule.superiors b h⟩

/-- **… is dropped when a superior covers its core** (the property's "when"): if the core of some
    protocluster of a superior rule contains the core of `pc`, the redundancy test says `true`. -/
theorem covered_implies_dropped (within : Lookup) (rules : List RuleM) (clusters : List PC) (pc : PC) (b : Bool)
    (h : isRedundant within rules clusters pc = .ok b) (rule : RuleM) (hr : findRule rules pc.rule = .ok rule)
    (o : PC) (ho : o ∈ clusters) (hs : o.rule ∈ rule.superiors)
    (hcov : locationContainsOther o.core pc.core = true) : b = true := by
  obtain ⟨first, last, rule', _, hr', hiff⟩ := redundant_iff within rules clusters pc b h
  rw [hr] at hr'; cases hr'
  exact hiff.2 ⟨o.rule, hs, o, ho, rfl, Or.inl hcov⟩

/-- **… also on a ring, with cores read as sets of bases** (`_partial`: the covering core must not be the
    whole ring written as two touching parts `[a, L) + [0, a)`, for which `location_contains_other` can miss
    a core lying across `a`): on a circular record, if every base of `pc`'s core lies in the core of a
    protocluster of a superior rule — wherever the origin falls, in particular when the superior's core
    spans it — the redundancy test says `true`. -/
theorem covered_implies_dropped_ring_partial (within : Lookup) (r : Rec) (rules : List RuleM) (clusters : List PC)
    (pc : PC) (b : Bool) (h : isRedundant within rules clusters pc = .ok b) (rule : RuleM)
    (hr : findRule rules pc.rule = .ok rule) (o : PC) (ho : o ∈ clusters) (hs : o.rule ∈ rule.superiors)
    (hao : RingArea r.len o.core) (hap : RingArea r.len pc.core)
    (hnt : ∀ a b', o.core = .compound [⟨a, r.len, .fwd⟩, ⟨0, b', .fwd⟩] → b' < a)
    (hcov : Covers o.core pc.core) : b = true :=
  covered_implies_dropped within rules clusters pc b h rule hr o ho hs
    (contains_of_covers_ring r.len o.core pc.core hao hap hnt hcov)

/-- **No reported protocluster lies under a reported superior (circular record, end to end)** — the
    output-level reading the driver evaluates (`Chains.reportedUnderSuperior`): whenever
    `detect_protoclusters_and_signatures` returns on a circular record with valid ring genes, no reported
    protocluster has every base of its core inside the core of a reported protocluster of one of its
    rule's superiors (`_partial`: unless that superior core is the whole ring as two touching parts). -/
theorem reported_not_under_superior_ring_partial (within : Lookup) (r : Rec) (hcirc : r.circular = true)
    (hL : 0 < r.len) (rules : List RuleM)
    (hrules : ∀ name rule, findRule rules name = .ok rule → 0 ≤ rule.cutoff ∧ rule.cutoff ≤ r.len)
    (hgenes : ∀ g ∈ r.genes, RingIn r.len g.loc) (outs : List Out)
    (h : detectProtoclusters within r rules = .ok outs)
    (low high : Out) (hlow : low ∈ outs) (hhigh : high ∈ outs) (rule : RuleM)
    (hr : findRule rules low.pc.rule = .ok rule) (hs : high.pc.rule ∈ rule.superiors)
    (hnt : ∀ a b, high.pc.core = .compound [⟨a, r.len, .fwd⟩, ⟨0, b, .fwd⟩] → b < a) :
    ¬ Covers high.pc.core low.pc.core := by
  intro hcov
  simp only [detectProtoclusters, bind, Except.bind] at h
  cases hst : detectStages within r rules with
  | error e => simp [hst] at h
  | ok s =>
    simp only [hst, pure, Except.pure, Except.ok.injEq] at h
    subst h
    have hareas := (detectStages_ring within r hcirc hL rules hrules hgenes s hst).1
    cases hne : r.genes.isEmpty with
    | true =>
      unfold detectStages at hst
      simp only [hne, if_true, pure, Except.pure, Except.ok.injEq] at hst
      subst hst
      cases hlow
    | false =>
      obtain ⟨res, found0, found, ext0, d, ext, kept, _, _, _, _, hk, hfin⟩ := detectStages_ok within r rules s hne hst
      obtain ⟨hsub, hnot⟩ := removeRedundant_kept within rules ext kept hk
      have hl : low.pc ∈ kept := by rw [← hfin]; exact List.mem_map.2 ⟨low, hlow, rfl⟩
      have hh : high.pc ∈ kept := by rw [← hfin]; exact List.mem_map.2 ⟨high, hhigh, rfl⟩
      have := covered_implies_dropped_ring_partial within r rules ext low.pc false (hnot _ hl) rule hr high.pc
        (hsub.subset hh) hs (hareas high hhigh) (hareas low hlow) hnt hcov
      cases this

/-! ### "… and not otherwise" does not hold: KF-C03-superior-overlap

  The property's last sentence ends "and not otherwise".  The full statement would be -/
def DroppedOnlyWhenCovered : Prop :=
  ∀ (within : Lookup) (rules : List RuleM) (clusters : List PC) (pc : PC) (rule : RuleM),
    isRedundant within rules clusters pc = .ok true → findRule rules pc.rule = .ok rule →
      ∃ o ∈ clusters, o.rule ∈ rule.superiors ∧ locationContainsOther o.core pc.core = true

/-- the layout of the repository's own `TestRedundancy.test_larger`: three genes, the inferior rule's
    chain spans all of them, the superior rule anchors on the middle one only -/
def kfRec : Rec := ⟨200, false,
  [⟨0, .simple ⟨50, 80, .fwd⟩, [("i", 0)], true⟩, ⟨1, .simple ⟨110, 140, .fwd⟩, [("i", 0), ("s", 0)], true⟩,
   ⟨2, .simple ⟨150, 180, .fwd⟩, [("i", 0)], true⟩]⟩
def kfRules : List RuleM :=
  [⟨"superior", 10, 10, .group false [.single false "s"], [], none⟩,
   ⟨"inferior", 31, 10, .group false [.single false "i"], ["superior"], none⟩]
def kfInferior : PC := ⟨"inferior", .simple ⟨50, 180, .fwd⟩, .simple ⟨40, 190, .fwd⟩⟩
def kfSuperior : PC := ⟨"superior", .simple ⟨110, 140, .fwd⟩, .simple ⟨100, 150, .fwd⟩⟩

/-- negation witness: the inferior protocluster is declared redundant although the superior core
    [110,140) does not contain its core [50,180) -/
theorem dropped_without_cover_witness :
    isRedundant (withinSpec kfRec) kfRules [kfSuperior, kfInferior] kfInferior = .ok true ∧
    locationContainsOther kfSuperior.core kfInferior.core = false := by
  constructor <;> decide

theorem not_droppedOnlyWhenCovered : ¬ DroppedOnlyWhenCovered := by
  intro h
  obtain ⟨o, ho, hs, hc⟩ := h (withinSpec kfRec) kfRules [kfSuperior, kfInferior] kfInferior
    ⟨"inferior", 31, 10, .group false [.single false "i"], ["superior"], none⟩
    dropped_without_cover_witness.1 rfl
  simp only [List.mem_cons, List.mem_nil_iff, or_false] at ho
  rcases ho with rfl | rfl
  · exact absurd hc (by decide)
  · exact absurd hs (by decide)

/-! ### non-vacuity -/

/-- the whole pipeline on that layout: both chains are formed ([110,140) and [50,180)), the inferior
    one is then dropped, the superior one is reported with its neighbourhood -/
example : (match detectProtoclusters (withinSpec kfRec) kfRec kfRules with
    | .ok outs => outs.map (fun o => (o.pc.rule, o.pc.core, o.pc.loc, o.defs)) ==
        [("superior", Loc.simple ⟨110, 140, .fwd⟩, Loc.simple ⟨100, 150, .fwd⟩, [(1, ["s"])])]
    | .error _ => false) = true := by decide +kernel

/-- the ring hypotheses are satisfiable and the chains non-trivial: ring of length 1000, genes at
    [300,320) [340,360) [400,420), cutoff 25 (gaps 20 and 40) -/
def ringRec : Rec := ⟨1000, true,
  [⟨0, .simple ⟨300, 320, .fwd⟩, [("a", 0)], true⟩, ⟨1, .simple ⟨340, 360, .rev⟩, [("a", 0)], true⟩,
   ⟨2, .simple ⟨400, 420, .fwd⟩, [("a", 0)], true⟩]⟩
example : InnerArc ringRec.len 25 300 420 := ⟨by decide, by decide, by decide, by decide⟩
/-- a wide arc touching the origin: ring of length 100, genes at [0,10) and [25,35), cutoff 20 (the window of the
    first core wraps over the origin): `WideArc 100 20 0 40` holds (`InnerArc` does not: 20 ≰ 0) -/
def wideRec : Rec := ⟨100, true,
  [⟨0, .simple ⟨0, 10, .fwd⟩, [("a", 0)], true⟩, ⟨1, .simple ⟨25, 35, .rev⟩, [("a", 0)], true⟩]⟩
example : WideArc wideRec.len 20 0 40 := ⟨by decide, by decide, by decide, by decide, by decide⟩
example : (match findCores wideRec 20 (wideRec.genes.map (·.loc)) with
    | .ok cores => cores.map (fun c => (c.start, c.end)) == [(0, 35)]
    | .error _ => false) = true := by decide +kernel
/-- the window of the core [90,100)+[0,5) on a ring of length 100: with distance 20 both ends move by 20; with
    distance 60 the cap (85/2+1 = 43) applies and the two ends pass each other: the whole record -/
example : extendArea wideRec (areaTwo 90 5 100 .fwd) 20 false = .ok (.compound [⟨70, 100, .fwd⟩, ⟨0, 25, .fwd⟩]) := by
  decide +kernel
example : extendArea wideRec (areaTwo 90 5 100 .fwd) 60 false = .ok (.simple ⟨0, 100, .fwd⟩) := by decide +kernel
/-- the protocluster of the core [90,100)+[0,5) on that ring: neighbourhood 20 moves both ends; neighbourhood 60
    (capped at 43) would cover the whole record and is split at mid = 47 -/
example : extendArea wideRec (areaTwo 90 5 100 .fwd) 20 true = .ok (.compound [⟨70, 100, .fwd⟩, ⟨0, 25, .fwd⟩]) := by
  decide +kernel
example : extendArea wideRec (areaTwo 90 5 100 .fwd) 60 true = .ok (.compound [⟨47, 100, .fwd⟩, ⟨0, 46, .fwd⟩]) := by
  decide +kernel
/-- the hypotheses of `extenders_ring_total_wide_partial` on that ring: both genes lie in the wide arc -/
example : ∀ g ∈ wideRec.genes, GeneIn wideRec.len 0 40 g.loc := by
  intro g hg
  simp only [wideRec, List.mem_cons, List.mem_nil_iff, or_false] at hg
  rcases hg with rfl | rfl <;>
    exact ⟨⟨by simp [Loc.parts], by simp [bridgesOrigin], by intro p hp; simp [Loc.parts] at hp; subst hp; simp [wideRec]⟩,
      by simp [Loc.start], by simp [Loc.end]⟩
/-- on that ring with cutoff 15 (two chains) `merge_over_origin` returns the two protoclusters unchanged -/
example : (match clustersOfRule wideRec ⟨"r", 15, 3, .group false [.single false "a"], [], none⟩ [0, 1] with
    | .ok pcs => (match Proto.mergeOverOrigin wideRec [⟨"r", 15, 3, .group false [.single false "a"], [], none⟩] pcs with
        | .ok merged => merged == pcs && pcs.length == 2
        | .error _ => false)
    | .error _ => false) = true := by decide +kernel
example : (match findCores wideRec 15 (wideRec.genes.map (·.loc)) with
    | .ok cores => cores.map (fun c => (c.start, c.end)) == [(0, 10), (25, 35)]
    | .error _ => false) = true := by decide +kernel
example : ∀ g ∈ ringRec.genes, GeneIn ringRec.len 300 420 g.loc := by
  intro g hg
  simp only [ringRec, List.mem_cons, List.mem_nil_iff, or_false] at hg
  rcases hg with rfl | rfl | rfl <;>
    exact ⟨⟨by simp [Loc.parts], by simp [bridgesOrigin], by intro p hp; simp [Loc.parts] at hp; subst hp; simp [ringRec]⟩,
      by simp [Loc.start], by simp [Loc.end]⟩
example : (match findCores ringRec 25 (ringRec.genes.map (·.loc)) with
    | .ok cores => cores.map (fun c => (c.start, c.end)) == [(300, 360), (400, 420)]
    | .error _ => false) = true := by decide +kernel

/-- a superior core spanning the origin covers an inferior core before it: ring of length 100, superior genes
    [92,97) and [0,5) (chained over the origin, cutoff 10), the first one also anchoring the inferior rule:
    the test says redundant, and only the superior protocluster is reported -/
def supRing : Rec := ⟨100, true,
  [⟨1, .simple ⟨0, 5, .rev⟩, [("s", 0)], true⟩, ⟨2, .simple ⟨92, 97, .fwd⟩, [("s", 0), ("i", 0)], true⟩]⟩
def supRingRules : List RuleM :=
  [⟨"sup", 10, 2, .group false [.single false "s"], [], none⟩,
   ⟨"inf", 10, 2, .group false [.single false "i"], ["sup"], none⟩]
example : isRedundant (withinSpec supRing) supRingRules
    [⟨"sup", .compound [⟨92, 100, .fwd⟩, ⟨0, 5, .fwd⟩], .compound [⟨90, 100, .fwd⟩, ⟨0, 7, .fwd⟩]⟩,
     ⟨"inf", .simple ⟨92, 97, .fwd⟩, .simple ⟨90, 99, .fwd⟩⟩]
    ⟨"inf", .simple ⟨92, 97, .fwd⟩, .simple ⟨90, 99, .fwd⟩⟩ = .ok true := by decide
example : (match detectProtoclusters (withinSpec supRing) supRing supRingRules with
    | .ok outs => outs.map (fun o => (o.pc.rule, o.pc.core)) == [("sup", Loc.compound [⟨92, 100, .fwd⟩, ⟨0, 5, .fwd⟩])]
    | .error _ => false) = true := by decide +kernel
example : RingArea 100 (.compound [⟨92, 100, .fwd⟩, ⟨0, 5, .fwd⟩]) ∧
    Covers (.compound [⟨92, 100, .fwd⟩, ⟨0, 5, .fwd⟩]) (.simple ⟨92, 97, .fwd⟩) := by
  refine ⟨⟨by decide, Or.inr ⟨92, 5, rfl⟩⟩, ?_⟩
  intro i hi
  simp only [Loc.mem, Loc.parts, List.any_cons, List.any_nil, Bool.or_false, Part.mem_iff, Bool.or_eq_true] at hi ⊢
  omega

/-- EXTENDERS over the origin: ring of length 69, anchor `a` at [1,2), extender `x` at [64,65) (5 bases before
    it across the origin, cutoff 5), another gene at [58,59): the backwards walk goes on from the end of the
    record and admits `x`; with cutoff 4 it does not -/
def extRing : Rec := ⟨69, true,
  [⟨0, .simple ⟨1, 2, .fwd⟩, [("a", 0)], true⟩, ⟨4, .simple ⟨58, 59, .fwd⟩, [], true⟩,
   ⟨1, .simple ⟨64, 65, .fwd⟩, [("x", 0)], true⟩]⟩
def extRingRule (c : Int) : RuleM :=
  ⟨"r0", c, 1, .group false [.single false "a"], [], some (.single false "x")⟩
example : (match detectProtoclusters (withinSpec extRing) extRing [extRingRule 5] with
    | .ok outs => outs.map (fun o => o.pc.core) == [Loc.compound [⟨64, 69, .fwd⟩, ⟨0, 2, .fwd⟩]]
    | .error _ => false) = true := by decide +kernel
example : (match detectProtoclusters (withinSpec extRing) extRing [extRingRule 4] with
    | .ok outs => outs.map (fun o => o.pc.core) == [Loc.simple ⟨1, 2, .fwd⟩]
    | .error _ => false) = true := by decide +kernel
example : (extendedCoreRing extRing (extRingRule 5) [⟨0, .simple ⟨1, 2, .fwd⟩, [("a", 0)], true⟩]).map (·.canon)
    = some [(0, 2), (64, 69)] := by decide +kernel

/-- EXTENDERS, non-trivially: anchor `a` at [3006,3008), extender genes `x` at [2005,2007) (999 bases
    before the anchor) and `y` at [1003,1005) (1000 bases before `x`, 2001 before the anchor), cutoff 1000:
    both are admitted because the reference moves to `x`; with cutoff 999 only `x` is (exactly the cutoff
    away: the walk stops at `> cutoff`), with cutoff 998 neither -/
def exRec : Rec := ⟨10014, false,
  [⟨1, .simple ⟨1003, 1005, .fwd⟩, [("y", 0)], true⟩, ⟨2, .simple ⟨2005, 2007, .fwd⟩, [("x", 0)], true⟩,
   ⟨4, .simple ⟨3006, 3008, .fwd⟩, [("a", 0)], true⟩]⟩
def exRule (c : Int) : RuleM :=
  ⟨"r0", c, 3000, .group false [.single false "a"], [], some (.cds false [.single false "x", .single false "y"])⟩
example : (match detectProtoclusters (withinSpec exRec) exRec [exRule 1000] with
    | .ok outs => outs.map (fun o => (o.pc.core, o.pc.loc)) == [(Loc.simple ⟨1003, 3008, .fwd⟩, Loc.simple ⟨0, 6008, .fwd⟩)]
    | .error _ => false) = true := by decide +kernel
example : (match detectProtoclusters (withinSpec exRec) exRec [exRule 999] with
    | .ok outs => outs.map (fun o => (o.pc.core, o.pc.loc)) == [(Loc.simple ⟨2005, 3008, .fwd⟩, Loc.simple ⟨0, 6008, .fwd⟩)]
    | .error _ => false) = true := by decide +kernel
example : (match detectProtoclusters (withinSpec exRec) exRec [exRule 998] with
    | .ok outs => outs.map (fun o => (o.pc.core, o.pc.loc)) == [(Loc.simple ⟨3006, 3008, .fwd⟩, Loc.simple ⟨6, 6008, .fwd⟩)]
    | .error _ => false) = true := by decide +kernel
example : extendedHull exRec (exRule 1000) (3006, 3008) = some (1003, 3008) := by decide +kernel

/-- the hypotheses of `protoclusters_of_rule_linear` hold on it, and the chains are non-trivial:
    with cutoff 31 the three genes (gaps 30 and 10) are one chain, with cutoff 30 they are two -/
example : ∀ g ∈ kfRec.genes, GeneOK kfRec.len g.loc := by
  intro g hg
  simp only [kfRec, List.mem_cons, List.mem_nil_iff, or_false] at hg
  rcases hg with rfl | rfl | rfl <;>
    exact ⟨by simp [Loc.parts], by simp [bridgesOrigin], by intro p hp; simp [Loc.parts] at hp; subst hp; simp [kfRec]⟩
example : findCores kfRec 31 (kfRec.genes.map (·.loc)) = .ok [.simple ⟨50, 180, .fwd⟩] := by decide +kernel
example : findCores kfRec 30 (kfRec.genes.map (·.loc)) = .ok [.simple ⟨50, 80, .fwd⟩, .simple ⟨110, 180, .fwd⟩] := by
  decide +kernel
example : nearB 0 31 (.simple ⟨50, 80, .fwd⟩) (.simple ⟨110, 140, .rev⟩) = true ∧
          nearB 0 30 (.simple ⟨50, 80, .fwd⟩) (.simple ⟨110, 140, .rev⟩) = false := by decide

end ASV.C03
