/-
  C04 — Location algebra agrees with the set-of-bases model on line and ring.
  Property theorems only; helper lemmas in ASV/Proofs/Loc*.lean.

  Guards.  `Loc.OK L l`: at least one part, every part non-empty, non-negative and (on a ring,
  L ≠ 0) inside `[0, L]` — what `ensure_valid_locations`/`Feature.__init__` enforce for every
  location of a record.  `LineInput`: a non-empty list of non-bridging locations.

  What is proved here for *all* coordinates and record lengths:
    overlap / containment / distance (line and ring, single- and multi-part, incl. origin-spanning)
    connect on a linear record (exact hull, argument order, idempotence, strand rule)
    connect on a ring for ANY non-empty list of `RingIn` locations — parts inside the record; either not
      bridging the origin (single parts, genes with introns) or splittable at it (origin-spanning spans,
      origin-bridging genes): never fails, covers every input, well-formed span, independent of the
      argument order, idempotent; never longer than the line hull (`RingInSpan`: no origin-bridging genes);
      inside every covering span shorter than half the record, hence the shortest covering arc whenever one
      shorter than half exists, with length `shortestArc L (canon …)` — the executable formula the driver
      evaluates (`RingInStrict`: single parts and origin-spanning spans; for all `RingIn` with the inputs
      read as spans).  Via the closed form `connR` of Proofs/LocRing{Sort,Split,Hull,Merge}.lean,
      LocConnectRing{N,In,Cover,Hull,Short,Perm,Arc}.lean, CanonIvs.lean, ShortestArc.lean; the two-input
      theorem `connect_ring_two` (explicit gap formula) is kept
    offset of a single-part location and of an origin-spanning span on a ring (rotation of the same bases)
    extension of a single-part location on a linear and on a circular record (exactly the bases within the distance)
    extension of an origin-spanning span on a circular record: exactly the bases within the distance and a
      well-formed span for every d ≥ 0 (after the repair D59; before it the code could return three overlapping parts)
    the feature ordering is a strict weak order
  Carried by the exhaustive small-scope correspondence + executable set-of-bases spec only
  (see DESIGN.md): the error paths of connect (inputs that bridge the origin but cannot be split);
  extension of multi-exon locations wrapping over a record edge (multi-exon on a line / without wrap, both strands: `extend_multi_exact`, `extend_multi_rev_exact`; reverse-strand origin-spanning span: `extend_ring_area_rev_exact`); offset of multi-exon gene locations.
-/
import ASV.Proofs.LocOrder
import ASV.Proofs.LocString
import ASV.Proofs.LocStringFuzzy
import ASV.Proofs.LocMergeAdjacent
import ASV.Proofs.LocExtendAreaRev
import ASV.Proofs.LocExtendMulti
import ASV.Proofs.LocExtend
import ASV.Proofs.LocConnectRing
import ASV.Proofs.LocOffsetArea
import ASV.Proofs.LocOffsetGeneral
import ASV.Proofs.LocConnectRingArc
import ASV.Proofs.LocExtendArea
namespace ASV.C04
open ASV

/-! ### overlap, containment -/

/-- two locations overlap iff they share a base -/
theorem overlap_iff_shared_base (a b : Loc) (ha : a.PartsNonEmpty) (hb : b.PartsNonEmpty) :
    locationsOverlap a b = true ↔ a.SharesBase b :=
  locationsOverlap_iff a b ha hb

theorem overlap_comm (a b : Loc) : locationsOverlap a b = locationsOverlap b a :=
  locationsOverlap_comm a b

/-- one contains another iff each part of the inner lies inside one part of the outer -/
theorem contains_iff_each_part_inside (outer inner : Loc) (hw : ∀ q ∈ inner.parts, q.lo ≤ q.hi) :
    locationContainsOther outer inner = true ↔
      ∀ q ∈ inner.parts, ∃ p ∈ outer.parts, p.lo ≤ q.lo ∧ q.hi ≤ p.hi :=
  contains_iff_parts outer inner hw

/-- … and then every base of the inner is a base of the outer -/
theorem contains_imp_subset (outer inner : Loc) (h : locationContainsOther outer inner = true) :
    ∀ i, inner.mem i = true → outer.mem i = true :=
  contains_subset outer inner h

/-! ### distance -/

/-- the distance is 0 when the locations share a base and otherwise the least number of bases
    strictly between a base of one and a base of the other, the shorter way round on a ring
    (`L = 0`: linear record).  Single- and multi-part locations, origin-spanning ones included. -/
theorem distance_is_bases_between (a b : Loc) (L : Int) (ha : a.OK L) (hb : b.OK L) :
    IsDist L a b (getDistance a b L) :=
  getDistance_isDist a b L ha hb

/-- closed form used by the executable spec -/
theorem distance_closed_form (a b : Loc) (L : Int) (ha : a.OK L) (hb : b.OK L) :
    getDistance a b L = if locationsOverlap a b then 0 else specDist L a b :=
  getDistance_eq_spec a b L ha hb

theorem distance_comm (a b : Loc) (L : Int) (ha : a.OK L) (hb : b.OK L) :
    getDistance a b L = getDistance b a L :=
  getDistance_comm a b L ha hb

/-- distance of two non-empty single-part locations on a line = bases strictly between -/
theorem distance_simple_line (a b : Part) (ha : a.lo < a.hi) (hb : b.lo < b.hi) :
    getDistance (.simple a) (.simple b) 0 = lineGap a b :=
  getDistance_simple_line a b ha hb

/-! ### connecting on a linear record -/


def LineInput (ls : List Loc) : Prop := ls ≠ [] ∧ ∀ l ∈ ls, l.parts ≠ [] ∧ bridgesOrigin l = false

theorem connect_line_is_hull (ls : List Loc) (h : LineInput ls) :
    connect ls none = .ok (.simple ⟨minList (ls.map (·.start)), maxList (ls.map (·.end)), commonStrand ls⟩) :=
  connect_line ls h.1 h.2

/-- the hull covers every base of every input … -/
theorem connect_line_covers (ls : List Loc) (h : LineInput ls) (r : Loc) (hr : connect ls none = .ok r) :
    ∀ l ∈ ls, ∀ i, l.mem i = true → r.mem i = true := by
  rw [connect_line_is_hull ls h] at hr
  injection hr with hr; subst hr
  intro l hl i hi
  simp only [Loc.mem, List.any_eq_true, Part.mem_iff] at hi
  obtain ⟨p, hp, h1, h2⟩ := hi
  have hs := start_le_part l p hp
  have h3 : minList (ls.map (·.start)) ≤ l.start := minList_le_of_mem (List.mem_map.2 ⟨l, hl, rfl⟩)
  have h4 : l.end ≤ maxList (ls.map (·.end)) := le_maxList_of_mem (List.mem_map.2 ⟨l, hl, rfl⟩)
  simp only [Loc.mem, Loc.parts, List.any_cons, List.any_nil, Bool.or_false, Part.mem_iff]
  omega

/-- … and is exact: its two ends are ends of inputs -/
theorem connect_line_exact (ls : List Loc) (h : LineInput ls) (r : Loc) (hr : connect ls none = .ok r) :
    (∃ l ∈ ls, r.start = l.start) ∧ (∃ l ∈ ls, r.end = l.end) := by
  rw [connect_line_is_hull ls h] at hr
  injection hr with hr; subst hr
  have hne : ls.map (·.start) ≠ [] := by simpa using h.1
  have hne2 : ls.map (·.end) ≠ [] := by simpa using h.1
  obtain ⟨l, hl, e⟩ := List.mem_map.1 (minList_mem hne)
  obtain ⟨l2, hl2, e2⟩ := List.mem_map.1 (maxList_mem hne2)
  exact ⟨⟨l, hl, e.symm⟩, ⟨l2, hl2, e2.symm⟩⟩

/-- the result does not depend on the order of the arguments -/
theorem connect_line_perm (ls₁ ls₂ : List Loc) (hp : ls₁.Perm ls₂) (h : LineInput ls₁) :
    connect ls₁ none = connect ls₂ none := by
  have h2 : LineInput ls₂ := ⟨fun e => h.1 (by subst e; exact List.perm_nil.1 hp), fun l hl => h.2 l (hp.mem_iff.2 hl)⟩
  rw [connect_line_is_hull ls₁ h, connect_line_is_hull ls₂ h2,
    minList_perm (hp.map _), maxList_perm (hp.map _), commonStrand_perm hp]

/-- applying the operation to its own result changes nothing -/
theorem connect_line_idem (ls : List Loc) (h : LineInput ls) (r : Loc) (hr : connect ls none = .ok r) :
    connect [r] none = .ok r := by
  rw [connect_line_is_hull ls h] at hr
  injection hr with hr; subst hr
  rw [connect_line_is_hull _ ⟨by simp, by intro l hl; simp at hl; subst hl; simp [Loc.parts, bridgesOrigin]⟩]
  simp [minList, maxList, Loc.start, Loc.end, commonStrand, Loc.strand]

/-! ### connecting on a circular record -/

/-- connecting two single-part locations on a ring of length `L`: the result covers both, is a
    well-formed span (one part, or two parts meeting at the origin), is never longer than the
    line hull, and is the shortest covering arc whenever one shorter than half the record exists.
    (More than two inputs / origin-spanning inputs: exhaustive small-scope correspondence with the
    same four conditions evaluated on the implementation's output.) -/
theorem connect_ring_two (a b : Part) (L : Int) (ha : a.OK L) (hb : b.OK L) (hL : 0 < L) :
    ∃ r, connect [.simple a, .simple b] (some L) = .ok r ∧
      (∀ i, (a.mem i = true ∨ b.mem i = true) → r.mem i = true) ∧
      areaWF L L r = true ∧
      r.len ≤ max a.hi b.hi - min a.lo b.lo ∧
      (2 * (L - max (lineGapSigned a b) (originGap a b L)) < L →
        r.len = L - max (lineGapSigned a b) (originGap a b L)) :=
  connect_two_ring a b L ha hb hL

/-- `RingIn L l`: `l` has at least one part, all parts are non-empty and inside `[0, L]`, and if `l`
    bridges the origin (`location_bridges_origin`) it can be split there
    (`split_origin_bridging_location` does not raise).  This includes every single part of any strand
    (simple location or one-part compound), genes with introns, the origin-spanning span
    `areaTwo x y L s` = `[x, L) + [0, y)` with `0 < y ≤ x < L` for any single strand `s`, the
    reverse-strand part order `areaTwoRev`, and origin-bridging genes with introns
    (`RingInSpan.ringIn`, `RingInStrict.ringIn`).

    Connecting ANY non-empty list of such locations on a ring of length `L > 0` succeeds (no
    ValueError, no failed assertion, no unbounded recursion), the result covers every base of every
    input, and it is a well-formed span: one part inside the record, or two parts meeting at the
    origin. -/
theorem connect_ring_covers_wf (ls : List Loc) (L : Int) (hne : ls ≠ []) (hL : 0 < L) (hin : ∀ l ∈ ls, RingIn L l) :
    ∃ r, connect ls (some L) = .ok r ∧
      (∀ l ∈ ls, ∀ i, l.mem i = true → r.mem i = true) ∧
      areaWF L L r = true := by
  refine ⟨_, connect_ring_closed ls L hne hL hin, ?_, ?_⟩
  · intro l hl i hi
    exact connR_covers _ L hL (toR_ok L hL ls hin) (toR l) (List.mem_map.2 ⟨l, hl, rfl⟩) i
      ((toR_spec L hL l (hin l hl)).2.2.2 i hi)
  · exact connR_wf _ L hL (by simpa using hne) (toR_ok L hL ls hin)

/-- … it is never longer than the line hull `max end − min start` of the inputs (`RingInSpan`:
    locations that do not bridge the origin and the origin-spanning spans `areaTwo` / `areaTwoRev`,
    which reach both record ends; for an origin-bridging gene that does not, see
    `connect_ring_hull_not_for_bridging_genes`) … -/
theorem connect_ring_le_hull (ls : List Loc) (L : Int) (hne : ls ≠ []) (hL : 0 < L) (hin : ∀ l ∈ ls, RingInSpan L l) :
    ∃ r, connect ls (some L) = .ok r ∧ r.len ≤ maxList (ls.map (·.end)) - minList (ls.map (·.start)) := by
  have hin' : ∀ l ∈ ls, RingIn L l := fun l hl => (hin l hl).ringIn
  refine ⟨_, connect_ring_closed ls L hne hL hin', ?_⟩
  have h := connR_le_hull _ L hL (by simpa using hne) (toR_ok L hL ls hin')
  have e1 : ((ls.map toR).map (RLoc.toLoc L)).map (·.start) = ls.map (·.start) := by
    rw [List.map_map, List.map_map]
    exact List.map_congr_left fun l hl => (toR_start_end L hL l (hin l hl)).1
  have e2 : ((ls.map toR).map (RLoc.toLoc L)).map (·.end) = ls.map (·.end) := by
    rw [List.map_map, List.map_map]
    exact List.map_congr_left fun l hl => (toR_start_end L hL l (hin l hl)).2
  rw [e1, e2] at h
  exact h

/-- the origin-bridging gene `[50, 100) + [5, 10)` is read as the span `[50, 100) + [0, 10)`; with `[8, 60)` the
    result is the whole record, five bases more than the line hull `100 − 5` -/
theorem connect_ring_hull_not_for_bridging_genes :
    connect [.compound [⟨50, 100, .fwd⟩, ⟨5, 10, .fwd⟩], .simple ⟨8, 60, .fwd⟩] (some 100) = .ok (.simple ⟨0, 100, .fwd⟩) := by
  rfl

/-- … and it is the shortest covering arc whenever one shorter than half the record exists: the
    result has no base outside ANY well-formed span `c` (one part, or two parts meeting at the
    origin) that covers all inputs and is shorter than half the record, and is not longer than `c`.
    (`RingInStrict`: single parts and origin-spanning spans.  A location with several parts that does
    not bridge the origin is first reduced to its line hull, which can contain more than the arc:
    e.g. `[x, L)(−) + [0, y)(−)`, in Biopython's part order an ordinary two-exon reverse-strand gene,
    becomes `[0, L)` — see `connect_ring_two_exon_reverse` below.) -/
theorem connect_ring_shortest (ls : List Loc) (L : Int) (hne : ls ≠ []) (hL : 0 < L)
    (hin : ∀ l ∈ ls, RingInStrict L l) (c : Loc) (hwf : areaWF L L c = true) (hlen : 2 * c.len < L)
    (hcov : ∀ l ∈ ls, ∀ i, l.mem i = true → c.mem i = true) :
    ∃ r, connect ls (some L) = .ok r ∧ r.len ≤ c.len ∧ ∀ i, r.mem i = true → c.mem i = true := by
  have hin' : ∀ l ∈ ls, RingIn L l := fun l hl => (hin l hl).ringIn
  refine ⟨_, connect_ring_closed ls L hne hL hin', ?_⟩
  apply connR_shortest _ L hL (by simpa using hne) (toR_ok L hL ls hin') c hwf hlen
  intro r hr i hi
  obtain ⟨l, hl, rfl⟩ := List.mem_map.1 hr
  exact hcov l hl i ((toR_mem_iff L hL l (hin l hl) i).1 hi)

/-- the same with the executable formula of the spec (`shortestArc`: the record length minus the largest
    gap between consecutive canonical intervals of the union of all input bases, going round the ring):
    whenever that is less than half the record, it is exactly the length of the result -/
theorem connect_ring_shortest_arc (ls : List Loc) (L : Int) (hne : ls ≠ []) (hL : 0 < L)
    (hin : ∀ l ∈ ls, RingInStrict L l) :
    ∃ r, connect ls (some L) = .ok r ∧
      (2 * shortestArc L (canon (ls.flatMap (·.parts))) < L →
        r.len = shortestArc L (canon (ls.flatMap (·.parts)))) :=
  ⟨_, connect_ring_closed ls L hne hL (fun l hl => (hin l hl).ringIn),
    connect_ring_len_shortestArc ls L hne hL hin⟩

/-- the two clauses for ALL `RingIn` inputs when the inputs are read as *spans* (`spanOf L l`, what
    `_reduce_parts_to_location` makes of `l`: `[start, end)` for a location that does not bridge the
    origin — a gene covers its introns —, `[x, L) + [0, y)` for an origin-spanning one; the same
    `(lo, hi)` pairs as the driver's `spanParts`, over which the check evaluates `shortestArc`) -/
theorem connect_ring_shortest_spans (ls : List Loc) (L : Int) (hne : ls ≠ []) (hL : 0 < L)
    (hin : ∀ l ∈ ls, RingIn L l) (c : Loc) (hwf : areaWF L L c = true) (hlen : 2 * c.len < L)
    (hcov : ∀ l ∈ ls, ∀ i, (spanOf L l).mem i = true → c.mem i = true) :
    ∃ r, connect ls (some L) = .ok r ∧ r.len ≤ c.len ∧ ∀ i, r.mem i = true → c.mem i = true := by
  refine ⟨_, connect_ring_closed ls L hne hL hin, ?_⟩
  apply connR_shortest _ L hL (by simpa using hne) (toR_ok L hL ls hin) c hwf hlen
  intro r hr i hi
  obtain ⟨l, hl, rfl⟩ := List.mem_map.1 hr
  exact hcov l hl i hi

theorem connect_ring_shortest_arc_spans (ls : List Loc) (L : Int) (hne : ls ≠ []) (hL : 0 < L)
    (hin : ∀ l ∈ ls, RingIn L l) :
    ∃ r, connect ls (some L) = .ok r ∧
      (2 * shortestArc L (canon (ls.flatMap fun l => (spanOf L l).parts)) < L →
        r.len = shortestArc L (canon (ls.flatMap fun l => (spanOf L l).parts))) :=
  ⟨_, connect_ring_closed ls L hne hL hin, connect_ring_len_shortestArc_spans ls L hne hL hin⟩

/-- the two-exon reverse-strand location `[90, 100)(−), [0, 10)(−)` (exons in descending order, so
    not origin-spanning for `location_bridges_origin`) is connected to its line hull, the whole
    record, although the 20-base span over the origin covers its bases -/
theorem connect_ring_two_exon_reverse :
    connect [areaTwo 90 10 100 .rev] (some 100) = .ok (.simple ⟨0, 100, .rev⟩) := by rfl

/-- the result does not depend on the order of the arguments -/
theorem connect_ring_perm (ls₁ ls₂ : List Loc) (hp : ls₁.Perm ls₂) (L : Int) (hne : ls₁ ≠ []) (hL : 0 < L)
    (hin : ∀ l ∈ ls₁, RingIn L l) : connect ls₁ (some L) = connect ls₂ (some L) := by
  have hne2 : ls₂ ≠ [] := fun e => hne (by subst e; exact List.perm_nil.1 hp)
  have hin2 : ∀ l ∈ ls₂, RingIn L l := fun l hl => hin l (hp.mem_iff.2 hl)
  rw [connect_ring_closed ls₁ L hne hL hin, connect_ring_closed ls₂ L hne2 hL hin2,
    connR_perm (hp.map toR) L hL (toR_ok L hL ls₁ hin)]

/-- connecting the result again returns it -/
theorem connect_ring_idem (ls : List Loc) (L : Int) (hne : ls ≠ []) (hL : 0 < L) (hin : ∀ l ∈ ls, RingIn L l)
    (r : Loc) (hr : connect ls (some L) = .ok r) : connect [r] (some L) = .ok r := by
  rw [connect_ring_closed ls L hne hL hin] at hr
  injection hr with hr; subst hr
  have hrs : ls.map toR ≠ [] := by simpa using hne
  exact connect_self _ L hL (connR_wf _ L hL hrs (toR_ok L hL ls hin)) (connR_shape _ L hL hrs (toR_ok L hL ls hin))

/-! ### shifting by an offset (ring) -/

/-- shifting a single-part location by any offset on a ring of length `L` succeeds and yields
    exactly the rotated bases (base `i` of the result is base `j` of the input moved by `k`
    modulo `L`), inside the record, with the same length and strand -/
theorem offset_rotates_simple (p : Part) (k L : Int) (hL : 0 < L) (h0 : 0 ≤ p.lo) (h1 : p.lo < p.hi) (h2 : p.hi ≤ L) :
    ∃ r, offsetLocation (.simple p) k L = .ok r ∧
      (∀ i, r.mem i = true ↔ (0 ≤ i ∧ i < L ∧ ∃ j, p.mem j = true ∧ RotOf L k i j)) ∧
      r.len = p.len ∧ r.strand = p.strand :=
  offset_simple_ring p k L hL h0 h1 h2

/-- the same for an origin-spanning span `[x, L) + [0, y)` (the shape of every origin-spanning
    area): shifting rotates exactly its bases; the result is again one arc — one part, or two parts
    meeting at the origin -/
theorem offset_rotates_origin_spanning (x y L k : Int) (s : Strand) (hL : 0 < L) (hy0 : 0 < y) (hyx : y ≤ x) (hxL : x < L) :
    ∃ r, offsetLocation (areaTwo x y L s) k L = .ok r ∧
      ∀ i, r.mem i = true ↔ (0 ≤ i ∧ i < L ∧ ∃ j, (areaTwo x y L s).mem j = true ∧ RotOf L k i j) :=
  ⟨_, offset_area_eq x y L k s hL hy0 hyx hxL, offAreaTwo_mem x y L k s hL hy0 hyx hxL⟩

/-- the general case: a location with any number of parts, all on one strand, non-empty, inside `[0, L]` and
    mutually disjoint, not as long as the whole record, shifted by any offset `0 < |k| < L`: the shift succeeds
    and the result has exactly the bases of the location rotated by `k` (mod `L`), the same total length and
    strand, parts inside the record and mutually disjoint — runs of abutting exons of any length included
    (after the repair D58 of the merge step).  (A location as long as the record is returned unchanged by the
    code; abutting pieces of different strands make it raise.) -/
theorem offset_ring_rotates_general (l : Loc) (k L : Int) (s : Strand) (hne : l.parts ≠ [])
    (hparts : ∀ p ∈ l.parts, 0 ≤ p.lo ∧ p.lo < p.hi ∧ p.hi ≤ L) (hs : ∀ p ∈ l.parts, p.strand = s)
    (hdis : partsDisjoint l.parts = true) (hlen : l.len ≠ L) (hk : k ≠ 0) (hk0 : -L < k) (hk1 : k < L) :
    ∃ r, offsetLocation l k L = .ok r ∧
      (∀ i, r.mem i = true ↔ (0 ≤ i ∧ i < L ∧ ∃ j, l.mem j = true ∧ RotOf L k i j)) ∧
      r.len = l.len ∧ r.strand = s ∧
      (∀ p ∈ r.parts, 0 ≤ p.lo ∧ p.lo < p.hi ∧ p.hi ≤ L) ∧ partsDisjoint r.parts = true :=
  offset_ring_general l k L s hne hparts hs hdis hlen hk hk0 hk1

/-- three abutting exons before and over the origin, moved back by 80 on a ring of 100 (the D58 layout) -/
example : offsetLocation (.compound [⟨90, 100, .fwd⟩, ⟨0, 5, .fwd⟩, ⟨5, 10, .fwd⟩, ⟨10, 15, .fwd⟩]) (-80) 100 =
    .ok (.simple ⟨10, 35, .fwd⟩) := by rfl

/-! ### extending (linear record) -/

/-- extending a single-part location on a linear record covers exactly the bases within the
    distance, clipped at both record ends -/
theorem extend_line_exact (p : Part) (d mx : Int) (h0 : 0 ≤ p.lo) (h1 : p.lo < p.hi) (h2 : p.hi ≤ mx) (hd : 0 ≤ d) :
    ∃ r, extendLocation (.simple p) d mx false = .ok r ∧
      ∀ i, r.mem i = true ↔ (0 ≤ i ∧ i < mx ∧ ∃ j, p.mem j = true ∧ iabs (i - j) ≤ d) :=
  ⟨_, extend_simple_line p d mx, extend_simple_line_mem p d mx h0 h1 h2 hd⟩

/-- extending a single-part location on a circular record (distance at most the record length)
    covers exactly the bases within that distance, measured the shorter way round the ring, and
    nothing outside the record -/
theorem extend_ring_exact (p : Part) (d L : Int) (h0 : 0 ≤ p.lo) (h1 : p.lo < p.hi) (h2 : p.hi ≤ L)
    (hd : 0 ≤ d) (hdL : d ≤ L) :
    ∃ r, extendLocation (.simple p) d L true = .ok r ∧
      ∀ i, r.mem i = true ↔ (0 ≤ i ∧ i < L ∧ ∃ j, p.mem j = true ∧ ringAbs L i j ≤ d) :=
  ⟨_, extend_simple_ring_eq p d L h0 h1 h2 hd hdL, extSimpleRing_mem p d L h0 h1 h2 hd⟩

/-- extending the forward origin-spanning span `[x, L) + [0, y)` (the shape of every origin-spanning
    core) by any `d ≥ 0` on a circular record succeeds, covers exactly the bases within ring
    distance `d` of the span (the whole-record branch included) and is a well-formed span (one part,
    or two parts meeting at the origin) — unconditionally after the repair D59 -/
theorem extend_ring_area_exact (x y d L : Int) (hL : 0 < L) (hy0 : 0 < y) (hyx : y ≤ x) (hxL : x < L) (hd : 0 ≤ d) :
    ∃ r, extendLocation (areaTwo x y L .fwd) d L true = .ok r ∧
      (∀ i, r.mem i = true ↔ (0 ≤ i ∧ i < L ∧ ∃ j, (areaTwo x y L .fwd).mem j = true ∧ ringAbs L i j ≤ d)) ∧
      areaWF L L r = true :=
  ⟨_, extend_area_ring_eq x y d L hL hy0 hyx hxL hd, extAreaRing_mem x y d L hL hy0 hyx hxL hd,
    extAreaRing_wf x y d L hL hy0 hyx hxL hd⟩

/-- the same for the reverse-strand origin-spanning span `[0, y)(−), [x, L)(−)` (Biopython's part order
    for a reverse-strand feature over the origin): exactly the bases within the distance, as the whole
    record or as two disjoint parts in the same (reverse-strand) order -/
theorem extend_ring_area_rev_exact (x y d L : Int) (hL : 0 < L) (hy0 : 0 < y) (hyx : y ≤ x) (hxL : x < L) (hd : 0 ≤ d) :
    ∃ r, extendLocation (areaTwoRev x y L) d L true = .ok r ∧
      (∀ i, r.mem i = true ↔ (0 ≤ i ∧ i < L ∧ ∃ j, (areaTwoRev x y L).mem j = true ∧ ringAbs L i j ≤ d)) ∧
      (r = .simple ⟨0, L, .rev⟩ ∨ (r = .compound [⟨0, y + d, .rev⟩, ⟨x - d, L, .rev⟩] ∧ y + d ≤ x - d)) := by
  refine ⟨_, extend_area_ring_rev_eq x y d L hL hy0 hyx hxL hd, extAreaRingRev_mem x y d L hL hy0 hyx hxL hd, ?_⟩
  unfold extAreaRingRev
  by_cases hG : x - y < 2 * d
  · rw [if_pos hG]; exact Or.inl rfl
  · rw [if_neg hG]; exact Or.inr ⟨rfl, by omega⟩

example : extendLocation (areaTwoRev 90 10 100) 5 100 true = .ok (.compound [⟨0, 15, .rev⟩, ⟨85, 100, .rev⟩]) ∧
    extendLocation (areaTwoRev 90 10 100) 45 100 true = .ok (.simple ⟨0, 100, .rev⟩) := ⟨by rfl, by rfl⟩

/-- extending a location with two or more parts (a gene with introns; forward or unstranded, parts in
    ascending order) on a linear record, or on a circular record when neither end reaches the record
    edge: the outer ends move by the distance (clipped at the record ends), inner parts and introns
    are untouched — the result has the input's bases plus exactly the two flanks -/
theorem extend_multi_exact (p0 pn : Part) (mid : List Part) (d mx : Int) (circ : Bool)
    (hs : (Loc.compound (p0 :: (mid ++ [pn]))).strand ≠ .rev)
    (hsep : p0.hi ≤ pn.lo) (h0 : p0.lo < p0.hi) (hn : pn.lo < pn.hi) (hd : 0 ≤ d) (hmx : pn.hi ≤ mx) (hlo : 0 ≤ p0.lo)
    (hc : circ = true → bridgesOrigin (Loc.compound (p0 :: (mid ++ [pn]))) = false ∧ pn.hi + d ≤ mx ∧ d ≤ p0.lo) :
    ∃ r, extendLocation (.compound (p0 :: (mid ++ [pn]))) d mx circ = .ok r ∧
      ∀ i, r.mem i = true ↔ ((Loc.compound (p0 :: (mid ++ [pn]))).mem i = true ∨
        (max 0 (p0.lo - d) ≤ i ∧ i < p0.lo) ∨ (pn.hi ≤ i ∧ i < min (pn.hi + d) mx)) := by
  refine ⟨_, ?_, extend_line_multi_mem p0 pn mid d mx h0 hn hd hmx hlo⟩
  cases circ with
  | false => exact extend_line_multi_eq p0 pn mid d mx hs hsep h0 hn hd hmx hlo
  | true =>
    obtain ⟨hb, h1, h2⟩ := hc rfl
    exact extend_ring_multi_nowrap_eq p0 pn mid d mx hs hb hsep h0 hn hd h1 h2

/-- the same for a reverse-strand location (parts in Biopython's descending order) -/
theorem extend_multi_rev_exact (p0 pn : Part) (mid : List Part) (d mx : Int) (circ : Bool)
    (hs : (Loc.compound (p0 :: (mid ++ [pn])).reverse).strand = .rev)
    (hsep : p0.hi ≤ pn.lo) (h0 : p0.lo < p0.hi) (hn : pn.lo < pn.hi) (hd : 0 ≤ d) (hmx : pn.hi ≤ mx) (hlo : 0 ≤ p0.lo)
    (hc : circ = true → bridgesOrigin (Loc.compound (p0 :: (mid ++ [pn])).reverse) = false ∧ pn.hi + d ≤ mx ∧ d ≤ p0.lo) :
    ∃ r, extendLocation (.compound (p0 :: (mid ++ [pn])).reverse) d mx circ = .ok r ∧
      ∀ i, r.mem i = true ↔ ((Loc.compound (p0 :: (mid ++ [pn])).reverse).mem i = true ∨
        (max 0 (p0.lo - d) ≤ i ∧ i < p0.lo) ∨ (pn.hi ≤ i ∧ i < min (pn.hi + d) mx)) := by
  refine ⟨_, extend_multi_rev_eq p0 pn mid d mx circ hs hsep h0 hn hd hmx hlo hc, fun i => ?_⟩
  rw [mem_reverse_compound, mem_reverse_compound]
  exact extend_line_multi_mem p0 pn mid d mx h0 hn hd hmx hlo i

example : extendLocation (.compound [⟨50, 60, .rev⟩, ⟨30, 40, .rev⟩, ⟨10, 20, .rev⟩]) 15 100 false
    = .ok (.compound [⟨50, 75, .rev⟩, ⟨30, 40, .rev⟩, ⟨0, 20, .rev⟩]) := by rfl

example : extendLocation (.compound [⟨10, 20, .fwd⟩, ⟨30, 40, .fwd⟩, ⟨50, 60, .fwd⟩]) 15 100 false
    = .ok (.compound [⟨0, 20, .fwd⟩, ⟨30, 40, .fwd⟩, ⟨50, 75, .fwd⟩]) := by rfl

/-- the two layouts on which the code returned three overlapping parts before D59
    (`[90:100], [0:100], [0:25]` and `[60:100], [0:100], [0:10]`): now the whole record -/
example : extendLocation (areaTwo 10 5 100 .fwd) 20 100 true = .ok (.simple ⟨0, 100, .fwd⟩) ∧
    extendLocation (areaTwo 90 80 100 .fwd) 30 100 true = .ok (.simple ⟨0, 100, .fwd⟩) := ⟨by rfl, by rfl⟩

/-! ### ordering -/

/-- `Feature.__lt__` compares (start key, length) lexicographically … -/
theorem featureLt_is_key_order (a b : Loc) (ka kb : Int)
    (ha : comparatorStart a = .ok ka) (hb : comparatorStart b = .ok kb) :
    featureLt a b = .ok (keyLt (ka, a.len) (kb, b.len)) :=
  featureLt_eq a b ka kb ha hb

/-- … which is a strict weak order -/
theorem key_order_strict_weak :
    (∀ a, keyLt a a = false) ∧
    (∀ a b c, keyLt a b = true → keyLt b c = true → keyLt a c = true) ∧
    (∀ a b c, (keyLt a b = false ∧ keyLt b a = false) → (keyLt b c = false ∧ keyLt c b = false) →
      (keyLt a c = false ∧ keyLt c a = false)) :=
  ⟨keyLt_irrefl, keyLt_trans, keyLt_incomp_trans⟩

/-! ### the merge step of `offset_location` (any number of parts) -/

/-- after the repair D58 the merging of shifted parts that abut (each ending where the next starts) loses
    nothing, for runs of any length: the merged parts have the same total length and name exactly the same
    bases as the shifted parts -/
theorem offset_merge_keeps_bases (first : Part) (rest out : List Part)
    (hwf : ∀ p ∈ first :: rest, p.lo ≤ p.hi) (h : mergeAdjacent [first] first rest = .ok out) :
    partsLen out = partsLen (first :: rest) ∧ ∀ x, coversB out x ↔ coversB (first :: rest) x := by
  refine ⟨?_, fun x => ?_⟩
  · have := mergeAdjacent_len rest [first] first out ⟨_, _, rfl, rfl⟩ h
    rw [this]; simp [partsLen]
  · have := mergeAdjacent_bases rest [first] first out ⟨_, _, rfl, rfl, hwf first (by simp)⟩
      (fun p hp => hwf p (List.mem_cons_of_mem _ hp)) h x
    rw [this]; simp [coversB]

/-- the run of the defect report: `[80:90), [90:100), [0:10)` shifted by 20 on a record of 100 -/
example : mergeAdjacent [⟨0, 10, .fwd⟩] ⟨0, 10, .fwd⟩ [⟨10, 20, .fwd⟩, ⟨20, 30, .fwd⟩] = .ok [⟨0, 30, .fwd⟩] := by rfl
/-- … and what the loop made of it before D58: 20 bases -/
example : mergeAdjacentBeforeD58 [⟨0, 10, .fwd⟩] ⟨0, 10, .fwd⟩ [⟨10, 20, .fwd⟩, ⟨20, 30, .fwd⟩] = .ok [⟨10, 30, .fwd⟩] := by rfl

/-! ### textual form -/

/-- the textual form of a location (`str(location)`, as stored in qualifiers such as
    `core_location`) reads back through `location_from_string` to the same location: simple and
    compound, all four strand spellings, any integer coordinates (exact positions) -/
theorem string_roundtrip (l : Loc) (hne : l.parts ≠ []) : locFromChars (locChars l) = some l :=
  locFromChars_locChars l hne

/-- the same with the operator of a multi-part location (`join{…}` / `order{…}`): whatever text
    precedes the brace (any text free of `{`) is read back as the operator, together with the same
    parts; a simple location has none -/
theorem string_roundtrip_with_operator (op : List Char) (hop : ∀ c ∈ op, c ≠ '{') (l : Loc) (hne : l.parts ≠ []) :
    locFromCharsOp (opLocChars op l) = some (l.opOf op, l) :=
  locFromCharsOp_opLocChars op hop l hne

/-- `locChars`/`locFromChars` (used by the serialisation models) are the `join` instance / the
    operator-forgetting projection of the two functions above -/
theorem string_model_is_join_instance (l : Loc) (s : List Char) :
    locChars l = opLocChars ['j', 'o', 'i', 'n'] l ∧ locFromChars s = (locFromCharsOp s).map Prod.snd :=
  ⟨locChars_eq_op l, locFromChars_eq_op s⟩

example : locFromCharsOp (opLocChars "order".toList (.compound [⟨0, 12, .rev⟩, ⟨90, 100, .rev⟩]))
    = some (some "order".toList, .compound [⟨0, 12, .rev⟩, ⟨90, 100, .rev⟩]) := by
  apply string_roundtrip_with_operator <;> simp [Loc.parts]

/-- the textual round trip with Biopython's fuzzy positions: a start or an end written as `<n` (`BeforePosition`) or
    `>n` (`AfterPosition`) — at either place, in a simple location or in any part of a multi-part one — is read back
    with the same value AND the same class, next to the same strand and operator.  (The class is decided by the
    marker alone; `UnknownPosition()` is outside the model.) -/
theorem string_roundtrip_fuzzy (op : List Char) (hop : ∀ c ∈ op, c ≠ '{') (l : FLoc) (hne : l.parts ≠ []) :
    flocFromChars (flocChars op l) = some (l.opOf op, l) :=
  flocFromChars_flocChars op hop l hne

/-- on exact positions the fuzzy textual form is the plain one of `string_roundtrip_with_operator` -/
theorem string_fuzzy_extends_exact (op : List Char) (l : Loc) : flocChars op (.ofLoc l) = opLocChars op l :=
  flocChars_ofLoc op l

/-- an `AfterPosition` start and a `BeforePosition` end (the unusual way round) keep their classes -/
example : flocFromChars "[>12:<20](+)".toList
    = some (none, .simple ⟨⟨.after, 12⟩, ⟨.before, 20⟩, .fwd⟩) := by
  have := string_roundtrip_fuzzy [] (by simp) (.simple ⟨⟨.after, 12⟩, ⟨.before, 20⟩, .fwd⟩) (by simp [FLoc.parts])
  exact this

/-! ### non-vacuity -/
example : (Loc.compound [⟨90, 100, .fwd⟩, ⟨0, 10, .fwd⟩]).OK 100 ∧ (Loc.simple ⟨20, 30, .rev⟩).OK 100 := by
  constructor <;> (refine ⟨by simp [Loc.parts], ?_⟩; intro p hp; simp [Loc.parts] at hp; rcases hp with rfl | rfl <;> simp [Part.OK]) <;> simp [Part.OK]
/-- D3's layout: 10 bases lie between the origin-spanning gene and the gene at [20,30) -/
example : getDistance (.compound [⟨90, 100, .fwd⟩, ⟨0, 10, .fwd⟩]) (.simple ⟨20, 30, .fwd⟩) 100 = 10 := by decide
/-- D2's layout: the end lands exactly on the wrap point -/
example : offsetLocation (.simple ⟨5, 10, .fwd⟩) 10 20 = .ok (.simple ⟨15, 20, .fwd⟩) := by rfl
/-- the wrap case of `connect_ring_two` is reachable: 60 bases between along the line, 25 over the origin -/
example : connect [.simple ⟨5, 20, .fwd⟩, .simple ⟨80, 90, .rev⟩] (some 100) = .ok (.compound [⟨80, 100, .fwd⟩, ⟨0, 20, .fwd⟩]) := by rfl
example : offsetLocation (.simple ⟨5, 10, .fwd⟩) 12 20 = .ok (.compound [⟨17, 20, .fwd⟩, ⟨0, 2, .fwd⟩]) := by rfl

/-- the hypotheses of the n-input ring theorems are satisfiable: three single parts (mixed strands) … -/
example : ∀ l ∈ [Loc.simple ⟨5, 20, .fwd⟩, .simple ⟨80, 90, .rev⟩, .simple ⟨30, 40, .fwd⟩], RingInStrict 100 l := by
  intro l hl
  simp only [List.mem_cons, List.mem_nil_iff, or_false] at hl
  rcases hl with rfl | rfl | rfl <;> exact Or.inl ⟨_, rfl, by decide, by decide, by decide⟩
/-- … connected over the origin (60 bases of line gap vs. 25 over the origin) -/
example : connect [.simple ⟨5, 20, .fwd⟩, .simple ⟨80, 90, .rev⟩, .simple ⟨30, 40, .fwd⟩] (some 100)
    = .ok (.compound [⟨80, 100, .fwd⟩, ⟨0, 40, .fwd⟩]) := by rfl
/-- the same three in another order -/
example : connect [.simple ⟨30, 40, .fwd⟩, .simple ⟨5, 20, .fwd⟩, .simple ⟨80, 90, .rev⟩] (some 100)
    = .ok (.compound [⟨80, 100, .fwd⟩, ⟨0, 40, .fwd⟩]) := by rfl
/-- three single parts that stay on the line: the hull with the common strand -/
example : connect [.simple ⟨5, 20, .rev⟩, .simple ⟨40, 45, .rev⟩, .simple ⟨30, 40, .rev⟩] (some 100)
    = .ok (.simple ⟨5, 45, .rev⟩) := by rfl
/-- four inputs, one of them origin-spanning -/
example : ∀ l ∈ [areaTwo 90 10 100 .fwd, .simple ⟨20, 30, .fwd⟩, .simple ⟨70, 80, .rev⟩, .simple ⟨85, 88, .fwd⟩],
    RingInStrict 100 l := by
  intro l hl
  simp only [List.mem_cons, List.mem_nil_iff, or_false] at hl
  rcases hl with rfl | rfl | rfl | rfl
  · exact Or.inr (Or.inl ⟨90, 10, .fwd, by decide, rfl, by decide, by decide, by decide⟩)
  all_goals exact Or.inl ⟨_, rfl, by decide, by decide, by decide⟩
example : connect [areaTwo 90 10 100 .fwd, .simple ⟨20, 30, .fwd⟩, .simple ⟨70, 80, .rev⟩, .simple ⟨85, 88, .fwd⟩] (some 100)
    = .ok (.compound [⟨70, 100, .fwd⟩, ⟨0, 30, .fwd⟩]) := by rfl
/-- a reverse-strand origin-spanning gene in Biopython's part order with two more inputs -/
example : connect [areaTwoRev 90 10 100, .simple ⟨20, 30, .fwd⟩, .simple ⟨70, 80, .rev⟩] (some 100)
    = .ok (.compound [⟨70, 100, .fwd⟩, ⟨0, 30, .fwd⟩]) := by rfl
/-- an origin-spanning input together with one covering the rest: the whole record -/
example : connect [areaTwo 90 10 100 .fwd, .simple ⟨5, 95, .fwd⟩, .simple ⟨70, 80, .rev⟩] (some 100)
    = .ok (.simple ⟨0, 100, .fwd⟩) := by rfl
/-- a covering span shorter than half the record exists for the four inputs above (60 < 100 / 2 fails, so take
    a tighter list): `[95, 100) + [0, 30)` covers `[95,100)+[0,10)`, `[20,30)`; 35·2 < 100 -/
example : areaWF 100 100 (.compound [⟨95, 100, .fwd⟩, ⟨0, 30, .fwd⟩]) = true ∧
    2 * (Loc.compound [⟨95, 100, .fwd⟩, ⟨0, 30, .fwd⟩]).len < 100 ∧
    connect [areaTwo 95 10 100 .fwd, .simple ⟨20, 30, .fwd⟩] (some 100) = .ok (.compound [⟨95, 100, .fwd⟩, ⟨0, 30, .fwd⟩]) :=
  ⟨by rfl, by decide, by rfl⟩
/-- a gene with an intron (does not bridge the origin) among the inputs -/
example : RingInSpan 100 (.compound [⟨2, 8, .fwd⟩, ⟨12, 18, .fwd⟩]) :=
  Or.inl ⟨by simp [Loc.parts], by decide, by
    intro p hp; simp only [Loc.parts, List.mem_cons, List.mem_nil_iff, or_false] at hp
    rcases hp with rfl | rfl <;> decide⟩
example : connect [.compound [⟨2, 8, .fwd⟩, ⟨12, 18, .fwd⟩], .simple ⟨80, 90, .rev⟩, areaTwo 95 1 100 .fwd] (some 100)
    = .ok (.compound [⟨80, 100, .fwd⟩, ⟨0, 18, .fwd⟩]) := by rfl
/-- an origin-bridging gene with an intron among the inputs -/
example : RingIn 100 (.compound [⟨90, 100, .fwd⟩, ⟨2, 8, .fwd⟩, ⟨12, 18, .fwd⟩]) :=
  ⟨by simp [Loc.parts], by
    intro p hp; simp only [Loc.parts, List.mem_cons, List.mem_nil_iff, or_false] at hp
    rcases hp with rfl | rfl | rfl <;> decide, fun _ => ⟨_, _, by rfl⟩⟩
example : connect [.compound [⟨90, 100, .fwd⟩, ⟨2, 8, .fwd⟩, ⟨12, 18, .fwd⟩], .simple ⟨80, 85, .rev⟩] (some 100)
    = .ok (.compound [⟨80, 100, .fwd⟩, ⟨0, 18, .fwd⟩]) := by rfl
/-- the span reading of a gene with an intron and of an origin-spanning input -/
example : spanOf 100 (.compound [⟨2, 8, .fwd⟩, ⟨12, 18, .fwd⟩]) = .simple ⟨2, 18, .fwd⟩ ∧
    spanOf 100 (areaTwoRev 95 1 100) = .compound [⟨95, 100, .fwd⟩, ⟨0, 1, .fwd⟩] := ⟨by rfl, by rfl⟩
/-- extension of an origin-spanning span: both ends move, the result stays a two-part span -/
example : extendLocation (areaTwo 90 10 100 .fwd) 15 100 true = .ok (.compound [⟨75, 100, .fwd⟩, ⟨0, 25, .fwd⟩]) := by rfl
/-- … and the whole-record branch -/
example : extendLocation (areaTwo 60 40 100 .fwd) 11 100 true = .ok (.simple ⟨0, 100, .fwd⟩) := by rfl

end ASV.C04
