/-
  C15 — ORF scanning finds exactly the open reading frames of the searched sequence.
  Property theorems only; helper lemmas live in ASV/Proofs/Orf*.lean.
-/
import ASV.Spec.Orf
namespace ASV.C15
open ASV ASV.Orf

/-- D23 (known finding): the 12-nt ORF is not reported for `minimum_length = 12` -/
theorem minlen_exclusive_witness :
    scanOrfs "ATGAAAAAATAA".toList true 0 12 none = []
    ∧ scanOrfs "ATGAAAAAATAA".toList true 0 11 none = [.simple ⟨0, 12, .fwd⟩] := by decide

end ASV.C15
