/-
  C15 — ORF scanning finds exactly the open reading frames of the searched sequence.
  Property theorems only; helper lemmas live in ASV/Proofs/Orf*.lean.

  All statements are for every sequence (any length, any characters), every frame, offset,
  record length and minimum length; the model is `ASV/Model/Orf.lean` (the tree with
  fixes/D13, D28, D29 applied), the spec `ASV/Spec/Orf.lean`.

  D23 (`end - start < minimum_length`, pinned by the repo's own `test_no_hits`) is a known
  finding: the exactness theorem with the documented bound `≥ minLen` is `_partial`
  (hypothesis: no ORF of exactly `minLen` nucleotides), the bound the code really implements
  (`> minLen`) is proved for all inputs, and the excluded region has a negation witness.
-/
import ASV.Proofs.OrfScan
import ASV.Proofs.OrfSpec
import ASV.Proofs.OrfSort
import ASV.Proofs.OrfExtract
import ASV.Proofs.OrfGaps
import ASV.Proofs.OrfChunk
import ASV.Proofs.OrfCross
import ASV.Proofs.OrfGapsComplete
import ASV.Proofs.OrfComplement
import ASV.Proofs.OrfTrim
import ASV.Proofs.OrfRecord
import ASV.Proofs.OrfTranslate
namespace ASV.C15
open ASV ASV.Orf

/-! ### 1. the scan reports exactly the open reading frames -/

/-- the property's first sentence for one frame, with the documented bound "at least the
    minimum length" -/
def ScanFrameExact (w : Seq) (minLen : Int) (f : Nat) : Prop :=
  ∀ s e, (s, e) ∈ scanFrame w minLen f ↔ s % 3 = f ∧ IsOrf w s e ∧ minLen ≤ orfLen s e

/-- the known-finding class of D23 is the complement of this: some ORF of the window is exactly
    `minLen` long (evaluated by the driver as `exact_len`) -/
def NoExactLen (w : Seq) (minLen : Int) : Prop := ∀ s e, IsOrf w s e → orfLen s e ≠ minLen

/-- what the loop does for *all* inputs: frame `f` yields exactly the ORFs of that frame that are
    strictly longer than `minLen` -/
theorem scan_frame_exact_strict (w : Seq) (minLen : Int) (f : Nat) (hf : f < 3) (s e : Nat) :
    (s, e) ∈ scanFrame w minLen f ↔ s % 3 = f ∧ IsOrf w s e ∧ minLen < orfLen s e :=
  scanFrame_mem w minLen f hf s e

/-- H: no ORF of the window is exactly `minLen` long (D23) -/
theorem scan_frame_exact_partial (w : Seq) (minLen : Int) (f : Nat) (hf : f < 3)
    (h : NoExactLen w minLen) : ScanFrameExact w minLen f := by
  intro s e
  rw [scanFrame_mem w minLen f hf s e]
  constructor
  · rintro ⟨h1, h2, h3⟩; exact ⟨h1, h2, by omega⟩
  · rintro ⟨h1, h2, h3⟩; have := h s e h2; exact ⟨h1, h2, by omega⟩

/-- ORF lengths are multiples of three, so the documented bound holds unconditionally whenever
    `minLen` is not a multiple of three -/
theorem scan_frame_exact_off_multiples (w : Seq) (minLen : Int) (f : Nat) (hf : f < 3)
    (h3 : minLen % 3 ≠ 0) : ScanFrameExact w minLen f := by
  apply scan_frame_exact_partial w minLen f hf
  intro s e ho heq
  have := ho.frame; have := ho.lt
  simp only [orfLen] at heq
  omega

/-- negation witness for D23: the 12-nt ORF with `minimum_length = 12` -/
theorem scan_frame_exact_fails_D23 : ¬ ScanFrameExact "ATGAAAAAATAA".toList 12 0 := by
  intro h
  have h1 : ((0, 9) : Nat × Nat) ∈ scanFrame "ATGAAAAAATAA".toList 12 0 :=
    (h 0 9).2 ⟨rfl, by decide, by decide⟩
  revert h1
  decide

/-- the three frames together (all inputs) -/
theorem scan_matches_exact_strict (w : Seq) (minLen : Int) (s e : Nat) :
    (s, e) ∈ scanMatches w minLen ↔ IsOrf w s e ∧ minLen < orfLen s e :=
  mem_scanMatches w minLen s e

/-- `scan_orfs` as a whole: the reported locations are exactly the locations of the window's
    ORFs longer than `minLen` -/
theorem scan_orfs_exact_strict (seq : Seq) (fwd : Bool) (offset minLen : Int) (recLen : Option Int)
    (l : Loc) :
    l ∈ scanOrfs seq fwd offset minLen recLen ↔
      ∃ s e, IsOrf (upper seq) s e ∧ minLen < orfLen s e ∧
        l = orfLoc fwd (upper seq).length offset recLen s e :=
  mem_scanOrfs seq fwd offset minLen recLen l

/-- …and with the documented bound under H -/
theorem scan_orfs_exact_partial (seq : Seq) (fwd : Bool) (offset minLen : Int) (recLen : Option Int)
    (h : NoExactLen (upper seq) minLen) (l : Loc) :
    l ∈ scanOrfs seq fwd offset minLen recLen ↔
      ∃ s e, IsOrf (upper seq) s e ∧ minLen ≤ orfLen s e ∧
        l = orfLoc fwd (upper seq).length offset recLen s e := by
  rw [mem_scanOrfs]
  constructor
  · rintro ⟨s, e, h1, h2, h3⟩; exact ⟨s, e, h1, by omega, h3⟩
  · rintro ⟨s, e, h1, h2, h3⟩; have := h s e h1; exact ⟨s, e, h1, by omega, h3⟩

/-- ORF lengths are multiples of three, so `NoExactLen` holds for free when `minLen` is not -/
theorem no_exact_len_off_multiples (w : Seq) (minLen : Int) (h3 : minLen % 3 ≠ 0) : NoExactLen w minLen := by
  intro s e ho heq
  have := ho.frame; have := ho.lt
  simp only [orfLen] at heq
  omega

/-- …nor when `minLen` exceeds the window, or is below the shortest possible ORF (6 nt) -/
theorem no_exact_len_out_of_range (w : Seq) (minLen : Int) (h : minLen < 6 ∨ (w.length : Int) < minLen) :
    NoExactLen w minLen := by
  intro s e ho heq
  have := ho.frame; have := ho.lt; have := ho.inside
  simp only [orfLen] at heq
  omega

/-- `scan_orfs` as a whole with the documented bound "at least `minLen`", unconditionally, for every
    `minLen` that is not a multiple of three, is below 6 or exceeds the sequence — D23 only bites
    when an ORF of exactly `minLen` can exist -/
theorem scan_orfs_exact_off_multiples (seq : Seq) (fwd : Bool) (offset minLen : Int) (recLen : Option Int)
    (h : minLen % 3 ≠ 0 ∨ minLen < 6 ∨ ((upper seq).length : Int) < minLen) (l : Loc) :
    l ∈ scanOrfs seq fwd offset minLen recLen ↔
      ∃ s e, IsOrf (upper seq) s e ∧ minLen ≤ orfLen s e ∧
        l = orfLoc fwd (upper seq).length offset recLen s e := by
  apply scan_orfs_exact_partial
  rcases h with h | h
  · exact no_exact_len_off_multiples _ _ h
  · exact no_exact_len_out_of_range _ _ h

/-- the codon tables of the tree under test (regenerated every run) hold exactly the codons the
    property names; the spec itself never reads them -/
theorem codon_tables_as_documented :
    (∀ c ∈ Gen.startCodons, c ∈ docStartCodons) ∧ (∀ c ∈ docStartCodons, c ∈ Gen.startCodons) ∧
    (∀ c ∈ Gen.stopCodons, c ∈ docStopCodons) ∧ (∀ c ∈ docStopCodons, c ∈ Gen.stopCodons) :=
  tables_as_documented

/-- the executable spec the driver runs on implementation output is the propositional one -/
theorem spec_orfs_enumerates (w : Seq) (s e : Nat) : (s, e) ∈ specOrfs w ↔ IsOrf w s e :=
  mem_specOrfs w s e

/-! ### 2. the reported coordinates extract to precisely that ORF -/

/-- forward strand on a ring: the window is `record[offset .. offset+n) mod L` -/
theorem orf_coords_extract_fwd (comp : Char → Char) (rec w : Seq) (offset : Int) (s e : Nat)
    (hL : 0 < rec.length) (hwin : WindowFwd rec w offset rec.length)
    (hs : s < e) (he : e + 3 ≤ w.length) (hlen : orfLen s e ≤ rec.length) :
    extract comp rec (orfLoc true w.length offset (some (rec.length : Int)) s e) = orfSeq w s e :=
  extract_fwd_ring comp rec w offset s e hL hwin hs he hlen

/-- reverse strand on a ring: the window is the reverse complement of that chunk; covers the
    wrapped case (D13: parts in transcription order) and the whole-ring case (D28) -/
theorem orf_coords_extract_rev (comp : Char → Char) (rec w : Seq) (offset : Int) (s e : Nat)
    (hL : 0 < rec.length) (hwin : WindowRev comp rec w offset rec.length)
    (hs : s < e) (he : e + 3 ≤ w.length) (hlen : orfLen s e ≤ rec.length) :
    extract comp rec (orfLoc false w.length offset (some (rec.length : Int)) s e) = orfSeq w s e :=
  extract_rev_ring comp rec w offset s e hL hwin hs he hlen

/-- `record_length=None`, forward -/
theorem orf_coords_extract_fwd_line (comp : Char → Char) (rec w : Seq) (offset : Int) (s e : Nat)
    (hwin : WindowFwdLin rec w offset) (hs : s < e) (he : e + 3 ≤ w.length) :
    extract comp rec (orfLoc true w.length offset none s e) = orfSeq w s e :=
  extract_fwd_line comp rec w offset s e hwin hs he

/-- `record_length=None`, reverse -/
theorem orf_coords_extract_rev_line (comp : Char → Char) (rec w : Seq) (offset : Int) (s e : Nat)
    (hwin : WindowRevLin comp rec w offset) (hfit : offset + w.length ≤ rec.length)
    (hs : s < e) (he : e + 3 ≤ w.length) :
    extract comp rec (orfLoc false w.length offset none s e) = orfSeq w s e :=
  extract_rev_line comp rec w offset s e hwin hfit hs he

/-- parts lie in `[0, L]`, are non-empty and on the scan's strand; their lengths add up to the
    ORF's; two parts exactly when the ORF runs over the origin, and then the location bridges
    the origin in the sense of `secmet.locations.location_bridges_origin` -/
theorem orf_coords_shape (fwd : Bool) (n : Nat) (offset L : Int) (s e : Nat) (hL : 0 < L) (hs : s < e)
    (hlen : orfLen s e ≤ L) :
    (∀ p ∈ (orfLoc fwd n offset (some L) s e).parts,
        0 ≤ p.lo ∧ p.lo < p.hi ∧ p.hi ≤ L ∧ p.strand = dirStrand fwd)
    ∧ (orfLoc fwd n offset (some L) s e).len = orfLen s e
    ∧ ((orfLoc fwd n offset (some L) s e).isCompound = true ↔
        L < orfBase fwd n offset s e % L + orfLen s e)
    ∧ ((orfLoc fwd n offset (some L) s e).isCompound = true →
        (orfLoc fwd n offset (some L) s e).parts.length = 2)
    ∧ bridgesOrigin (orfLoc fwd n offset (some L) s e) = (orfLoc fwd n offset (some L) s e).isCompound :=
  orfLoc_shape fwd n offset L s e hL hs hlen

/-- without a record length the location is one part `[base, base + len)`; the branch that
    would build a compound location from `record_length=None` is unreachable -/
theorem orf_coords_line_simple (fwd : Bool) (n : Nat) (offset : Int) (s e : Nat) (hs : s < e) :
    orfLoc fwd n offset none s e =
      .simple ⟨orfBase fwd n offset s e, orfBase fwd n offset s e + orfLen s e, dirStrand fwd⟩ :=
  orfLoc_line fwd n offset s e hs

/-! ### 3. order and duplicates -/

/-- "ordered by ascending position" -/
theorem scan_sorted (seq : Seq) (fwd : Bool) (offset minLen : Int) (recLen : Option Int) :
    (scanOrfs seq fwd offset minLen recLen).Pairwise fun a b => sortKey a ≤ sortKey b :=
  sortByKey_sorted _

/-- the result is a rearrangement of the matches found, and no match is found twice -/
theorem scan_no_duplicates (seq : Seq) (fwd : Bool) (offset minLen : Int) (recLen : Option Int) :
    (scanOrfs seq fwd offset minLen recLen).Perm
        ((scanMatches (upper seq) minLen).map fun m => orfLoc fwd (upper seq).length offset recLen m.1 m.2)
    ∧ (scanMatches (upper seq) minLen).Nodup :=
  ⟨sortByKey_perm _, scanMatches_nodup _ _⟩

/-! ### 4. gaps between genes -/

/-- every area returned lies in `[start, end)`, is at least `minLen` long and touches no gene's
    core `[g.start + pad, g.end − pad)` — for genes given in ANY order (the function orders them by
    start itself since fixes/D66-C15; the record lists origin-spanning genes first) -/
theorem intergenic_sound (start «end» minLen pad : Int) (genes : List Gene) (hpad : 0 ≤ pad)
    (a : Int × Int)
    (ha : a ∈ findIntergenic start «end» genes minLen pad) :
    start ≤ a.1 ∧ a.2 ≤ «end» ∧ minLen ≤ a.2 - a.1 ∧
      ∀ g ∈ genes, ∀ i, a.1 ≤ i → i < a.2 → ¬ g.core pad i :=
  findIntergenic_sound start «end» minLen pad genes hpad a ha

/-- the check the driver evaluates on the implementation's areas is that statement -/
theorem intergenic_check_meaning (genes : List Gene) (pad : Int) (a : Int × Int) :
    areaAvoids genes pad a = true ↔ ∀ g ∈ genes, ∀ i, a.1 ≤ i → i < a.2 → ¬ g.core pad i :=
  areaAvoids_iff genes pad a

/-- completeness (no ordering assumption needed): every non-empty stretch `[a, b)` of `[start, end)`
    of at least `minLen` bases that lies entirely on one side of every padded gene (`Beside`: it
    ends at or before `g.start + pad` or begins at or after `g.end − pad`) is contained in one
    returned area -/
theorem intergenic_complete (start «end» minLen pad : Int) (genes : List Gene) (a b : Int)
    (h1 : start ≤ a) (h2 : a < b) (h3 : b ≤ «end») (hlen : minLen ≤ b - a)
    (hb : ∀ g ∈ genes, Beside g pad a b) :
    ∃ area ∈ findIntergenic start «end» genes minLen pad, area.1 ≤ a ∧ b ≤ area.2 :=
  findIntergenic_complete start «end» minLen pad genes a b h1 h2 h3 hlen hb

/-- for genes longer than twice the padding "beside" is just "clear of the core": every stretch
    clear of all cores is contained in one returned area -/
theorem intergenic_complete_clear (start «end» minLen pad : Int) (genes : List Gene) (a b : Int)
    (h1 : start ≤ a) (h2 : a < b) (h3 : b ≤ «end») (hlen : minLen ≤ b - a)
    (hlong : ∀ g ∈ genes, g.start + pad < g.end - pad)
    (hclear : ∀ g ∈ genes, ∀ i, a ≤ i → i < b → ¬ g.core pad i) :
    ∃ area ∈ findIntergenic start «end» genes minLen pad, area.1 ≤ a ∧ b ≤ area.2 :=
  findIntergenic_complete start «end» minLen pad genes a b h1 h2 h3 hlen
    (fun g hg => beside_of_clear g pad a b h2 (hlong g hg) (hclear g hg))

/-- every maximal gap (`IsGap`) beside all genes and long enough is returned as it is -/
theorem intergenic_gap_returned (start «end» minLen pad : Int) (genes : List Gene) (hpad : 0 ≤ pad)
    (a b : Int) (hgap : IsGap start «end» genes pad a b)
    (hb : ∀ g ∈ genes, Beside g pad a b) (hlen : minLen ≤ b - a) :
    (a, b) ∈ findIntergenic start «end» genes minLen pad :=
  findIntergenic_gap_mem start «end» minLen pad genes hpad a b hgap hb hlen

/-- "the gap search returns exactly the gaps": genes (in any order) longer than twice the
    padding, `minLen > 0` — the returned areas are precisely the maximal gaps of `[start, end)`
    between padded genes that are at least `minLen` long -/
theorem intergenic_returns_exactly_gaps (start «end» minLen pad : Int) (genes : List Gene)
    (hpad : 0 ≤ pad) (hmin : 0 < minLen)
    (hlong : ∀ g ∈ genes, g.start + pad < g.end - pad) (a b : Int) :
    (a, b) ∈ findIntergenic start «end» genes minLen pad ↔
      IsGap start «end» genes pad a b ∧ minLen ≤ b - a :=
  findIntergenic_iff_gap start «end» minLen pad genes hpad hmin hlong a b

/-! ### 5. `find_all_orfs`: ORFs lie in the gaps and extract to ORFs -/

/-- every location found by the scanning loop of `find_all_orfs` lies, base for base, inside one
    of the intergenic areas it was given (also for the area that reaches back over the origin) -/
theorem all_orfs_in_areas (rec : Seq) (minLen : Int) (hL : 0 < rec.length)
    (areas : List (Int × Int)) (locs : List Loc) (hok : ∀ a ∈ areas, AreaOk rec.length a)
    (h : scanAreas rec minLen areas = some locs) :
    ∀ l ∈ locs, ∃ a ∈ areas, locInArea rec.length a l = true :=
  scanAreas_in_areas rec minLen hL areas locs hok h

/-- search of `[start, end)` on a record (whole record: `start = 0`, `end = len`): every ORF
    found lies inside an area that is inside `[start, end)` and clear of every gene's core -/
theorem all_orfs_in_gaps (rec : Seq) (genes : List Gene) (start «end» minLen pad : Int)
    (hL : 0 < rec.length) (hpad : 0 ≤ pad) (hmin : 0 ≤ minLen) (hstart : 0 ≤ start)
    (hend : «end» ≤ rec.length) (locs : List Loc)
    (h : scanAreas rec minLen (findIntergenic start «end» genes minLen pad) = some locs) :
    ∀ l ∈ locs, ∃ a : Int × Int, locInArea rec.length a l = true ∧ start ≤ a.1 ∧ a.2 ≤ «end» ∧
      ∀ g ∈ genes, ∀ i, a.1 ≤ i → i < a.2 → ¬ g.core pad i := by
  intro l hl
  have hs := fun a ha => findIntergenic_sound start «end» minLen pad genes hpad a ha
  obtain ⟨a, ha, hin⟩ := scanAreas_in_areas rec minLen hL _ locs (fun a ha => by
    obtain ⟨h1, h2, h3, _⟩ := hs a ha
    exact ⟨by omega, by omega, by omega, by omega⟩) h l hl
  obtain ⟨h1, h2, _, h4⟩ := hs a ha
  exact ⟨a, hin, h1, h2, h4⟩

/-- origin-crossing search: the areas handed to the scanning loop are intergenic areas of the
    area's parts (each sound by `intergenic_sound`), except that the one ending at the record's
    end and the one starting at 0 are joined into one area reaching back over the origin, whose
    bases are exactly those of the two -/
theorem cross_origin_areas_sound (parts : List (Int × Int × List Gene)) (L minLen pad : Int)
    (areas : List (Int × Int)) (h : crossOriginIntergenic parts L minLen pad = some areas) :
    ∀ a ∈ areas,
      (∃ p ∈ parts, a ∈ findIntergenic p.1 p.2.1 p.2.2 minLen pad) ∨
      (∃ p ∈ parts, ∃ q ∈ parts, ∃ pre ∈ findIntergenic p.1 p.2.1 p.2.2 minLen pad,
        ∃ post ∈ findIntergenic q.1 q.2.1 q.2.2 minLen pad,
        pre.2 = L ∧ post.1 = 0 ∧ a = (pre.1 - L, post.2)) :=
  crossOrigin_sound parts L minLen pad areas h

/-- the chunk cut for an area is a window of the record, so (forward scan) every location
    reported for it extracts from the upper-cased record to an ORF of the chunk -/
theorem all_orfs_extract_fwd (comp : Char → Char) (rec : Seq) (st en minLen : Int)
    (hL : 0 < rec.length) (hok : AreaOk rec.length (st, en)) (hen : en ≤ rec.length) (l : Loc)
    (hl : l ∈ scanOrfs (chunkOf rec st en) true st minLen (some (rec.length : Int))) :
    ∃ s e, IsOrf (upper (chunkOf rec st en)) s e ∧
      extract comp (upper rec) l = orfSeq (upper (chunkOf rec st en)) s e := by
  obtain ⟨s, e, horf, _, rfl⟩ := (mem_scanOrfs _ _ _ _ _ _).1 hl
  refine ⟨s, e, horf, ?_⟩
  have hw := windowFwd_upper _ _ _ _ (chunkOf_window rec st en hok hen)
  have hlen : ((upper (chunkOf rec st en)).length : Int) ≤ rec.length := by
    rw [upper_length, chunkOf_length rec st en hok hen]; have := hok.2.2.1; simpa using this
  have := extract_fwd_ring comp (upper rec) (upper (chunkOf rec st en)) st s e
    (by rw [upper_length]; exact hL) (by rw [upper_length]; exact hw) horf.lt horf.inside
    (by rw [upper_length]; have := horf.inside; simp only [orfLen]; omega)
  rw [upper_length rec] at this
  exact this

/-- same for the reverse scan of the chunk's reverse complement (`complement` = Biopython's
    table, which commutes with upper-casing: `complement_upper`), any case -/
theorem all_orfs_extract_rev (rec : Seq) (st en minLen : Int)
    (hL : 0 < rec.length) (hok : AreaOk rec.length (st, en)) (hen : en ≤ rec.length) (l : Loc)
    (hl : l ∈ scanOrfs (revComp (chunkOf rec st en)) false st minLen (some (rec.length : Int))) :
    ∃ s e, IsOrf (upper (revComp (chunkOf rec st en))) s e ∧
      extract complement (upper rec) l = orfSeq (upper (revComp (chunkOf rec st en))) s e := by
  obtain ⟨s, e, horf, _, rfl⟩ := (mem_scanOrfs _ _ _ _ _ _).1 hl
  refine ⟨s, e, horf, ?_⟩
  have hw := windowRev_upper complement complement_upper _ _ _ _
    (windowRev_of_fwd _ _ _ _ (chunkOf_window rec st en hok hen))
  have hlenC := chunkOf_length rec st en hok hen
  have h3 := hok.2.2.1
  simp only at h3
  have := extract_rev_ring complement (upper rec) (upper (revComp (chunkOf rec st en))) st s e
    (by rw [upper_length]; exact hL) (by rw [upper_length]; exact hw) horf.lt horf.inside
    (by rw [upper_length]; have := horf.inside; rw [upper_length, revComp_length] at this
        simp only [orfLen]; omega)
  rw [upper_length rec] at this
  exact this

/-- the chunk cut for an area is the window `record[start .. end)` (around the origin when
    `start < 0`), and its reverse complement is the reverse window -/
theorem chunk_is_window (rec : Seq) (st en : Int) (hok : AreaOk rec.length (st, en)) (hen : en ≤ rec.length) :
    WindowFwd rec (chunkOf rec st en) st rec.length ∧
    WindowRev complement rec (revComp (chunkOf rec st en)) st rec.length :=
  ⟨chunkOf_window rec st en hok hen, windowRev_of_fwd _ _ _ _ (chunkOf_window rec st en hok hen)⟩

/-- the window scanned on strand `fwd` for a chunk -/
def strandWindow (fwd : Bool) (chunk : Seq) : Seq := if fwd then chunk else revComp chunk

/-- `find_all_orfs` returns exactly (D23: strictly longer than `minLen`) the ORFs of the gaps: a
    location is returned iff it is the location of an ORF (`IsOrf`) of the chunk of one of the
    intergenic areas, read on either strand -/
theorem all_orfs_exact_strict (rec : Seq) (cross : Bool) (parts : List (Int × Int × List Gene))
    (minLen pad : Int) (locs : List Loc) (h : findAllOrfs rec cross parts minLen pad = some locs) (l : Loc) :
    l ∈ locs ↔ ∃ areas, orfAreas rec.length cross parts minLen pad = some areas ∧
      ∃ a ∈ areas, ∃ fwd s e,
        IsOrf (upper (strandWindow fwd (chunkOf rec a.1 a.2))) s e ∧ minLen < orfLen s e ∧
        l = orfLoc fwd (chunkOf rec a.1 a.2).length a.1 (some (rec.length : Int)) s e := by
  unfold findAllOrfs at h
  cases hareas : orfAreas rec.length cross parts minLen pad with
  | none => rw [hareas] at h; simp only [Option.bind_none, reduceCtorEq] at h
  | some areas =>
    rw [hareas] at h
    simp only [Option.bind_some] at h
    rw [scanAreas_mem rec minLen areas locs h l]
    constructor
    · rintro ⟨a, ha, hl | hl⟩
      · obtain ⟨s, e, h1, h2, h3⟩ := (mem_scanOrfs _ _ _ _ _ _).1 hl
        exact ⟨areas, rfl, a, ha, true, s, e, h1, h2, by rw [h3, upper_length]⟩
      · obtain ⟨s, e, h1, h2, h3⟩ := (mem_scanOrfs _ _ _ _ _ _).1 hl
        exact ⟨areas, rfl, a, ha, false, s, e, h1, h2, by rw [h3, upper_length, revComp_length]⟩
    · rintro ⟨areas', he, a, ha, fwd, s, e, h1, h2, h3⟩
      have : areas' = areas := by simpa using he.symm
      subst this
      refine ⟨a, ha, ?_⟩
      cases fwd
      · exact Or.inr ((mem_scanOrfs _ _ _ _ _ _).2 ⟨s, e, h1, h2, by rw [h3, upper_length, revComp_length]⟩)
      · exact Or.inl ((mem_scanOrfs _ _ _ _ _ _).2 ⟨s, e, h1, h2, by rw [h3, upper_length]⟩)

/-- the same with the documented bound `≥ minLen` when `minLen` is not a multiple of three or is
    below 6 (no ORF can be exactly that long; otherwise D23, known finding) -/
theorem all_orfs_exact_off_multiples (rec : Seq) (cross : Bool) (parts : List (Int × Int × List Gene))
    (minLen pad : Int) (hm : minLen % 3 ≠ 0 ∨ minLen < 6) (locs : List Loc)
    (h : findAllOrfs rec cross parts minLen pad = some locs) (l : Loc) :
    l ∈ locs ↔ ∃ areas, orfAreas rec.length cross parts minLen pad = some areas ∧
      ∃ a ∈ areas, ∃ fwd s e,
        IsOrf (upper (strandWindow fwd (chunkOf rec a.1 a.2))) s e ∧ minLen ≤ orfLen s e ∧
        l = orfLoc fwd (chunkOf rec a.1 a.2).length a.1 (some (rec.length : Int)) s e := by
  rw [all_orfs_exact_strict rec cross parts minLen pad locs h l]
  have key : ∀ (w : Seq) (s e : Nat), IsOrf w s e → (minLen < orfLen s e ↔ minLen ≤ orfLen s e) := by
    intro w s e ho
    have := ho.frame; have := ho.lt
    simp only [orfLen]
    omega
  constructor
  · rintro ⟨areas, ha, a, hmem, fwd, s, e, h1, h2, h3⟩
    exact ⟨areas, ha, a, hmem, fwd, s, e, h1, (key _ s e h1).1 h2, h3⟩
  · rintro ⟨areas, ha, a, hmem, fwd, s, e, h1, h2, h3⟩
    exact ⟨areas, ha, a, hmem, fwd, s, e, h1, (key _ s e h1).2 h2, h3⟩

/-- completeness, spelled out: when the gap search yields `areas` inside the record, the call
    succeeds and every ORF longer than `minLen` of every gap, on either strand, is among the
    locations returned (at the coordinates `orf_coords_extract_*` show to be the right ones) -/
theorem all_orfs_complete_in_gaps (rec : Seq) (cross : Bool) (parts : List (Int × Int × List Gene))
    (minLen pad : Int) (areas : List (Int × Int))
    (hareas : orfAreas rec.length cross parts minLen pad = some areas)
    (hin : ∀ a ∈ areas, a.2 ≤ (rec.length : Int)) :
    ∃ locs, findAllOrfs rec cross parts minLen pad = some locs ∧
      ∀ a ∈ areas, ∀ (fwd : Bool) (s e : Nat),
        IsOrf (upper (strandWindow fwd (chunkOf rec a.1 a.2))) s e → minLen < orfLen s e →
        orfLoc fwd (chunkOf rec a.1 a.2).length a.1 (some (rec.length : Int)) s e ∈ locs := by
  obtain ⟨locs, hlocs⟩ := scanAreas_isSome rec minLen areas hin
  have hfind : findAllOrfs rec cross parts minLen pad = some locs := by
    unfold findAllOrfs; rw [hareas]; exact hlocs
  refine ⟨locs, hfind, ?_⟩
  intro a ha fwd s e h1 h2
  exact (all_orfs_exact_strict rec cross parts minLen pad locs hfind _).2
    ⟨areas, hareas, a, ha, fwd, s, e, h1, h2, rfl⟩

/-- for a search of `[start, end)` inside the record the areas are inside it, so the previous
    theorem applies without further assumptions -/
theorem all_orfs_complete_linear (rec : Seq) (start «end» minLen pad : Int) (genes : List Gene)
    (hend : «end» ≤ rec.length) :
    ∃ locs, findAllOrfs rec false [(start, «end», genes)] minLen pad = some locs ∧
      ∀ a ∈ findIntergenic start «end» genes minLen pad, ∀ (fwd : Bool) (s e : Nat),
        IsOrf (upper (strandWindow fwd (chunkOf rec a.1 a.2))) s e → minLen < orfLen s e →
        orfLoc fwd (chunkOf rec a.1 a.2).length a.1 (some (rec.length : Int)) s e ∈ locs := by
  apply all_orfs_complete_in_gaps rec false [(start, «end», genes)] minLen pad _ rfl
  intro a ha
  unfold findIntergenic at ha
  have hm := (List.mem_filter.1 ha).1
  -- every area of the loop ends at or before `end`
  have : ∀ (gs : List Gene) (last : Int), ∀ x ∈ intergenicLoop start «end» pad gs last, x.2 ≤ «end» := by
    intro gs
    induction gs with
    | nil =>
      intro last x hx
      unfold intergenicLoop at hx
      split at hx
      · rw [List.mem_singleton] at hx; subst hx; exact Int.le_refl _
      · exact absurd hx List.not_mem_nil
    | cons g gs ih =>
      intro last x hx
      unfold intergenicLoop at hx
      split at hx
      · rcases List.mem_cons.1 hx with rfl | hx
        · simp only; omega
        · exact ih _ x hx
      · split at hx
        · exact ih _ x hx
        · exact ih _ x hx
  have := this (sortGenes genes) start a hm
  omega

/-! ### 5b. `find_all_orfs` on a record: the genes come from the record's own lookup -/

/-- the gap search in the words of the property ("up to the allowed overlap"): any stretch inside
    a returned area shares at most `pad` bases with every gene handed to the search — also with
    genes shorter than twice the padding -/
theorem intergenic_sound_overlap (start «end» minLen pad : Int) (genes : List Gene) (hpad : 0 ≤ pad)
    (a : Int × Int)
    (ha : a ∈ findIntergenic start «end» genes minLen pad) (g : Gene) (hg : g ∈ genes)
    (x y : Int) (hx : a.1 ≤ x) (hy : y ≤ a.2) : overlapSize g x y ≤ pad :=
  findIntergenic_overlap start «end» minLen pad genes hpad a ha g hg x y hx hy

/-- the gap search reads `cds.location.start` / `cds.location.end` — the coordinate hull of the gene
    (`geneOf`), for a gene over the origin `0` and `len(record)` — so every area shares at most `pad` bases
    with every *exon* of every gene handed to it, wherever the exons lie inside the hull (the transcription-
    order ends `Feature.start/.end` of an origin-spanning gene would not give this) -/
theorem intergenic_sound_exons (start «end» minLen pad : Int) (genes : List Lookup.Gene) (hpad : 0 ≤ pad)
    (a : Int × Int)
    (ha : a ∈ findIntergenic start «end» (genes.map geneOf) minLen pad) (g : Lookup.Gene) (hg : g ∈ genes)
    (gp : Part) (hgp : gp ∈ g.loc.parts) (x y : Int) (hx : a.1 ≤ x) (hy : y ≤ a.2) :
    exonOverlap gp x y ≤ pad := by
  have := findIntergenic_overlap start «end» minLen pad _ hpad a ha (geneOf g)
    (List.mem_map.2 ⟨g, hg, rfl⟩) x y hx hy
  have hull := start_le_part g.loc gp hgp
  simp only [overlapSize, geneOf] at this
  simp only [exonOverlap]
  omega

/-- `find_all_orfs(record, area)` with the gene lists obtained the way the code obtains them —
    `record.get_cds_features()` for the whole record, `get_cds_features_within_location(area.location,
    with_overlapping=True)` (C08's model, `Lookup.within`) for an area — returns no ORF sharing more than
    `max_overlap` bases with ANY gene of the record: nested genes, genes starting before the area and
    reaching into it, whatever lies between them in the record's order.  `genes` is the record's gene
    list (in `Feature.__lt__` order, well-formed: invariants of every record, C08 `genes_stay_sorted`),
    genes of any shape — several exons, introns, running over the origin on either strand (the record lists
    those first whatever their coordinates; the gap search orders what it is given by `location.start`
    itself, fixes/D66-C15) — the bound holds exon by exon;
    the area is absent or a single stretch inside the record. -/
theorem all_orfs_avoid_every_gene (rec : Seq) (genes : List Lookup.Gene) (hs : Lookup.Sorted genes)
    (hok : Lookup.GenesOK genes) (area : Option Part) (minLen pad : Int)
    (hL : 0 < rec.length) (hpad : 0 ≤ pad) (hmin : 0 ≤ minLen)
    (harea : ∀ p, area = some p → 0 ≤ p.lo ∧ p.lo < p.hi ∧ p.hi ≤ rec.length)
    (locs : List Loc) (h : findAllOrfsRec rec genes (area.map Loc.simple) minLen pad = some locs) :
    ∀ l ∈ locs, locOverlapOk (genes.map (·.loc)) pad l = true :=
  findAllOrfsRec_overlap_linear rec genes hs hok area minLen pad hL hpad hmin harea locs h

/-- the same for an origin-crossing area `join{[a, L), [0, b)}` with `0 < b ≤ a < L`: each part's genes
    come from the lookup for that part, and every part of every ORF found (also of an ORF running over
    the origin) shares at most `max_overlap` bases with any gene of the record -/
theorem all_orfs_avoid_every_gene_crossing (rec : Seq) (genes : List Lookup.Gene) (hs : Lookup.Sorted genes)
    (hok : Lookup.GenesOK genes) (a b : Int) (s1 s2 : Strand) (minLen pad : Int)
    (hpad : 0 ≤ pad) (hmin : 0 ≤ minLen) (hb : 0 < b) (hba : b ≤ a) (haL : a < rec.length)
    (hcross : Lookup.crosses (.compound [⟨a, rec.length, s1⟩, ⟨0, b, s2⟩]) = true)
    (locs : List Loc)
    (h : findAllOrfsRec rec genes (some (.compound [⟨a, rec.length, s1⟩, ⟨0, b, s2⟩])) minLen pad = some locs) :
    ∀ l ∈ locs, locOverlapOk (genes.map (·.loc)) pad l = true :=
  findAllOrfsRec_overlap_crossing rec genes hs hok a b s1 s2 minLen pad hpad hmin hb hba haL hcross locs h

/-- `return sorted(new_features)`: the features come back as a rearrangement of what the scans found,
    in `Feature.__lt__` order (C08's `locLt`: by start — origin-crossing locations by their negative head
    start, i.e. first — then by length); nothing is lost or invented by the sort, so every statement above
    about the locations found holds for the list returned -/
theorem all_orfs_sorted (rec : Seq) (genes : List Lookup.Gene) (area : Option Loc) (minLen pad : Int)
    (out : List Loc) (h : findAllOrfsSorted rec genes area minLen pad = some out) :
    ∃ locs, findAllOrfsRec rec genes area minLen pad = some locs ∧ out.Perm locs ∧
      out.Pairwise (fun a b => Lookup.locLt b a = false) ∧ ∀ l, l ∈ out ↔ l ∈ locs := by
  unfold findAllOrfsSorted at h
  cases hl : findAllOrfsRec rec genes area minLen pad with
  | none => rw [hl] at h; simp only [Option.map_none, reduceCtorEq] at h
  | some locs =>
    rw [hl] at h
    simp only [Option.map_some, Option.some.injEq] at h
    subst h
    exact ⟨locs, rfl, sortLocs_perm locs, sortLocs_sorted locs, fun l => (sortLocs_perm locs).mem_iff⟩

/-- `Record.get_aa_translation_from_location` refuses locations with `location.end > len(record)`; the
    locations `scan_orfs` reports on a ring never trip that guard (and have `location.start ≥ 0`) -/
theorem orf_location_inside_record (fwd : Bool) (n : Nat) (offset L : Int) (s e : Nat) (hL : 0 < L) (hs : s < e)
    (hlen : orfLen s e ≤ L) :
    0 ≤ (orfLoc fwd n offset (some L) s e).start ∧ (orfLoc fwd n offset (some L) s e).end ≤ L := by
  rw [orfLoc_ring fwd n offset L s e hL hs hlen]
  have hnn : 0 ≤ orfBase fwd n offset s e % L := Int.emod_nonneg _ (by omega)
  have hlt : orfBase fwd n offset s e % L < L := Int.emod_lt_of_pos _ hL
  have hm : 0 < orfLen s e := by simp only [orfLen]; omega
  split
  · simp only [Loc.start, Loc.end]; omega
  · cases fwd <;>
    simp only [Bool.false_eq_true, if_false, if_true, Loc.start, Loc.end, minList, maxList, List.map_cons,
      List.map_nil, List.foldl_cons, List.foldl_nil] <;> omega

/-- the default label of `create_feature_from_location` names the ORF by its coordinates, whatever the
    strand and whatever the order of the parts: for the location `scan_orfs` reports on a ring it is
    `allorf_<first base, 1-based>_<end>` with `first = base mod L` (the lowest coordinate of the part
    that reaches the record's end, or of the single part) and `end` the end of the single part or of the
    part after the origin — the same string for a forward and a reverse ORF at the same coordinates
    (fixes/D13 kept the labels while putting reverse parts in transcription order) -/
theorem orf_label_coordinates (recLen : Nat) (fwd : Bool) (n : Nat) (offset L : Int) (s e : Nat) (hL : 0 < L)
    (hs : s < e) (hlen : orfLen s e ≤ L) :
    orfLabel recLen (orfLoc fwd n offset (some L) s e) =
      "allorf_" ++ fmtInt (toString recLen).length (orfBase fwd n offset s e % L + 1) ++ "_" ++
        fmtInt (toString recLen).length
          (if orfBase fwd n offset s e % L + orfLen s e ≤ L then orfBase fwd n offset s e % L + orfLen s e
           else orfBase fwd n offset s e % L + orfLen s e - L) := by
  rw [orfLoc_ring fwd n offset L s e hL hs hlen]
  split
  · simp only [orfLabel, Loc.start, Loc.end]
  · cases fwd <;> simp [orfLabel, Loc.strand, dirStrand]

/-- in particular the label does not depend on the strand -/
theorem orf_label_strand_independent (recLen : Nat) (a c L : Int) :
    orfLabel recLen (.compound [⟨0, c, .rev⟩, ⟨a, L, .rev⟩]) =
      orfLabel recLen (.compound [⟨a, L, .fwd⟩, ⟨0, c, .fwd⟩]) := by
  simp [orfLabel, Loc.strand]

/-! ### 5c. "each with a translation matching its location" -/

/-- the regenerated Biopython codon tables 1 and 11 (the ones antiSMASH records use) translate every
    ACGT codon that is not a stop, have exactly the documented stop codons, none of them in the
    forward table, and produce none of the residues `*BJOUZ` that would be rewritten to `X` -/
theorem codon_tables_ok :
    TableOk Gen.forwardTable11 Gen.stopCodons11 ∧ TableOk Gen.forwardTable1 Gen.stopCodons1 :=
  ⟨table11_ok, table1_ok⟩

/-- for every ORF (`IsOrf`) over unambiguous upper-case DNA, the translation given to the new
    feature (`Record.get_aa_translation_from_location` to the first stop, `*BJOUZ → X`, then
    "always start with methionine") computed from the ORF's own nucleotides — which is what the
    reported location extracts to (`orf_coords_extract_*`) — is the protein it encodes: `M`, then one
    residue per codon up to the stop, the stop excluded; the fallback "go past stop codons" and the
    `X` replacement never fire -/
theorem orf_translation_matches (tbl : List (Seq × Char)) (stops : List Seq) (hok : TableOk tbl stops)
    (w : Seq) (s e : Nat) (horf : IsOrf w s e) (hacgt : ∀ c ∈ orfSeq w s e, c ∈ acgt) :
    featureTranslation tbl stops (orfSeq w s e) = some (specProtein tbl w s e) ∧
    ((specProtein tbl w s e).length : Int) * 3 + 3 = orfLen s e := by
  refine ⟨featureTranslation_orf tbl stops hok w s e horf hacgt, ?_⟩
  have := horf.frame; have := horf.lt
  simp only [specProtein, List.length_cons, List.length_map, List.length_range, orfLen]
  omega

/-! ### 6. `get_trimmed_orf` (tree with fixes/D57: new location by C09's exon walk) -/

/-- the start chosen is a start codon of the (not upper-cased) ORF, lies in the search range
    `[max(0, n − 3⌊max/3⌋), min(n − min, include))`, is in that range's frame, and is the last such;
    hence: the trimmed length `n − k` is `> min_length` and `≤ max_length`, `k < include`, and `k`
    is in the ORF's own frame when the ORF is a whole number of codons -/
theorem trimmed_orf_start_latest (seq : Seq) (incl : Option Int) (minLen : Int) (maxLen : Option Int) (k : Nat)
    (h : trimSearch seq incl minLen maxLen = .start k) :
    isStartDoc (codonAt seq k) = true ∧ k + 3 ≤ seq.length ∧
    minLen < (seq.length : Int) - k ∧ (seq.length : Int) - k ≤ maxLen.getD seq.length ∧
    (k : Int) < incl.getD seq.length ∧
    (seq.length % 3 = 0 → k % 3 = 0) ∧
    ∀ k' : Nat, k < k' → (k' : Int) < trimHi seq.length minLen (incl.getD seq.length) →
      ((k' : Int) - trimLo seq.length (maxLen.getD seq.length)) % 3 = 0 →
      isStartDoc (codonAt seq k') = false := by
  obtain ⟨h1, h2, h3, h4, h5⟩ := trimSearch_spec seq incl minLen maxLen k h
  have hin := isStart_inside seq k h1
  unfold trimLo at h2 h4
  unfold trimHi at h3
  refine ⟨by rw [← isStart_eq]; exact h1, hin, by omega, by omega, by omega, by omega, ?_⟩
  intro k' a b c
  rw [← isStart_eq]
  exact h5 k' a b c

/-- for every gene location (any number of parts in any order, origin-crossing, either strand —
    `geneWF`): once a start is found, `get_trimmed_orf` succeeds and the new location extracts to
    the suffix of the ORF beginning at that start codon; each of its parts is a non-empty piece of
    one part of the ORF on the same strand, so the trimmed ORF stays inside the ORF's location
    (and with it inside the gap and the allowed overlap) -/
theorem trimmed_orf_suffix (recf : Int → Char) (compl : Char → Char) (l : Loc)
    (hwf : ProtDna.geneWF l = true) (incl : Option Int) (minLen : Int) (maxLen : Option Int) (k : Nat)
    (h : trimSearch (ProtDna.extract recf compl l) incl minLen maxLen = .start k) :
    ∃ r, trimmedOrf (ProtDna.extract recf compl l) l incl minLen maxLen = .found r ∧
      ProtDna.extract recf compl r = (ProtDna.extract recf compl l).drop k ∧
      (∀ q ∈ r.parts, ∃ p ∈ l.parts, p.lo ≤ q.lo ∧ q.lo < q.hi ∧ q.hi ≤ p.hi ∧ q.strand = p.strand) :=
  trimmedOrf_suffix recf compl l hwf incl minLen maxLen k h

/-- trimming keeps an ORF clear of the genes: whatever bound on shared bases holds for the ORF
    (e.g. by `all_orfs_avoid_every_gene`) holds for its trimmed version, for every gene location -/
theorem trimmed_orf_avoids_every_gene (recf : Int → Char) (compl : Char → Char) (l : Loc)
    (hwf : ProtDna.geneWF l = true) (incl : Option Int) (minLen : Int) (maxLen : Option Int) (r : Loc)
    (h : trimmedOrf (ProtDna.extract recf compl l) l incl minLen maxLen = .found r)
    (genes : List Loc) (pad : Int) (hl : locOverlapOk genes pad l = true) :
    locOverlapOk genes pad r = true := by
  have hfound : ∃ k, trimSearch (ProtDna.extract recf compl l) incl minLen maxLen = .start k := by
    unfold trimmedOrf at h
    split at h
    · simp only [reduceCtorEq] at h
    · simp only [reduceCtorEq] at h
    · rename_i k hk; exact ⟨k, hk⟩
  obtain ⟨k, hk⟩ := hfound
  obtain ⟨r', hr', _, hin⟩ := trimmedOrf_suffix recf compl l hwf incl minLen maxLen k hk
  rw [h] at hr'
  have : r = r' := by simpa using hr'
  subst this
  exact locOverlapOk_mono genes pad l r hin hl

/-- …and nothing else is ever returned: a found location always comes from a found start -/
theorem trimmed_orf_found_iff (seq : Seq) (l : Loc) (incl : Option Int) (minLen : Int) (maxLen : Option Int)
    (r : Loc) (h : trimmedOrf seq l incl minLen maxLen = .found r) :
    ∃ k, trimSearch seq incl minLen maxLen = .start k ∧
      ProtDna.subLocationFromOffsets l k seq.length = .ok r := by
  unfold trimmedOrf at h
  split at h
  · simp only [reduceCtorEq] at h
  · simp only [reduceCtorEq] at h
  · rename_i k hk
    split at h
    · rename_i r' hr
      have : r' = r := by simpa using h
      subst this
      exact ⟨k, hk, hr⟩
    · simp only [reduceCtorEq] at h

/-! ### non-vacuity: concrete inputs meeting the hypotheses on which the interesting branches fire -/

/-- a window with an ORF in frame 1 preceded by an earlier start codon in the same frame after a
    stop: the first start after the previous stop is taken -/
example : scanMatches "CTAAATGGTGAAATAGC".toList 0 = [(4, 13)] := by decide
example : IsOrf "CTAAATGGTGAAATAGC".toList 4 13 := by decide
example : ¬ IsOrf "CTAAATGGTGAAATAGC".toList 7 13 := by decide
/-- `NoExactLen` is satisfiable on a window that has an ORF, and fails on the D23 witness -/
example : NoExactLen "ATGAAAAAATAA".toList 11 := by
  intro s e h; have := h.frame; have := h.lt; simp only [orfLen]; omega
example : ¬ NoExactLen "ATGAAAAAATAA".toList 12 := fun h => h 0 9 (by decide) (by decide)
/-- reverse strand across the origin (D13): ring of 60, window = revcomp(record[50:60] + record[0:8]) -/
example : scanOrfs "ATGAAACCCGGGTTTTAA".toList false (-10) 6 (some 60)
    = [.compound [⟨0, 8, .rev⟩, ⟨50, 60, .rev⟩]] := by decide
/-- an ORF covering a whole ring of 12 from offset 3 (D28) -/
example : scanOrfs "ATGAAACCCTAA".toList true 3 6 (some 12)
    = [.compound [⟨3, 12, .fwd⟩, ⟨0, 3, .fwd⟩]] := by decide
example : extract complement "TAAATGAAACCC".toList (.compound [⟨3, 12, .fwd⟩, ⟨0, 3, .fwd⟩])
    = "ATGAAACCCTAA".toList := by decide
/-- the cursor of the gap search does not move backwards (D29): genes [0,110) and [50,105), pad 10 -/
example : findIntergenic 0 300 [⟨0, 110⟩, ⟨50, 105⟩] 0 10 = [(0, 10), (100, 300)] := by decide
/-- origin-crossing area of a ring of 60 with parts [40,60) and [0,20), no genes: one joined area -/
example : crossOriginIntergenic [(40, 60, []), (0, 20, [])] 60 6 0 = some [(-20, 20)] := by decide
/-- why completeness speaks of `Beside`: a gene shorter than twice the padding has an empty core, the
    loop still cuts its areas there, and the (entirely clear) stretch [0, 200) is in no single area -/
example : findIntergenic 0 200 [⟨95, 114⟩] 0 10 = [(0, 105), (104, 200)] := by decide
/-- trimming an origin-crossing ORF (D57): ring of 30, ORF = [20,30) + [0,8), latest start at 6 -/
example : trimmedOrf "ATGAAAGTGCCCGGGTAA".toList (.compound [⟨20, 30, .fwd⟩, ⟨0, 8, .fwd⟩]) none 0 none
    = .found (.compound [⟨26, 30, .fwd⟩, ⟨0, 8, .fwd⟩]) := by decide
/-- a long gene [0,20) reaching into the area [8,30) with a short gene [2,5) nested in it that ends before
    the area (the layout on which a look-back that stops at the first earlier gene ending before the
    area loses the long gene): the lookup finds the long gene, the ORF at [10,19) inside it is not
    reported, the one at [21,30) in the gap is -/
example : (Lookup.within [⟨0, .simple ⟨0, 20, .fwd⟩, []⟩, ⟨1, .simple ⟨2, 5, .rev⟩, []⟩]
    (.simple ⟨8, 30, .fwd⟩) true).map geneOf = [⟨0, 20⟩] := by decide
example : findAllOrfsRec "CCCCCCCCCCATGAAATAACCATGCCCTAA".toList
    [⟨0, .simple ⟨0, 20, .fwd⟩, []⟩, ⟨1, .simple ⟨2, 5, .rev⟩, []⟩] (some (.simple ⟨8, 30, .fwd⟩)) 6 0
    = some [.simple ⟨21, 30, .fwd⟩] := by decide
/-- GTG start, four codons, stop: the feature's translation is M K P G -/
example : featureTranslation Gen.forwardTable11 Gen.stopCodons11 "GTGAAACCCGGGTAA".toList = some "MKPG".toList := by decide
example : specProtein Gen.forwardTable11 "CCGTGAAACCCGGGTAAC".toList 2 14 = "MKPG".toList := by decide
/-- a ring of 30 with a gene over the origin, join{[24,30),[0,12)}: its hull is the whole record, it is found
    by the lookup for the area [1,20), and the ORF at [2,11) inside it is reported neither by the whole-record
    search nor by the area search -/
example : (Lookup.within [⟨0, .compound [⟨24, 30, .fwd⟩, ⟨0, 12, .fwd⟩], []⟩] (.simple ⟨1, 20, .fwd⟩) true).map geneOf
    = [⟨0, 30⟩] := by decide
example : findAllOrfsRec "CCATGAAATAACCCCCCCCCCCCCCCCCCC".toList
    [⟨0, .compound [⟨24, 30, .fwd⟩, ⟨0, 12, .fwd⟩], []⟩] none 6 0 = some [] := by decide
example : findAllOrfsRec "CCATGAAATAACCCCCCCCCCCCCCCCCCC".toList
    [⟨0, .compound [⟨24, 30, .fwd⟩, ⟨0, 12, .fwd⟩], []⟩] (some (.simple ⟨1, 20, .fwd⟩)) 6 0 = some [] := by decide
example : findAllOrfsRec "CCATGAAATAACCCCCCCCCCCCCCCCCCC".toList [] none 6 0 = some [.simple ⟨2, 11, .fwd⟩] := by decide
/-- D66-C15: an origin-spanning gene whose hull does not begin at 0 — join{[90,100),[20,40)} — is listed first by
    the record; ordered by start, the gene [0,15) still blocks its stretch -/
example : findIntergenic 0 100 [⟨20, 100⟩, ⟨0, 15⟩] 6 0 = [] := by decide
/-- the returned order: the reverse-strand ORF over the origin sorts first, whatever its coordinates -/
example : sortLocs [.simple ⟨5, 20, .fwd⟩, .compound [⟨0, 8, .rev⟩, ⟨50, 60, .rev⟩], .simple ⟨2, 11, .fwd⟩]
    = [.compound [⟨0, 8, .rev⟩, ⟨50, 60, .rev⟩], .simple ⟨2, 11, .fwd⟩, .simple ⟨5, 20, .fwd⟩] := by decide
/-- labels: zero-padded to the digits of the record length, 1-based start; reverse wrapped = forward wrapped -/
example : orfLabel 60 (.simple ⟨3, 18, .fwd⟩) = "allorf_04_18" := by decide
example : orfLabel 60 (.compound [⟨0, 8, .rev⟩, ⟨50, 60, .rev⟩]) = "allorf_51_08" := by decide
example : sortedByStart [⟨0, 110⟩, ⟨50, 105⟩] := (sortedByStartB_iff _).1 (by decide)

end ASV.C15
