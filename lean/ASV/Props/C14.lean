/-
  C14 — NRPS/PKS modules partition a gene's domains in order and obey the module rules.

  Model: ASV/Model/Modules.lean (module_identification.py, literal transcription; every Python
  `assert` is an explicit error value).  Spec: ASV/Spec/Modules.lean (the documented layout and
  completeness rule, over plain component lists).  Tables: ASV/Generated/Modules.lean (regenerated
  from the source on every run; the table facts these theorems rest on are `decide`d in
  ASV/Proofs/ModulesTables.lean, so an edit of the tables that breaks one breaks this file).

  All theorems quantify over ALL finite domain lists (any labels of the regenerated alphabet, any
  subtypes, any query positions, any input order) — no size bound anywhere.
-/
import ASV.Proofs.ModulesPartition
namespace ASV.C14
open ASV ASV.Modules ASV.Modules.T

/-- the guard of the real code: `Component.__init__` classifies the label (ValueError) and
    asserts a non-empty gene name -/
def InputOK (ds : List Domain) (name : String) : Prop :=
  name.isEmpty = false ∧ ∀ d ∈ ds, (classify d.label).isSome = true

/-- 1. `build_modules_for_cds` never fails: no assertion (in `add_component`, `ensure_suitable`,
    or the final non-emptiness check) is reachable, and IncompatibleComponentError never escapes -/
theorem build_total (ds : List Domain) (name : String) (h : InputOK ds name) :
    ∃ ms, build ds name = .ok ms := by
  obtain ⟨ms, hb, _⟩ := build_spec ds name h.1 h.2
  exact ⟨ms, hb⟩

/-- … the error branch: the only failures are the two constructor guards (unclassified label,
    or empty gene name with at least one domain) -/
theorem build_fails_only_on_guard (ds : List Domain) (name : String) (e : Err)
    (h : build ds name = .error e) :
    (name.isEmpty = true ∧ ds ≠ []) ∨ ∃ d ∈ ds, (classify d.label).isSome = false := by
  by_cases hex : ∃ d ∈ ds, (classify d.label).isSome = false
  · exact Or.inr hex
  · left
    have hc : ∀ d ∈ ds, (classify d.label).isSome = true := by
      intro d hd
      cases hs : (classify d.label).isSome with
      | true => rfl
      | false => exact absurd ⟨d, hd, hs⟩ hex
    cases hn : name.isEmpty with
    | false =>
      obtain ⟨ms, hb, _⟩ := build_spec ds name hn hc
      rw [hb] at h; cases h
    | true =>
      refine ⟨rfl, ?_⟩
      intro hd; subst hd
      rw [build_nil] at h; cases h

/-- 2. the modules, read left to right, are exactly the gene's non-docking domains in query
    order (stable), each once, each with the gene as locus; every module is non-empty; only the
    first is flagged first-in-gene.  `Spec.partition` is the definition the driver evaluates on
    the implementation's output; it also contains the sort-independent reading (a permutation of
    the kept input that is non-decreasing in query start). -/
theorem build_partition (ds : List Domain) (name : String) (h : InputOK ds name) (ms : List Module)
    (hb : build ds name = .ok ms) :
    Spec.partition ds name (ms.map fun m => (m.components, m.firstInCds)) = true := by
  obtain ⟨ms', hb', hs, hflat, hfirst⟩ := build_spec ds name h.1 h.2
  rw [hb] at hb'; injection hb' with hb'; subst hb'
  exact partition_holds ds name ms hflat (fun m hm => (hs m hm).2) hfirst

/-- … the equation itself -/
theorem build_partition_eq (ds : List Domain) (name : String) (h : InputOK ds name) (ms : List Module)
    (hb : build ds name = .ok ms) :
    (ms.flatMap (·.components)).map Comp.domain
      = (sortDomains ds).filter (fun d => !Spec.ignoredDomain d) := by
  obtain ⟨ms', hb', _, hflat, _⟩ := build_spec ds name h.1 h.2
  rw [hb] at hb'; injection hb' with hb'; subst hb'
  rw [hflat]; exact map_domain_filter name _

/-- 3. every module respects the documented layout -/
theorem build_layout (ds : List Domain) (name : String) (h : InputOK ds name) (ms : List Module)
    (hb : build ds name = .ok ms) : ∀ m ∈ ms, Spec.layout m.components = true := by
  obtain ⟨ms', hb', hs, _⟩ := build_spec ds name h.1 h.2
  rw [hb] at hb'; injection hb' with hb'; subst hb'
  exact fun m hm => (hs m hm).1.facts.2.2

/-- 4. a module is reported complete exactly by the documented rule; likewise trans-AT, starter
    module, termination module, iterative, PKS, NRPS -/
theorem complete_iff (ds : List Domain) (name : String) (h : InputOK ds name) (ms : List Module)
    (hb : build ds name = .ok ms) : ∀ m ∈ ms,
    m.isComplete = Spec.complete m.components m.firstInCds
    ∧ m.isTransAt = Spec.transAt m.components
    ∧ m.isStarterModule = Spec.starterModule m.components m.firstInCds
    ∧ m.isTerminationModule = Spec.terminationModule m.components
    ∧ m.isIterative = Spec.iterative m.components
    ∧ m.isPks = Spec.isPks m.components
    ∧ m.isNrps = Spec.isNrps m.components := by
  obtain ⟨ms', hb', hs, _⟩ := build_spec ds name h.1 h.2
  rw [hb] at hb'; injection hb' with hb'; subst hb'
  intro m hm
  have hI := (hs m hm).1.facts.1
  exact ⟨hI.isComplete_eq, hI.isTransAt_eq, hI.isStarterModule_eq, hI.isTerminationModule_eq,
         hI.isIterative_eq, rfl, hI.isNrps_eq⟩

/-- 5. a module rebuilt from its saved form is identical (whole state, not just the components) -/
theorem reload_identity (ds : List Domain) (name : String) (h : InputOK ds name) (ms : List Module)
    (hb : build ds name = .ok ms) : ∀ m ∈ ms, Module.fromJson m.toJson = .ok m := by
  obtain ⟨ms', hb', hs, hflat, _⟩ := build_spec ds name h.1 h.2
  rw [hb] at hb'; injection hb' with hb'; subst hb'
  intro m hm
  apply fromJson_toJson (hs m hm).1
  intro c hc
  have hmem : c ∈ ms.flatMap (·.components) := List.mem_flatMap.mpr ⟨m, hm, hc⟩
  rw [hflat] at hmem
  obtain ⟨d, hd, rfl⟩ := List.mem_map.mp (List.mem_filter.mp hmem).1
  exact ⟨h.2 d ((mem_sortDomains ds d).mp hd), h.1⟩

end ASV.C14
