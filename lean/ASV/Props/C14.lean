/-
  C14 — NRPS/PKS modules partition a gene's domains in order and obey the module rules.
-/
import ASV.Spec.Modules
namespace ASV.C14
open ASV ASV.Modules ASV.Modules.T

/-- every loader-capable label is starter-capable (regenerated tables) -/
theorem loader_sub_starter : ∀ l ∈ adenylations ++ acyltransferases ++ [coaLigaseLabel],
    starterCollections.any (fun col => col.contains l) = true := by decide

end ASV.C14
