/-
  C14 — NRPS/PKS modules partition a gene's domains in order and obey the module rules.

  Model: ASV/Model/Modules.lean (module_identification.py, literal transcription; every Python
  `assert` is an explicit error value).  Spec: ASV/Spec/Modules.lean (the documented layout and
  completeness rule, over plain component lists).  Tables: ASV/Generated/Modules.lean (regenerated
  from the source on every run; the table facts these theorems rest on are `decide`d in
  ASV/Proofs/ModulesTables.lean, so an edit of the tables that breaks one breaks this file).

  All theorems quantify over ALL finite domain lists (any labels of the regenerated alphabet, any
  subtypes, any query positions, any input order) — no size bound anywhere.
-/
import ASV.Proofs.ModulesPartition
import ASV.Proofs.ModulesChain
import ASV.Proofs.ModulesLayoutIdx
import ASV.Proofs.ModulesLayoutFacts
import ASV.Proofs.ModulesLine
import ASV.Proofs.ModulesBlocks
import ASV.Proofs.ModulesHmm
import ASV.Proofs.ModulesFeature
import ASV.Proofs.ModulesReport
namespace ASV.C14
open ASV ASV.Modules ASV.Modules.T

/-- the guard of the real code: `Component.__init__` classifies the label (ValueError) and
    asserts a non-empty gene name -/
def InputOK (ds : List Domain) (name : String) : Prop :=
  name.isEmpty = false ∧ ∀ d ∈ ds, (classify d.label).isSome = true

/-- 1. `build_modules_for_cds` never fails: no assertion (in `add_component`, `ensure_suitable`,
    or the final non-emptiness check) is reachable, and IncompatibleComponentError never escapes -/
theorem build_total (ds : List Domain) (name : String) (h : InputOK ds name) :
    ∃ ms, build ds name = .ok ms := by
  obtain ⟨ms, hb, _⟩ := build_spec ds name h.1 h.2
  exact ⟨ms, hb⟩

/-- … the error branch: the only failures are the two constructor guards (unclassified label,
    or empty gene name with at least one domain) -/
theorem build_fails_only_on_guard (ds : List Domain) (name : String) (e : Err)
    (h : build ds name = .error e) :
    (name.isEmpty = true ∧ ds ≠ []) ∨ ∃ d ∈ ds, (classify d.label).isSome = false := by
  by_cases hex : ∃ d ∈ ds, (classify d.label).isSome = false
  · exact Or.inr hex
  · left
    have hc : ∀ d ∈ ds, (classify d.label).isSome = true := by
      intro d hd
      cases hs : (classify d.label).isSome with
      | true => rfl
      | false => exact absurd ⟨d, hd, hs⟩ hex
    cases hn : name.isEmpty with
    | false =>
      obtain ⟨ms, hb, _⟩ := build_spec ds name hn hc
      rw [hb] at h; cases h
    | true =>
      refine ⟨rfl, ?_⟩
      intro hd; subst hd
      rw [build_nil] at h; cases h

/-- 2. the modules, read left to right, are exactly the gene's non-docking domains in query
    order (stable), each once, each with the gene as locus; every module is non-empty; only the
    first is flagged first-in-gene.  `Spec.partition` is the definition the driver evaluates on
    the implementation's output; it also contains the sort-independent reading (a permutation of
    the kept input that is non-decreasing in query start). -/
theorem build_partition (ds : List Domain) (name : String) (h : InputOK ds name) (ms : List Module)
    (hb : build ds name = .ok ms) :
    Spec.partition ds name (ms.map fun m => (m.components, m.firstInCds)) = true := by
  obtain ⟨ms', hb', hs, hflat, hfirst⟩ := build_spec ds name h.1 h.2
  rw [hb] at hb'; injection hb' with hb'; subst hb'
  exact partition_holds ds name ms hflat (fun m hm => (hs m hm).2) hfirst

/-- … the equation itself -/
theorem build_partition_eq (ds : List Domain) (name : String) (h : InputOK ds name) (ms : List Module)
    (hb : build ds name = .ok ms) :
    (ms.flatMap (·.components)).map Comp.domain
      = (sortDomains ds).filter (fun d => !Spec.ignoredDomain d) := by
  obtain ⟨ms', hb', _, hflat, _⟩ := build_spec ds name h.1 h.2
  rw [hb] at hb'; injection hb' with hb'; subst hb'
  rw [hflat]; exact map_domain_filter name _

/-- … "in query order, ties in input order" pinned down independently of the sort used by the
    model: the sorted list is a permutation of the input, non-decreasing in query start, and any
    sub-sequence of the input that is already in order — in particular two domains with the same
    start — keeps its order (stability, as Python's `sorted`) -/
theorem sort_is_stable_sort (ds : List Domain) :
    (sortDomains ds).Perm ds
    ∧ (sortDomains ds).Pairwise (fun a b => a.start ≤ b.start)
    ∧ ∀ ys : List Domain, ys.Pairwise (fun a b => a.start ≤ b.start) → ys.Sublist ds →
        ys.Sublist (sortDomains ds) := by
  refine ⟨List.mergeSort_perm ds _, ?_, ?_⟩
  · exact (sortDomains_sorted ds).imp (by intro a b h; simpa using h)
  · intro ys hp hs
    unfold sortDomains
    apply List.sublist_mergeSort
    · intro a b c h1 h2; simp at h1 h2 ⊢; omega
    · intro a b; simp; omega
    · exact hp.imp (by intro a b h; simpa using h)
    · exact hs

/-- 3. every module respects the documented layout -/
theorem build_layout (ds : List Domain) (name : String) (h : InputOK ds name) (ms : List Module)
    (hb : build ds name = .ok ms) : ∀ m ∈ ms, Spec.layout m.components = true := by
  obtain ⟨ms', hb', hs, _⟩ := build_spec ds name h.1 h.2
  rw [hb] at hb'; injection hb' with hb'; subst hb'
  exact fun m hm => (hs m hm).1.facts.2.2

/-- 4. a module is reported complete exactly by the documented rule; likewise trans-AT, starter
    module, termination module, iterative, PKS, NRPS -/
theorem complete_iff (ds : List Domain) (name : String) (h : InputOK ds name) (ms : List Module)
    (hb : build ds name = .ok ms) : ∀ m ∈ ms,
    m.isComplete = Spec.complete m.components m.firstInCds
    ∧ m.isTransAt = Spec.transAt m.components
    ∧ m.isStarterModule = Spec.starterModule m.components m.firstInCds
    ∧ m.isTerminationModule = Spec.terminationModule m.components
    ∧ m.isIterative = Spec.iterative m.components
    ∧ m.isPks = Spec.isPks m.components
    ∧ m.isNrps = Spec.isNrps m.components := by
  obtain ⟨ms', hb', hs, _⟩ := build_spec ds name h.1 h.2
  rw [hb] at hb'; injection hb' with hb'; subst hb'
  intro m hm
  have hI := (hs m hm).1.facts.1
  exact ⟨hI.isComplete_eq, hI.isTransAt_eq, hI.isStarterModule_eq, hI.isTerminationModule_eq,
         hI.isIterative_eq, rfl, hI.isNrps_eq⟩

/-- 5. a module rebuilt from its saved form is identical (whole state, not just the components) -/
theorem reload_identity (ds : List Domain) (name : String) (h : InputOK ds name) (ms : List Module)
    (hb : build ds name = .ok ms) : ∀ m ∈ ms, Module.fromJson m.toJson = .ok m := by
  obtain ⟨ms', hb', hs, hflat, _⟩ := build_spec ds name h.1 h.2
  rw [hb] at hb'; injection hb' with hb'; subst hb'
  intro m hm
  apply fromJson_toJson (hs m hm).1
  intro c hc
  have hmem : c ∈ ms.flatMap (·.components) := List.mem_flatMap.mpr ⟨m, hm, hc⟩
  rw [hflat] at hmem
  obtain ⟨d, hd, rfl⟩ := List.mem_map.mp (List.mem_filter.mp hmem).1
  exact ⟨h.2 d ((mem_sortDomains ds d).mp hd), h.1⟩


/-! ### merging the border modules of adjacent genes

  `Good m` (ASV/Proofs/ModulesChain.lean) = `m` reloads to itself from a fresh module and all its
  components are constructed Components.  Every module `build` returns is good (`build_good`),
  and `combine` keeps both module lists good, so the statements below cover not only pairs of
  freshly built genes but every later call of the caller loop (on the reverse strand the tail
  handed to `combine_modules` can itself be a merged module). -/

/-- 6a. `combine_modules` never raises: the head re-added outside the `try`, the trailing-KR
    step (with fixes/D33_combine_kr_after_end.patch) and `tail.components[0]` are all safe -/
theorem combine_total (cs ps : Int) (cur prev : List Module)
    (hp : ∀ m ∈ prev, Good m) (hc : ∀ m ∈ cur, Good m) :
    ∃ r, combine cs ps cur prev = .ok r := by
  obtain ⟨r, hr, _⟩ := combine_good cs ps cur prev hp hc
  exact ⟨r, hr⟩

/-- 6b. the outcome satisfies `Spec.combineOK`: all domains of both genes are kept in order; a
    merge happens only on equal strands, with an incomplete head, a tail that is incomplete or
    begins with a fused starter, no NRPS/PKS hybrid; the merged module is the head's components
    followed by the tail's (and possibly the single trailing KR of a trans-AT module), is
    complete, respects the layout, replaces the head in the previous gene's list (it *is* the last
    module there) and removes the tail (and the KR module) from the current gene's list;
    otherwise nothing changes -/
theorem combine_sound (cs ps : Int) (cur prev : List Module)
    (hp : ∀ m ∈ prev, Good m) (hc : ∀ m ∈ cur, Good m) (r : Combined)
    (h : combine cs ps cur prev = .ok r) :
    Spec.combineOK (cs == ps) (prev.map view) (cur.map view) (r.prev.map view) (r.cur.map view)
        (r.merged.map view) = true
    ∧ (∀ m, r.merged = some m → r.prev.getLast? = some m) := by
  obtain ⟨r', hr, _, _, h3, h4⟩ := combine_good cs ps cur prev hp hc
  rw [h] at hr; injection hr with hr; subst hr
  exact ⟨h4, h3⟩

/-- 6c. … and every module of both lists afterwards (the merged one included) is good again: it
    reloads identically, respects the layout, and its flags are the documented ones -/
theorem combine_keeps_good (cs ps : Int) (cur prev : List Module)
    (hp : ∀ m ∈ prev, Good m) (hc : ∀ m ∈ cur, Good m) (r : Combined)
    (h : combine cs ps cur prev = .ok r) : ∀ m ∈ r.prev ++ r.cur, Good m := by
  obtain ⟨r', hr, h1, h2, _, _⟩ := combine_good cs ps cur prev hp hc
  rw [h] at hr; injection hr with hr; subst hr
  intro m hm
  rcases List.mem_append.mp hm with h | h
  · exact h1 m h
  · exact h2 m h

/-- what `Good` gives: identical reload, layout, documented flags, nothing pending -/
theorem good_module (m : Module) (h : Good m) :
    Module.fromJson m.toJson = .ok m
    ∧ Spec.layout m.components = true
    ∧ m.isComplete = Spec.complete m.components m.firstInCds
    ∧ m.isTransAt = Spec.transAt m.components
    ∧ m.isStarterModule = Spec.starterModule m.components m.firstInCds
    ∧ m.isTerminationModule = Spec.terminationModule m.components
    ∧ m.isIterative = Spec.iterative m.components
    ∧ m.isNrps = Spec.isNrps m.components
    ∧ m.unambiguous = 0 := by
  obtain ⟨hI, hu, hl⟩ := h.1.facts
  exact ⟨fromJson_toJson h.1 h.2, hl, hI.isComplete_eq, hI.isTransAt_eq, hI.isStarterModule_eq,
         hI.isTerminationModule_eq, hI.isIterative_eq, hI.isNrps_eq, hu⟩

/-- the modules of a gene are good -/
theorem build_modules_good (ds : List Domain) (name : String) (h : InputOK ds name) (ms : List Module)
    (hb : build ds name = .ok ms) : ∀ m ∈ ms, Good m := by
  obtain ⟨ms', hb', hg⟩ := build_good ds name h.1 h.2
  rw [hb] at hb'; injection hb' with hb'; subst hb'
  exact hg

/-- 6d. gene pairs as the property quantifies them: two genes over the alphabet, either strand -/
theorem combine_pair_total (a b : List Domain) (na nb : String) (ha : InputOK a na) (hb : InputOK b nb)
    (sa sb : Int) : ∃ prev cur r, build a na = .ok prev ∧ build b nb = .ok cur
      ∧ combine sb sa cur prev = .ok r
      ∧ Spec.combineOK (sb == sa) (prev.map view) (cur.map view) (r.prev.map view) (r.cur.map view)
          (r.merged.map view) = true
      ∧ ∀ m ∈ r.prev ++ r.cur, Module.fromJson m.toJson = .ok m := by
  obtain ⟨prev, hp, hpg⟩ := build_good a na ha.1 ha.2
  obtain ⟨cur, hc, hcg⟩ := build_good b nb hb.1 hb.2
  obtain ⟨r, hr, h1, h2, _, h4⟩ := combine_good sb sa cur prev hpg hcg
  refine ⟨prev, cur, r, hp, hc, hr, h4, ?_⟩
  intro m hm
  rcases List.mem_append.mp hm with h | h
  · exact (good_module m (h1 m h)).1
  · exact (good_module m (h2 m h)).1

/-- 7. the caller loop of `generate_domains` (any number of genes, any strands, regions, genes
    without domains) never fails and keeps only good modules -/
theorem chain_total (genes : List Gene) (h : ∀ g ∈ genes, InputOK g.domains g.name) :
    ∃ out, chain genes = .ok out ∧ ∀ r ∈ out, ∀ m ∈ r.modules, Good m := by
  obtain ⟨res, hr, hg⟩ := chainGo_good genes [] false h (fun r hr => by cases hr)
  unfold chain
  rw [hr]
  refine ⟨_, rfl, ?_⟩
  intro r hrm m hm
  obtain ⟨r0, hr0, rfl⟩ := List.mem_map.mp hrm
  exact hg r0 hr0 m (List.mem_filter.mp hm).1

/-! ### the assembly line across genes (both strands)

  `generate_domains` hands the two genes to `combine_modules` in *transcription* order: for a
  reverse-strand gene the genome-right neighbour is the upstream one (`combine_modules(prev, info)`),
  otherwise the genome-left one (`combine_modules(info, prev)`).  `Spec.assemblyLine` reads genes
  given in genome order along the transcription direction (maximal runs of reverse-strand genes
  right to left).  The theorems below say that this reading is invariant under the loop, i.e. a
  merged module always joins the trailing (C-terminal) module of the UPSTREAM gene with the leading
  (N-terminal) module of the downstream gene — dropping or inverting the strand test falsifies
  them (see the negative `example`s at the end of this file). -/

/-- 8a. before the final single-domain filter: reading all modules of all genes in assembly-line
    order gives exactly the genes' non-docking domains in assembly-line order — nothing moved
    across a gene border in the wrong direction, nothing lost, nothing duplicated -/
theorem chain_keeps_assembly_line (genes : List Gene) (h : ∀ g ∈ genes, InputOK g.domains g.name) :
    ∃ R, chainGo genes [] false = .ok R
      ∧ Spec.assemblyLine (R.map entry) = Spec.geneLine genes
      ∧ R.map hdr = (genes.filter Spec.liveGene).map ghdr := by
  obtain ⟨R, hR, _, hh, hl, _⟩ := chain_line_spec genes h
  exact ⟨R, hR, hl, hh⟩

/-- 8b. what `generate_domains` reports (modules of more than one domain, per gene): one entry per
    gene with domains or motifs, in genome order; read in assembly-line order the reported modules
    are a sub-sequence of the assembly line; every reported module — in particular every
    cross-gene module — is a contiguous block of the assembly line.  `Spec.chainLineOK` is the
    definition the driver evaluates on the implementation's output. -/
theorem chain_reports_assembly_line (genes : List Gene) (h : ∀ g ∈ genes, InputOK g.domains g.name) :
    ∃ out, chain genes = .ok out
      ∧ Spec.chainLineOK genes (out.map fun r => (r.name, r.modules.map (·.components))) = true := by
  obtain ⟨R, hR, _, _, _, hok⟩ := chain_line_spec genes h
  unfold chain
  rw [hR]
  refine ⟨_, rfl, ?_⟩
  rw [List.map_map]
  exact hok

/-- 8c. merging only between direct neighbours: with a separator put into the assembly line
    wherever two consecutive genes with domains are *not* direct neighbours in the iteration order
    (a gene in between, even one without domains), or lie in different regions, or on different
    strands, or one of them has hits but no module of its own (only docking/COM domains or only
    motif hits — `generate_domains` then still sets `prev` to it), the loop still keeps the line; every reported module is a contiguous, separator-free
    block of it.  Hence a cross-gene module only ever joins the trailing module of the upstream
    gene with the leading module of the *adjacent, same-region, same-strand* downstream gene.
    `Consec 0 genes`: the `index` fields number the genes 0, 1, 2, … (their iteration order). -/
theorem chain_merges_only_neighbours (genes : List Gene) (hc : Consec 0 genes)
    (h : ∀ g ∈ genes, InputOK g.domains g.name) :
    ∃ out, chain genes = .ok out
      ∧ Spec.chainBlocksOK genes (out.map fun r => (r.name, r.modules.map (·.components))) = true := by
  obtain ⟨R, hR, _, hok⟩ := chain_blocks_spec genes hc h
  unfold chain
  rw [hR]
  refine ⟨_, rfl, ?_⟩
  rw [List.map_map]
  exact hok

/-- … and before the single-domain filter the line with separators is kept exactly -/
theorem chain_keeps_separated_line (genes : List Gene) (hc : Consec 0 genes)
    (h : ∀ g ∈ genes, InputOK g.domains g.name) :
    ∃ R, chainGo genes [] false = .ok R
      ∧ Spec.chainLine (R.map itemR) = Spec.chainLine (Spec.geneItems genes) := by
  obtain ⟨R, hR, hl, _⟩ := chain_blocks_spec genes hc h
  exact ⟨R, hR, hl⟩

/-- 8d. regions that cross the origin of a circular record: `generate_domains` walks the genes in the
    order `region.cds_children` provides — for an origin-crossing region beginning at `s` the genes
    before the origin (start ≥ s) first, then those after it (`regionGenes`), NOT in ascending
    start order.  Read in *that* order the assembly line is kept and merges happen only between
    direct neighbours: the last gene before the origin and the first one after it are neighbours,
    the former upstream of the latter on the forward strand (downstream on the reverse strand). -/
theorem generate_over_origin (cross : Option Nat) (genes : List Gene)
    (h : ∀ g ∈ genes, InputOK g.domains g.name) :
    ∃ out, generateRegion cross genes = .ok out
      ∧ Spec.chainLineOK (reindex (regionGenes cross genes))
          (out.map fun r => (r.name, r.modules.map (·.components))) = true
      ∧ Spec.chainBlocksOK (reindex (regionGenes cross genes))
          (out.map fun r => (r.name, r.modules.map (·.components))) = true := by
  have hin : ∀ g ∈ reindex (regionGenes cross genes), InputOK g.domains g.name := by
    intro g hg
    obtain ⟨g0, hg0, h1, h2⟩ := reindex_mem _ g hg
    rw [h1, h2]
    exact h g0 (mem_regionGenes cross genes g0 hg0)
  obtain ⟨out, ho, h1⟩ := chain_reports_assembly_line _ hin
  obtain ⟨out', ho', h2⟩ := chain_merges_only_neighbours _ (consec_reindex _) hin
  rw [ho] at ho'; injection ho' with ho'; subst ho'
  exact ⟨out, ho, h1, h2⟩

/-! ### the HMMResult under a Component (hmmscan_refinement.py): nested internal hits, the
    `detailed_names` chain the subtypes are read from, `to_json` / `from_json` -/

/-- 9a. an HMMResult that could be constructed (every internal hit overlaps its parent, at every
    depth) is rebuilt identically from its JSON form — so a reloaded Component has the same label,
    the same subtype chain and the same coordinates -/
theorem hmm_reload_identity (h : Hmm) (hw : h.WF = true) :
    Hmm.fromJson h.toJson = .ok h ∧ (∀ locus, (Hmm.fromJson h.toJson).map (fun h' => mkComp locus h'.domain)
                                          = .ok (mkComp locus h.domain)) := by
  have := Hmm.roundtrip h hw
  exact ⟨this, fun locus => by rw [this]; rfl⟩

/-- 9b. the hypothesis of 9a is exactly "was constructed": building a tree through the real
    constructor (children first) succeeds iff it is well formed, returns it unchanged, and the
    only failure is the ValueError of a non-overlapping internal hit; whatever `from_json` returns
    is well formed -/
theorem hmm_constructed_iff_wf (raw : Hmm) :
    (raw.WF = true → Hmm.validate raw = .ok raw)
    ∧ (∀ h, Hmm.validate raw = .ok h → h = raw ∧ h.WF = true)
    ∧ (∀ j h, Hmm.fromJson j = .ok h → h.WF = true) :=
  ⟨Hmm.validate_wf raw, Hmm.validate_ok raw, Hmm.fromJson_wf⟩

/-! ### the saved form of a module in the record: the aSModule feature
    (secmet/features/module.py, created in `NRPSPKSDomains.add_to_record`) -/

/-- 10a. `Module.from_biopython(Module.to_biopython(f))` is `f`, for every feature the constructor
    accepts (at least one domain, all on one strand) whose domains the record knows by name — the
    type, the domains in order and all four flags (complete, starter, final, iterative) survive,
    *independently of each other*: an incomplete module keeps its starter / final role -/
theorem feature_reload_identity (known : String → Option FDomain) (f : ModFeature)
    (hv : ModFeature.construct f.domains f.type f.complete f.starter f.final f.iterative = .ok f)
    (hk : ∀ d ∈ f.domains, known (removeSpaces d.name) = some d) :
    ModFeature.fromBiopython known f.toBiopython = .ok f :=
  feature_roundtrip known f hv hk

/-- 10b. the whole path detection module → `add_to_record` → `to_biopython` → `from_biopython`:
    the rebuilt feature is the one that was added, and its flags are the documented ones of the
    module's component list -/
theorem detected_feature_reload (m : Module) (hg : Good m) (doms : List FDomain) (f : ModFeature)
    (hf : m.toFeature doms = .ok f) (known : String → Option FDomain)
    (hk : ∀ d ∈ doms, known (removeSpaces d.name) = some d) :
    ModFeature.fromBiopython known f.toBiopython = .ok f
    ∧ f.domains = doms
    ∧ f.complete = Spec.complete m.components m.firstInCds
    ∧ f.starter = Spec.starterModule m.components m.firstInCds
    ∧ f.final = Spec.terminationModule m.components
    ∧ f.iterative = Spec.iterative m.components := by
  obtain ⟨hI, _, _⟩ := hg.1.facts
  unfold Module.toFeature at hf
  have he := construct_eq hf
  subst he
  exact ⟨feature_roundtrip known _ (construct_again hf _ _ _ _ _) hk, rfl, hI.isComplete_eq,
         hI.isStarterModule_eq, hI.isTerminationModule_eq, hI.isIterative_eq⟩

/-- 10c. which domain features go into the reported aSModule: `add_to_record` looks a component of
    the gene holding the module up in that gene's dict (keyed by the hit) and every other component
    in the dict of the component's OWN gene.  For every module the caller loop keeps (any holder),
    the look-up succeeds and the domains found are, in order, the domain features of the
    components' own genes — also when the neighbouring gene has an *equal* hit (tandem duplicates).
    Gene names must be distinct (they key `cds_results`). -/
theorem reported_domains_follow_components (genes : List Gene) (hn : (genes.map (·.name)).Nodup)
    (h : ∀ g ∈ genes, InputOK g.domains g.name) (R : List GeneResult)
    (hR : chainGo genes [] false = .ok R) (holder : String) :
    ∀ r ∈ R, ∀ m ∈ r.modules, ∃ ds, lookupDomains (geneTables genes) holder m.components = .ok ds
      ∧ ds.map some = m.components.map (fun c => geneTables genes c.locus c.domain)
      ∧ ds.map (·.locus) = m.components.map (·.locus) :=
  report_domains genes hn h R hR holder

/-- 10d. (widens 10b/10c: the hypotheses "the look-up found the domains" and "the constructor
    accepted them" are discharged)  For genes that all lie on one strand, with distinct names,
    the whole `add_to_record` step succeeds for EVERY module `generate_domains` reports: the
    domain look-up finds every component's domain feature in its own gene and the `Module`
    feature constructor accepts them (at least one domain, one strand); the feature carries the
    module's flags and type. -/
theorem add_to_record_total (genes : List Gene) (hn : (genes.map (·.name)).Nodup)
    (h : ∀ g ∈ genes, InputOK g.domains g.name) (s : Int) (hs : ∀ g ∈ genes, g.strand = s)
    (out : List GeneResult) (ho : chain genes = .ok out) :
    ∀ r ∈ out, ∀ m ∈ r.modules, ∃ f, m.report (geneTables genes) r.name = .ok f
      ∧ f.domains.map (·.locus) = m.components.map (·.locus)
      ∧ f.complete = m.isComplete ∧ f.starter = m.isStarterModule ∧ f.final = m.isTerminationModule
      ∧ f.iterative = m.isIterative ∧ f.type = m.featureType :=
  report_total genes hn h s hs out ho

/-- 10e. (widens 10d to ANY mixture of strands — the "one strand" hypothesis is discharged)  Every
    module the loop keeps for a gene only holds components of genes on that gene's strand
    (merging requires equal strands), so all its domain features have one strand and the
    `Module` feature constructor's guard is met: the whole `add_to_record` step succeeds for EVERY
    module `generate_domains` reports, for any genes with distinct names. -/
theorem add_to_record_total_any_strand (genes : List Gene) (hn : (genes.map (·.name)).Nodup)
    (h : ∀ g ∈ genes, InputOK g.domains g.name) (out : List GeneResult) (ho : chain genes = .ok out) :
    ∀ r ∈ out, ∀ m ∈ r.modules, ∃ f, m.report (geneTables genes) r.name = .ok f
      ∧ f.domains.map (·.locus) = m.components.map (·.locus)
      ∧ (∀ d ∈ f.domains, d.strand = r.strand)
      ∧ f.complete = m.isComplete ∧ f.starter = m.isStarterModule ∧ f.final = m.isTerminationModule
      ∧ f.iterative = m.isIterative ∧ f.type = m.featureType :=
  report_total_mixed genes hn h out ho

/-- … the model-level fact behind it: in what the loop keeps (before the single-domain filter), every
    component of a gene's modules comes from a gene on that gene's strand -/
theorem merged_modules_one_strand (genes : List Gene) (hn : (genes.map (·.name)).Nodup)
    (h : ∀ g ∈ genes, InputOK g.domains g.name) (R : List GeneResult) (hR : chainGo genes [] false = .ok R) :
    ∀ r ∈ R, ∀ m ∈ r.modules, ∀ c ∈ m.components, strandOfLocus genes c.locus = r.strand := by
  obtain ⟨R', hR', _, hs⟩ := chainGo_strand genes hn genes [] false (fun g hg => hg) h
    (fun r hr => by cases hr) (fun r hr => by cases hr)
  rw [hR] at hR'; injection hR' with hR'; subst hR'
  exact hs

/-- 11. `Module.start` / `Module.end` of every module of a gene: neither assertion is reachable, the
    module starts where its first domain starts and ends where its last domain ends — or the one
    before it, when the module has more than one domain and its terminating domain is a product
    finalising one (TD / thioesterase, table `endTrimLabels` regenerated from `Module.end`) -/
theorem module_bounds (ds : List Domain) (name : String) (h : InputOK ds name) (ms : List Module)
    (hb : build ds name = .ok ms) : ∀ m ∈ ms,
    (∃ s e, m.startPos = .ok s ∧ m.endPos = .ok e)
    ∧ m.startPos.toOption = Spec.moduleStart m.components
    ∧ m.endPos.toOption = Spec.moduleEnd m.components := by
  obtain ⟨ms', hb', hs, _⟩ := build_spec ds name h.1 h.2
  rw [hb] at hb'; injection hb' with hb'; subst hb'
  intro m hm
  obtain ⟨hS, hne⟩ := hs m hm
  obtain ⟨a1, s, a2⟩ := startPos_eq m hne
  obtain ⟨b1, e, b2⟩ := endPos_eq m hS.facts.1 hne
  exact ⟨⟨s, e, a2, b2⟩, a1, b1⟩

/-- … and of every good non-empty module (merged ones included) -/
theorem module_bounds_good (m : Module) (hg : Good m) (hne : m.components ≠ []) :
    m.startPos.toOption = Spec.moduleStart m.components
    ∧ m.endPos.toOption = Spec.moduleEnd m.components :=
  ⟨(startPos_eq m hne).1, (endPos_eq m hg.1.facts.1 hne).1⟩

/-- the layout predicate read with indices: position `i` is checked against the components
    before it and after it -/
theorem layout_by_index (cs : List Comp) : Spec.layout cs = Spec.layoutIdx cs :=
  Spec.layout_eq_layoutIdx cs

/-- what `Spec.layout` says in the words of the property: at most one loader, at most one
    terminating domain, an explicit starter only as the very first component (so at most one),
    and a carrier protein after the first one only directly in front of a double-transporter pair
    (so exactly one carrier protein otherwise) -/
theorem layout_reading (cs : List Comp) (h : Spec.layout cs = true) :
    (cs.filter Comp.isLoader).length ≤ 1
    ∧ (cs.filter Comp.isEnd).length ≤ 1
    ∧ (∀ c ∈ cs.drop 1, Spec.pureStarter c = false)
    ∧ (∀ a c b, cs = a ++ c :: b → c.isCarrierProtein = true → Spec.hasCarrier a = true →
         Spec.dtPair b = true) := by
  refine ⟨?_, ?_, ?_, ?_⟩
  · simpa using layoutFrom_atMostOne Comp.isLoader positionOK_loader cs [] h (by simp)
  · simpa using layoutFrom_atMostOne Comp.isEnd positionOK_end cs [] h (by simp)
  · cases cs with
    | nil => intro c hc; simp at hc
    | cons x rest =>
      unfold Spec.layout at h
      simp only [Spec.layoutFrom, Bool.and_eq_true] at h
      simpa using layoutFrom_starter_first rest ([] ++ [x]) h.2 (by simp)
  · intro a c b he hc hh
    exact layoutFrom_carrier cs [] h a c b he hc (by simpa using hh)

/-- TABLE FACTS the proofs rest on, re-checked against the regenerated tables on every build:
    every loader-capable label is starter-capable; a label is in at most one of the classes
    ignored / special / starter-or-loader / modification / carrier protein / end; the
    double-transporter cases are pairs of modification labels; the trans-AT docking label is
    `special`; the post-carrier KR label is a modification and is the label combine_modules uses -/
theorem table_facts :
    (∀ c : Comp, c.isLoader = true → c.isStarter = true)
    ∧ (∀ c : Comp, (kindOf c).bits = ⟨c.isIgnored, c.isSpecial, c.isStarter, c.isLoader, c.isModification,
                                        c.isCarrierProtein, c.isEnd⟩)
    ∧ (∀ case ∈ doubleTransporterCases, case.length = 2 ∧ ∀ l ∈ case, kindOfLabel l = .modification)
    ∧ kindOfLabel transAtDocking = .special
    ∧ kindOfLabel transAtKrLabel = .modification
    ∧ trailingKrLabel = transAtKrLabel := by
  refine ⟨?_, ?_, ?_, docking_kind, kr_kind, kr_same⟩
  · intro c h
    rw [isLoader_eq] at h; rw [isStarter_eq]
    cases hk : kindOf c <;> simp [hk, Kind.bits] at h ⊢
  · intro c; exact (bits_kindOf c).symm
  · intro case h; exact ⟨dt_cases_len case h, dt_cases_mod case h⟩

/-! ### non-vacuity: concrete inputs on which the interesting branches fire
    (`buildGo` on already sorted components, so that `decide` can run it) -/

def c (label : String) (start : Int) (subs : List String := []) : Comp := ⟨label, subs, start, start + 5, "g"⟩

/-- the alphabet is classified, a gene name is non-empty: `InputOK` is satisfiable -/
example : InputOK [⟨"PKS_KS", ["Trans-AT-KS"], 0, 5⟩, ⟨"ACP", [], 10, 15⟩, ⟨"PKS_KR", [], 20, 25⟩] "g" := by
  refine ⟨by decide, ?_⟩
  intro d hd; simp at hd
  rcases hd with h | h | h <;> subst h <;> decide

def labelsOf (r : Except Err (List Module × Module)) : List (List String) :=
  match r with
  | .ok (done, cur) => (done ++ [cur]).map fun m => m.components.map (·.label)
  | .error _ => []

/-- C A PCP E | C A PCP: two complete NRPS modules, split at the explicit starter -/
example : labelsOf (buildGo [c "Condensation_LCL" 0, c "AMP-binding" 10, c "PCP" 20, c "Epimerization" 30,
                             c "Condensation_DCL" 40, c "AMP-binding" 50, c "PCP" 60] [] (Module.new true))
    = [["Condensation_LCL", "AMP-binding", "PCP", "Epimerization"], ["Condensation_DCL", "AMP-binding", "PCP"]] := by
  decide

/-- the trans-AT KR after the carrier protein stays in the module; a DH after it does not -/
example : labelsOf (buildGo [c "PKS_KS" 0 ["Trans-AT-KS"], c "ACP" 10, c "PKS_KR" 20, c "PKS_DH" 30] []
                      (Module.new true))
    = [["PKS_KS", "ACP", "PKS_KR"], ["PKS_DH"]] := by decide

/-- the double-transporter look-ahead: a second carrier protein is accepted only in front of the
    listed pair (docking domains are dropped) -/
example : labelsOf (buildGo [c "PKS_KS" 0, c "PKS_AT" 5, c "ACP" 10, c "NRPS-COM_Nterm" 12, c "ACP" 20,
                             c "LPG_synthase_C" 30, c "Beta_elim_lyase" 40, c "ACP" 50] [] (Module.new true))
    = [["PKS_KS", "PKS_AT", "ACP", "ACP", "LPG_synthase_C", "Beta_elim_lyase"], ["ACP"]] := by decide

/-- D33 witness on the repaired model: [KS(trans-AT)] + [ACP, TE] merges, the KR module stays -/
def headKS : Module := { Module.new true with components := [c "PKS_KS" 0 ["Trans-AT-KS"]],
                                               starter := some (c "PKS_KS" 0 ["Trans-AT-KS"]) }
example : (match mergeModules headKS
            { Module.new true with components := [c "ACP" 0, c "Thioesterase" 10],
                                   carrier := some (c "ACP" 0), end_ := some (c "Thioesterase" 10) } with
           | .ok (some m) => m.isComplete && m.isTransAt && m.isTerminated
           | _ => false) = true := by decide


/-! ### non-vacuity for the assembly-line theorems: two adjacent reverse-strand genes,
    genome-left `left = [ER, PP]`, genome-right (= upstream) `right = [KS, AT]` -/

def cl (label : String) (start : Int) (locus : String) : Comp := ⟨label, [], start, start + 4, locus⟩
def leftComps : List Comp := [cl "PKS_ER" 0 "left", cl "PP-binding" 5 "left"]
def rightComps : List Comp := [cl "PKS_KS" 0 "right", cl "PKS_AT" 5 "right"]
def modsOf (cs : List Comp) : List Module :=
  match buildGo cs [] (Module.new true) with
  | .ok (done, cur) => done ++ [cur]
  | .error _ => []
def combinedLabels (r : Except Err Combined) : List (List String) × List (List String) :=
  match r with
  | .ok c => (c.prev.map fun m => m.components.map (·.label), c.cur.map fun m => m.components.map (·.label))
  | .error _ => ([], [])

/-- the loop's call for a reverse-strand gene, `combine_modules(prev = left, info = right)`:
    current = left, previous = right — the split module is merged into the upstream gene -/
example : combinedLabels (combine (-1) (-1) (modsOf leftComps) (modsOf rightComps))
    = ([["PKS_KS", "PKS_AT", "PKS_ER", "PP-binding"]], []) := by decide

/-- the assembly line of the two genes reads right before left … -/
example : Spec.assemblyLine [(true, leftComps), (true, rightComps)] = rightComps ++ leftComps := rfl

/-- … the correct merge keeps it, and the merged module is a contiguous block of it -/
example : (Spec.assemblyLine [(true, []), (true, rightComps ++ leftComps)]).isSublist
            (Spec.assemblyLine [(true, leftComps), (true, rightComps)]) = true
          ∧ Spec.isInfixB (rightComps ++ leftComps) (Spec.assemblyLine [(true, leftComps), (true, rightComps)]) = true := by
  decide

/-- negative: with the arguments the other way round (strand test dropped) and
    `left = [KS, AT]`, `right = [PP]` the module `left ++ right` is "complete" but is not a block of
    the assembly line `right ++ left`, and the reading is no longer a sub-sequence of it -/
example : Spec.isInfixB ([cl "PKS_KS" 0 "left", cl "PKS_AT" 5 "left"] ++ [cl "PP-binding" 0 "right"])
            (Spec.assemblyLine [(true, [cl "PKS_KS" 0 "left", cl "PKS_AT" 5 "left"]), (true, [cl "PP-binding" 0 "right"])]) = false
          ∧ (Spec.assemblyLine [(true, [cl "PKS_KS" 0 "left", cl "PKS_AT" 5 "left"] ++ [cl "PP-binding" 0 "right"]), (true, [])]).isSublist
            (Spec.assemblyLine [(true, [cl "PKS_KS" 0 "left", cl "PKS_AT" 5 "left"]), (true, [cl "PP-binding" 0 "right"])]) = false := by
  decide


/-! ### non-vacuity for the HMMResult theorems -/

/-- a KS with the subtype chain Trans-AT-KS → KS_clade_7; a second internal hit at the deeper level
    stops the chain -/
def ksHit : Hmm := .mk "PKS_KS" 0 100 0 50 [.mk "Trans-AT-KS" 0 100 0 10 [.mk "KS_clade_7" 5 90 0 10 []]]
example : ksHit.WF = true ∧ ksHit.detailedNames = ["PKS_KS", "Trans-AT-KS", "KS_clade_7"]
    ∧ ksHit.subtypes = ["Trans-AT-KS", "KS_clade_7"] := by decide
example : (Hmm.mk "PKS_KS" 0 100 0 50 [.mk "Trans-AT-KS" 0 100 0 10 [.mk "a" 5 90 0 10 [], .mk "b" 5 90 0 10 []]]).detailedNames
    = ["PKS_KS", "Trans-AT-KS"] := by decide
/-- an internal hit that only touches its parent is refused -/
example : (match Hmm.validate (.mk "PKS_KS" 0 100 0 50 [.mk "x" 100 120 0 10 []]) with
           | .error .valueError => true | _ => false) = true := by decide


/-! ### non-vacuity for 8c: a gene without domains between two genes puts a separator into the line -/
example : Spec.chainLine [⟨0, 1, 0, leftComps, false⟩, ⟨2, 1, 0, rightComps, false⟩] = leftComps ++ [Spec.sepComp] ++ rightComps := by
  decide
example : Spec.chainLine [⟨0, 1, 0, leftComps, false⟩, ⟨1, 1, 0, rightComps, false⟩] = leftComps ++ rightComps := by decide
example : Spec.chainLine [⟨0, -1, 0, leftComps, false⟩, ⟨1, -1, 0, rightComps, false⟩] = rightComps ++ leftComps := by decide
example : Spec.chainLine [⟨0, -1, 0, leftComps, false⟩, ⟨1, -1, 1, rightComps, false⟩] = leftComps ++ [Spec.sepComp] ++ rightComps := by
  decide
/-- a gene with hits but no module of its own (only docking domains) between two genes is a barrier -/
example : Spec.chainLine [⟨0, 1, 0, leftComps, false⟩, ⟨1, 1, 0, [], true⟩, ⟨2, 1, 0, rightComps, false⟩]
    = leftComps ++ [Spec.sepComp] ++ [Spec.sepComp] ++ rightComps := by decide
example : Consec 0 [⟨"a", 1, 0, [], false, 0, 0⟩, ⟨"b", 1, 0, [], false, 1, 0⟩] := ⟨rfl, rfl, trivial⟩


/-! ### non-vacuity for 10: an incomplete terminating module [PCP, Thioesterase] and an incomplete
    starter module keep their roles through the saved form -/
def fd (n : String) : FDomain := ⟨n, "gene", 1⟩
def knownEx (n : String) : Option FDomain := if n == "d1" || n == "d2" then some (fd n) else none
example : (match ModFeature.fromBiopython knownEx (ModFeature.toBiopython ⟨[fd "d1", fd "d2"], .nrps, false, false, true, false⟩) with
           | .ok g => g.final && !g.complete && !g.starter
           | .error _ => false) = true := by decide
example : (match ModFeature.fromBiopython knownEx (ModFeature.toBiopython ⟨[fd "d1", fd "d2"], .nrps, false, true, false, false⟩) with
           | .ok g => g.starter && !g.complete
           | .error _ => false) = true := by decide
/-- a domain on another strand is refused by the constructor -/
example : (match ModFeature.construct [fd "d1", ⟨"d2", "gene", -1⟩] .pks true false false false with
           | .error .valueError => true | _ => false) = true := by decide


/-! ### non-vacuity for 10c: tandem duplicates `a = b = [PCP, C, A]` with identical coordinates; the
    merged module held by `a` is [C@a, A@a, PCP@b]: the PCP must be b's, not a's equal hit -/
def dupDomains : List Domain := [⟨"PCP", [], 10, 90⟩, ⟨"Condensation_LCL", [], 110, 190⟩, ⟨"AMP-binding", [], 210, 290⟩]
def dupGenes : List Gene := [⟨"a", 1, 0, dupDomains, false, 0, 0⟩, ⟨"b", 1, 0, dupDomains, false, 1, 0⟩]
def mergedComps : List Comp :=
  [⟨"Condensation_LCL", [], 110, 190, "a"⟩, ⟨"AMP-binding", [], 210, 290, "a"⟩, ⟨"PCP", [], 10, 90, "b"⟩]
example : (match lookupDomains (geneTables dupGenes) "a" mergedComps with
           | .ok ds => ds.map (·.locus) == ["a", "a", "b"]
           | .error _ => false) = true := by decide
/-- the equal hit is indeed in the holder's dict: looking there first would return a's PCP -/
example : ((geneTables dupGenes "a" ⟨"PCP", [], 10, 90⟩).map (·.locus)) = some "a" := by decide


/-! ### non-vacuity for 8d: circular record of 3000, region from 2400 over the origin to 600;
    in record order `after` (start 100) comes first, the region lists `before` (start 2500) first -/
def gAfter : Gene := ⟨"after", 1, 0, [], false, 0, 100⟩
def gBefore : Gene := ⟨"before", 1, 0, [], false, 0, 2500⟩
example : (regionGenes (some 2400) [gAfter, gBefore]).map (·.name) = ["before", "after"] := by decide
example : (regionGenes none [gAfter, gBefore]).map (·.name) = ["after", "before"] := by decide
example : (reindex (regionGenes (some 2400) [gAfter, gBefore])).map (·.index) = [0, 1] := by decide


/-! ### non-vacuity for 11: [KS, AT, ACP, Thioesterase] ends with its ACP, [ACP, Epimerization] with the E -/
example : Spec.moduleEnd [c "PKS_KS" 0, c "PKS_AT" 10, c "ACP" 20, c "Thioesterase" 30] = some 25
    ∧ Spec.moduleEnd [c "ACP" 20, c "Epimerization" 30] = some 35
    ∧ Spec.moduleEnd [c "Thioesterase" 30] = some 35
    ∧ Spec.moduleStart [c "PKS_KS" 7, c "ACP" 20] = some 7 := by decide


/-! ### non-vacuity for 10e: a forward and a reverse gene; loci name genes of different strands -/
def mixedGenes : List Gene := [⟨"a", 1, 0, dupDomains, false, 0, 0⟩, ⟨"b", -1, 0, dupDomains, false, 1, 0⟩]
example : strandOfLocus mixedGenes "a" = 1 ∧ strandOfLocus mixedGenes "b" = -1
    ∧ (mixedGenes.map (·.name)).Nodup := by decide
/-- a feature over domains of both would be refused by the constructor — which is why 10e matters -/
example : (match ModFeature.construct [⟨"x", "a", 1⟩, ⟨"y", "b", -1⟩] .nrps true false false false with
           | .error .valueError => true | _ => false) = true := by decide

end ASV.C14
