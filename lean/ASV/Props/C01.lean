/-
  C01 — Rule conditions evaluate to their documented boolean meaning.
  Property theorems only; helper lemmas live in ASV/Proofs/Rules.lean.
  All statements are for every condition tree (any depth/width), every gene set, every hit
  assignment and every layout (the layout enters only through `Env.inRange`).
-/
import ASV.Proofs.Rules
import ASV.Proofs.Loc
namespace ASV.C01
open ASV ASV.Rules

/-- the truth value computed by `DetectionRule.detect` is the documented formula's value -/
theorem detect_met_eq_sem (e : Env) (wf : e.WF) (g : Gene) (c : Cond) (h : c.WF = true) :
    (detect e g c).met = sem e g c :=
  evalC_sem e wf g c h

/-- the reason profiles (`matches`) are exactly the documented ones -/
theorem detect_reasons_eq (e : Env) (g : Gene) (c : Cond) (h : c.WF = true) :
    (detect e g c).reasons = specReasons e g c :=
  evalC_reasons e g c h

/-- the property's first sentence: a gene anchors the rule exactly when the formula is true at
    it and it contributes at least one reason profile -/
theorem anchors_iff (e : Env) (wf : e.WF) (g : Gene) (c : Cond) (h : c.WF = true) :
    anchors e g c = specAnchors e g c := by
  simp only [anchors, specAnchors, detect_met_eq_sem e wf g c h, detect_reasons_eq e g c h]

/-- every ancillary hit reported is a different gene closer than the cutoff that carries the
    listed profile, which the rule names (needed by C03) -/
theorem ancillary_sound (e : Env) (wf : e.WF) (g : Gene) (c : Cond) (x : Gene × Prof)
    (hx : x ∈ (detect e g c).ancillary) :
    x.1 ∈ e.near g ∧ e.has x.1 x.2 = true ∧ x.2 ∈ c.profiles :=
  evalC_anc e wf g false c x hx

/-- "closer than the cutoff" on a linear record, single-exon genes: `in_range` is the number of
    bases strictly between the two genes compared with the cutoff (ring and multi-exon cases:
    C04) -/
theorem inRange_linear_simple (e : Env) (g h : Gene) (a b : Part)
    (hg : e.loc g = .simple a) (hh : e.loc h = .simple b) (hc : e.circ = 0)
    (ha : a.lo < a.hi) (hb : b.lo < b.hi) :
    e.inRange g h = decide (lineGap a b < e.cutoff) := by
  simp only [Env.inRange, hg, hh, hc, getDistance_simple_line a b ha hb]

/-! ### non-vacuity: concrete layouts meeting the hypotheses on which the interesting branches fire -/

/-- three genes on a line, cutoff 10: gene 1 is 9 bases from gene 0, gene 2 exactly 10 away -/
def exEnv (gap2 : Int) : Env where
  genes := [0, 1, 2]
  withHits := [0, 1, 2]
  hits := fun g => if g = 0 then [("a", 20)] else if g = 1 then [("b", 20), ("c", 8)] else [("d", 20), ("e", 20)]
  loc := fun g => if g = 0 then .simple ⟨100, 200, .fwd⟩ else if g = 1 then .simple ⟨209, 300, .rev⟩
                  else .simple ⟨300 + gap2, 400 + gap2, .fwd⟩
  cutoff := 10
  circ := 0

example : (exEnv 10).wfb = true := by decide
/-- negated cds whose only satisfying gene sits exactly `cutoff` away: true; one base closer: false -/
example : (detect (exEnv 10) 1 (.group false [.conj [.single false "b", .cds true [.conj [.single false "d", .single false "e"]]]])).met = true := by decide
example : (detect (exEnv 9) 1 (.group false [.conj [.single false "b", .cds true [.conj [.single false "d", .single false "e"]]]])).met = false := by decide
/-- minimum(3, [a,b,c]) met by 1 own + 2 neighbour hits; reasons only the own hit -/
example : detect (exEnv 10) 0 (.group false [.minimum false 3 ["a", "b", "c"]]) =
    ⟨true, ["a"], [(1, "b"), (1, "c")]⟩ := by decide
/-- minscore(c, 5) fails on bitscore 4 (carried doubled as 8), passes at 4 -/
example : (detect (exEnv 10) 1 (.group false [.score false "c" 5])).met = false := by decide
example : (detect (exEnv 10) 1 (.group false [.score false "c" 4])).met = true := by decide

end ASV.C01
