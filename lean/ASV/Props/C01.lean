/-
  C01 — Rule conditions evaluate to their documented boolean meaning.
  Property theorems only; helper lemmas live in ASV/Proofs/Rules.lean.
  All statements are for every condition tree (any depth/width), every gene set, every hit
  assignment and every layout (the layout enters only through `Env.inRange`).
-/
import ASV.Proofs.Rules
import ASV.Proofs.RulesWindow
import ASV.Proofs.Loc
namespace ASV.C01
open ASV ASV.Rules

/-- the truth value computed by `DetectionRule.detect` is the documented formula's value -/
theorem detect_met_eq_sem (e : Env) (wf : e.WF) (g : Gene) (c : Cond) (h : c.WF = true) :
    (detect e g c).met = sem e g c :=
  evalC_sem e wf g c h

/-- the reason profiles (`matches`) are exactly the documented ones -/
theorem detect_reasons_eq (e : Env) (g : Gene) (c : Cond) (h : c.WF = true) :
    (detect e g c).reasons = specReasons e g c :=
  evalC_reasons e g c h

/-- the property's first sentence: a gene anchors the rule exactly when the formula is true at
    it and it contributes at least one reason profile -/
theorem anchors_iff (e : Env) (wf : e.WF) (g : Gene) (c : Cond) (h : c.WF = true) :
    anchors e g c = specAnchors e g c := by
  simp only [anchors, specAnchors, detect_met_eq_sem e wf g c h, detect_reasons_eq e g c h]

/-- every ancillary hit reported is a different gene closer than the cutoff that carries the
    listed profile, which the rule names (needed by C03) -/
theorem ancillary_sound (e : Env) (wf : e.WF) (g : Gene) (c : Cond) (x : Gene × Prof)
    (hx : x ∈ (detect e g c).ancillary) :
    x.1 ∈ e.near g ∧ e.has x.1 x.2 = true ∧ x.2 ∈ c.profiles :=
  evalC_anc e wf g false c x hx

/-- "closer than the cutoff": the distance `Details.in_range` compares with the cutoff is the
    distance of the two genes read as sets of bases — 0 if they share a base, otherwise the least
    number of bases strictly between them, the shorter way round when a circular origin is given —
    for every well-formed pair of gene locations, multi-exon and origin-spanning ones included
    (C04 `distance_is_bases_between`) -/
theorem in_range_distance_is_bases_between (lg lh : Loc) (circ : Int) (hg : lg.OK circ) (hh : lh.OK circ) :
    IsDist circ lg lh (getDistance lg lh circ) ∧ getDistance lg lh circ = specDistFull circ lg lh :=
  ⟨getDistance_isDist lg lh circ hg hh, getDistance_eq_specFull lg lh circ hg hh⟩

/-- hence the environment the code evaluates in and the documented one coincide … -/
theorem env_eq_spec_env (genes withHits : List Gene) (hits : Gene → List (Prof × Int)) (loc : Gene → Loc)
    (cutoff circ : Int) (hloc : ∀ g, (loc g).OK circ) :
    Env.ofLocs genes withHits hits loc cutoff circ = Env.ofLocsSpec genes withHits hits loc cutoff circ := by
  simp only [Env.ofLocs, Env.ofLocsSpec]
  congr 1
  funext g h
  exact getDistance_eq_specFull (loc g) (loc h) circ (hloc g) (hloc h)

/-- … and the full statement of the property, from gene locations to the anchoring decision:
    evaluated on the code's `Details`, a gene anchors the rule iff the documented formula — with
    "in range" meaning fewer than `cutoff` bases in between — is true at it and it contributes a
    reason profile; and the reported reasons are the documented ones -/
theorem detect_on_locations (genes withHits : List Gene) (hits : Gene → List (Prof × Int)) (loc : Gene → Loc)
    (cutoff circ : Int) (hloc : ∀ g, (loc g).OK circ)
    (wf : (Env.ofLocs genes withHits hits loc cutoff circ).WF) (g : Gene) (c : Cond) (h : c.WF = true) :
    anchors (Env.ofLocs genes withHits hits loc cutoff circ) g c
        = specAnchors (Env.ofLocsSpec genes withHits hits loc cutoff circ) g c ∧
    (detect (Env.ofLocs genes withHits hits loc cutoff circ) g c).reasons
        = specReasons (Env.ofLocsSpec genes withHits hits loc cutoff circ) g c := by
  rw [← env_eq_spec_env genes withHits hits loc cutoff circ hloc]
  exact ⟨anchors_iff _ wf g c h, detect_reasons_eq _ g c h⟩

/-- how a run asks the question: `apply_cluster_rules` hands `rule.detect` not the whole record but the genes (and
    their hits) found in the gene's window (`nearby_features` / `nearby_results`).  For a condition of the documented
    grammar the outcome — truth value, reasons, ancillary hits, anchoring — is the one over the whole record, for ANY
    window that keeps every gene in range of the gene under evaluation (what the window keeps beyond that, and
    whether it keeps the gene itself, is immaterial).  That the real window keeps those genes is C04's extension and
    C08's lookup theorems; the harness runs the real `apply_cluster_rules` on a third of its cases. -/
theorem detect_in_window_eq_detect_on_record (e : Env) (keep : Gene → Bool) (g : Gene)
    (hk : ∀ h, e.inRange g h = true → keep h = true) (c : Cond) (h : c.WF = true) :
    detect (e.restrict keep) g c = detect e g c ∧ anchors (e.restrict keep) g c = anchors e g c := by
  have hd : detect (e.restrict keep) g c = detect e g c := evalC_restrict e keep g hk false c h
  exact ⟨hd, by simp only [anchors, hd]⟩

/-- the hypothesis on the grammar cannot be dropped: a `minscore` inside `cds(...)` is evaluated at the neighbour
    with the neighbour's own neighbourhood, so a window around the gene can change the outcome -/
example : ∃ (e : Env) (keep : Gene → Bool) (g : Gene) (c : Cond),
    (∀ h, e.inRange g h = true → keep h = true) ∧ detect (e.restrict keep) g c ≠ detect e g c :=
  ⟨⟨[0, 1, 2], [0, 1, 2], fun g => if g = 2 then [("p", 20)] else if g = 0 then [("q", 20)] else [],
      fun a b => if a = b then 0 else if (a = 0 ∧ b = 2) ∨ (a = 2 ∧ b = 0) then 16 else 8, 10⟩,
    fun h => h != 2, 0, .group false [.conj [.single false "q", .cds false [.score false "p" 5]]],
    by
      intro h hr
      by_cases h2 : h = 2
      · subst h2; revert hr; decide
      · simp [h2],
    by decide⟩

/-! ### non-vacuity: concrete layouts meeting the hypotheses on which the interesting branches fire -/

/-- three genes on a line, cutoff 10: gene 1 is 9 bases from gene 0, gene 2 exactly 10 away -/
def exLoc (gap2 : Int) (g : Gene) : Loc :=
  if g = 0 then .simple ⟨100, 200, .fwd⟩ else if g = 1 then .simple ⟨209, 300, .rev⟩
  else .simple ⟨300 + gap2, 400 + gap2, .fwd⟩
def exEnv (gap2 : Int) : Env :=
  Env.ofLocs [0, 1, 2] [0, 1, 2]
    (fun g => if g = 0 then [("a", 20)] else if g = 1 then [("b", 20), ("c", 8)] else [("d", 20), ("e", 20)])
    (exLoc gap2) 10 0

/-- the location hypothesis of `detect_on_locations` is satisfiable -/
example : ∀ g, (exLoc 10 g).OK 0 := by
  intro g
  unfold exLoc
  split
  · exact ⟨by simp [Loc.parts], by intro p hp; simp [Loc.parts] at hp; subst hp; simp [Part.OK]⟩
  · split
    · exact ⟨by simp [Loc.parts], by intro p hp; simp [Loc.parts] at hp; subst hp; simp [Part.OK]⟩
    · exact ⟨by simp [Loc.parts], by intro p hp; simp [Loc.parts] at hp; subst hp; simp [Part.OK]⟩

example : (exEnv 10).wfb = true := by decide
/-- negated cds whose only satisfying gene sits exactly `cutoff` away: true; one base closer: false -/
example : (detect (exEnv 10) 1 (.group false [.conj [.single false "b", .cds true [.conj [.single false "d", .single false "e"]]]])).met = true := by decide
example : (detect (exEnv 9) 1 (.group false [.conj [.single false "b", .cds true [.conj [.single false "d", .single false "e"]]]])).met = false := by decide
/-- minimum(3, [a,b,c]) met by 1 own + 2 neighbour hits; reasons only the own hit -/
example : detect (exEnv 10) 0 (.group false [.minimum false 3 ["a", "b", "c"]]) =
    ⟨true, ["a"], [(1, "b"), (1, "c")]⟩ := by decide
/-- minscore(c, 5) fails on bitscore 4 (carried doubled as 8), passes at 4 -/
example : (detect (exEnv 10) 1 (.group false [.score false "c" 5])).met = false := by decide
example : (detect (exEnv 10) 1 (.group false [.score false "c" 4])).met = true := by decide

/-- the window theorem on the layout above: gene 2 is exactly the cutoff away from gene 1 and further from gene 0,
    so a window around gene 0 may drop it -/
example : (∀ h, (exEnv 10).inRange 0 h = true → (fun h => h != 2) h = true) ∧
    detect ((exEnv 10).restrict fun h => h != 2) 0 (.group false [.minimum false 3 ["a", "b", "c"]])
      = ⟨true, ["a"], [(1, "b"), (1, "c")]⟩ := by
  have hk : ∀ h, (exEnv 10).inRange 0 h = true → (fun h => h != 2) h = true := by
    intro h hr
    by_cases h2 : h = 2
    · subst h2; revert hr; decide
    · simp [h2]
  refine ⟨hk, ?_⟩
  rw [(detect_in_window_eq_detect_on_record (exEnv 10) (fun h => h != 2) 0 hk _ (by decide)).1]
  decide

end ASV.C01
