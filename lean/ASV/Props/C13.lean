/-
  C13 — HMM hit refinement keeps the best non-overlapping hits, order-independently.
  Property theorems only; helper lemmas live in ASV/Proofs/{Sort,Refine*,HitFilter*}.lean.

  Every statement is for all hit lists (any length, equal starts, equal scores, nested and chained
  overlaps, duplicates), all profile-length tables and both modes of `refine_hmmscan_results`.
  The model is the code with fixes D11, D22, D25, D26, D32, D61, D62 applied (see design/C13.md).
-/
import ASV.Proofs.RefineCover
import ASV.Proofs.RefineIncomplete
import ASV.Proofs.HitFilterMultiple
import ASV.Proofs.HitFilterEquiv
import ASV.Proofs.HitCallers
import ASV.Proofs.HitFilterOrder
namespace ASV.C13
open ASV ASV.Refine ASV.HitFilter ASV.HitCallers

/-! ## refinement (`hmmscan_refinement.refine_hmmscan_results`, one protein) -/

/-- **order independence** — the heart of the property (reused by C17): the result depends only
    on the *set* of raw hits, not on the enumeration `gather_by_query`'s set happens to produce -/
theorem refine_enumeration_invariant (env : Env) (nb : Bool) (l₁ l₂ : List Hit)
    (h : ∀ x, x ∈ l₁ ↔ x ∈ l₂) : refine env nb l₁ = refine env nb l₂ := by
  simp only [refine, beforeIncomplete, sortHits_eq_of_same_set h]

/-- the same for every permutation of the input list -/
theorem refine_perm_invariant (env : Env) (nb : Bool) (l₁ l₂ : List Hit) (h : l₁.Perm l₂) :
    refine env nb l₁ = refine env nb l₂ :=
  refine_enumeration_invariant env nb l₁ l₂ (fun _ => h.mem_iff)

/-- the sorted enumeration itself is canonical (what C17 needs): a permutation-invariant,
    duplicate-free list with the same members -/
theorem sortHits_canonical (l₁ l₂ : List Hit) (h : l₁.Perm l₂) :
    sortHits l₁ = sortHits l₂ ∧ (sortHits l₁).Nodup ∧ ∀ x, x ∈ sortHits l₁ ↔ x ∈ l₁ :=
  ⟨sortHits_eq_of_same_set (fun _ => h.mem_iff), sortHits_nodup l₁, fun _ => mem_sortHits⟩

/-- the returned hits are ordered by position -/
theorem refine_sorted (env : Env) (nb : Bool) (l : List Hit) : sortedByStart (refine env nb l) = true :=
  (sortedByStart_iff _).mpr (refine_sorted' env nb l)

/-- every returned hit is an input hit or the merge of same-profile input fragments close enough
    to be one domain: it spans them exactly and carries their best e-value and score -/
theorem refine_provenance (env : Env) (nb : Bool) (l : List Hit) :
    ∀ o ∈ refine env nb l, ∃ F, (∀ f ∈ F, f ∈ l) ∧ isMergeOf env F o = true := by
  intro o ho
  obtain ⟨F, hF, hm⟩ := refine_from env nb l o ho
  exact ⟨F, hF, isMergeOf_of env hm⟩

/-- **no two returned hits overlap by more than the allowed margin** (fix D61; was the open finding
    KF-C13-greedy-overlap): any two returned hits `a` before `b` satisfy
    `b.start ≥ a.end − 0.2·max(len a, len b)` — the code's strong form, measured to the end of the
    earlier hit — for every input, in both modes … -/
theorem refine_starts_clear (env : Env) (nb : Bool) (l : List Hit) : allStartClear env (refine env nb l) = true := by
  simp only [allStartClear, pairwiseB_iff]
  exact refine_startClear env nb l

/-- … and therefore in the property's form: they share at most 20 % of the longer profile -/
theorem refine_no_excess_overlap (env : Env) (nb : Bool) (l : List Hit) :
    noExcessOverlap env (refine env nb l) = true := by
  simp only [noExcessOverlap, pairwiseB_iff]
  exact (refine_startClear env nb l).imp (fun h => withinMargin_of_startsClear env _ _ h)

/-- corollary kept from the first round: one margin for every pair, the longest profile involved -/
theorem refine_margin_longest_profile (env : Env) (nb : Bool) (l : List Hit) (m5 : Int)
    (hl : ∀ h ∈ l, env.len h.prof ≤ m5) : allStartClearBy m5 (refine env nb l) = true :=
  (allStartClearBy_iff _ _).mpr (refine_clearBy env nb m5 l hl)

/-! ## the overlap pass (`_remove_overlapping`, fix D61) -/

/-- the pass only selects: its result is a sub-list of its input (input order kept) -/
theorem removeOverlapping_selects (env : Env) (l : List Hit) : (removeOverlapping env l).Sublist l :=
  removeOverlapping_sublist env l

/-- a non-empty input never yields an empty result (the best-ranked result is always kept) -/
theorem removeOverlapping_nonempty (env : Env) (l : List Hit) (h : l ≠ []) : removeOverlapping env l ≠ [] :=
  removeOverlapping_ne_nil env h

/-- for *any* input list: in the order returned, no result collides with a later one -/
theorem removeOverlapping_separates (env : Env) (l : List Hit) : allStartClear env (removeOverlapping env l) = true := by
  simp only [allStartClear, pairwiseB_iff]
  exact removeOverlapping_no_conflict env l

/-- **a hit is dropped only if a better-ranked overlapping hit is kept** (was the open finding
    KF-C13-greedy-orphan), with the tie rule the code implements: the kept hit has the higher score,
    or the same score and the earlier position in the (position-sorted) input -/
theorem removeOverlapping_dropped_against_kept (env : Env) (l : List Hit) (hs : sortedByStart l = true) : ∀ d ∈ l,
    d ∈ removeOverlapping env l ∨
      ∃ k ∈ removeOverlapping env l, collide env k d = true ∧ RanksAbove l k d :=
  removeOverlapping_justified env ((sortedByStart_iff l).mp hs)

/-- the same as the executable relation the harness evaluates on the real function's output -/
theorem removeOverlapping_dropped_justified (env : Env) (l : List Hit) (hs : sortedByStart l = true) :
    droppedJustified env l (removeOverlapping env l) = true :=
  droppedJustified_removeOverlapping env ((sortedByStart_iff l).mp hs)

/-! ## why a hit is missing from the result -/

/-- every input hit is accounted for before the incomplete-fragment rule.  Default mode: it lies
    inside a same-profile hit `m` (itself or the merge it went into, with at least its score and at
    most its e-value) that reaches that rule, or `m` collides with a hit `k` scoring at least as
    high that reaches it.  Neighbour mode: the raw hit lies inside a merged hit that reaches the
    rule, or collides with a raw hit `k` scoring at least as high that lies inside one -/
theorem refine_accounts_for_every_hit (env : Env) (nb : Bool) (l : List Hit) : ∀ x ∈ l,
    (∃ m ∈ beforeIncomplete env nb l, covers m x = true) ∨
    (∃ m k, covers m x = true ∧ collide env k m = true ∧ m.sc ≤ k.sc ∧
      ∃ o ∈ beforeIncomplete env nb l, covers o k = true) := by
  intro x hx
  rcases beforeIncomplete_accounts env nb l x hx with ⟨m, hm, hc⟩ | ⟨m, k, hc, hcl, hsc, o, ho, hco⟩
  · exact Or.inl ⟨m, hm, (covers_iff m x).mpr hc⟩
  · exact Or.inr ⟨m, k, (covers_iff m x).mpr hc, hcl, hsc, o, ho, (covers_iff o k).mpr hco⟩

/-- … and the last stage is exactly the documented rule: all hits covering more than half of
    their profile if there is one; else the first hit with the largest share if that exceeds a
    third; else the first regulator hit; else nothing -/
theorem removeIncomplete_rule (env : Env) (l : List Hit) (hl : ∀ h ∈ l, 0 < env.len h.prof) :
    removeIncomplete env l = specIncomplete env l :=
  removeIncomplete_eq_spec env l hl

/-- so `refine` is that rule applied to the accounted-for list (round 6: the profile lengths need to
    be positive only for the profiles of the raw hits — merging and the overlap pass introduce no other
    profile) -/
theorem refine_is_rule_of_survivors (env : Env) (nb : Bool) (l : List Hit) (hl : ∀ h ∈ l, 0 < env.len h.prof) :
    refine env nb l = specIncomplete env (beforeIncomplete env nb l) := by
  apply removeIncomplete_eq_spec env _
  intro o ho
  obtain ⟨f, hf, e⟩ := beforeIncomplete_prof env nb l o ho
  rw [← e]; exact hl f hf

/-- **the executable provenance check is complete** (round 6; was "search not verified"): the very
    relation the driver evaluates on the implementation's output — every returned hit is an input hit
    or `isMergeOf` a sub-list, found by search, of the same-profile raw hits inside it — holds for the
    model on every input, both modes -/
theorem refine_provenance_search_succeeds (env : Env) (nb : Bool) (l : List Hit) :
    allProvenanceOK env (sortHits l) (refine env nb l) = true :=
  allProvenanceOK_refine env nb l

/-- the fragments can be taken in position order: a sub-list of the sorted raw hits -/
theorem refine_provenance_ordered (env : Env) (nb : Bool) (l : List Hit) : ∀ o ∈ refine env nb l,
    ∃ F, F.Sublist (sortHits l) ∧ isMergeOf env F o = true := by
  intro o ho
  obtain ⟨F, hsub, hm⟩ := beforeIncomplete_sub env nb l o ((removeIncomplete_sublist env _).subset ho)
  exact ⟨F, hsub, isMergeOf_of env hm⟩

/-- `removeOverlapping_dropped_against_kept` without the position-order hypothesis (round 6): on *any*
    list a result missing from the output collides — the one earlier in the list first, as the code
    orients the test — with a returned result of higher score, or equal score and earlier place -/
theorem removeOverlapping_dropped_against_kept_any_order (env : Env) (l : List Hit) (j : Nat) (d : Hit)
    (hj : l[j]? = some d) :
    d ∈ removeOverlapping env l ∨
      ∃ i k, l[i]? = some k ∧ k ∈ removeOverlapping env l ∧ i ≠ j ∧
        (if j ≤ i then conflict env d k else conflict env k d) = true ∧
        (d.sc < k.sc ∨ (k.sc = d.sc ∧ i < j)) :=
  removeOverlapping_justified_any env l j d hj

/-- non-vacuity: an unsorted list — `[50,150)` comes first, `[0,100)` second with the higher score -/
example : removeOverlapping { len := fun _ => 100 } [⟨0, 50, 150, 1, 100⟩, ⟨1, 0, 100, 1, 200⟩] =
    [⟨1, 0, 100, 1, 200⟩] := by decide

/-! ## `hmmer.remove_overlapping` (with fixes D25, D26) -/

/-- whenever the function returns (non-empty input, a cut-off for every identifier, positive
    scores and cut-offs) its result meets the whole executable spec: ordered by start; a
    sub-multiset of the input; no two results within `overlap_limit` of each other; every dropped
    hit is too close to a returned hit ranking at least as high; every top-ranked hit is returned -/
theorem hmmer_meets_spec (cut : Int → Option Int) (limit : Int) (hits out : List HHit)
    (h : HitFilter.removeOverlapping cut limit hits = .ok out) :
    (hmmerSpec (fun i => (cut i).getD 0) limit hits out).ok = true := by
  obtain ⟨hne, hv, rfl⟩ := removeOverlapping_ok h
  obtain ⟨r⟩ := run_of_ne_nil (fun i => (cut i).getD 0) limit hne
  have hvalid : ∀ x ∈ hits, Valid (fun i => (cut i).getD 0) x := fun x hx => (hv x hx).1
  simp only [HmmerVerdict.ok, hmmerSpec, Bool.and_eq_true]
  refine ⟨⟨⟨⟨?_, ?_⟩, ?_⟩, ?_⟩, ?_⟩
  · rw [pairwiseB_iff]
    exact r.out_sorted.imp (fun h => by simpa using h)
  · rw [List.all_eq_true]
    intro x hx
    have h1 := r.out_count_le x
    have h2 : 0 < (core (fun i => (cut i).getD 0) limit hits).count x := List.count_pos_iff.mpr hx
    simp only [decide_eq_true_eq]
    exact ⟨h2, h1⟩
  · rw [pairwiseB_iff]
    exact r.out_separated.imp (fun h => by simp [h])
  · rw [List.all_eq_true]
    intro d hd
    rcases r.out_justified hvalid d hd with h1 | ⟨k, hk, hc, hr⟩
    · simp [h1]
    · simp only [Bool.or_eq_true, List.any_eq_true, Bool.and_eq_true]
      right
      exact ⟨k, hk, hc, by rw [← rankLe_iff_ranksAtLeast]; exact hr⟩
  · rw [List.all_eq_true]
    intro t ht
    by_cases htop : (hits.all fun o => ranksAtLeast (fun i => (cut i).getD 0) t o) = true
    · have : t ∈ core (fun i => (cut i).getD 0) limit hits := by
        apply r.out_top hvalid t ht
        intro o ho
        rw [rankLe_iff_ranksAtLeast]
        exact List.all_eq_true.mp htop o ho
      simp [this]
    · simp [htop]

/-- the parts of the spec, individually (same hypotheses) -/
theorem hmmer_no_overlap (cut : Int → Option Int) (limit : Int) (hits out : List HHit)
    (h : HitFilter.removeOverlapping cut limit hits = .ok out) :
    out.Pairwise (fun a b => tooClose limit a b = false) := by
  obtain ⟨hne, _, rfl⟩ := removeOverlapping_ok h
  obtain ⟨r⟩ := run_of_ne_nil (fun i => (cut i).getD 0) limit hne
  exact r.out_separated

theorem hmmer_dropped_has_better_kept (cut : Int → Option Int) (limit : Int) (hits out : List HHit)
    (h : HitFilter.removeOverlapping cut limit hits = .ok out) : ∀ d ∈ hits,
    d ∈ out ∨ ∃ k ∈ out, tooClose limit k d = true ∧ ranksAtLeast (fun i => (cut i).getD 0) k d = true := by
  obtain ⟨hne, hv, rfl⟩ := removeOverlapping_ok h
  obtain ⟨r⟩ := run_of_ne_nil (fun i => (cut i).getD 0) limit hne
  intro d hd
  rcases r.out_justified (fun x hx => (hv x hx).1) d hd with h1 | ⟨k, hk, hc, hr⟩
  · exact Or.inl h1
  · exact Or.inr ⟨k, hk, hc, by rw [← rankLe_iff_ranksAtLeast]; exact hr⟩

/-- no hit is returned more often than it was given (D25: the first hit used to come out twice) -/
theorem hmmer_no_duplication (cut : Int → Option Int) (limit : Int) (hits out : List HHit)
    (h : HitFilter.removeOverlapping cut limit hits = .ok out) (x : HHit) : out.count x ≤ hits.count x := by
  obtain ⟨hne, _, rfl⟩ := removeOverlapping_ok h
  obtain ⟨r⟩ := run_of_ne_nil (fun i => (cut i).getD 0) limit hne
  exact r.out_count_le x

/-- the result does not depend on the order of the input list (D26) -/
theorem hmmer_perm_invariant (cut : Int → Option Int) (limit : Int) (l₁ l₂ out : List HHit) (hp : l₁.Perm l₂)
    (h : HitFilter.removeOverlapping cut limit l₁ = .ok out) : HitFilter.removeOverlapping cut limit l₂ = .ok out :=
  removeOverlapping_perm hp h

/-- the error branches: empty input is the `assert 0`; otherwise the first hit without a cut-off
    (`ValueError`) or with score 0 (`ZeroDivisionError`) decides -/
theorem hmmer_errors (cut : Int → Option Int) (limit : Int) :
    HitFilter.removeOverlapping cut limit [] = .error .assertion ∧
    (∀ h t, (cut h.ident).isNone = true → HitFilter.removeOverlapping cut limit (h :: t) = .error .valueError) ∧
    (∀ h t, (cut h.ident).isSome = true → h.sc = 0 →
      HitFilter.removeOverlapping cut limit (h :: t) = .error .zeroDivision) := by
  refine ⟨rfl, ?_, ?_⟩
  · intro h t hc
    simp [HitFilter.removeOverlapping, hc]
  · intro h t hc hs
    have : (cut h.ident).isNone = false := by
      cases hcc : cut h.ident with
      | none => simp [hcc] at hc
      | some v => rfl
    simp [HitFilter.removeOverlapping, this, hs]

/-- the ranking has no ties between different hits: two hits that rank each other at least as
    high are the same hit (same identifier, start, end, score), so "the best" is well defined -/
theorem hmmer_rank_ties_are_equal_hits (c : Int → Int) (a b : HHit) (ha : 0 < a.sc ∧ 0 < c a.ident)
    (h1 : ranksAtLeast c a b = true) (h2 : ranksAtLeast c b a = true) : a = b := by
  rw [← rankLe_iff_ranksAtLeast] at h1 h2
  exact rankLe_antisymm c a b ha h1 h2

/-! ## `filter_result_multiple`: one hit per profile and gene -/

/-- a hit is reported exactly when it scores above −1 and is the earliest best-scoring hit of
    its profile on the gene -/
theorem multiple_best_per_profile (hits : List FHit) (x : FHit) :
    x ∈ filterMultiple hits ↔ ∃ l1 l2, hits = l1 ++ x :: l2 ∧ keptMultiple hits l1.length x = true := by
  rw [mem_filterMultiple]
  constructor
  · rintro ⟨l1, l2, e, hpos, h1, h2⟩
    refine ⟨l1, l2, e, ?_⟩
    subst e
    have hd : List.drop (l1.length + 1) (l1 ++ x :: l2) = l2 := by
      rw [show l1 ++ x :: l2 = (l1 ++ [x]) ++ l2 by simp]
      exact List.drop_left' (by simp)
    simp only [keptMultiple, List.take_left', hd, Bool.and_eq_true, decide_eq_true_eq,
      List.all_eq_true, Bool.or_eq_true, bne_iff_ne]
    refine ⟨⟨hpos, ?_⟩, ?_⟩
    · intro g hg
      by_cases hp : g.prof = x.prof
      · exact Or.inr (h1 g hg hp)
      · exact Or.inl hp
    · intro g hg
      by_cases hp : g.prof = x.prof
      · exact Or.inr (h2 g hg hp)
      · exact Or.inl hp
  · rintro ⟨l1, l2, e, hk⟩
    refine ⟨l1, l2, e, ?_⟩
    subst e
    have hd : List.drop (l1.length + 1) (l1 ++ x :: l2) = l2 := by
      rw [show l1 ++ x :: l2 = (l1 ++ [x]) ++ l2 by simp]
      exact List.drop_left' (by simp)
    simp only [keptMultiple, List.take_left', hd, Bool.and_eq_true, decide_eq_true_eq,
      List.all_eq_true, Bool.or_eq_true, bne_iff_ne] at hk
    obtain ⟨⟨hpos, h1⟩, h2⟩ := hk
    refine ⟨hpos, ?_, ?_⟩
    · intro g hg hp
      rcases h1 g hg with h | h
      · exact absurd hp h
      · exact h
    · intro g hg hp
      rcases h2 g hg with h | h
      · exact absurd hp h
      · exact h

/-- at most one reported hit per profile … -/
theorem multiple_one_per_profile (hits : List FHit) (x y : FHit) (hx : x ∈ filterMultiple hits)
    (hy : y ∈ filterMultiple hits) (hp : x.prof = y.prof) : x = y := by
  obtain ⟨l1, l2, h1⟩ := mem_filterMultiple.mp hx
  obtain ⟨l1', l2', h2⟩ := mem_filterMultiple.mp hy
  exact firstBest_unique h1 h2 hp

/-- … and every profile with a hit scoring above −1 keeps one that scores at least as high -/
theorem multiple_profile_survives (hits : List FHit) (g : FHit) (hg : g ∈ hits) (hs : -10 < g.sc) :
    ∃ x ∈ filterMultiple hits, x.prof = g.prof ∧ g.sc ≤ x.sc := by
  have inv := final_inv hits
  obtain ⟨e, he, hk⟩ := List.mem_map.mp (inv.complete g hg hs)
  obtain ⟨l1, l2, hfb, _, hp⟩ := inv.sound e he
  refine ⟨e.2.2, mem_filterMultiple.mpr ⟨l1, l2, hfb⟩, by rw [hp, hk], ?_⟩
  obtain ⟨hsplit, _, h1, h2⟩ := hfb
  rw [hsplit] at hg
  rcases List.mem_append.mp hg with hg | hg
  · have := h1 g hg (by rw [hp, hk]); omega
  · rcases List.mem_cons.mp hg with rfl | hg
    · exact Int.le_refl _
    · exact h2 g hg (by rw [hp, hk])

/-- **the order of the reported hits** (round 7; was left to the correspondence): `filter_result_multiple`
    returns its hits in the order of the gene's hit list … -/
theorem multiple_keeps_list_order (hits : List FHit) : (filterMultiple hits).Sublist hits :=
  filterMultiple_sublist hits

/-- … so for distinct hits the returned list *is* the gene's list filtered by the membership that
    `multiple_best_per_profile` characterises: list, order and all are determined -/
theorem multiple_is_filter_of_input (hits : List FHit) (hd : hits.Nodup) :
    filterMultiple hits = hits.filter fun x => (filterMultiple hits).contains x :=
  sublist_eq_filter_mem (filterMultiple_sublist hits) hd

/-- non-vacuity: profile 1's best hit stands before profile 0's in the list and stays there -/
example : filterMultiple [⟨0, 1, 50, 60, 100⟩, ⟨1, 0, 0, 10, 50⟩, ⟨2, 0, 20, 30, 90⟩, ⟨3, 1, 0, 5, 100⟩] =
    [⟨0, 1, 50, 60, 100⟩, ⟨2, 0, 20, 30, 90⟩] := by decide

/-! ## `filter_results`: competition between the hits of one gene (distinct HSP objects) -/

/-- survivors are input hits in their input order -/
theorem equivalence_selects (eqs : List (List Int)) (hits out : List FHit)
    (h : filterResults eqs hits = some out) : out.Sublist hits := by
  simp only [filterResults] at h
  split at h
  · simp at h
  · simp only [Option.some.injEq] at h; subst h; exact foldl_filterPass_sublist eqs hits

/-- if at least two profiles of some equivalence group are still present at the end, no two
    different survivors overlap by more than 20 residues: of each overlapping group one survives -/
theorem equivalence_best_per_group (eqs : List (List Int)) (hits out : List FHit) (hu : UidInj hits)
    (h : filterResults eqs hits = some out) (g : List Int) (hg : g ∈ eqs) (hq : qualifies g out = true) :
    ∀ a ∈ out, ∀ b ∈ out, a ≠ b → overlaps20 a b = false := by
  simp only [filterResults] at h
  split at h
  · simp at h
  · simp only [Option.some.injEq] at h; subst h
    exact foldl_filterPass_separated eqs hits hu g hg hq

/-- **the single best hit of each overlapping group survives** (fix D62), with the tie rule: in a
    competition that runs (≥ 2 profiles of the equivalence group hit the gene) a hit survives exactly
    when no hit of its overlapping group — the hits `Linked` to it through chains of > 20-residue
    overlaps — is preferred to it: a higher bitscore, or the same bitscore and an earlier place in the
    gene's hit list (`prefers`) -/
theorem equivalence_one_competition (hits : List FHit) (eq : List Int) (hu : UidNodup hits)
    (hq : qualifies eq hits = true) (h : FHit) :
    h ∈ filterPass hits eq ↔ h ∈ hits ∧ ∀ o ∈ hits, Linked hits h o → prefers hits o h = false := by
  apply filterPass_mem_iff hits eq hu
  have h1 := (qualifies_iff eq hits).mp hq
  have h2 := specCount_le_presentCount eq (out := hits) (L := hits) (fun _ hx => hx)
  unfold presentCount at h2
  omega

/-- the groups the code forms are exactly the overlapping groups: pairwise disjoint, two hits of one
    group are `Linked`, and two different `Linked` hits are in one group -/
theorem equivalence_groups_are_components (hits : List FHit) :
    (overlappingGroups hits).Pairwise (fun g1 g2 => ∀ x ∈ g1, x ∉ g2) ∧
    (∀ g ∈ overlappingGroups hits, ∀ x ∈ g, ∀ y ∈ g, Linked hits x y) ∧
    (∀ x y, Linked hits x y → x = y ∨ ∃ g ∈ overlappingGroups hits, x ∈ g ∧ y ∈ g) := by
  have inv := overlappingGroups_inv hits
  exact ⟨inv.disj, fun g hg x hx y hy => linked_iff_eqv.mpr (inv.sound g hg x hx y hy),
    fun x y hl => inv.of_eqv (linked_iff_eqv.mp hl)⟩

/-- the first of the best-scoring hits of the gene survives every competition … -/
theorem equivalence_first_best_survives (eqs : List (List Int)) (hits : List FHit) (hu : UidNodup hits) (t : FHit)
    (l1 l2 : List FHit) (e : hits = l1 ++ t :: l2) (h1 : ∀ o ∈ l1, o.sc < t.sc) (h2 : ∀ o ∈ l2, o.sc ≤ t.sc) :
    ∃ out, filterResults eqs hits = some out ∧ t ∈ out := by
  have hmem := foldl_filterPass_keeps_first_best eqs hits hu t l1 l2 e h1 h2
  refine ⟨eqs.foldl filterPass hits, ?_, hmem⟩
  simp only [filterResults]
  have : (eqs.foldl filterPass hits).isEmpty = false := by
    cases hh : eqs.foldl filterPass hits with
    | nil => rw [hh] at hmem; simp at hmem
    | cons a l => rfl
  simp [this]

/-- … so the code's `assert results_by_id[cds]` can never fail, ties or not -/
theorem equivalence_never_empties_a_gene (eqs : List (List Int)) (hits : List FHit) (hu : UidNodup hits) :
    ∃ out, filterResults eqs hits = some out ∧ (hits ≠ [] → out ≠ []) := by
  cases hits with
  | nil => exact ⟨eqs.foldl filterPass [], by simp [filterResults], fun h => absurd rfl h⟩
  | cons b l =>
    have hne := foldl_filterPass_ne_nil eqs (b :: l) hu (by simp)
    refine ⟨eqs.foldl filterPass (b :: l), ?_, fun _ => hne⟩
    simp only [filterResults]
    have : (eqs.foldl filterPass (b :: l)).isEmpty = false := by
      cases hh : eqs.foldl filterPass (b :: l) with
      | nil => exact absurd hh hne
      | cons a t => rfl
    simp [this]

/-- the strictly best-scoring hit always survives (first-round statement, a special case) -/
theorem equivalence_best_survives (eqs : List (List Int)) (hits : List FHit) (hu : UidNodup hits) (t : FHit)
    (ht : t ∈ hits) (hmax : ∀ o ∈ hits, o ≠ t → o.sc < t.sc) :
    ∃ out, filterResults eqs hits = some out ∧ t ∈ out := by
  have hmem := foldl_filterPass_keeps_best eqs hits hu t ht hmax
  refine ⟨eqs.foldl filterPass hits, ?_, hmem⟩
  simp only [filterResults]
  have : (eqs.foldl filterPass hits).isEmpty = false := by
    cases hh : eqs.foldl filterPass hits with
    | nil => rw [hh] at hmem; simp at hmem
    | cons a l => rfl
  simp [this]

/-- **order independence of the competition**: when no two different hits of the gene tie in
    bitscore, the survivors are the same hits for every ordering of the gene's hit list (with ties the
    earlier hit wins, theorem `equivalence_one_competition`) -/
theorem equivalence_order_independent (eqs : List (List Int)) (l₁ l₂ : List FHit) (hp : l₁.Perm l₂)
    (hu : UidNodup l₁) (hn : NoTies l₁) : (eqs.foldl filterPass l₁).Perm (eqs.foldl filterPass l₂) :=
  foldl_filterPass_perm eqs hp hu hn

/-- a gene hit by fewer than two profiles of every equivalence group keeps all its hits -/
theorem equivalence_untouched (eqs : List (List Int)) (hits : List FHit)
    (hq : ∀ g ∈ eqs, qualifies g hits = false) : filterResults eqs hits = some hits := by
  simp only [filterResults, foldl_filterPass_untouched eqs hits hq]
  cases hits <;> simp

/-- the first round's witness of non-transitive groups (`a`–`d`–`e`–`c`–`b` is one chain of pairwise
    overlaps): the chain is now one group and only its best hit survives, in every order of the list -/
theorem equivalence_chain_is_one_group :
    let a : FHit := ⟨0, 0, 0, 100, 700⟩
    let b : FHit := ⟨1, 1, 250, 300, 900⟩
    let c : FHit := ⟨2, 2, 175, 275, 300⟩
    let d : FHit := ⟨3, 3, 75, 175, 600⟩
    let e : FHit := ⟨4, 4, 150, 250, 100⟩
    overlappingGroups [a, b, c, d, e] = [[e, d, c, b, a]] ∧
    filterResults [[0, 1]] [a, b, c, d, e] = some [b] ∧
    filterResults [[0, 1]] [e, d, c, b, a] = some [b] := by decide

/-- the passes over a whole record (groups outermost, genes inside, as the code loops) give every gene
    exactly what it would get alone: no gene's result depends on the hits of any other gene -/
theorem equivalence_filter_is_per_gene (eqs : List (List Int)) (genes : List (List FHit)) :
    filterRecordPasses eqs genes = genes.map fun hits => eqs.foldl filterPass hits := by
  induction eqs generalizing genes with
  | nil => simp [filterRecordPasses]
  | cons e es ih =>
    have := ih (genes.map fun hits => filterPass hits e)
    simp only [filterRecordPasses, List.foldl_cons] at this ⊢
    rw [this, List.map_map]
    rfl

/-- … including the assertion: the record-level call succeeds iff every gene's own call does, and then
    returns the per-gene results in gene order -/
theorem equivalence_filter_record (eqs : List (List Int)) (genes : List (List FHit)) :
    filterRecord eqs genes = genes.mapM (filterResults eqs) := by
  simp only [filterRecord, equivalence_filter_is_per_gene]
  induction genes with
  | nil => simp
  | cons g gs ih =>
    simp only [List.map_cons, List.zip_cons_cons, List.any_cons, List.mapM_cons, filterResults]
    by_cases h1 : ((List.foldl filterPass g eqs).isEmpty && !g.isEmpty) = true
    · simp [h1]
    · simp only [h1, Bool.false_or, Bool.false_eq_true, if_false, Option.bind_eq_bind, Option.bind_some,
        Option.pure_def]
      split at ih
      · next h2 => rw [if_pos h2, ← ih]; simp
      · next h2 => rw [if_neg h2, ← ih]; simp

/-! ## the callers, end to end for one gene: functions of the (multi)set of raw hits -/

/-- `cluster_prediction.find_hmmer_hits` (cut-off → `filter_results` → `filter_result_multiple` →
    start order): for distinct HSP objects the call never fails, and if no two different raw hits of
    the gene tie in bitscore the gene's hits are the same multiset for every ordering of the raw list
    (with ties the earlier raw hit wins, see `equivalence_one_competition`, `multiple_best_per_profile`) -/
theorem find_hmmer_hits_gene_order_independent (cut : Int → Int) (eqs : List (List Int)) (r₁ r₂ : List FHit)
    (h : r₁.Perm r₂) (hu : UidNodup r₁) (hn : NoTies r₁) :
    ∃ o₁ o₂, findHmmerHitsGene cut eqs r₁ = some o₁ ∧ findHmmerHitsGene cut eqs r₂ = some o₂ ∧ o₁.Perm o₂ :=
  findHmmerHitsGene_perm cut eqs h hu hn

/-- what it returns for a gene: raw hits strictly above their signature's cut-off (and above −1),
    at most one per profile, ordered by start -/
theorem find_hmmer_hits_gene_sound (cut : Int → Int) (eqs : List (List Int)) (raw out : List FHit)
    (h : findHmmerHitsGene cut eqs raw = some out) :
    (∀ x ∈ out, x ∈ raw ∧ cut x.prof < x.sc ∧ -10 < x.sc) ∧
    (∀ x ∈ out, ∀ y ∈ out, x.prof = y.prof → x = y) ∧
    out.Pairwise (fun a b => a.hs ≤ b.hs) :=
  findHmmerHitsGene_sound cut eqs raw out h

/-- **the best hit of each profile is chosen among the survivors of the competition, not before it**:
    a raw hit above its cut-off (and above −1) that competes with no other such hit of the gene —
    different objects sharing more than 20 residues — always has its profile represented in the
    result, by a hit scoring at least as high; so a profile whose best copy loses to an equivalent
    profile keeps its uncontested weaker copy (swapping the two filters falsifies this) -/
theorem find_hmmer_hits_uncontested_profile_represented (cut : Int → Int) (eqs : List (List Int)) (raw : List FHit)
    (hu : UidNodup raw) (h : FHit) (hh : h ∈ raw) (hc : cut h.prof < h.sc) (hs : -10 < h.sc)
    (hno : ∀ o ∈ raw, cut o.prof < o.sc → competes h o = false) :
    ∃ out, findHmmerHitsGene cut eqs raw = some out ∧ ∃ x ∈ out, x.prof = h.prof ∧ h.sc ≤ x.sc := by
  obtain ⟨out, ho, hrep⟩ := findHmmerHitsGene_represents_survivors cut eqs raw hu
  refine ⟨out, ho, hrep h ?_ hs⟩
  have hf : h ∈ raw.filter (aboveCutoff cut) := List.mem_filter.mpr ⟨hh, by simpa [aboveCutoff] using hc⟩
  apply foldl_filterPass_keeps_uncontested eqs _ (hu.sublist List.filter_sublist) h hf
  intro o ho'
  have := List.mem_filter.mp ho'
  exact hno o this.1 (by simpa [aboveCutoff] using this.2)

/-- in general: whatever survives the competition (and scores above −1) has its profile represented -/
theorem find_hmmer_hits_survivors_represented (cut : Int → Int) (eqs : List (List Int)) (raw : List FHit)
    (hu : UidNodup raw) : ∃ out, findHmmerHitsGene cut eqs raw = some out ∧
      ∀ h ∈ eqs.foldl filterPass (raw.filter (aboveCutoff cut)), -10 < h.sc →
        ∃ x ∈ out, x.prof = h.prof ∧ h.sc ≤ x.sc :=
  findHmmerHitsGene_represents_survivors cut eqs raw hu

/-- non-vacuity (the seeded scenario): profile 0 twice, its better copy `[0,100)`/32 loses to profile 1's
    `[50,160)`/35 of the same equivalence group, its weaker copy `[300,400)`/31 is uncontested and stays;
    with the filters swapped profile 0 would vanish from the gene -/
example : findHmmerHitsGene (fun _ => 100) [[0, 1]]
    [⟨0, 0, 0, 100, 320⟩, ⟨1, 1, 50, 160, 350⟩, ⟨2, 0, 300, 400, 310⟩] =
    some [⟨1, 1, 50, 160, 350⟩, ⟨2, 0, 300, 400, 310⟩] := by decide
example : (filterResults [[0, 1]] (filterMultiple
    [⟨0, 0, 0, 100, 320⟩, ⟨1, 1, 50, 160, 350⟩, ⟨2, 0, 300, 400, 310⟩])) = some [⟨1, 1, 50, 160, 350⟩] := by decide

/-- `hmmer.run_hmmer` (score / e-value cut of `build_hits`, then `remove_overlapping`): the locus'
    hits do not depend on the order of the hmmscan results -/
theorem run_hmmer_gene_perm_invariant (cut : Int → Option Int) (minScore maxEvalue : Int) (r₁ r₂ : List RawHmm)
    (h : r₁.Perm r₂) (out : List HHit) (h1 : runHmmerGene cut minScore maxEvalue r₁ = .ok out) :
    runHmmerGene cut minScore maxEvalue r₂ = .ok out :=
  runHmmerGene_perm cut minScore maxEvalue h out h1

/-! ### neighbour mode (the NRPS/PKS callers): a complete raw hit with no rival comes back -/

/-- **neighbour mode resolves overlaps between the raw hits before it merges**: a raw hit covering
    more than half of its profile, with which no other raw hit scoring at least as high collides,
    lies inside a returned hit of its profile (itself, or a merge with immediately neighbouring
    fragments) that has at least its score — the same as the executable relation the harness
    evaluates on the real callers' output.  The generic mode does not have this property
    (example below), which is why `find_subtypes` / `find_domains` / `find_ab_motifs` must ask for
    `neighbour_mode=True` -/
theorem neighbour_mode_keeps_uncontested_complete (env : Env) (l : List Hit) :
    uncontestedCompleteKept env (sortHits l) (refine env true l) = true :=
  uncontestedCompleteKept_refine env l

/-- … and what it merges are *immediate neighbours*: every returned hit is the merge (`isMergeOf`) of a
    contiguous piece of the list of raw hits that survive the overlap pass — a single survivor, or
    consecutive same-profile survivors with nothing kept between them -/
theorem neighbour_mode_merges_immediate_neighbours (env : Env) (l : List Hit) : ∀ o ∈ refine env true l,
    ∃ F, F <:+: removeOverlapping env (sortHits l) ∧ isMergeOf env F o = true := by
  intro o ho
  obtain ⟨F, hin, hm⟩ := refine_neighbour_infix env l o ho
  exact ⟨F, hin, isMergeOf_of env hm⟩

/-- the same through `find_domains` (non-docking profiles; docking domains are filtered by position) -/
theorem find_domains_keeps_uncontested_complete (env : Env) (L : Int) (raw : List Hit) (x : Hit) (hx : x ∈ raw)
    (hcx : complete env x = true) (hnd : env.dock x.prof = false)
    (hun : ∀ k ∈ raw, k ≠ x → x.sc ≤ k.sc → collide env k x = false) :
    ∃ m ∈ findDomainsGene env L raw, covers m x = true := by
  obtain ⟨m, hm, hc⟩ := findDomainsGene_keeps env L raw x hx hcx hnd hun
  exact ⟨m, hm, (covers_iff m x).mpr hc⟩

/-- … and through `find_subtypes`: such a sub-type hit overlapping a target domain is attached to
    it (under the callback's name), possibly inside a merge of immediate neighbours -/
theorem find_subtypes_keeps_uncontested_complete (env : Env) (strip : Int → Int) (raw : List Hit) (d x : Hit)
    (hx : x ∈ raw) (hcx : complete env x = true) (hov : overlapsWith x d = true)
    (hun : ∀ k ∈ raw, k ≠ x → x.sc ≤ k.sc → collide env k x = false) :
    ∃ m, covers m x = true ∧ ({ m with prof := strip m.prof } : Hit) ∈ subtypeHits env strip raw d := by
  obtain ⟨m, hc, hm⟩ := subtypeHits_keeps env strip raw d x hx hcx hov hun
  exact ⟨m, (covers_iff m x).mpr hc, hm⟩

/-- non-vacuity (the seeded scenario): a complete hit of profile 0 at `[0,60)`, a better hit of profile 1
    at `[70,140)`, and a weak fragment of profile 0 at `[100,130)` underneath it.  Neighbour mode drops the
    fragment and keeps both complete hits; the generic mode first fuses the two profile-0 hits into
    `[0,130)`, which then loses to profile 1 as a whole — the complete, uncontested `[0,60)` is gone -/
example : refine { len := fun _ => 100 } true [⟨0, 0, 60, 1, 300⟩, ⟨1, 70, 140, 1, 500⟩, ⟨0, 100, 130, 2, 100⟩] =
    [⟨0, 0, 60, 1, 300⟩, ⟨1, 70, 140, 1, 500⟩] := by decide
example : refine { len := fun _ => 100 } false [⟨0, 0, 60, 1, 300⟩, ⟨1, 70, 140, 1, 500⟩, ⟨0, 100, 130, 2, 100⟩] =
    [⟨1, 70, 140, 1, 500⟩] := by decide
example : uncontestedCompleteKept { len := fun _ => 100 }
    (sortHits [⟨0, 0, 60, 1, 300⟩, ⟨1, 70, 140, 1, 500⟩, ⟨0, 100, 130, 2, 100⟩]) [⟨1, 70, 140, 1, 500⟩] = false := by decide

/-- `refine_hmmscan_results` on a whole hmmscan output (`gather_by_query` + the gene loop): a gene's
    entry is the refinement of that gene's own hits — genes do not interact, interleaving is irrelevant,
    a gene without surviving hits has no entry (`get(gene, [])` is then the empty refinement) … -/
theorem refine_record_is_per_gene (env : Env) (nb : Bool) (raw : List (Int × Hit)) (g : Int) :
    lookupGene (refineRecord env nb raw) g = refine env nb ((raw.filter fun r => r.1 == g).map (·.2)) :=
  refineRecord_lookup env nb raw g

/-- … and does not depend on the order of the hmmscan output -/
theorem refine_record_perm_invariant (env : Env) (nb : Bool) (r₁ r₂ : List (Int × Hit)) (h : r₁.Perm r₂) (g : Int) :
    lookupGene (refineRecord env nb r₁) g = lookupGene (refineRecord env nb r₂) g :=
  refineRecord_perm env nb h g

/-- `run_hmmer` on a whole hmmscan output (round 6): with filtering, the returned list is the loci's own
    results one after the other, in the order the loci first appear among the hits passing the cuts
    (`results_by_cds` is a dict); loci do not interact -/
theorem run_hmmer_record_is_per_locus (cut : Int → Option Int) (minScore maxEvalue : Int) (raw : List (Int × RawHmm))
    (outOf : Int → List HHit)
    (h : ∀ g ∈ runHmmerLoci minScore maxEvalue raw,
      runHmmerGene cut minScore maxEvalue ((raw.filter fun r => r.1 == g).map (·.2)) = .ok (outOf g)) :
    runHmmerRecord cut minScore maxEvalue raw true =
      .ok ((runHmmerLoci minScore maxEvalue raw).flatMap fun g => (outOf g).map fun h => (g, h)) :=
  runHmmerRecord_ok cut minScore maxEvalue raw outOf h

/-- non-vacuity: two loci interleaved; locus 7 appears first among the passing hits, its two clashing hits
    compete on their own, locus 3's hit below the minimum score is cut before anything else -/
example : (runHmmerRecord (fun _ => some 8) 4 5
    [(3, ⟨⟨0, 0, 30, 4⟩, 1⟩), (7, ⟨⟨0, 0, 50, 20⟩, 1⟩), (3, ⟨⟨1, 10, 60, 40⟩, 1⟩), (7, ⟨⟨1, 5, 55, 40⟩, 1⟩)] true).toOption =
    some [(7, ⟨1, 5, 55, 40⟩), (3, ⟨1, 10, 60, 40⟩)] := by decide

/-- `run_hmmer(filter_overlapping=False)`: exactly the hits passing the two cuts, in hmmscan order -/
theorem run_hmmer_unfiltered (cut : Int → Option Int) (minScore maxEvalue : Int) (raw : List RawHmm) :
    runHmmerGene cut minScore maxEvalue raw false =
      .ok ((raw.filter fun r => decide (minScore < r.hit.sc) && decide (r.ev < maxEvalue)).map (·.hit)) := by
  have e : raw.filter (buildKeep minScore maxEvalue) =
      raw.filter fun r => decide (minScore < r.hit.sc) && decide (r.ev < maxEvalue) := by
    apply List.filter_congr
    intro r _
    simp only [buildKeep]
    by_cases h1 : r.hit.sc ≤ minScore <;> by_cases h2 : maxEvalue ≤ r.ev <;> simp [h1, h2] <;> omega
  simp only [runHmmerGene, e]
  split
  · rename_i h; rw [h]
  · rfl

/-- `domain_identification.find_domains` / `find_ab_motifs`: a function of the gene's hit *set* -/
theorem find_domains_enumeration_invariant (env : Env) (L : Int) (r₁ r₂ : List Hit) (h : ∀ x, x ∈ r₁ ↔ x ∈ r₂) :
    findDomainsGene env L r₁ = findDomainsGene env L r₂ ∧ findAbMotifsGene env r₁ = findAbMotifsGene env r₂ :=
  ⟨findDomainsGene_same_set env L h, refine_enumeration_invariant env true r₁ r₂ h⟩

/-- `domain_identification.find_subtypes`: for given domains of the gene, a function of the set of
    raw sub-type hits … -/
theorem find_subtypes_enumeration_invariant (env : Env) (target : Int) (strip : Int → Int) (existing r₁ r₂ : List Hit)
    (h : ∀ x, x ∈ r₁ ↔ x ∈ r₂) :
    findSubtypesGene env target strip existing r₁ = findSubtypesGene env target strip existing r₂ :=
  findSubtypesGene_same_set env target strip existing h

/-- … and every sub-type hit attached to a domain overlaps that domain (`add_internal_hits` cannot
    raise) and is a refined hit of the gene, renamed by the callback -/
theorem find_subtypes_hits_overlap_parent (env : Env) (strip : Int → Int) (raw : List Hit) (d : Hit) :
    ∀ s ∈ subtypeHits env strip raw d,
      overlapsWith s d = true ∧ ∃ h ∈ refine env true raw, s = { h with prof := strip h.prof } :=
  subtypeHits_overlap env strip raw d

/-! ## docking domains -/

/-- docking-domain predictions survive exactly when they touch the first or last 50 residues -/
theorem docking_filter_spec (env : Env) (L : Int) (hits : List Hit) (wf : ∀ h ∈ hits, h.qs ≤ h.qe) :
    dockingFilter env L hits = hits.filter (specDockKeep env L) := by
  unfold dockingFilter
  apply List.filter_congr
  intro h hh
  have := wf h hh
  have h1 : max h.qs h.qe = h.qe := by omega
  have h2 : min h.qs h.qe = h.qs := by omega
  simp only [dockKeep, specDockKeep, h1, h2]
  cases env.dock h.prof <;> simp [Bool.or_comm]

/-! ## non-vacuity: concrete inputs on which the interesting branches fire -/

/-- three profiles: 0 and 1 of length 100, 2 ("regulator") of length 30 -/
def exEnv : Env where
  len := fun p => if p = 2 then 30 else 100
  reg := fun p => p == 2

/-- default mode: two fragments of profile 0 merge (span 0..120 < 150, best score, best e-value),
    the weaker overlapping hit of profile 1 is dropped, whatever the enumeration -/
example : refine exEnv false [⟨1, 50, 140, 3, 200⟩, ⟨0, 70, 120, 1, 400⟩, ⟨0, 0, 60, 2, 300⟩] =
    [⟨0, 0, 120, 1, 400⟩] := by decide
example : refine exEnv false [⟨0, 0, 60, 2, 300⟩, ⟨0, 70, 120, 1, 400⟩, ⟨1, 50, 140, 3, 200⟩] =
    [⟨0, 0, 120, 1, 400⟩] := by decide
example : isMergeOf exEnv [⟨0, 0, 60, 2, 300⟩, ⟨0, 70, 120, 1, 400⟩] ⟨0, 0, 120, 1, 400⟩ = true := by decide
/-- equal starts and equal scores (D11's shape): one answer for all six enumerations -/
example : ([[⟨0, 0, 100, 1, 500⟩, ⟨1, 0, 100, 1, 500⟩, ⟨3, 0, 100, 1, 500⟩],
            [⟨0, 0, 100, 1, 500⟩, ⟨3, 0, 100, 1, 500⟩, ⟨1, 0, 100, 1, 500⟩],
            [⟨1, 0, 100, 1, 500⟩, ⟨0, 0, 100, 1, 500⟩, ⟨3, 0, 100, 1, 500⟩],
            [⟨1, 0, 100, 1, 500⟩, ⟨3, 0, 100, 1, 500⟩, ⟨0, 0, 100, 1, 500⟩],
            [⟨3, 0, 100, 1, 500⟩, ⟨0, 0, 100, 1, 500⟩, ⟨1, 0, 100, 1, 500⟩],
            [⟨3, 0, 100, 1, 500⟩, ⟨1, 0, 100, 1, 500⟩, ⟨0, 0, 100, 1, 500⟩]] : List (List Hit)).map
    (refine exEnv false) = List.replicate 6 [⟨0, 0, 100, 1, 500⟩] := by decide
/-- equal starts *across profiles* with equal scores, one profile with two fragments (the shape that
    made a set-ordered `_merge_domain_list` depend on PYTHONHASHSEED): `refine_enumeration_invariant`
    covers it — one answer for every enumeration; the hit with the smaller total key wins the tie -/
example : ([[⟨1, 0, 29, 2, 20⟩, ⟨5, 0, 30, 2, 20⟩, ⟨5, 40, 69, 1, 20⟩],
            [⟨1, 0, 29, 2, 20⟩, ⟨5, 40, 69, 1, 20⟩, ⟨5, 0, 30, 2, 20⟩],
            [⟨5, 0, 30, 2, 20⟩, ⟨1, 0, 29, 2, 20⟩, ⟨5, 40, 69, 1, 20⟩],
            [⟨5, 0, 30, 2, 20⟩, ⟨5, 40, 69, 1, 20⟩, ⟨1, 0, 29, 2, 20⟩],
            [⟨5, 40, 69, 1, 20⟩, ⟨1, 0, 29, 2, 20⟩, ⟨5, 0, 30, 2, 20⟩],
            [⟨5, 40, 69, 1, 20⟩, ⟨5, 0, 30, 2, 20⟩, ⟨1, 0, 29, 2, 20⟩]] : List (List Hit)).map
    (refine { len := fun _ => 30 } false) = List.replicate 6 [⟨1, 0, 29, 2, 20⟩, ⟨5, 40, 69, 1, 20⟩] := by decide
/-- exactly on the 20 % margin: start 80 = 100 − 0.2·100 is not a collision, 79 is -/
example : refine exEnv true [⟨0, 0, 100, 1, 500⟩, ⟨1, 80, 180, 1, 400⟩] =
    [⟨0, 0, 100, 1, 500⟩, ⟨1, 80, 180, 1, 400⟩] := by decide
example : refine exEnv true [⟨0, 0, 100, 1, 500⟩, ⟨1, 79, 180, 1, 400⟩] = [⟨0, 0, 100, 1, 500⟩] := by decide
/-- the incomplete rule's three stages -/
example : removeIncomplete exEnv [⟨0, 0, 50, 1, 10⟩, ⟨1, 60, 111, 1, 10⟩] = [⟨1, 60, 111, 1, 10⟩] := by decide
example : removeIncomplete exEnv [⟨0, 0, 34, 1, 10⟩, ⟨1, 60, 100, 1, 10⟩, ⟨0, 200, 240, 1, 10⟩] =
    [⟨1, 60, 100, 1, 10⟩] := by decide
example : removeIncomplete exEnv [⟨0, 0, 33, 1, 10⟩, ⟨2, 60, 61, 1, 10⟩] = [⟨2, 60, 61, 1, 10⟩] := by decide
example : removeIncomplete exEnv [⟨0, 0, 33, 1, 10⟩] = [] := by decide
/-- far-apart domains of one profile are both kept (D32) and a nested fragment does not shorten
    the merge (D22) -/
example : mergeDomainList exEnv [⟨0, 0, 90, 1, 10⟩, ⟨0, 300, 390, 1, 10⟩] =
    [⟨0, 0, 90, 1, 10⟩, ⟨0, 300, 390, 1, 10⟩] := by decide
example : mergeDomainList exEnv [⟨0, 0, 100, 2, 500⟩, ⟨0, 10, 50, 1, 600⟩] = [⟨0, 0, 100, 1, 600⟩] := by decide
/-- the former findings' witnesses (D12, the orphan): `[0,100)`/50 and `[60,160)`/20 no longer both
    survive; `[10,20)` is no longer lost to a hit that is itself replaced; equal scores: the earlier wins -/
example : removeOverlapping { len := fun p => if p = 1 then 300 else 100 }
    [⟨0, 0, 100, 1, 500⟩, ⟨1, 50, 300, 1, 100⟩, ⟨2, 60, 160, 1, 200⟩] =
    [⟨0, 0, 100, 1, 500⟩, ⟨1, 50, 300, 1, 100⟩] := by decide
example : removeOverlapping { len := fun _ => 100 }
    [⟨0, 0, 100, 1, 500⟩, ⟨1, 10, 20, 1, 100⟩, ⟨3, 70, 200, 1, 600⟩] =
    [⟨1, 10, 20, 1, 100⟩, ⟨3, 70, 200, 1, 600⟩] := by decide
example : removeOverlapping { len := fun _ => 100 } [⟨0, 0, 100, 1, 500⟩, ⟨1, 50, 150, 1, 500⟩, ⟨2, 100, 200, 1, 500⟩] =
    [⟨0, 0, 100, 1, 500⟩, ⟨2, 100, 200, 1, 500⟩] := by decide
/-- hmmer: the short first hit is returned once (D25); equal starts come out in one order whatever
    the input order (D26) -/
example : (HitFilter.removeOverlapping (fun _ => some 20) 10 [⟨0, 0, 5, 40⟩, ⟨1, 20, 60, 40⟩]).toOption =
    some [⟨0, 0, 5, 40⟩, ⟨1, 20, 60, 40⟩] := by decide
example : (HitFilter.removeOverlapping (fun i => some (if i = 1 then 4 else 40)) 5 [⟨2, 0, 1, 40⟩, ⟨1, 0, 1, 8⟩]).toOption =
    (HitFilter.removeOverlapping (fun i => some (if i = 1 then 4 else 40)) 5 [⟨1, 0, 1, 8⟩, ⟨2, 0, 1, 40⟩]).toOption ∧
    (HitFilter.removeOverlapping (fun i => some (if i = 1 then 4 else 40)) 5 [⟨2, 0, 1, 40⟩, ⟨1, 0, 1, 8⟩]).toOption =
      some [⟨1, 0, 1, 8⟩, ⟨2, 0, 1, 40⟩] := by decide
/-- hmmer: of two clashing hits the one with the higher score/cut-off ratio wins, not the higher score -/
example : (HitFilter.removeOverlapping (fun i => some (if i = 0 then 10 else 40)) 10
    [⟨0, 0, 50, 30⟩, ⟨1, 20, 80, 60⟩]).toOption = some [⟨0, 0, 50, 30⟩] := by decide
/-- multiple: the earlier of two equal scores, per profile; −1 is never reported -/
example : filterMultiple [⟨0, 0, 0, 10, 100⟩, ⟨1, 0, 20, 30, 100⟩, ⟨2, 1, 0, 10, -10⟩, ⟨3, 2, 0, 10, 50⟩] =
    [⟨0, 0, 0, 10, 100⟩, ⟨3, 2, 0, 10, 50⟩] := by decide

end ASV.C13
