/-
  C13 — HMM hit refinement keeps the best non-overlapping hits, order-independently.
  Property theorems only; helper lemmas live in ASV/Proofs/{Sort,Refine*,HitFilter*}.lean.

  Every statement is for all hit lists (any length, equal starts, equal scores, nested and chained
  overlaps, duplicates), all profile-length tables and both modes of `refine_hmmscan_results`.
  The model is the code with fixes D11, D22, D25, D26, D27 applied (see design/C13.md).
-/
import ASV.Proofs.RefineCover
import ASV.Proofs.RefineIncomplete
namespace ASV.C13
open ASV ASV.Refine

/-! ## refinement (`hmmscan_refinement.refine_hmmscan_results`, one protein) -/

/-- **order independence** — the heart of the property (reused by C17): the result depends only
    on the *set* of raw hits, not on the enumeration `gather_by_query`'s set happens to produce -/
theorem refine_enumeration_invariant (env : Env) (nb : Bool) (l₁ l₂ : List Hit)
    (h : ∀ x, x ∈ l₁ ↔ x ∈ l₂) : refine env nb l₁ = refine env nb l₂ := by
  simp only [refine, beforeIncomplete, sortHits_eq_of_same_set h]

/-- the same for every permutation of the input list -/
theorem refine_perm_invariant (env : Env) (nb : Bool) (l₁ l₂ : List Hit) (h : l₁.Perm l₂) :
    refine env nb l₁ = refine env nb l₂ :=
  refine_enumeration_invariant env nb l₁ l₂ (fun _ => h.mem_iff)

/-- the sorted enumeration itself is canonical (what C17 needs): a permutation-invariant,
    duplicate-free list with the same members -/
theorem sortHits_canonical (l₁ l₂ : List Hit) (h : l₁.Perm l₂) :
    sortHits l₁ = sortHits l₂ ∧ (sortHits l₁).Nodup ∧ ∀ x, x ∈ sortHits l₁ ↔ x ∈ l₁ :=
  ⟨sortHits_eq_of_same_set (fun _ => h.mem_iff), sortHits_nodup l₁, fun _ => mem_sortHits⟩

/-- the returned hits are ordered by position -/
theorem refine_sorted (env : Env) (nb : Bool) (l : List Hit) : sortedByStart (refine env nb l) = true :=
  (sortedByStart_iff _).mpr (refine_sorted' env nb l)

/-- every returned hit is an input hit or the merge of same-profile input fragments close enough
    to be one domain: it spans them exactly and carries their best e-value and score -/
theorem refine_provenance (env : Env) (nb : Bool) (l : List Hit) :
    ∀ o ∈ refine env nb l, ∃ F, (∀ f ∈ F, f ∈ l) ∧ isMergeOf env F o = true := by
  intro o ho
  obtain ⟨F, hF, hm⟩ := refine_from env nb l o ho
  exact ⟨F, hF, isMergeOf_of env hm⟩

/-- the full sentence "no two returned hits overlap by more than 20 % of the longer profile" -/
def NoExcessOverlap : Prop :=
  ∀ (env : Env) (nb : Bool) (l : List Hit), noExcessOverlap env (refine env nb l) = true

/-- it is false for the greedy pass (D12, KF-C13-greedy-overlap): profiles of length 100, 300, 100;
    `[0,100)`/50 and `[60,160)`/20 are both returned although they share 40 > 20 residues -/
theorem noExcessOverlap_fails : ¬ NoExcessOverlap := by
  intro h
  have := h { len := fun p => if p = 1 then 300 else 100 } false
    [⟨0, 0, 100, 1, 500⟩, ⟨1, 50, 300, 1, 100⟩, ⟨2, 60, 160, 1, 200⟩]
  revert this
  decide

/-- what holds for every input: any two returned hits `a` before `b` satisfy
    `b.start ≥ a.end − 0.2·M` for any `M` bounding the profile lengths of the input hits
    (in particular they share at most 20 % of the longest profile involved) -/
theorem refine_margin_longest_profile (env : Env) (nb : Bool) (l : List Hit) (m5 : Int)
    (hl : ∀ h ∈ l, env.len h.prof ≤ m5) : allStartClearBy m5 (refine env nb l) = true :=
  (allStartClearBy_iff _ _).mpr (refine_clearBy env nb m5 l hl)

/-- H: all input hits belong to profiles of one length.  Then the exact rule holds between *any*
    two returned hits, in the code's strong form (measured to the end of the earlier hit) … -/
theorem refine_starts_clear_partial (env : Env) (nb : Bool) (l : List Hit) (len : Int)
    (hl : ∀ h ∈ l, env.len h.prof = len) : allStartClear env (refine env nb l) = true := by
  simp only [allStartClear, pairwiseB_iff]
  exact refine_startClear_uniform env nb len l hl

/-- … and therefore in the property's form -/
theorem refine_no_excess_overlap_partial (env : Env) (nb : Bool) (l : List Hit) (len : Int)
    (hl : ∀ h ∈ l, env.len h.prof = len) : noExcessOverlap env (refine env nb l) = true := by
  simp only [noExcessOverlap, pairwiseB_iff]
  exact (refine_startClear_uniform env nb len l hl).imp (fun h => withinMargin_of_startsClear env _ _ h)

/-! ## the greedy overlap pass (`_remove_overlapping`) -/

/-- the pass only selects: its result is a sub-list of its input -/
theorem removeOverlapping_selects (env : Env) (l : List Hit) : (removeOverlapping env l).Sublist l :=
  removeOverlapping_sublist env l

/-- a non-empty input (the only kind `refine` passes) never yields an empty result -/
theorem removeOverlapping_nonempty (env : Env) (l : List Hit) (h : l ≠ []) : removeOverlapping env l ≠ [] :=
  removeOverlapping_ne_nil env h

/-- the literal sentence "a hit is dropped only if a returned hit that collides with it ranks at
    least as high" -/
def DroppedOnlyAgainstKept : Prop :=
  ∀ (env : Env) (l : List Hit), sortedByStart l = true → droppedJustified env l (removeOverlapping env l) = true

/-- false for the greedy pass (KF-C13-greedy-orphan): `[10,20)` loses to `[0,100)`, which is then
    replaced by the better `[70,200)` — which does not touch `[10,20)` -/
theorem droppedOnlyAgainstKept_fails : ¬ DroppedOnlyAgainstKept := by
  intro h
  have := h { len := fun _ => 100 } [⟨0, 0, 100, 1, 500⟩, ⟨1, 10, 20, 1, 100⟩, ⟨3, 70, 200, 1, 600⟩] (by decide)
  revert this
  decide

/-- what holds for every input: a dropped hit lost a collision against a hit scoring at least as
    high, which is returned or lost in the same way, …, ending at a returned hit -/
theorem removeOverlapping_dropped_chain (env : Env) (l : List Hit) : ∀ d ∈ l,
    d ∈ removeOverlapping env l ∨ ∃ k ∈ removeOverlapping env l, Dominated env d k ∧ d.sc ≤ k.sc := by
  intro d hd
  rcases removeOverlapping_dominated env l d hd with h | ⟨k, hk, hdom⟩
  · exact Or.inl h
  · exact Or.inr ⟨k, hk, hdom, hdom.score_le⟩

/-! ## why a hit is missing from the result -/

/-- every input hit is accounted for before the incomplete-fragment rule: it lies inside a
    same-profile hit `m` (itself or the merge it went into, with at least its score) that reaches
    that rule, or `m` lost a chain of collisions ending in a hit that reaches it (neighbour mode:
    inside a merged hit that reaches it) -/
theorem refine_accounts_for_every_hit (env : Env) (nb : Bool) (l : List Hit) : ∀ x ∈ l,
    (∃ m ∈ beforeIncomplete env nb l, covers m x = true) ∨
    (∃ m k, covers m x = true ∧ Dominated env m k ∧ ∃ o ∈ beforeIncomplete env nb l, covers o k = true) := by
  intro x hx
  rcases beforeIncomplete_accounts env nb l x hx with ⟨m, hm, hc⟩ | ⟨m, k, hc, hd, o, ho, hco⟩
  · exact Or.inl ⟨m, hm, (covers_iff m x).mpr hc⟩
  · exact Or.inr ⟨m, k, (covers_iff m x).mpr hc, hd, o, ho, (covers_iff o k).mpr hco⟩

/-- … and the last stage is exactly the documented rule: all hits covering more than half of
    their profile if there is one; else the first hit with the largest share if that exceeds a
    third; else the first regulator hit; else nothing -/
theorem removeIncomplete_rule (env : Env) (l : List Hit) (hl : ∀ h ∈ l, 0 < env.len h.prof) :
    removeIncomplete env l = specIncomplete env l :=
  removeIncomplete_eq_spec env l hl

/-- so `refine` is that rule applied to the accounted-for list -/
theorem refine_is_rule_of_survivors (env : Env) (nb : Bool) (l : List Hit) (hl : ∀ p, 0 < env.len p) :
    refine env nb l = specIncomplete env (beforeIncomplete env nb l) :=
  removeIncomplete_eq_spec env _ (fun h _ => hl h.prof)

/-! ## docking domains -/

/-- docking-domain predictions survive exactly when they touch the first or last 50 residues -/
theorem docking_filter_spec (env : Env) (L : Int) (hits : List Hit) (wf : ∀ h ∈ hits, h.qs ≤ h.qe) :
    dockingFilter env L hits = hits.filter (specDockKeep env L) := by
  unfold dockingFilter
  apply List.filter_congr
  intro h hh
  have := wf h hh
  have h1 : max h.qs h.qe = h.qe := by omega
  have h2 : min h.qs h.qe = h.qs := by omega
  simp only [dockKeep, specDockKeep, h1, h2]
  cases env.dock h.prof <;> simp [Bool.or_comm]

/-! ## non-vacuity: concrete inputs on which the interesting branches fire -/

/-- three profiles: 0 and 1 of length 100, 2 ("regulator") of length 30 -/
def exEnv : Env where
  len := fun p => if p = 2 then 30 else 100
  reg := fun p => p == 2

/-- default mode: two fragments of profile 0 merge (span 0..120 < 150, best score, best e-value),
    the weaker overlapping hit of profile 1 is dropped, whatever the enumeration -/
example : refine exEnv false [⟨1, 50, 140, 3, 200⟩, ⟨0, 70, 120, 1, 400⟩, ⟨0, 0, 60, 2, 300⟩] =
    [⟨0, 0, 120, 1, 400⟩] := by decide
example : refine exEnv false [⟨0, 0, 60, 2, 300⟩, ⟨0, 70, 120, 1, 400⟩, ⟨1, 50, 140, 3, 200⟩] =
    [⟨0, 0, 120, 1, 400⟩] := by decide
example : isMergeOf exEnv [⟨0, 0, 60, 2, 300⟩, ⟨0, 70, 120, 1, 400⟩] ⟨0, 0, 120, 1, 400⟩ = true := by decide
/-- equal starts and equal scores (D11's shape): one answer for all six enumerations -/
example : ([[⟨0, 0, 100, 1, 500⟩, ⟨1, 0, 100, 1, 500⟩, ⟨3, 0, 100, 1, 500⟩],
            [⟨0, 0, 100, 1, 500⟩, ⟨3, 0, 100, 1, 500⟩, ⟨1, 0, 100, 1, 500⟩],
            [⟨1, 0, 100, 1, 500⟩, ⟨0, 0, 100, 1, 500⟩, ⟨3, 0, 100, 1, 500⟩],
            [⟨1, 0, 100, 1, 500⟩, ⟨3, 0, 100, 1, 500⟩, ⟨0, 0, 100, 1, 500⟩],
            [⟨3, 0, 100, 1, 500⟩, ⟨0, 0, 100, 1, 500⟩, ⟨1, 0, 100, 1, 500⟩],
            [⟨3, 0, 100, 1, 500⟩, ⟨1, 0, 100, 1, 500⟩, ⟨0, 0, 100, 1, 500⟩]] : List (List Hit)).map
    (refine exEnv false) = List.replicate 6 [⟨0, 0, 100, 1, 500⟩] := by decide
/-- exactly on the 20 % margin: start 80 = 100 − 0.2·100 is not a collision, 79 is -/
example : refine exEnv true [⟨0, 0, 100, 1, 500⟩, ⟨1, 80, 180, 1, 400⟩] =
    [⟨0, 0, 100, 1, 500⟩, ⟨1, 80, 180, 1, 400⟩] := by decide
example : refine exEnv true [⟨0, 0, 100, 1, 500⟩, ⟨1, 79, 180, 1, 400⟩] = [⟨0, 0, 100, 1, 500⟩] := by decide
/-- the incomplete rule's three stages -/
example : removeIncomplete exEnv [⟨0, 0, 50, 1, 10⟩, ⟨1, 60, 111, 1, 10⟩] = [⟨1, 60, 111, 1, 10⟩] := by decide
example : removeIncomplete exEnv [⟨0, 0, 34, 1, 10⟩, ⟨1, 60, 100, 1, 10⟩, ⟨0, 200, 240, 1, 10⟩] =
    [⟨1, 60, 100, 1, 10⟩] := by decide
example : removeIncomplete exEnv [⟨0, 0, 33, 1, 10⟩, ⟨2, 60, 61, 1, 10⟩] = [⟨2, 60, 61, 1, 10⟩] := by decide
example : removeIncomplete exEnv [⟨0, 0, 33, 1, 10⟩] = [] := by decide
/-- far-apart domains of one profile are both kept (D27) and a nested fragment does not shorten
    the merge (D22) -/
example : mergeDomainList exEnv [⟨0, 0, 90, 1, 10⟩, ⟨0, 300, 390, 1, 10⟩] =
    [⟨0, 0, 90, 1, 10⟩, ⟨0, 300, 390, 1, 10⟩] := by decide
example : mergeDomainList exEnv [⟨0, 0, 100, 2, 500⟩, ⟨0, 10, 50, 1, 600⟩] = [⟨0, 0, 100, 1, 600⟩] := by decide
/-- a domination chain of length two (the orphan witness) -/
example : Dominated { len := fun _ => 100 } ⟨1, 10, 20, 1, 100⟩ ⟨3, 70, 200, 1, 600⟩ :=
  .trans (m := ⟨0, 0, 100, 1, 500⟩) (by decide) (.step (by decide))

end ASV.C13
