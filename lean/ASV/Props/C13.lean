/-
  C13 — HMM hit refinement keeps the best non-overlapping hits, order-independently.
  Property theorems only; helper lemmas live in ASV/Proofs/Refine*.lean.
-/
import ASV.Spec.Refine
import ASV.Spec.HitFilter
namespace ASV.C13
open ASV ASV.Refine

/-- docking-domain predictions survive exactly when they touch the first or last 50 residues -/
theorem docking_filter_spec (env : Env) (L : Int) (hits : List Hit) (wf : ∀ h ∈ hits, h.qs ≤ h.qe) :
    dockingFilter env L hits = hits.filter (specDockKeep env L) := by
  unfold dockingFilter
  apply List.filter_congr
  intro h hh
  have := wf h hh
  have h1 : max h.qs h.qe = h.qe := by omega
  have h2 : min h.qs h.qe = h.qs := by omega
  simp only [dockKeep, specDockKeep, h1, h2]
  cases env.dock h.prof <;> simp [Bool.or_comm]

end ASV.C13
