/-
C02 — non-vacuity examples for "ill-formed input is rejected" (`accepted_rules_wellformed` and its
corollaries in `Props/C02.lean`): every class the property lists, on a concrete text through the
whole model (`createRules`: tokeniser, parser, constructors).  No theorems here.
-/
import ASV.Props.C02

namespace ASV.C02
open ASV ASV.Rules ASV.Parser ASV.Grammar

/-! ### non-vacuity: each listed class of ill-formed input on a concrete text -/

def exCfg : Cfg := { sigs := ["a", "b", "c"], cats := ["cat"] }
def exHead (name : String) : String := "RULE " ++ name ++ " CATEGORY cat CUTOFF 20 NEIGHBOURHOOD 5 CONDITIONS "
def exErr (files : List String) : Option Err :=
  match createRules exCfg files [] [] with
  | .error e => some e
  | .ok _ => none

example : exErr [exHead "r" ++ "a and (b or not c)"] = none := by decide +kernel
example : exErr [exHead "r" ++ "a and zz"] = some .value := by decide +kernel                      -- unknown profile
example : exErr ["RULE r CATEGORY nope CUTOFF 1 NEIGHBOURHOOD 1 CONDITIONS a"] = some .syntax := by decide +kernel
example : exErr [exHead "r" ++ "a", exHead "r" ++ "b"] = some .value := by decide +kernel          -- duplicate rule, second file
example : exErr ["DEFINE x AS a DEFINE x AS b " ++ exHead "r" ++ "a"] = some .syntax := by decide +kernel  -- duplicate alias
example : exErr ["DEFINE x AS a or x " ++ exHead "r" ++ "x"] = some .value := by decide +kernel    -- D42
example : exErr [exHead "r" ++ "a or (a)"] = some .value := by decide +kernel                      -- repeated operand
example : exErr [exHead "r" ++ "(a or b"] = some .syntax := by decide +kernel                      -- unbalanced
example : exErr [exHead "r" ++ "cds(a)"] = some .syntax := by decide +kernel
example : exErr [exHead "r" ++ "not a and not (b or c)"] = some .value := by decide +kernel        -- nothing positive
example : exErr ["RULE r CATEGORY cat SUPERIORS s CUTOFF 1 NEIGHBOURHOOD 1 CONDITIONS a " ++ exHead "s" ++ "b"]
    = some .value := by decide +kernel                                                              -- superior defined later
end ASV.C02
