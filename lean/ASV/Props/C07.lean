/-
  C07 — Detection is invariant under origin rotation and rule order.
  Property theorems only.  (This file grows as the models of C03/C05/C06 are linked in.)

  `IsRot L k a a'`: `a'` holds exactly the bases of `a` re-indexed by `+k` modulo the record
  length `L` (what `offset_location(…, wrap_point=L)` produces: C04 `offset_rotates_simple`,
  `offset_rotates_origin_spanning`; splitting/merging at the new origin included).
-/
import ASV.Proofs.Rotation
import ASV.Proofs.Rules
namespace ASV.C07
open ASV ASV.Rules

/-- re-indexing two locations by the same rotation does not change their distance: the value
    `get_distance_between_locations` computes on the rotated record equals the one on the original -/
theorem rotation_preserves_distance (L k : Int) (hL : 0 < L) (a b a' b' : Loc)
    (ha : a.OK L) (hb : b.OK L) (ha' : a'.OK L) (hb' : b'.OK L)
    (ra : IsRot L k a a') (rb : IsRot L k b b') :
    getDistance a' b' L = getDistance a b L :=
  (getDistance_isDist a' b' L ha' hb').unique (IsDist_rot hL ha hb ra rb (getDistance_isDist a b L ha hb))

/-- "the same rules fire on the same genes": if every gene location of the rotated record is the
    rotation of its location in the original record, every rule condition evaluates identically at
    every gene — same truth value, same reason profiles, same ancillary genes, same anchoring
    decision (the layout enters rule evaluation only through the pairwise distances) -/
theorem rule_evaluation_rotation_invariant (L k : Int) (hL : 0 < L)
    (genes withHits : List Gene) (hits : Gene → List (Prof × Int)) (loc loc' : Gene → Loc) (cutoff : Int)
    (hok : ∀ g, (loc g).OK L) (hok' : ∀ g, (loc' g).OK L) (hrot : ∀ g, IsRot L k (loc g) (loc' g))
    (g : Gene) (c : Cond) :
    detect (Env.ofLocs genes withHits hits loc' cutoff L) g c = detect (Env.ofLocs genes withHits hits loc cutoff L) g c ∧
    anchors (Env.ofLocs genes withHits hits loc' cutoff L) g c = anchors (Env.ofLocs genes withHits hits loc cutoff L) g c := by
  have henv : Env.ofLocs genes withHits hits loc' cutoff L = Env.ofLocs genes withHits hits loc cutoff L := by
    simp only [Env.ofLocs]
    congr 1
    funext x y
    exact rotation_preserves_distance L k hL (loc x) (loc y) (loc' x) (loc' y) (hok x) (hok y) (hok' x) (hok' y) (hrot x) (hrot y)
  rw [henv]
  exact ⟨rfl, rfl⟩

/-- the hypothesis is what `offset_location` delivers for single-part genes … -/
theorem offset_is_rotation_simple (p : Part) (k L : Int) (hL : 0 < L) (h0 : 0 ≤ p.lo) (h1 : p.lo < p.hi) (h2 : p.hi ≤ L) :
    ∃ r, offsetLocation (.simple p) k L = .ok r ∧ IsRot L k (.simple p) r := by
  obtain ⟨r, hr, hm, _, _⟩ := offset_simple_ring p k L hL h0 h1 h2
  refine ⟨r, hr, ?_⟩
  intro i
  rw [hm i]
  constructor
  · rintro ⟨a, b, j, hj, hrj⟩; exact ⟨a, b, j, by rw [mem_simple]; rw [Part.mem_iff] at hj; exact hj, hrj⟩
  · rintro ⟨a, b, j, hj, hrj⟩; exact ⟨a, b, j, by rw [Part.mem_iff]; rw [mem_simple] at hj; exact hj, hrj⟩

/-- … and for origin-spanning spans -/
theorem offset_is_rotation_origin_spanning (x y L k : Int) (s : Strand) (hL : 0 < L) (hy0 : 0 < y) (hyx : y ≤ x) (hxL : x < L) :
    ∃ r, offsetLocation (areaTwo x y L s) k L = .ok r ∧ IsRot L k (areaTwo x y L s) r :=
  ⟨_, offset_area_eq x y L k s hL hy0 hyx hxL, offAreaTwo_mem x y L k s hL hy0 hyx hxL⟩

end ASV.C07
