/-
  C07 — Detection is invariant under origin rotation and rule order.
  Property theorems only; helper lemmas in ASV/Proofs/{Rotation,RotationStages,RuleOrder}.lean.

  Part 1 (rotation) is about the *specifications* of C01/C03/C06 and about the location functions of
  the model: every relation a detection stage is built on is unchanged when all locations are
  re-indexed by the same rotation, hence so are the chains of anchoring genes and the connected
  components of areas, as sets of members.  Theorems whose name ends in `_spec` speak about the
  executable specs (`Chains.components`, `Components.IsComponents`), not about the code model of
  `find_protoclusters` / `create_regions` on a ring; that link is the correspondence (harness).
  Part 2 (rule order and sub-selection) is about C03's model of `cluster_prediction.py` itself.

  `IsRot L k a a'`: `a'` holds exactly the bases of `a` re-indexed by `+k` modulo the record
  length `L` (what `offset_location(…, wrap_point=L)` produces: C04 `offset_rotates_simple`,
  `offset_rotates_origin_spanning`; splitting/merging at the new origin included).
-/
import ASV.Proofs.Rotation
import ASV.Proofs.Rules
import ASV.Proofs.RotationStages
import ASV.Proofs.RuleOrder
import ASV.Model.DetectRecord
import ASV.Proofs.RotationCandidates
import ASV.Proofs.RotationRing
import ASV.Proofs.RotateLoc
import ASV.Model.Pipeline
import ASV.Proofs.RulesetSelection
import ASV.Proofs.RuleOrderPerm
import ASV.Proofs.MergeApart
import ASV.Props.C02
namespace ASV.C07
open ASV ASV.Rules ASV.Proto ASV.Chains

/-- re-indexing two locations by the same rotation does not change their distance: the value
    `get_distance_between_locations` computes on the rotated record equals the one on the original -/
theorem rotation_preserves_distance (L k : Int) (hL : 0 < L) (a b a' b' : Loc)
    (ha : a.OK L) (hb : b.OK L) (ha' : a'.OK L) (hb' : b'.OK L)
    (ra : IsRot L k a a') (rb : IsRot L k b b') :
    getDistance a' b' L = getDistance a b L :=
  (getDistance_isDist a' b' L ha' hb').unique (IsDist_rot hL ha hb ra rb (getDistance_isDist a b L ha hb))

/-- "the same rules fire on the same genes": if every gene location of the rotated record is the
    rotation of its location in the original record, every rule condition evaluates identically at
    every gene — same truth value, same reason profiles, same ancillary genes, same anchoring
    decision (the layout enters rule evaluation only through the pairwise distances) -/
theorem rule_evaluation_rotation_invariant (L k : Int) (hL : 0 < L)
    (genes withHits : List Gene) (hits : Gene → List (Prof × Int)) (loc loc' : Gene → Loc) (cutoff : Int)
    (hok : ∀ g, (loc g).OK L) (hok' : ∀ g, (loc' g).OK L) (hrot : ∀ g, IsRot L k (loc g) (loc' g))
    (g : Gene) (c : Cond) :
    detect (Env.ofLocs genes withHits hits loc' cutoff L) g c = detect (Env.ofLocs genes withHits hits loc cutoff L) g c ∧
    anchors (Env.ofLocs genes withHits hits loc' cutoff L) g c = anchors (Env.ofLocs genes withHits hits loc cutoff L) g c := by
  have henv : Env.ofLocs genes withHits hits loc' cutoff L = Env.ofLocs genes withHits hits loc cutoff L := by
    simp only [Env.ofLocs]
    congr 1
    funext x y
    exact rotation_preserves_distance L k hL (loc x) (loc y) (loc' x) (loc' y) (hok x) (hok y) (hok' x) (hok' y) (hrot x) (hrot y)
  rw [henv]
  exact ⟨rfl, rfl⟩

/-- the hypothesis is what `offset_location` delivers for single-part genes … -/
theorem offset_is_rotation_simple (p : Part) (k L : Int) (hL : 0 < L) (h0 : 0 ≤ p.lo) (h1 : p.lo < p.hi) (h2 : p.hi ≤ L) :
    ∃ r, offsetLocation (.simple p) k L = .ok r ∧ IsRot L k (.simple p) r := by
  obtain ⟨r, hr, hm, _, _⟩ := offset_simple_ring p k L hL h0 h1 h2
  refine ⟨r, hr, ?_⟩
  intro i
  rw [hm i]
  constructor
  · rintro ⟨a, b, j, hj, hrj⟩; exact ⟨a, b, j, by rw [mem_simple]; rw [Part.mem_iff] at hj; exact hj, hrj⟩
  · rintro ⟨a, b, j, hj, hrj⟩; exact ⟨a, b, j, by rw [Part.mem_iff]; rw [mem_simple] at hj; exact hj, hrj⟩

/-- … and for origin-spanning spans -/
theorem offset_is_rotation_origin_spanning (x y L k : Int) (s : Strand) (hL : 0 < L) (hy0 : 0 < y) (hyx : y ≤ x) (hxL : x < L) :
    ∃ r, offsetLocation (areaTwo x y L s) k L = .ok r ∧ IsRot L k (areaTwo x y L s) r :=
  ⟨_, offset_area_eq x y L k s hL hy0 hyx hxL, offAreaTwo_mem x y L k s hL hy0 hyx hxL⟩


/-! ## Part 1 — rotation: the stage relations and the partitions built from them -/

/-- "overlap" — the test behind candidate-cluster kinds (core vs core, extent vs extent) and behind
    region formation — gives the same answer on the rotated pair as on the original pair -/
theorem overlap_rotation_invariant (L k : Int) (hL : 0 < L) (a b a' b' : Loc)
    (ha : a.OK L) (hb : b.OK L) (ha' : a'.OK L) (hb' : b'.OK L) (ra : IsRot L k a a') (rb : IsRot L k b b') :
    locationsOverlap a' b' = locationsOverlap a b ∧ (a'.SharesBase b' ↔ a.SharesBase b) :=
  ⟨locationsOverlap_rot hL ha hb ha' hb' ra rb, (SharesBase_rot hL ha hb ra rb).symm⟩

/-- C03's chain relation ("as spans, the two genes share a base or have fewer than `cutoff` bases
    between them, the shorter way round") is unchanged by rotating both genes -/
theorem chain_relation_rotation_invariant_spec (L k c : Int) (hL : 0 < L) (a b a' b' : Loc)
    (ha : (spanLoc L a).OK L) (hb : (spanLoc L b).OK L) (ha' : (spanLoc L a').OK L) (hb' : (spanLoc L b').OK L)
    (ra : IsRot L k (spanLoc L a) (spanLoc L a')) (rb : IsRot L k (spanLoc L b) (spanLoc L b')) :
    nearB L c a' b' = nearB L c a b :=
  nearB_rot hL ha hb ha' hb' ra rb

/-- **The chains of anchoring genes are rotation invariant (spec).**  `xs` are the anchoring genes of a
    rule on the original record, `xs'` those of the re-indexed record: the same genes (`f` maps a gene to
    its re-indexed self) in whatever order the new record lists them, every span rotated by `k`.
    Then the chains the spec computes on the rotated record are exactly the images of the chains it
    computes on the original one — the same member genes, chain by chain, in both directions. -/
theorem spec_chains_rotation_invariant (L k c : Int) (hL : 0 < L) (xs xs' : List GeneInfo) (f : GeneInfo → GeneInfo)
    (hperm : xs'.Perm (xs.map f))
    (hok : ∀ g ∈ xs, (spanLoc L g.loc).OK L ∧ (spanLoc L (f g).loc).OK L)
    (hrot : ∀ g ∈ xs, IsRot L k (spanLoc L g.loc) (spanLoc L (f g).loc)) :
    (∀ ch ∈ components (fun x y => nearB L c x.loc y.loc) xs,
      ∃ ch' ∈ components (fun x y => nearB L c x.loc y.loc) xs', ∀ y, y ∈ ch' ↔ ∃ x ∈ ch, f x = y) ∧
    (∀ ch' ∈ components (fun x y => nearB L c x.loc y.loc) xs',
      ∃ ch ∈ components (fun x y => nearB L c x.loc y.loc) xs, ∀ y, y ∈ ch' ↔ ∃ x ∈ ch, f x = y) := by
  have hrel : ∀ a ∈ xs, ∀ b ∈ xs,
      (nearB L c (f a).loc (f b).loc = true ↔ nearB L c a.loc b.loc = true) := by
    intro a ha b hb
    rw [nearB_rot hL (hok a ha).1 (hok b hb).1 (hok a ha).2 (hok b hb).2 (hrot a ha) (hrot b hb)]
  have P := components_isChainPartition (fun x y : GeneInfo => nearB L c x.loc y.loc) xs
  have P' := (P.map (rel' := fun x y : GeneInfo => nearB L c x.loc y.loc = true) f hrel).of_perm hperm.symm
  have Q := components_isChainPartition (fun x y : GeneInfo => nearB L c x.loc y.loc) xs'
  constructor
  · intro ch hch
    obtain ⟨g', hg', hiff⟩ := chain_partition_unique P' Q (ch.map f) (List.mem_map_of_mem hch)
    exact ⟨g', hg', fun y => by rw [← hiff y, List.mem_map]⟩
  · intro ch' hch'
    obtain ⟨g, hg, hiff⟩ := chain_partition_unique Q P' ch' hch'
    obtain ⟨ch, hch, rfl⟩ := List.mem_map.1 hg
    exact ⟨ch, hch, fun y => by rw [hiff y, List.mem_map]⟩

/-- … instantiated with the spec's own `chainsOf` (what the driver evaluates on both runs): if the
    rotated record has the same anchoring genes, rotated, its chains are the images of the original chains -/
theorem spec_chains_of_rule_rotation_invariant (r r' : Rec) (rule : RuleM) (k : Int) (f : GeneInfo → GeneInfo)
    (hc : r.circular = true) (hc' : r'.circular = true) (hlen : r'.len = r.len) (hL : 0 < r.len)
    (hperm : (r'.genes.filter fun g => (anchorSet r' rule).contains g.id).Perm
      ((r.genes.filter fun g => (anchorSet r rule).contains g.id).map f))
    (hok : ∀ g ∈ r.genes, (spanLoc r.len g.loc).OK r.len ∧ (spanLoc r.len (f g).loc).OK r.len)
    (hrot : ∀ g ∈ r.genes, IsRot r.len k (spanLoc r.len g.loc) (spanLoc r.len (f g).loc)) :
    (∀ ch ∈ chainsOf r rule, ∃ ch' ∈ chainsOf r' rule, ∀ y, y ∈ ch' ↔ ∃ x ∈ ch, f x = y) ∧
    (∀ ch' ∈ chainsOf r' rule, ∃ ch ∈ chainsOf r rule, ∀ y, y ∈ ch' ↔ ∃ x ∈ ch, f x = y) := by
  have e : ringL r = r.len := by simp [ringL, hc]
  have e' : ringL r' = r.len := by simp [ringL, hc', hlen]
  simp only [chainsOf, e, e']
  exact spec_chains_rotation_invariant r.len k rule.cutoff hL _ _ f hperm
    (fun g hg => hok g (List.mem_filter.1 hg).1) (fun g hg => hrot g (List.mem_filter.1 hg).1)

/-- **Region membership is rotation invariant (spec).**  If `G` are the connected components of the
    areas (candidate clusters and subregions) of the original record under "share a base" and `G'` those
    of the re-indexed record — same areas, rotated, in any order — then every component of the original
    record reappears with exactly the same members (C06's `IsComponents` is what `create_regions` is
    proved / checked against). -/
theorem region_components_rotation_invariant_spec (L k : Int) (hL : 0 < L)
    (areas areas' : List Components.Area) (f : Components.Area → Components.Area)
    (G G' : List (List Components.Area))
    (h : Components.IsComponents areas G) (h' : Components.IsComponents areas' G')
    (hperm : areas'.Perm (areas.map f))
    (hok : ∀ a ∈ areas, a.2.OK L) (hrot : ∀ a ∈ areas, IsRot L k a.2 (f a).2) :
    ∀ g ∈ G, ∃ g' ∈ G', ∀ y, y ∈ g' ↔ ∃ x ∈ g, f x = y := by
  have hrel : ∀ a ∈ areas, ∀ b ∈ areas, ((f a).2.SharesBase (f b).2 ↔ a.2.SharesBase b.2) :=
    fun a ha b hb => (SharesBase_rot hL (hok a ha) (hok b hb) (hrot a ha) (hrot b hb)).symm
  have P' := Components.IsComponents.of_perm hperm.symm (h.map f hrel)
  intro g hg
  obtain ⟨g', hg', hiff⟩ := P'.unique h' (g.map f) (List.mem_map_of_mem hg)
  exact ⟨g', hg', fun y => by rw [← hiff y, List.mem_map]⟩

/-- **Neighbouring candidate clusters are rotation invariant (code model of `_find_neighbouring`, any
    ring).**  `g` re-indexes a protocluster (`rot` applied to its extent), `gc` a candidate cluster found
    so far (same members, re-indexed; extent rotated); every extent is well formed and is rotated by `k`.
    Then two protoclusters are put into one neighbouring group on the re-indexed record exactly when they
    are on the original one.  (From C05 `neighbouring_groups_are_overlap_classes`, which holds on every
    record after the C05 repairs.) -/
theorem neighbouring_groups_rotation_invariant (L k : Int) (hL : 0 < L) (singles : List CC.Proto) (cands : List CC.Cand)
    (rot : Loc → Loc) (g : CC.Proto → CC.Proto) (gc : CC.Cand → CC.Cand)
    (hinj : ∀ p q, g p = g q → p = q) (hg : ∀ p, (g p).loc = rot p.loc)
    (hgc : ∀ c, (gc c).members = c.members.map g ∧ (gc c).loc = rot c.loc)
    (hok : ∀ l, (l ∈ cands.map (·.loc) ∨ l ∈ singles.map (·.loc)) → l.OK L ∧ (rot l).OK L ∧ IsRot L k l (rot l))
    (a b : CC.Proto) :
    (∃ r, r ∈ CC.findNeighbouring singles cands ∧ a ∈ r ∧ b ∈ r) ↔
    (∃ r', r' ∈ CC.findNeighbouring (singles.map g) (cands.map gc) ∧ g a ∈ r' ∧ g b ∈ r') := by
  rw [ASV.C05.neighbouring_groups_are_overlap_classes, ASV.C05.neighbouring_groups_are_overlap_classes]
  let f : CC.Spec.U → CC.Spec.U := fun u => ⟨u.members.map g, rot u.span⟩
  have hunits : CC.neighbourUnits (singles.map g) (cands.map gc) = (CC.neighbourUnits singles cands).map f := by
    simp only [CC.neighbourUnits, CC.Spec.candUnits, CC.Spec.protoUnits, List.map_append, List.map_map]
    congr 1
    · apply List.map_congr_left
      intro c _
      simp only [Function.comp, f, (hgc c).1, (hgc c).2]
    · apply List.map_congr_left
      intro p _
      simp only [Function.comp, f, hg p, List.map_cons, List.map_nil]
  have hspan : ∀ u ∈ CC.neighbourUnits singles cands,
      u.span.OK L ∧ (f u).span.OK L ∧ IsRot L k u.span (f u).span := by
    intro u hu
    apply hok
    simp only [CC.neighbourUnits, CC.Spec.candUnits, CC.Spec.protoUnits, List.mem_append, List.mem_map] at hu ⊢
    rcases hu with ⟨c, hc, rfl⟩ | ⟨p, hp, rfl⟩
    · exact Or.inl ⟨c, hc, rfl⟩
    · exact Or.inr ⟨p, hp, rfl⟩
  have hgroups := CC.mem_overlapGroups_rot hL (CC.neighbourUnits singles cands) f g (fun u _ => rfl) hspan
  rw [hunits]
  constructor
  · intro h
    refine CC.linked_of_cover ?_ (CC.Linked.map_sets g h)
    intro grp hgrp
    obtain ⟨grp0, h0, rfl⟩ := List.mem_map.1 hgrp
    exact ⟨grp0.map g, (hgroups _).2 ⟨grp0, h0, rfl⟩, fun x hx => hx⟩
  · intro h
    have h' : CC.Spec.Linked ((CC.Spec.overlapGroups (CC.neighbourUnits singles cands)).map (·.map g)) (g a) (g b) := by
      refine CC.linked_of_cover ?_ h
      intro grp hgrp
      obtain ⟨grp0, h0, rfl⟩ := (hgroups grp).1 hgrp
      exact ⟨grp0.map g, List.mem_map_of_mem h0, fun x hx => hx⟩
    obtain ⟨a', b', ea, eb, hl⟩ := CC.Linked.of_map_sets g hinj h'
    rw [hinj a' a ea, hinj b' b eb] at hl
    exact hl

/-! ## Part 2 — rule order and sub-selection (C03's model of `apply_cluster_rules` … `build_results`) -/

/-- **The anchoring genes of a rule do not depend on the rest of the ruleset.**  Whenever rule evaluation
    runs through for two rulesets that both contain `rule` (names identify rules), the gene set recorded
    for `rule` is the same — whatever other rules there are, in whatever order, with whatever cutoffs
    (this is where D1's stale cache used to break the property; `cache_is_transparent` of C03 is used). -/
theorem anchoring_genes_independent_of_ruleset (within : Lookup) (r : Rec) (rules rules' : List RuleM)
    (res res' : RuleResults) (h : ruleResults within r rules = .ok res) (h' : ruleResults within r rules' = .ok res')
    (hd : NamesDistinct rules) (hd' : NamesDistinct rules') (rule : RuleM) (hr : rule ∈ rules) (hr' : rule ∈ rules')
    (g : Gene) : g ∈ hitsFor res rule.name ↔ g ∈ hitsFor res' rule.name := by
  rw [mem_hitsFor_iff within r rules res h hd rule hr g, mem_hitsFor_iff within r rules' res' h' hd' rule hr' g]

/-- **Every permutation and every sub-selection.**  If rule evaluation runs through for `rules`, it runs
    through for every list `rules'` made of rules of `rules` (any order, any subset), and gives every
    rule of `rules'` the same anchoring genes. -/
theorem rules_subselection_and_order_invariant (within : Lookup) (r : Rec) (rules rules' : List RuleM)
    (res : RuleResults) (h : ruleResults within r rules = .ok res) (hd : NamesDistinct rules)
    (hs : ∀ x ∈ rules', x ∈ rules) :
    ∃ res', ruleResults within r rules' = .ok res' ∧
      ∀ rule ∈ rules', ∀ g, g ∈ hitsFor res' rule.name ↔ g ∈ hitsFor res rule.name := by
  obtain ⟨res', h'⟩ := ruleResults_ok_of_subset within r rules rules' res h hs
  exact ⟨res', h', fun rule hr g =>
    anchoring_genes_independent_of_ruleset within r rules' rules res' res h' h (hd.sub hs) hd rule hr (hs rule hr) g⟩

theorem rules_perm_invariant (within : Lookup) (r : Rec) (rules rules' : List RuleM) (hp : rules'.Perm rules)
    (res : RuleResults) (h : ruleResults within r rules = .ok res) (hd : NamesDistinct rules) :
    ∃ res', ruleResults within r rules' = .ok res' ∧
      ∀ rule ∈ rules, ∀ g, g ∈ hitsFor res' rule.name ↔ g ∈ hitsFor res rule.name := by
  obtain ⟨res', h', hall⟩ := rules_subselection_and_order_invariant within r rules rules' res h hd
    (fun x hx => hp.mem_iff.1 hx)
  exact ⟨res', h', fun rule hr g => hall rule (hp.mem_iff.2 hr) g⟩

/-- a rule evaluated on its own anchors on the same genes as inside any ruleset -/
theorem rules_independent (within : Lookup) (r : Rec) (rules : List RuleM) (res : RuleResults)
    (h : ruleResults within r rules = .ok res) (hd : NamesDistinct rules) (rule : RuleM) (hr : rule ∈ rules) :
    ∃ res1, ruleResults within r [rule] = .ok res1 ∧ ∀ g, g ∈ hitsFor res1 rule.name ↔ g ∈ hitsFor res rule.name := by
  obtain ⟨res1, h1, hall⟩ := rules_subselection_and_order_invariant within r rules [rule] res h hd
    (fun x hx => by simp only [List.mem_singleton] at hx; subst hx; exact hr)
  exact ⟨res1, h1, hall rule (by simp)⟩

/-- **The protoclusters of a rule (before extenders and superiors) do not depend on the other rules**:
    `find_protoclusters` forms them from the rule and its anchoring genes alone, and two rulesets give
    the rule the same anchoring genes. -/
theorem protoclusters_of_rule_independent (within : Lookup) (r : Rec) (rules rules' : List RuleM)
    (res res' : RuleResults) (h : ruleResults within r rules = .ok res) (h' : ruleResults within r rules' = .ok res')
    (hd : NamesDistinct rules) (hd' : NamesDistinct rules') (rule : RuleM) (hr : rule ∈ rules) (hr' : rule ∈ rules') :
    clustersOfRule r rule (dedupIds (hitsFor res rule.name)) = clustersOfRule r rule (dedupIds (hitsFor res' rule.name)) := by
  apply clustersOfRule_congr
  intro g
  rw [mem_dedupIds, mem_dedupIds]
  exact anchoring_genes_independent_of_ruleset within r rules rules' res res' h h' hd hd' rule hr hr' g

/-- `apply_extenders` consults the protocluster's own rule only -/
theorem extenders_consult_own_rule_only (within : Lookup) (r : Rec) (rules rules' : List RuleM)
    (hd : NamesDistinct rules) (hd' : NamesDistinct rules') (rule : RuleM) (hr : rule ∈ rules) (hr' : rule ∈ rules')
    (pc : PC) (hpc : pc.rule = rule.name) :
    extendCluster within r rules pc = extendCluster within r rules' pc := by
  apply extendCluster_independent within r rules rules' pc rule
  · rw [hpc]; exact findRule_of_distinct rules hd rule hr
  · rw [hpc]; exact findRule_of_distinct rules' hd' rule hr'

/-- **The only sanctioned cross-rule effect, protocluster side**: whether a protocluster is dropped as
    redundant is decided by the protoclusters of its rule's *superiors* and by nothing else of the ruleset
    (C03 `redundant_iff` says exactly when); in particular … -/
theorem superiors_are_the_only_cross_rule_effect (within : Lookup) (rules rules' : List RuleM)
    (hd : NamesDistinct rules) (hd' : NamesDistinct rules') (rule : RuleM) (hr : rule ∈ rules) (hr' : rule ∈ rules')
    (clusters clusters' : List PC) (pc : PC) (hpc : pc.rule = rule.name)
    (hc : ∀ s ∈ rule.superiors, clusters.filter (·.rule == s) = clusters'.filter (·.rule == s)) :
    isRedundant within rules clusters pc = isRedundant within rules' clusters' pc := by
  apply isRedundant_congr within rules rules' clusters clusters' pc rule
  · rw [hpc]; exact findRule_of_distinct rules hd rule hr
  · rw [hpc]; exact findRule_of_distinct rules' hd' rule hr'
  · exact hc

/-- … a protocluster of a rule without superiors is never dropped, whatever else is in the ruleset -/
theorem never_redundant_without_superiors (within : Lookup) (rules : List RuleM) (hd : NamesDistinct rules)
    (rule : RuleM) (hr : rule ∈ rules) (hs : rule.superiors = []) (clusters : List PC) (pc : PC)
    (hpc : pc.rule = rule.name) (fl : Loc × Loc) (hfl : firstLast within pc = .ok fl) :
    isRedundant within rules clusters pc = .ok false :=
  isRedundant_no_superiors within rules clusters pc rule (by rw [hpc]; exact findRule_of_distinct rules hd rule hr) hs fl hfl

/-- … and without SUPERIORS in the ruleset the whole superiors step is the identity: every protocluster
    formed and extended is kept, whatever the rules and their order (one of the stage facts behind the
    remaining hypothesis of `pipeline_rule_order_invariant_partial`) -/
theorem superiors_step_is_identity_without_superiors (within : Lookup) (rules : List RuleM) (clusters : List PC)
    (hr : ∀ pc ∈ clusters, ∃ rule, findRule rules pc.rule = .ok rule ∧ rule.superiors = [])
    (hf : ∀ pc ∈ clusters, ∃ fl, firstLast within pc = .ok fl) :
    removeRedundant within rules clusters = .ok clusters :=
  removeRedundant_no_superiors within rules clusters hr hf

/-! ### towards `hdet` of `pipeline_rule_order_invariant_partial`: the stages of a detection run under a
    re-ordering of the ruleset (second deepening round) -/

/-- what a successful detection run on a record with hits consists of: rule evaluation, the first loop of
    `find_protoclusters` (`foundOf`), `merge_over_origin`, `apply_extenders`, `merge_over_origin`,
    `remove_redundant_protoclusters`; the reported protoclusters are the kept ones -/
theorem detection_run_stages (within : Lookup) (r : Rec) (rules : List RuleM) (s : Stages)
    (hne : r.genes.isEmpty = false) (hres : (r.genes.filter (·.hasRes)).isEmpty = false)
    (h : detectStages within r rules = .ok s) :
    ∃ (res : RuleResults) (found0 : List (List PC)) (found ext0 : List PC) (d : Doms) (ext kept : List PC),
      ruleResults within r rules = .ok res ∧ foundOf r rules res = .ok found0 ∧
      Proto.mergeOverOrigin r rules found0.flatten = .ok found ∧
      applyExtenders within r rules found = .ok (ext0, d) ∧
      Proto.mergeOverOrigin r rules ext0 = .ok ext ∧
      removeRedundant within rules ext = .ok kept ∧
      s.final.map (·.pc) = kept :=
  detectStages_stages within r rules s hne hres h

/-- **The first loop of `find_protoclusters` does not depend on the order of the rules** (any record): for a
    ruleset and any rearrangement of it — rule names identify rules, rule evaluation ran through for both —
    the loop succeeds for both or neither, and the protoclusters it forms, all rules together, are the same
    multiset (each rule's cores by the sweep, each with its neighbourhood). -/
theorem first_loop_rule_order_invariant (within : Lookup) (r : Rec) (rules rules' : List RuleM)
    (hp : rules.Perm rules') (hd : NamesDistinct rules) (res res' : RuleResults)
    (h : ruleResults within r rules = .ok res) (h' : ruleResults within r rules' = .ok res')
    (found : List (List PC)) (hf : foundOf r rules res = .ok found) :
    ∃ found', foundOf r rules' res' = .ok found' ∧ found.flatten.Perm found'.flatten :=
  foundOf_perm within r rules rules' hp hd res res' h h' found hf

/-- **`apply_extenders` does not depend on the order of the protoclusters or of the rules**: on a rearranged
    list of protoclusters and with any ruleset that names the same rule for each of them (in particular a
    re-ordered one), it succeeds again and yields a rearrangement of the extended protoclusters and of the
    recorded extender domains. -/
theorem extenders_rule_order_invariant (within : Lookup) (r : Rec) (rules rules' : List RuleM)
    (clusters clusters' : List PC) (hp : clusters.Perm clusters')
    (hrule : ∀ pc ∈ clusters, ∃ rule, findRule rules pc.rule = .ok rule ∧ findRule rules' pc.rule = .ok rule)
    (out : List PC) (doms : Doms) (h : applyExtenders within r rules clusters = .ok (out, doms)) :
    ∃ out' doms', applyExtenders within r rules' clusters' = .ok (out', doms') ∧ out.Perm out' ∧ doms.Perm doms' :=
  applyExtenders_perm within r rules rules' clusters clusters' hp hrule out doms h

/-- a possibly failing step mapped over a rearranged list succeeds again and gives a rearrangement (the
    shape of every per-item loop of the detection code) -/
theorem per_item_loops_commute_with_reordering {α β : Type} (f : α → E β) {l l' : List α} (hp : l.Perm l')
    (out : List β) (h : l.mapM f = .ok out) : ∃ out', l'.mapM f = .ok out' ∧ out.Perm out' :=
  mapM_perm f hp out h

/-- **The merge loop of `merge_over_origin` changes nothing when the protoclusters of the product stay apart**
    (`Apart`: no core shares a base with the cutoff-extended core of another one of the group): the group is
    sorted by the start of the extended core and returned as it is — a rearrangement of the input, whatever
    the ruleset and its order (the loop consults the ruleset only when it merges). -/
theorem merge_loop_is_identity_when_apart (r : Rec) (rules : List RuleM) (cutoff : Int) (fuel : Nat)
    (g : List (PC × Loc)) (h : Apart g) :
    mergeFix r rules cutoff fuel (sortByStart g) = .ok (sortByStart g) ∧ (sortByStart g).Perm g :=
  ⟨mergeFix_id_of_apart r rules cutoff fuel _ (h.of_perm (sortByStart_perm g).symm), sortByStart_perm g⟩

/-- **`merge_over_origin` is the identity up to order when the protoclusters of each product stay apart**
    (any record, any ruleset): if, after pairing every protocluster with its cutoff-extended core
    (`withExtOf`), the protoclusters of each product are `Apart`, a successful `merge_over_origin` returns a
    rearrangement of its input — grouped by product in order of first occurrence, each group sorted by the
    start of the extended core, nothing merged. -/
theorem merge_over_origin_is_identity_up_to_order_when_apart (r : Rec) (rules : List RuleM) (clusters merged : List PC)
    (hap : ∀ withExt, withExtOf r rules clusters = .ok withExt → ∀ prod, Apart (withExt.filter (·.1.rule == prod)))
    (h : Proto.mergeOverOrigin r rules clusters = .ok merged) : merged.Perm clusters :=
  mergeOverOrigin_apart_perm r rules clusters merged hap h

/-- … hence it does not depend on the order of the rules or of its input there: two successful calls on
    rearranged inputs with two rulesets (e.g. a ruleset and a re-ordering of it), both apart, return
    rearrangements of each other -/
theorem merge_over_origin_rule_order_invariant_when_apart (r : Rec) (rules rules' : List RuleM)
    (clusters clusters' merged merged' : List PC) (hp : clusters.Perm clusters')
    (hap : ∀ withExt, withExtOf r rules clusters = .ok withExt → ∀ prod, Apart (withExt.filter (·.1.rule == prod)))
    (hap' : ∀ withExt, withExtOf r rules' clusters' = .ok withExt → ∀ prod, Apart (withExt.filter (·.1.rule == prod)))
    (h : Proto.mergeOverOrigin r rules clusters = .ok merged) (h' : Proto.mergeOverOrigin r rules' clusters' = .ok merged') :
    merged.Perm merged' :=
  ((mergeOverOrigin_apart_perm r rules clusters merged hap h).trans hp).trans
    (mergeOverOrigin_apart_perm r rules' clusters' merged' hap' h').symm

/-- **The only sanctioned cross-rule effect, definition-domain side** (`strip_inferior_domains`): the
    domains recorded for (gene, rule) are removed exactly when the gene also has an entry for one of the
    rule's superiors -/
theorem strip_inferior_only_by_superiors (rules : List RuleM) (hd : NamesDistinct rules) (rule : RuleM) (hr : rule ∈ rules)
    (d : Doms) (g : Gene) (ps : List Prof) :
    (g, rule.name, ps) ∈ stripInferior rules d ↔ (g, rule.name, ps) ∈ d ∧ ∀ s ∈ rule.superiors, s ∉ d.keys g := by
  rw [mem_stripInferior]
  have hf := findRule_of_distinct rules hd rule hr
  simp only [findRule] at hf
  constructor
  · rintro ⟨he, hk⟩
    refine ⟨he, ?_⟩
    cases hfind : rules.find? (·.name == rule.name) with
    | none => simp [hfind] at hf
    | some x =>
      simp only [hfind, pure, Except.pure, Except.ok.injEq] at hf
      subst hf
      exact hk x hfind
  · rintro ⟨he, hk⟩
    refine ⟨he, fun x hx => ?_⟩
    simp only [hx, pure, Except.pure, Except.ok.injEq] at hf
    subst hf
    exact hk

/-! ### what does *not* hold: the superiors step on a ring (KF-C07-superior-overlap = KF-C03-superior-overlap)

  The full rotation statement for the code model would be
    `def DetectionRotationInvariant : Prop := ∀ r r' rules, (r' is r re-indexed by some k) →
        membership r' rules = membership r rules   (up to order)`
  and the full sub-selection statement "the protoclusters of a rule are those it has on its own minus the
  ones a superior's core covers".  Both fail for the same reason: `remove_redundant_protoclusters` also
  drops a protocluster whose first/last core genes *interleave* (in record order) with those of a superior's
  protocluster (C03 `redundant_iff`, `not_droppedOnlyWhenCovered`); record order changes with the origin. -/

def kfRules : List RuleM :=
  [⟨"sup", 3, 1, .group false [.single false "s"], [], none⟩,
   ⟨"inf", 3, 1, .group false [.single false "i"], ["sup"], none⟩]
/-- ring of 29: genes 1 [0,2), 2 [4,6), 0 [8,10), all with profile `i`, gene 2 also with `s` -/
def kfBase : Rec := ⟨29, true,
  [⟨1, .simple ⟨0, 2, .fwd⟩, [("i", 0)], true⟩, ⟨2, .simple ⟨4, 6, .fwd⟩, [("i", 0), ("s", 0)], true⟩,
   ⟨0, .simple ⟨8, 10, .fwd⟩, [("i", 0)], true⟩]⟩
/-- the same record with base 2 chosen as the origin (gene 1 now sits at [27,29)) -/
def kfRotated : Rec := ⟨29, true,
  [⟨2, .simple ⟨2, 4, .fwd⟩, [("i", 0), ("s", 0)], true⟩, ⟨0, .simple ⟨6, 8, .fwd⟩, [("i", 0)], true⟩,
   ⟨1, .simple ⟨27, 29, .fwd⟩, [("i", 0)], true⟩]⟩

/-- negation witness (rotation): the inferior chain {1, 2, 0} is dropped on one origin and reported on
    the other, although the superior core (gene 2) covers it on neither -/
theorem superior_removal_depends_on_origin_witness :
    membership kfBase kfRules = some [("sup", [2])] ∧
    membership kfRotated kfRules = some [("sup", [2]), ("inf", [1, 2, 0])] := by
  constructor <;> decide +kernel

/-- negation witness (sub-selection): on its own the inferior rule reports the chain that disappears
    when the superior rule is listed, although the superior core does not cover it -/
theorem superior_removal_beyond_cover_witness :
    membership kfBase [⟨"inf", 3, 1, .group false [.single false "i"], ["sup"], none⟩] = some [("inf", [1, 2, 0])] ∧
    membership kfBase kfRules = some [("sup", [2])] ∧
    locationContainsOther (.simple ⟨4, 6, .fwd⟩) (.simple ⟨0, 10, .fwd⟩) = false := by
  refine ⟨?_, ?_, ?_⟩ <;> decide +kernel

/-! ## Part 3 — composite statements over the code models on a ring (from C03's and C06's ring theorems) -/

/-- **What "re-indexing" is**: the executable `Rot.rotateLoc` (the transcription of the harness' `rotate_loc`,
    compared with it and with the real `offset_location` on every generated case) holds exactly the bases
    of the location rotated by `-k`, for every location with non-empty parts inside the ring — any number
    of exons, either strand, spanning the old or the new origin — and every cut point. -/
theorem reindexing_is_a_rotation (l : Loc) (k L : Int) (hL : 0 < L) (hk0 : 0 ≤ k) (hkL : k < L) (hok : l.OK L) :
    IsRot L (-k) l (Rot.rotateLoc l k L) :=
  Rot.rotateLoc_isRot l k L hL hk0 hkL hok

/-- **No chain is reported in two pieces, wherever the origin is** (code model of
    `detect_protoclusters_and_signatures`, end to end through extenders, superiors and both
    `merge_over_origin` calls; C03 `reported_protoclusters_far_apart_ring` unfolded).  On every circular
    record — hence on every re-indexing of it — two reported protoclusters of one rule have no two core bases
    within the rule's cutoff of each other, the shorter way round.  (The seeded change C07_3 — the merged
    entry of `merge_over_origin` keeps the reach of its first partner only — falsifies exactly this: a chain
    A–B–C grown by EXTENDERS ends as A+B and C on some origins.) -/
theorem no_chain_reported_in_two_pieces_any_origin (within : Lookup) (r : Rec) (hcirc : r.circular = true)
    (hL : 0 < r.len) (rules : List RuleM)
    (hrules : ∀ name rule, findRule rules name = .ok rule → 0 ≤ rule.cutoff ∧ rule.cutoff ≤ r.len)
    (hgenes : ∀ g ∈ r.genes, RingIn r.len g.loc) (outs : List Out)
    (h : detectProtoclusters within r rules = .ok outs) :
    (outs.map (·.pc)).Pairwise (fun p q => p.rule = q.rule → ∀ rule, findRule rules p.rule = .ok rule →
      ∀ x y, p.core.mem x = true → q.core.mem y = true → rule.cutoff < ringAbs r.len y x) :=
  (ASV.C03.reported_protoclusters_far_apart_ring within r hcirc hL rules hrules hgenes outs h).2

/-- **Anchoring genes within the cutoff share a protocluster on every origin** (code model of
    `find_protoclusters` + `merge_over_origin`, any circular record): if a base of anchoring gene `g` and a
    base of anchoring gene `h` are within the cutoff of each other (the shorter way round), one merged core
    covers both genes.  The statement quantifies over the record, so it holds for each re-indexing. -/
theorem close_anchors_share_protocluster_every_origin (r : Rec) (hcirc : r.circular = true) (hL : 0 < r.len)
    (rules : List RuleM)
    (hrules : ∀ name rule, findRule rules name = .ok rule → 0 ≤ rule.cutoff ∧ rule.cutoff ≤ r.len)
    (rule : RuleM) (hfind : findRule rules rule.name = .ok rule) (anchors : List Gene)
    (hin : ∀ g ∈ r.genes, anchors.contains g.id = true → RingIn r.len g.loc)
    (found merged : List PC) (hfound : clustersOfRule r rule anchors = .ok found)
    (hmerged : Proto.mergeOverOrigin r rules found = .ok merged)
    (g h : GeneInfo) (hg : g ∈ r.genes) (hh : h ∈ r.genes)
    (ag : anchors.contains g.id = true) (ah : anchors.contains h.id = true)
    (x y : Int) (hx : g.loc.mem x = true) (hy : h.loc.mem y = true) (hxy : ringAbs r.len y x ≤ rule.cutoff) :
    ∃ q ∈ merged, Covers q.core g.loc ∧ Covers q.core h.loc := by
  obtain ⟨_, hcov, hfar⟩ := ASV.C03.ring_chains_not_split_partial r hcirc hL rules hrules rule hfind anchors hin
    found merged hfound hmerged
  obtain ⟨q1, hq1, c1⟩ := hcov g hg ag
  obtain ⟨q2, hq2, c2⟩ := hcov h hh ah
  rcases Components.pairwise_mem hfar hq1 hq2 with e | hf | hf
  · subst e; exact ⟨q1, hq1, c1, c2⟩
  · exact absurd hf (not_farApart_of_close (c1 x hx) (c2 y hy) hxy)
  · exact absurd hf (not_farApart_of_close (c2 y hy) (c1 x hx) (by rw [ringAbs_comm]; exact hxy))

/-- **The cores of `find_protoclusters` group the same genes on two origins** — `_partial`: both origins
    leave the anchoring genes inside an inner arc for the cutoff (`InnerArc`: the cutoff does not reach the
    origin from any anchor and the arc is at most half the record), i.e. the cut is not within reach of a
    chain.  Then on both records the cores are, one to one, the hulls of the groups of a chain partition, and
    the groups of the re-indexed record are exactly the images of the groups of the original record.
    (Missing for the full statement — cuts through a chain, a core or a gene: that each core of
    `findCores` + `mergeOverOrigin` is *one* chain on an arbitrary ring, `C03.CoresAreChainsRing`.) -/
theorem cores_rotation_invariant_inner_partial (r r' : Rec) (hcirc : r.circular = true) (hcirc' : r'.circular = true)
    (hlen : r'.len = r.len) (c k A B A' B' : Int) (harc : InnerArc r.len c A B) (harc' : InnerArc r.len c A' B')
    (hA : 0 ≤ A) (hA' : 0 ≤ A') (anchors anchors' : List Loc) (f : Loc → Loc) (hne : anchors ≠ [])
    (hperm : anchors'.Perm (anchors.map f))
    (hok : ∀ l ∈ anchors, GeneIn r.len A B l) (hok' : ∀ l ∈ anchors, GeneIn r.len A' B' (f l))
    (hrot : ∀ l ∈ anchors, IsRot r.len k (spanLoc r.len l) (spanLoc r.len (f l))) :
    ∃ (groups groups' : List (List Loc)) (cores cores' : List Loc),
      findCores r c anchors = .ok cores ∧ findCores r' c anchors' = .ok cores' ∧
      Paired (fun core g => ∃ p, core = Loc.simple p ∧
        (∀ m ∈ g, p.lo ≤ m.start ∧ m.end ≤ p.hi) ∧ (∃ m ∈ g, m.start = p.lo) ∧ (∃ m ∈ g, m.end = p.hi)) cores groups ∧
      Paired (fun core g => ∃ p, core = Loc.simple p ∧
        (∀ m ∈ g, p.lo ≤ m.start ∧ m.end ≤ p.hi) ∧ (∃ m ∈ g, m.start = p.lo) ∧ (∃ m ∈ g, m.end = p.hi)) cores' groups' ∧
      (∀ g ∈ groups, ∃ g' ∈ groups', ∀ y, y ∈ g' ↔ ∃ x ∈ g, f x = y) ∧
      (∀ g' ∈ groups', ∃ g ∈ groups, ∀ y, y ∈ g' ↔ ∃ x ∈ g, f x = y) := by
  have hL : 0 < r.len := by
    obtain ⟨a, ha⟩ := List.exists_mem_of_ne_nil anchors hne
    exact harc.Lpos (by have := (hok a ha).lo; have := (hok a ha).hi; have := (hok a ha).ok.start_lt_end; omega)
  have hne' : anchors' ≠ [] := by
    intro e
    rw [e] at hperm
    exact hne (List.map_eq_nil_iff.1 (List.Perm.eq_nil hperm.symm))
  have hok2 : ∀ l ∈ anchors', GeneIn r'.len A' B' l := by
    intro l hl
    obtain ⟨a, ha, rfl⟩ := List.mem_map.1 (hperm.mem_iff.1 hl)
    rw [hlen]; exact hok' a ha
  obtain ⟨groups, cores, hfind, hpart, hpaired⟩ :=
    ASV.C03.cores_are_chains_ring_partial r hcirc c A B harc hA anchors hne hok
  obtain ⟨groups', cores', hfind', hpart', hpaired'⟩ :=
    ASV.C03.cores_are_chains_ring_partial r' hcirc' c A' B' (by rw [hlen]; exact harc') hA' anchors' hne' hok2
  rw [hlen] at hpart'
  have hrel : ∀ a ∈ anchors, ∀ b ∈ anchors,
      (nearB r.len c (f a) (f b) = true ↔ nearB r.len c a b = true) := by
    intro a ha b hb
    rw [nearB_rot hL (hok a ha).ok.span_OK (hok b hb).ok.span_OK (hok' a ha).ok.span_OK (hok' b hb).ok.span_OK
      (hrot a ha) (hrot b hb)]
  have P := (hpart.map (rel' := fun a b : Loc => nearB r.len c a b = true) f hrel).of_perm hperm.symm
  refine ⟨groups, groups', cores, cores', hfind, hfind', hpaired, hpaired', ?_, ?_⟩
  · intro g hg
    obtain ⟨g', hg', hiff⟩ := chain_partition_unique P hpart' (g.map f) (List.mem_map_of_mem hg)
    exact ⟨g', hg', fun y => by rw [← hiff y, List.mem_map]⟩
  · intro g' hg'
    obtain ⟨gm, hgm, hiff⟩ := chain_partition_unique hpart' P g' hg'
    obtain ⟨g, hg, rfl⟩ := List.mem_map.1 hgm
    exact ⟨g, hg, fun y => by rw [hiff y, List.mem_map]⟩

/-- **The protoclusters of a rule (cores and neighbourhoods) on two origins** — `_partial` like the
    previous theorem, for `clustersOfRule` (cores by the sweep, then `_extend_area_location` and the
    `Protocluster` constructor): `r'` lists the genes of `r` re-indexed by `fg` (same names, same hits, any
    order), the anchoring genes of the rule are the same names, and on both records they lie in an inner arc
    for the cutoff and for the neighbourhood.  Then both records get their protoclusters, each the hull of a
    group of anchoring genes widened by the neighbourhood on both sides, and the groups of `r'` are exactly
    the images of the groups of `r`. -/
theorem protoclusters_rotation_invariant_inner_partial (r r' : Rec) (hcirc : r.circular = true)
    (hcirc' : r'.circular = true) (hlen : r'.len = r.len) (rule : RuleM) (k A B A' B' : Int)
    (hc : InnerArc r.len rule.cutoff A B) (hn : InnerArc r.len rule.nbhd A B)
    (hc' : InnerArc r.len rule.cutoff A' B') (hn' : InnerArc r.len rule.nbhd A' B') (hA : 0 ≤ A) (hA' : 0 ≤ A')
    (anchors : List Gene) (f : Loc → Loc) (fg : GeneInfo → GeneInfo)
    (hfg : ∀ g, (fg g).id = g.id ∧ (fg g).loc = f g.loc) (hperm : r'.genes.Perm (r.genes.map fg))
    (hne : (r.genes.filter fun g => anchors.contains g.id) ≠ [])
    (hok : ∀ g ∈ r.genes, anchors.contains g.id = true → GeneIn r.len A B g.loc ∧ GeneIn r.len A' B' (f g.loc))
    (hrot : ∀ g ∈ r.genes, anchors.contains g.id = true → IsRot r.len k (spanLoc r.len g.loc) (spanLoc r.len (f g.loc))) :
    ∃ (groups groups' : List (List Loc)) (pcs pcs' : List PC),
      clustersOfRule r rule anchors = .ok pcs ∧ clustersOfRule r' rule anchors = .ok pcs' ∧
      Paired (fun pc g => pc.rule = rule.name ∧ ∃ p, pc.core = Loc.simple p ∧
        (∀ m ∈ g, p.lo ≤ m.start ∧ m.end ≤ p.hi) ∧ (∃ m ∈ g, m.start = p.lo) ∧ (∃ m ∈ g, m.end = p.hi) ∧
        pc.loc = Loc.simple ⟨p.lo - rule.nbhd, p.hi + rule.nbhd, .fwd⟩) pcs groups ∧
      Paired (fun pc g => pc.rule = rule.name ∧ ∃ p, pc.core = Loc.simple p ∧
        (∀ m ∈ g, p.lo ≤ m.start ∧ m.end ≤ p.hi) ∧ (∃ m ∈ g, m.start = p.lo) ∧ (∃ m ∈ g, m.end = p.hi) ∧
        pc.loc = Loc.simple ⟨p.lo - rule.nbhd, p.hi + rule.nbhd, .fwd⟩) pcs' groups' ∧
      (∀ g ∈ groups, ∃ g' ∈ groups', ∀ y, y ∈ g' ↔ ∃ x ∈ g, f x = y) ∧
      (∀ g' ∈ groups', ∃ g ∈ groups, ∀ y, y ∈ g' ↔ ∃ x ∈ g, f x = y) := by
  -- the anchoring genes of r', as locations, are a rearrangement of the images of those of r
  have hfilter : (r'.genes.filter fun g => anchors.contains g.id).Perm
      ((r.genes.filter fun g => anchors.contains g.id).map fg) := by
    have h1 := hperm.filter (fun g => anchors.contains g.id)
    have h2 : (r.genes.map fg).filter (fun g => anchors.contains g.id) =
        (r.genes.filter fun g => anchors.contains g.id).map fg := by
      rw [List.filter_map]
      congr 1
      apply List.filter_congr
      intro g _
      simp only [Function.comp, (hfg g).1]
    rw [h2] at h1
    exact h1
  have hlocs : ((r'.genes.filter fun g => anchors.contains g.id).map (·.loc)).Perm
      (((r.genes.filter fun g => anchors.contains g.id).map (·.loc)).map f) := by
    have h1 := hfilter.map (·.loc)
    have e : ((r.genes.filter fun g => anchors.contains g.id).map fg).map (·.loc) =
        ((r.genes.filter fun g => anchors.contains g.id).map (·.loc)).map f := by
      simp only [List.map_map]
      apply List.map_congr_left
      intro g _
      simp only [Function.comp, (hfg g).2]
    rw [e] at h1
    exact h1
  have hne' : (r'.genes.filter fun g => anchors.contains g.id) ≠ [] := by
    intro e
    rw [e] at hfilter
    exact hne (List.map_eq_nil_iff.1 (List.Perm.eq_nil hfilter.symm))
  have hok2 : ∀ g ∈ r'.genes, anchors.contains g.id = true → GeneIn r'.len A' B' g.loc := by
    intro g hg ha
    obtain ⟨g0, hg0, rfl⟩ := List.mem_map.1 (hperm.mem_iff.1 hg)
    rw [(hfg g0).1] at ha
    rw [(hfg g0).2, hlen]
    exact (hok g0 hg0 ha).2
  obtain ⟨groups, pcs, h1, hpart, hp1⟩ := ASV.C03.protoclusters_of_rule_ring_partial r hcirc rule A B hc hn hA anchors hne
    (fun g hg ha => (hok g hg ha).1)
  obtain ⟨groups', pcs', h2, hpart', hp2⟩ := ASV.C03.protoclusters_of_rule_ring_partial r' hcirc' rule A' B'
    (by rw [hlen]; exact hc') (by rw [hlen]; exact hn') hA' anchors hne' hok2
  rw [hlen] at hpart'
  have hL : 0 < r.len := by
    obtain ⟨a, ha⟩ := List.exists_mem_of_ne_nil _ hne
    obtain ⟨hag, hac⟩ := List.mem_filter.1 ha
    have hh := (hok a hag hac).1
    exact hc.Lpos (by have := hh.lo; have := hh.hi; have := hh.ok.start_lt_end; omega)
  have hmemloc : ∀ l ∈ (r.genes.filter fun g => anchors.contains g.id).map (·.loc),
      GeneIn r.len A B l ∧ GeneIn r.len A' B' (f l) ∧ IsRot r.len k (spanLoc r.len l) (spanLoc r.len (f l)) := by
    intro l hl
    obtain ⟨g, hg, rfl⟩ := List.mem_map.1 hl
    obtain ⟨hgg, hga⟩ := List.mem_filter.1 hg
    exact ⟨(hok g hgg hga).1, (hok g hgg hga).2, hrot g hgg hga⟩
  have hrel : ∀ a ∈ (r.genes.filter fun g => anchors.contains g.id).map (·.loc),
      ∀ b ∈ (r.genes.filter fun g => anchors.contains g.id).map (·.loc),
      (nearB r.len rule.cutoff (f a) (f b) = true ↔ nearB r.len rule.cutoff a b = true) := by
    intro a ha b hb
    obtain ⟨a1, a2, a3⟩ := hmemloc a ha
    obtain ⟨b1, b2, b3⟩ := hmemloc b hb
    rw [nearB_rot hL a1.ok.span_OK b1.ok.span_OK a2.ok.span_OK b2.ok.span_OK a3 b3]
  have P := (hpart.map (rel' := fun a b : Loc => nearB r.len rule.cutoff a b = true) f hrel).of_perm hlocs.symm
  refine ⟨groups, groups', pcs, pcs', h1, h2, hp1, ?_, ?_, ?_⟩
  · exact hp2
  · intro g hg
    obtain ⟨g', hg', hiff⟩ := chain_partition_unique P hpart' (g.map f) (List.mem_map_of_mem hg)
    exact ⟨g', hg', fun y => by rw [← hiff y, List.mem_map]⟩
  · intro g' hg'
    obtain ⟨gm, hgm, hiff⟩ := chain_partition_unique hpart' P g' hg'
    obtain ⟨g, hg, rfl⟩ := List.mem_map.1 hgm
    exact ⟨g, hg, fun y => by rw [hiff y, List.mem_map]⟩

open ASV.Regions in
/-- **`create_regions` groups the same areas on two origins** — `_partial`: on neither origin does a
    candidate cluster or subregion span the origin (`NoSpanOK`; C06 `regions_are_components_no_origin_span`).
    Then region creation succeeds on both records, each region is the hull of one group of areas, and every
    group of the original record reappears on the re-indexed record with exactly the same area ids.
    (With origin-spanning areas C06 proves "components are never split" and "a region is the shortest cover
    of what it lists", not yet "a region lists one component only"; the harness compares the regions.) -/
theorem regions_rotation_invariant_no_origin_span_partial (s t : State) (hs : NoSpanOK s) (ht : NoSpanOK t)
    (L k : Int) (hL : 0 < L) (hsl : s.len = L) (f : Components.Area → Components.Area)
    (hid : ∀ a, (f a).1 = a.1) (hperm : (areasOf t).Perm ((areasOf s).map f))
    (hrot : ∀ a ∈ areasOf s, IsRot L k a.2 (f a).2) :
    ∃ (s' t' : State) (gs gt : List (List Feat)), createRegions s = .ok s' ∧ createRegions t = .ok t' ∧
      s'.regions.map view = gs.map expectedRegion ∧ t'.regions.map view = gt.map expectedRegion ∧
      ∀ g ∈ gs, ∃ g' ∈ gt, ∀ i, i ∈ g'.map (·.id) ↔ i ∈ g.map (·.id) := by
  obtain ⟨s', gs, h1, _, _, _, hc1, hv1, _⟩ := ASV.C06.regions_are_components_no_origin_span s hs
  obtain ⟨t', gt, h2, _, _, _, hc2, hv2, _⟩ := ASV.C06.regions_are_components_no_origin_span t ht
  have hok : ∀ a ∈ areasOf s, a.2.OK L := by
    intro a ha
    simp only [areasOf, List.mem_map] at ha
    obtain ⟨x, hx, rfl⟩ := ha
    obtain ⟨p, hp, h0, h1', h2'⟩ := hs.areas x hx
    simp only [toArea, hp]
    refine ⟨by simp [Loc.parts], ?_⟩
    intro q hq
    simp only [Loc.parts, List.mem_singleton] at hq
    subst hq
    exact ⟨h0, h1', fun _ => by omega⟩
  have key := region_components_rotation_invariant_spec L k hL (areasOf s) (areasOf t) f _ _ hc1 hc2 hperm hok hrot
  refine ⟨s', t', gs, gt, h1, h2, hv1, hv2, ?_⟩
  intro g hg
  obtain ⟨g'a, hg'a, hiff⟩ := key (g.map toArea) (List.mem_map_of_mem hg)
  obtain ⟨g', hg', rfl⟩ := List.mem_map.1 hg'a
  refine ⟨g', hg', fun i => ?_⟩
  simp only [List.mem_map]
  constructor
  · rintro ⟨x, hx, rfl⟩
    obtain ⟨a, ha, e⟩ := (hiff (toArea x)).1 (List.mem_map_of_mem hx)
    obtain ⟨y, hy, rfl⟩ := List.mem_map.1 ha
    refine ⟨y, hy, ?_⟩
    have := congrArg Prod.fst e
    rw [hid] at this
    exact this
  · rintro ⟨y, hy, rfl⟩
    have hm : f (toArea y) ∈ g'.map toArea := (hiff _).2 ⟨toArea y, List.mem_map_of_mem hy, rfl⟩
    obtain ⟨x, hx, e⟩ := List.mem_map.1 hm
    refine ⟨x, hx, ?_⟩
    have := congrArg Prod.fst e
    rw [hid] at this
    exact this

/-! ## Part 4 — the pipeline end to end (`Pipe.run` = C03's detection ∘ C05's formation ∘ C06's regions) -/

theorem pipe_run_ok {r : Rec} {rules : List RuleM} {res : Pipe.Result} (h : Pipe.run r rules = .ok res) :
    detectProtoclusters (withinReal r) r rules = .ok res.outs ∧
    CC.formation (Pipe.toProtos r res.outs) r.wrap = .ok res.cands ∧ res.protos = Pipe.toProtos r res.outs ∧
    Pipe.late r (Pipe.toProtos r res.outs) = .ok (res.cands, res.regions) := by
  simp only [Pipe.run, bind, Except.bind] at h
  cases h1 : detectProtoclusters (withinReal r) r rules with
  | error e => simp [h1] at h
  | ok outs =>
    simp only [h1] at h
    cases h2 : Pipe.late r (Pipe.toProtos r outs) with
    | error e => simp [h2] at h
    | ok lr =>
      simp only [h2, pure, Except.pure, Except.ok.injEq] at h
      subst h
      refine ⟨rfl, ?_, rfl, by rw [h2]⟩
      simp only [Pipe.late, bind, Except.bind] at h2
      cases h3 : CC.formation (Pipe.toProtos r outs) r.wrap with
      | error e => simp [h3] at h2
      | ok cands =>
        simp only [h3] at h2
        split at h2
        · cases h2
        · simp only [pure, Except.pure, Except.ok.injEq] at h2
          rw [← h2]

/-- **Whatever the origin, the pipeline's result is sound in the two respects that do not need the ring
    refinement**: whenever the whole pipeline (detection, candidate formation, region creation) returns on a
    circular record, (1) no chain is reported in pieces — two protoclusters of one rule are further apart
    than its cutoff — and (2) every reported protocluster is a member of at least one candidate cluster. -/
theorem pipeline_result_sound_on_every_origin (r : Rec) (hcirc : r.circular = true) (hL : 0 < r.len)
    (rules : List RuleM)
    (hrules : ∀ name rule, findRule rules name = .ok rule → 0 ≤ rule.cutoff ∧ rule.cutoff ≤ r.len)
    (hgenes : ∀ g ∈ r.genes, RingIn r.len g.loc) (res : Pipe.Result) (h : Pipe.run r rules = .ok res) :
    (res.outs.map (·.pc)).Pairwise (fun p q => p.rule = q.rule → ∀ rule, findRule rules p.rule = .ok rule →
      ∀ x y, p.core.mem x = true → q.core.mem y = true → rule.cutoff < ringAbs r.len y x) ∧
    CC.Spec.coversAll res.protos res.cands = true := by
  obtain ⟨h1, h2, h3, _⟩ := pipe_run_ok h
  refine ⟨no_chain_reported_in_two_pieces_any_origin (withinReal r) r hcirc hL rules hrules hgenes res.outs h1, ?_⟩
  rw [h3]
  exact ASV.C05.every_protocluster_in_a_candidate _ _ _ h2

/-! ## Part 5 — sub-selection through `hmm_detection.get_ruleset` (C02's heap model of `Ruleset`) -/

/-- **A rule is the same rule in every sub-selection.**  One process asks `get_ruleset` for a ruleset
    (`q1`: any strictness, taxon, fungal multipliers, restriction) and then for another one that differs in the
    rule-name / category restriction only (`q2`).  Read after both requests — the rule objects are mutable and
    `copy_with_replacements` shares them — every rule that both rulesets hold under one name is identical in
    both: same cutoff, same neighbourhood (each the parsed distance scaled once by the request's
    multipliers), same conditions, superiors and extenders.  So restricting the ruleset cannot change what a
    remaining rule detects.  (`st` is any state reachable by earlier requests, `Rulesets.Inv`; rule names
    identify the parsed rules, which the parser enforces.)  The seeded change C07_1 — multipliers handed to
    `from_files` and inherited by the copy, so a restricted ruleset is scaled twice — falsifies this. -/
theorem subselection_keeps_rule_distances (parsed : String → Except Parser.Err (List Parser.Rule))
    (q1 q2 : Rulesets.Req) (hs : q2.strictness = q1.strictness) (hf : q2.fungi = q1.fungi)
    (hcm : q2.cmul = q1.cmul) (hnm : q2.nmul = q1.nmul)
    (st st1 st2 : Rulesets.State) (rs1 rs2 : Rulesets.RS) (inv : Rulesets.Inv parsed st)
    (h1 : Rulesets.getRuleset parsed q1 st = .ok (rs1, st1))
    (h2 : Rulesets.getRuleset parsed q2 st1 = .ok (rs2, st2))
    (rules : List Parser.Rule) (hp : parsed q1.strictness = .ok rules)
    (hd : ∀ x ∈ rules, ∀ y ∈ rules, x.name = y.name → x = y) :
    ∀ r1 ∈ rs1.read st2.heap, ∀ r2 ∈ rs2.read st2.heap, r1.name = r2.name →
      r1 = r2 ∧ r1.cutoff = r2.cutoff ∧ r1.neighbourhood = r2.neighbourhood := by
  obtain ⟨inv1, ⟨k1, hk1, e1, _, _, f1, t1⟩, _⟩ := Rulesets.getRuleset_inv parsed q1 st st1 rs1 h1 inv
  obtain ⟨inv2, ⟨k2, hk2, e2, _, _, f2, t2⟩, mono⟩ := Rulesets.getRuleset_inv parsed q2 st1 st2 rs2 h2 inv1
  obtain ⟨_, rules1, hp1, hr1, _⟩ := inv2 (k1, rs1) (mono _ hk1)
  obtain ⟨_, rules2, hp2, hr2, _⟩ := inv2 (k2, rs2) hk2
  simp only at hp1 hp2 hr1 hr2
  rw [e1, hp] at hp1
  rw [e2, hs, hp] at hp2
  cases hp1; cases hp2
  have hm : k2.mul = k1.mul := by
    cases hfu : q1.fungi with
    | false => rw [f1 hfu, f2 (by rw [hf]; exact hfu)]
    | true =>
      have a := t1 hfu
      have b := t2 (by rw [hf]; exact hfu)
      rw [hcm, hnm, a] at b
      exact (Except.ok.inj b).symm
  intro r1 hr1' r2 hr2' hn
  rw [hr1] at hr1'
  rw [hr2, hm] at hr2'
  have := Rulesets.wanted_rule_independent rules _ _ _ _ k1.mul hd r1 r2 hr1' hr2' hn
  subst this
  exact ⟨rfl, rfl, rfl⟩

/-- … and for any number of requests in one process, in any order, with repetitions: two rulesets handed
    out for the same strictness and multipliers agree on every rule they both hold (read after the last
    request) -/
theorem rulesets_of_one_process_agree_on_shared_rules (parsed : String → Except Parser.Err (List Parser.Rule))
    (reqs : List Rulesets.Req) (out : List Rulesets.RS) (st : Rulesets.State)
    (h : Rulesets.run parsed reqs {} = .ok (out, st)) :
    ∀ rs1 ∈ out, ∀ rs2 ∈ out, ∃ k1 k2, (k1, rs1) ∈ st.cache ∧ (k2, rs2) ∈ st.cache ∧
      (k1.strictness = k2.strictness → k1.mul = k2.mul → ∀ rules, parsed k1.strictness = .ok rules →
        (∀ x ∈ rules, ∀ y ∈ rules, x.name = y.name → x = y) →
        ∀ r1 ∈ rs1.read st.heap, ∀ r2 ∈ rs2.read st.heap, r1.name = r2.name → r1 = r2) := by
  obtain ⟨_, hall⟩ := ASV.C02.rulesets_scaled_once parsed reqs out st h
  intro rs1 h1 rs2 h2
  obtain ⟨k1, rules1, hk1, hp1, hr1, _⟩ := hall rs1 h1
  obtain ⟨k2, rules2, hk2, hp2, hr2, _⟩ := hall rs2 h2
  refine ⟨k1, k2, hk1, hk2, ?_⟩
  intro hs hm rules hp hd r1 hr1' r2 hr2' hn
  rw [hp] at hp1
  rw [← hs, hp] at hp2
  have e1 : rules1 = rules := (Except.ok.inj hp1).symm
  have e2 : rules2 = rules := (Except.ok.inj hp2).symm
  rw [hr1, e1] at hr1'
  rw [hr2, e2, ← hm] at hr2'
  exact Rulesets.wanted_rule_independent rules _ _ _ _ k1.mul hd r1 r2 hr1' hr2' hn

/-- non-vacuity: fungi, both multipliers 3/2; the whole ruleset, then the restriction to rule `b`: `b` has
    cutoff 30 000 and neighbourhood 7 500 in both (20 kb and 5 kb scaled once), read after both requests -/
example :
    let rule (n : String) (c k : Nat) : Parser.Rule := ⟨n, "cat", c, k, .single false "p", [], [], [], [], none⟩
    let parsed : String → Except Parser.Err (List Parser.Rule) := fun _ => .ok [rule "a" 5000 1000, rule "b" 20000 5000]
    let q : Rulesets.Req := ⟨"relaxed", [], [], true, (3, 2), (3, 2)⟩
    (match Rulesets.run parsed [q, { q with names := ["b"] }] {} with
      | .ok (out, st) => out.map fun rs => (rs.read st.heap).map fun r => (r.name, r.cutoff, r.neighbourhood)
      | .error _ => []) = [[("a", 7500, 1500), ("b", 30000, 7500)], [("b", 30000, 7500)]] := by
  decide +kernel

/-- everything after detection is a function of the *multiset* of reported protoclusters (C05
    `formation_perm_invariant`: candidate formation returns the same ordered list for every arrangement of
    its input; region creation then starts from that same list) -/
theorem late_stages_ignore_protocluster_order (r : Rec) (ps qs : List CC.Proto) (hp : ps.Perm qs) (hn : ps.Nodup)
    (hk : ∀ a b, a ∈ ps → b ∈ ps → a ≠ b →
      (a.product, a.core.start, a.core.end) ≠ (b.product, b.core.start, b.core.end)) :
    Pipe.late r ps = Pipe.late r qs := by
  simp only [Pipe.late, ASV.C05.formation_perm_invariant ps qs r.wrap hn hk hp]

/-- **Rule order and the whole pipeline** — `_partial`.  Run the pipeline with a ruleset and with any
    re-ordering (or other variant) of it.  *Remaining hypothesis* `hdet`: detection reports the same
    protoclusters, as a multiset (each with its definition domains) — what Part 2 proves stage by stage for the
    anchoring genes, the cores of `find_protoclusters`, the extenders and the superiors step, but not yet for
    the two `merge_over_origin` passes, which group by product.  Then, whenever no two protoclusters share
    product and core (one rule never yields two protoclusters on one core), the candidate clusters are the same
    ordered list and the regions are the same ordered list (locations and member candidates), on linear and
    circular records alike. -/
theorem pipeline_rule_order_invariant_partial (r : Rec) (rules rules' : List RuleM) (res res' : Pipe.Result)
    (h : Pipe.run r rules = .ok res) (h' : Pipe.run r rules' = .ok res')
    (hdet : res.outs.Perm res'.outs)
    (hn : (Pipe.toProtos r res.outs).Nodup)
    (hk : ∀ a b, a ∈ Pipe.toProtos r res.outs → b ∈ Pipe.toProtos r res.outs → a ≠ b →
      (a.product, a.core.start, a.core.end) ≠ (b.product, b.core.start, b.core.end)) :
    res'.cands = res.cands ∧ res'.regions = res.regions ∧ res.protos.Perm res'.protos := by
  obtain ⟨_, _, hp1, hl1⟩ := pipe_run_ok h
  obtain ⟨_, _, hp2, hl2⟩ := pipe_run_ok h'
  have hperm : (Pipe.toProtos r res.outs).Perm (Pipe.toProtos r res'.outs) := hdet.map (Pipe.toProto r)
  rw [late_stages_ignore_protocluster_order r _ _ hperm hn hk, hl2] at hl1
  have e := Except.ok.inj hl1
  refine ⟨(congrArg Prod.fst e), (congrArg Prod.snd e), ?_⟩
  rw [hp1, hp2]
  exact hperm

/-- … and when the two rulesets do report the same protoclusters in the same order (e.g. a ruleset and its
    copy built through the parser), the whole result is the same -/
theorem pipeline_is_function_of_reported_protoclusters (r : Rec) (rules rules' : List RuleM)
    (res res' : Pipe.Result) (h : Pipe.run r rules = .ok res) (h' : Pipe.run r rules' = .ok res')
    (hdet : res'.outs = res.outs) : res'.cands = res.cands ∧ res'.regions = res.regions := by
  obtain ⟨_, _, _, hl1⟩ := pipe_run_ok h
  obtain ⟨_, _, _, hl2⟩ := pipe_run_ok h'
  rw [hdet, hl1] at hl2
  have e := Except.ok.inj hl2
  exact ⟨(congrArg Prod.fst e).symm, (congrArg Prod.snd e).symm⟩

theorem late_ok {r : Rec} {ps : List CC.Proto} {cands : List CC.Cand} {regions : List (Loc × List Nat)}
    (h : Pipe.late r ps = .ok (cands, regions)) :
    CC.formation ps r.wrap = .ok cands ∧
    ∃ st', Regions.createRegions (Pipe.stateOf r cands) = .ok st' ∧ regions = st'.regions.map fun f => (f.loc, f.kids) := by
  simp only [Pipe.late, bind, Except.bind] at h
  cases h1 : CC.formation ps r.wrap with
  | error e => simp [h1] at h
  | ok cs =>
    simp only [h1] at h
    cases h2 : Regions.createRegions (Pipe.stateOf r cs) with
    | error e => simp [h2] at h
    | ok st' =>
      simp only [h2, pure, Except.pure, Except.ok.injEq, Prod.mk.injEq] at h
      obtain ⟨rfl, rfl⟩ := h
      exact ⟨rfl, st', h2, rfl⟩

theorem areasOf_stateOf (r : Rec) (cands : List CC.Cand) :
    Regions.areasOf (Pipe.stateOf r cands) = ((cands.map (·.loc)).zipIdx).map fun x => (x.2, x.1) := by
  simp only [Regions.areasOf, Pipe.stateOf, List.append_nil, List.map_map, List.zipIdx_map]
  apply List.map_congr_left
  intro x _
  rfl

open ASV.Regions in
/-- **Origin rotation and the regions of the whole pipeline** — `_partial`.  Run the pipeline on a circular
    record `r` and on a re-indexing `r'` of it.  *Remaining hypothesis* `hform`: detection and candidate
    formation report the same candidate clusters in the same order with rotated extents (for detection this is
    `protoclusters_rotation_invariant_inner_partial` when the anchoring genes stay in an inner arc — a cut away
    from every chain keeps coordinate order — and for formation it is proved pass by pass:
    `neighbouring_groups_rotation_invariant`, C05 `interleaved_groups_are_classes_ring`; the coordinate table of
    `build_candidates` is not composed yet).  If, as in an inner arc, no candidate cluster spans the origin on
    either record, region creation succeeds on both, every region is the hull of one group of candidate
    clusters, and every group of `r` reappears on `r'` with exactly the same candidate clusters. -/
theorem pipeline_regions_rotation_invariant_inner_partial (r r' : Rec) (rules : List RuleM) (res res' : Pipe.Result)
    (h : Pipe.run r rules = .ok res) (h' : Pipe.run r' rules = .ok res')
    (L k : Int) (hL : 0 < L) (hlen : r.len = L) (hlen' : r'.len = L) (rot : Loc → Loc)
    (hform : res'.cands.map (·.loc) = res.cands.map fun c => rot c.loc)
    (hline : ∀ c ∈ res.cands, LineArea L c.loc ∧ LineArea L (rot c.loc))
    (hrot : ∀ c ∈ res.cands, IsRot L k c.loc (rot c.loc)) :
    ∃ (s' t' : State) (gs gt : List (List Feat)),
      createRegions (Pipe.stateOf r res.cands) = .ok s' ∧ createRegions (Pipe.stateOf r' res'.cands) = .ok t' ∧
      res.regions = s'.regions.map (fun f => (f.loc, f.kids)) ∧ res'.regions = t'.regions.map (fun f => (f.loc, f.kids)) ∧
      s'.regions.map view = gs.map expectedRegion ∧ t'.regions.map view = gt.map expectedRegion ∧
      ∀ g ∈ gs, ∃ g' ∈ gt, ∀ i, i ∈ g'.map (·.id) ↔ i ∈ g.map (·.id) := by
  obtain ⟨_, _, _, hl1⟩ := pipe_run_ok h
  obtain ⟨_, _, _, hl2⟩ := pipe_run_ok h'
  obtain ⟨_, s1, hc1, hr1⟩ := late_ok hl1
  obtain ⟨_, t1, hc2, hr2⟩ := late_ok hl2
  have locs : ∀ (q : Rec) (cs : List CC.Cand), ((Pipe.stateOf q cs).cands ++ (Pipe.stateOf q cs).subs).map (·.loc) = cs.map (·.loc) := by
    intro q cs
    simp only [Pipe.stateOf, List.append_nil, List.map_map]
    have : (fun x : CC.Cand × Nat => x.1.loc) = (fun c : CC.Cand => c.loc) ∘ Prod.fst := rfl
    show (cs.zipIdx.map fun x => x.1.loc) = _
    rw [this, ← List.map_map, List.zipIdx_map_fst]
  have hs : NoSpanOK (Pipe.stateOf r res.cands) := by
    refine ⟨?_, rfl⟩
    intro f hf
    have : f.loc ∈ res.cands.map (·.loc) := by rw [← locs r res.cands]; exact List.mem_map_of_mem hf
    obtain ⟨c, hc, e⟩ := List.mem_map.1 this
    show LineArea r.len f.loc
    rw [← e, hlen]; exact (hline c hc).1
  have ht : NoSpanOK (Pipe.stateOf r' res'.cands) := by
    refine ⟨?_, rfl⟩
    intro f hf
    have : f.loc ∈ res'.cands.map (·.loc) := by rw [← locs r' res'.cands]; exact List.mem_map_of_mem hf
    rw [hform] at this
    obtain ⟨c, hc, e⟩ := List.mem_map.1 this
    show LineArea r'.len f.loc
    rw [← e, hlen']; exact (hline c hc).2
  have hperm : (areasOf (Pipe.stateOf r' res'.cands)).Perm
      ((areasOf (Pipe.stateOf r res.cands)).map fun a => (a.1, rot a.2)) := by
    rw [areasOf_stateOf, areasOf_stateOf, hform]
    have : (res.cands.map fun c => rot c.loc) = (res.cands.map (·.loc)).map rot := by rw [List.map_map]; rfl
    rw [this, List.zipIdx_map, List.map_map, List.map_map]
    exact List.Perm.refl _
  have hrot' : ∀ a ∈ areasOf (Pipe.stateOf r res.cands), IsRot L k a.2 (rot a.2) := by
    intro a ha
    rw [areasOf_stateOf] at ha
    obtain ⟨x, hx, rfl⟩ := List.mem_map.1 ha
    have hm : x.1 ∈ res.cands.map (·.loc) := by
      have := List.mem_map_of_mem (f := Prod.fst) hx
      rwa [List.zipIdx_map_fst] at this
    obtain ⟨c, hc, e⟩ := List.mem_map.1 hm
    show IsRot L k x.1 (rot x.1)
    rw [← e]; exact hrot c hc
  obtain ⟨s', t', gs, gt, e1, e2, v1, v2, hall⟩ := regions_rotation_invariant_no_origin_span_partial
    (Pipe.stateOf r res.cands) (Pipe.stateOf r' res'.cands) hs ht L k hL hlen (fun a => (a.1, rot a.2))
    (fun _ => rfl) hperm hrot'
  rw [hc1] at e1
  rw [hc2] at e2
  have es := Except.ok.inj e1
  have et := Except.ok.inj e2
  subst es; subst et
  exact ⟨_, _, gs, gt, hc1, hc2, hr1, hr2, v1, v2, hall⟩

/-! ### the layout of the seeded change C07_3: a chain A – e1 – B – e2 – C that exists only through EXTENDERS -/

def chainRules : List RuleM :=
  [⟨"R", 5000, 3000, .group false [.single false "pA"], [], some (.single false "pE")⟩,
   ⟨"Q", 5000, 3000, .group false [.single false "pQ"], [], none⟩]
/-- ring of 100 kb; anchors A, B, C 8 kb apart (cutoff 5 kb), extender genes e1, e2 between them -/
def chainRec : Rec := ⟨100000, true,
  [⟨0, .simple ⟨10000, 11000, .fwd⟩, [("pA", 0)], true⟩, ⟨1, .simple ⟨14000, 15000, .fwd⟩, [("pE", 0)], true⟩,
   ⟨2, .simple ⟨19000, 20000, .rev⟩, [("pA", 0)], true⟩, ⟨3, .simple ⟨23000, 24000, .fwd⟩, [("pE", 0)], true⟩,
   ⟨4, .simple ⟨28000, 29000, .fwd⟩, [("pA", 0)], true⟩, ⟨5, .simple ⟨60000, 61000, .rev⟩, [("pQ", 0)], true⟩]⟩
/-- the same record with base 21000 (between B and e2) as origin, genes in the new record order -/
def chainRecCut : Rec := ⟨100000, true,
  [⟨3, Rot.rotateLoc (.simple ⟨23000, 24000, .fwd⟩) 21000 100000, [("pE", 0)], true⟩,
   ⟨4, Rot.rotateLoc (.simple ⟨28000, 29000, .fwd⟩) 21000 100000, [("pA", 0)], true⟩,
   ⟨5, Rot.rotateLoc (.simple ⟨60000, 61000, .rev⟩) 21000 100000, [("pQ", 0)], true⟩,
   ⟨0, Rot.rotateLoc (.simple ⟨10000, 11000, .fwd⟩) 21000 100000, [("pA", 0)], true⟩,
   ⟨1, Rot.rotateLoc (.simple ⟨14000, 15000, .fwd⟩) 21000 100000, [("pE", 0)], true⟩,
   ⟨2, Rot.rotateLoc (.simple ⟨19000, 20000, .rev⟩) 21000 100000, [("pA", 0)], true⟩]⟩

/-- non-vacuity of `no_chain_reported_in_two_pieces_any_origin` and of the extender path through
    `merge_over_origin`: the three extended cores A+e1, e1+B+e2, e2+C are merged into one protocluster on
    the original origin and with the origin inside the chain (the merged core then spans the origin) -/
theorem extender_chain_is_one_protocluster_on_both_origins :
    membership chainRec chainRules = some [("R", [0, 1, 2, 3, 4]), ("Q", [5])] ∧
    membership chainRecCut chainRules = some [("R", [0, 1, 2, 3, 4]), ("Q", [5])] := by
  constructor <;> decide +kernel

/-- … and the whole pipeline returns on both origins with one candidate cluster per protocluster and the
    same two regions (by member genes) -/
example : ((Pipe.run chainRec chainRules).toOption.map fun res =>
      (res.cands.map (·.members.map (·.product)), res.regions.map fun x => Pipe.genesIn chainRec x.1)) =
    some ([["R"], ["Q"]], [[0, 1, 2, 3, 4], [5]]) := by decide +kernel
example : ((Pipe.run chainRecCut chainRules).toOption.map fun res =>
      (res.cands.map (·.members.map (·.product)), res.regions.map fun x => Pipe.genesIn chainRecCut x.1)) =
    some ([["R"], ["Q"]], [[3, 4, 0, 1, 2], [5]]) := by decide +kernel

/-! ### non-vacuity -/

/-- the property's own example (D1's layout, repaired code): ring of 100 kb, gene `a` 5 kb before the
    origin … gene `b` 3 kb after it, rules `a and b` with cutoffs 20 kb, 2 kb, 20 kb in that order -/
def d1Rec : Rec := ⟨100000, true,
  [⟨1, .simple ⟨3000, 4000, .fwd⟩, [("b", 0)], true⟩, ⟨0, .simple ⟨95000, 96000, .fwd⟩, [("a", 0)], true⟩]⟩
def d1Rule (name : String) (cutoff : Int) : RuleM :=
  ⟨name, cutoff, 1000, .group false [.conj [.single false "a", .single false "b"]], [], none⟩
def d1Rules : List RuleM := [d1Rule "r1" 20000, d1Rule "r2" 2000, d1Rule "r3" 20000]

/-- both 20 kb rules find the pair across the origin, in this order and with the 2 kb rule removed or moved -/
example : (ruleResults (withinSpec d1Rec) d1Rec d1Rules).toOption.map
    (fun res => (hitsFor res "r1", hitsFor res "r2", hitsFor res "r3")) = some ([1, 0, 0, 1], [], [1, 0, 0, 1]) := by
  decide +kernel
example : (ruleResults (withinSpec d1Rec) d1Rec [d1Rule "r2" 2000, d1Rule "r3" 20000, d1Rule "r1" 20000]).toOption.map
    (fun res => (hitsFor res "r1", hitsFor res "r2", hitsFor res "r3")) = some ([1, 0, 0, 1], [], [1, 0, 0, 1]) := by
  decide +kernel
example : NamesDistinct d1Rules := by
  intro x hx y hy
  simp only [d1Rules, List.mem_cons, List.mem_nil_iff, or_false] at hx hy
  rcases hx with rfl | rfl | rfl <;> rcases hy with rfl | rfl | rfl <;> simp [d1Rule]

/-- the rotation hypotheses are satisfiable with a cut through a gene: [8,12) on a ring of 20 re-indexed
    by +10 becomes join{[18,20),[0,2)}; its span is itself -/
example : IsRot 20 10 (.simple ⟨8, 12, .fwd⟩) (areaTwo 18 2 20 .fwd) := by
  intro i
  simp only [areaTwo, Loc.mem, Loc.parts, List.any_cons, List.any_nil, Bool.or_false, Bool.or_eq_true, Part.mem_iff]
  constructor
  · intro h
    refine ⟨by omega, by omega, ?_⟩
    rcases h with h | h
    · exact ⟨i - 10, by omega, 0, by omega⟩
    · exact ⟨i + 10, by omega, -1, by omega⟩
  · rintro ⟨h0, h1, j, hj, c, hc⟩
    have : c = 0 ∨ c = -1 := by omega
    rcases this with rfl | rfl <;> omega
example : nearB 20 3 (areaTwo 18 2 20 .fwd) (.simple ⟨4, 6, .fwd⟩) = true ∧ nearB 20 2 (areaTwo 18 2 20 .fwd) (.simple ⟨4, 6, .fwd⟩) = false := by
  decide

/-- non-vacuity of `pipeline_rule_order_invariant_partial` on D1's layout: the two orders of the ruleset
    report the two protoclusters in different orders (by rule); the pipeline returns, and the candidate
    clusters (one chemical hybrid of both) and the regions are the same lists -/
example :
    let late := fun (res : Pipe.Result) => (res.cands.map (fun c => (c.members.map (·.product), c.loc)), res.regions)
    let a := Pipe.run d1Rec [d1Rule "r1" 20000, d1Rule "r3" 20000]
    let b := Pipe.run d1Rec [d1Rule "r3" 20000, d1Rule "r1" 20000]
    (a.toOption.map late).isSome = true ∧ a.toOption.map late = b.toOption.map late ∧
    a.toOption.map (fun res => res.outs.map (·.pc.rule)) = some ["r1", "r3"] ∧
    b.toOption.map (fun res => res.outs.map (·.pc.rule)) = some ["r3", "r1"] ∧
    a.toOption.map (fun res => res.cands.map (·.members.map (·.product))) = some [["r1", "r3"]] := by
  decide +kernel

/-- non-vacuity of `first_loop_rule_order_invariant` on D1's layout: the loop forms one protocluster per
    20 kb rule, listed in the order of the rules -/
example :
    let run := fun (rules : List RuleM) =>
      (ruleResults (withinSpec d1Rec) d1Rec rules).toOption.bind fun res =>
        (foundOf d1Rec rules res).toOption.map fun f => f.flatten.map (·.rule)
    run [d1Rule "r1" 20000, d1Rule "r2" 2000, d1Rule "r3" 20000] = some ["r1", "r3"] ∧
    run [d1Rule "r3" 20000, d1Rule "r1" 20000, d1Rule "r2" 2000] = some ["r3", "r1"] := by
  decide +kernel

/-- non-vacuity of `merge_loop_is_identity_when_apart`: two protoclusters of one rule, cores [50,60) and
    [10,20), cutoff-extended by 5: apart; the loop returns them sorted by start -/
example :
    let g : List (PC × Loc) :=
      [(⟨"r", .simple ⟨50, 60, .fwd⟩, .simple ⟨45, 65, .fwd⟩⟩, .simple ⟨45, 65, .fwd⟩),
       (⟨"r", .simple ⟨10, 20, .fwd⟩, .simple ⟨5, 25, .fwd⟩⟩, .simple ⟨5, 25, .fwd⟩)]
    Apart g ∧ (sortByStart g).map (·.1.core) = [.simple ⟨10, 20, .fwd⟩, .simple ⟨50, 60, .fwd⟩] := by
  refine ⟨?_, by decide⟩
  refine List.Pairwise.cons ?_ (List.Pairwise.cons (fun _ h => by cases h) List.Pairwise.nil)
  intro y hy
  simp only [List.mem_singleton] at hy
  subst hy
  exact ⟨by decide, by decide⟩

/-- non-vacuity of `merge_over_origin_is_identity_up_to_order_when_apart`: two protoclusters of rule `r1`
    (cutoff 20 kb) 40 kb apart and one of `r2` on a linear record come back grouped by product, sorted by start -/
example :
    let rec0 : Rec := ⟨200000, false, []⟩
    let rules := [d1Rule "r1" 20000, d1Rule "r2" 2000]
    let pc := fun (n : String) (lo hi : Int) => (⟨n, .simple ⟨lo, hi, .fwd⟩, .simple ⟨lo - 1000, hi + 1000, .fwd⟩⟩ : PC)
    ((Proto.mergeOverOrigin rec0 rules [pc "r1" 90000 91000, pc "r2" 10000 11000, pc "r1" 49000 50000]).toOption.map
      fun l => l.map fun p => (p.rule, p.core.start)) = some [("r1", 49000), ("r1", 90000), ("r2", 10000)] := by
  decide +kernel

end ASV.C07
