/-
  C07 — Detection is invariant under origin rotation and rule order.
  Property theorems only; helper lemmas in ASV/Proofs/{Rotation,RotationStages,RuleOrder}.lean.

  Part 1 (rotation) is about the *specifications* of C01/C03/C06 and about the location functions of
  the model: every relation a detection stage is built on is unchanged when all locations are
  re-indexed by the same rotation, hence so are the chains of anchoring genes and the connected
  components of areas, as sets of members.  Theorems whose name ends in `_spec` speak about the
  executable specs (`Chains.components`, `Components.IsComponents`), not about the code model of
  `find_protoclusters` / `create_regions` on a ring; that link is the correspondence (harness).
  Part 2 (rule order and sub-selection) is about C03's model of `cluster_prediction.py` itself.

  `IsRot L k a a'`: `a'` holds exactly the bases of `a` re-indexed by `+k` modulo the record
  length `L` (what `offset_location(…, wrap_point=L)` produces: C04 `offset_rotates_simple`,
  `offset_rotates_origin_spanning`; splitting/merging at the new origin included).
-/
import ASV.Proofs.Rotation
import ASV.Proofs.Rules
import ASV.Proofs.RotationStages
import ASV.Proofs.RuleOrder
import ASV.Model.DetectRecord
import ASV.Proofs.RotationCandidates
namespace ASV.C07
open ASV ASV.Rules ASV.Proto ASV.Chains

/-- re-indexing two locations by the same rotation does not change their distance: the value
    `get_distance_between_locations` computes on the rotated record equals the one on the original -/
theorem rotation_preserves_distance (L k : Int) (hL : 0 < L) (a b a' b' : Loc)
    (ha : a.OK L) (hb : b.OK L) (ha' : a'.OK L) (hb' : b'.OK L)
    (ra : IsRot L k a a') (rb : IsRot L k b b') :
    getDistance a' b' L = getDistance a b L :=
  (getDistance_isDist a' b' L ha' hb').unique (IsDist_rot hL ha hb ra rb (getDistance_isDist a b L ha hb))

/-- "the same rules fire on the same genes": if every gene location of the rotated record is the
    rotation of its location in the original record, every rule condition evaluates identically at
    every gene — same truth value, same reason profiles, same ancillary genes, same anchoring
    decision (the layout enters rule evaluation only through the pairwise distances) -/
theorem rule_evaluation_rotation_invariant (L k : Int) (hL : 0 < L)
    (genes withHits : List Gene) (hits : Gene → List (Prof × Int)) (loc loc' : Gene → Loc) (cutoff : Int)
    (hok : ∀ g, (loc g).OK L) (hok' : ∀ g, (loc' g).OK L) (hrot : ∀ g, IsRot L k (loc g) (loc' g))
    (g : Gene) (c : Cond) :
    detect (Env.ofLocs genes withHits hits loc' cutoff L) g c = detect (Env.ofLocs genes withHits hits loc cutoff L) g c ∧
    anchors (Env.ofLocs genes withHits hits loc' cutoff L) g c = anchors (Env.ofLocs genes withHits hits loc cutoff L) g c := by
  have henv : Env.ofLocs genes withHits hits loc' cutoff L = Env.ofLocs genes withHits hits loc cutoff L := by
    simp only [Env.ofLocs]
    congr 1
    funext x y
    exact rotation_preserves_distance L k hL (loc x) (loc y) (loc' x) (loc' y) (hok x) (hok y) (hok' x) (hok' y) (hrot x) (hrot y)
  rw [henv]
  exact ⟨rfl, rfl⟩

/-- the hypothesis is what `offset_location` delivers for single-part genes … -/
theorem offset_is_rotation_simple (p : Part) (k L : Int) (hL : 0 < L) (h0 : 0 ≤ p.lo) (h1 : p.lo < p.hi) (h2 : p.hi ≤ L) :
    ∃ r, offsetLocation (.simple p) k L = .ok r ∧ IsRot L k (.simple p) r := by
  obtain ⟨r, hr, hm, _, _⟩ := offset_simple_ring p k L hL h0 h1 h2
  refine ⟨r, hr, ?_⟩
  intro i
  rw [hm i]
  constructor
  · rintro ⟨a, b, j, hj, hrj⟩; exact ⟨a, b, j, by rw [mem_simple]; rw [Part.mem_iff] at hj; exact hj, hrj⟩
  · rintro ⟨a, b, j, hj, hrj⟩; exact ⟨a, b, j, by rw [Part.mem_iff]; rw [mem_simple] at hj; exact hj, hrj⟩

/-- … and for origin-spanning spans -/
theorem offset_is_rotation_origin_spanning (x y L k : Int) (s : Strand) (hL : 0 < L) (hy0 : 0 < y) (hyx : y ≤ x) (hxL : x < L) :
    ∃ r, offsetLocation (areaTwo x y L s) k L = .ok r ∧ IsRot L k (areaTwo x y L s) r :=
  ⟨_, offset_area_eq x y L k s hL hy0 hyx hxL, offAreaTwo_mem x y L k s hL hy0 hyx hxL⟩


/-! ## Part 1 — rotation: the stage relations and the partitions built from them -/

/-- "overlap" — the test behind candidate-cluster kinds (core vs core, extent vs extent) and behind
    region formation — gives the same answer on the rotated pair as on the original pair -/
theorem overlap_rotation_invariant (L k : Int) (hL : 0 < L) (a b a' b' : Loc)
    (ha : a.OK L) (hb : b.OK L) (ha' : a'.OK L) (hb' : b'.OK L) (ra : IsRot L k a a') (rb : IsRot L k b b') :
    locationsOverlap a' b' = locationsOverlap a b ∧ (a'.SharesBase b' ↔ a.SharesBase b) :=
  ⟨locationsOverlap_rot hL ha hb ha' hb' ra rb, (SharesBase_rot hL ha hb ra rb).symm⟩

/-- C03's chain relation ("as spans, the two genes share a base or have fewer than `cutoff` bases
    between them, the shorter way round") is unchanged by rotating both genes -/
theorem chain_relation_rotation_invariant_spec (L k c : Int) (hL : 0 < L) (a b a' b' : Loc)
    (ha : (spanLoc L a).OK L) (hb : (spanLoc L b).OK L) (ha' : (spanLoc L a').OK L) (hb' : (spanLoc L b').OK L)
    (ra : IsRot L k (spanLoc L a) (spanLoc L a')) (rb : IsRot L k (spanLoc L b) (spanLoc L b')) :
    nearB L c a' b' = nearB L c a b :=
  nearB_rot hL ha hb ha' hb' ra rb

/-- **The chains of anchoring genes are rotation invariant (spec).**  `xs` are the anchoring genes of a
    rule on the original record, `xs'` those of the re-indexed record: the same genes (`f` maps a gene to
    its re-indexed self) in whatever order the new record lists them, every span rotated by `k`.
    Then the chains the spec computes on the rotated record are exactly the images of the chains it
    computes on the original one — the same member genes, chain by chain, in both directions. -/
theorem spec_chains_rotation_invariant (L k c : Int) (hL : 0 < L) (xs xs' : List GeneInfo) (f : GeneInfo → GeneInfo)
    (hperm : xs'.Perm (xs.map f))
    (hok : ∀ g ∈ xs, (spanLoc L g.loc).OK L ∧ (spanLoc L (f g).loc).OK L)
    (hrot : ∀ g ∈ xs, IsRot L k (spanLoc L g.loc) (spanLoc L (f g).loc)) :
    (∀ ch ∈ components (fun x y => nearB L c x.loc y.loc) xs,
      ∃ ch' ∈ components (fun x y => nearB L c x.loc y.loc) xs', ∀ y, y ∈ ch' ↔ ∃ x ∈ ch, f x = y) ∧
    (∀ ch' ∈ components (fun x y => nearB L c x.loc y.loc) xs',
      ∃ ch ∈ components (fun x y => nearB L c x.loc y.loc) xs, ∀ y, y ∈ ch' ↔ ∃ x ∈ ch, f x = y) := by
  have hrel : ∀ a ∈ xs, ∀ b ∈ xs,
      (nearB L c (f a).loc (f b).loc = true ↔ nearB L c a.loc b.loc = true) := by
    intro a ha b hb
    rw [nearB_rot hL (hok a ha).1 (hok b hb).1 (hok a ha).2 (hok b hb).2 (hrot a ha) (hrot b hb)]
  have P := components_isChainPartition (fun x y : GeneInfo => nearB L c x.loc y.loc) xs
  have P' := (P.map (rel' := fun x y : GeneInfo => nearB L c x.loc y.loc = true) f hrel).of_perm hperm.symm
  have Q := components_isChainPartition (fun x y : GeneInfo => nearB L c x.loc y.loc) xs'
  constructor
  · intro ch hch
    obtain ⟨g', hg', hiff⟩ := chain_partition_unique P' Q (ch.map f) (List.mem_map_of_mem hch)
    exact ⟨g', hg', fun y => by rw [← hiff y, List.mem_map]⟩
  · intro ch' hch'
    obtain ⟨g, hg, hiff⟩ := chain_partition_unique Q P' ch' hch'
    obtain ⟨ch, hch, rfl⟩ := List.mem_map.1 hg
    exact ⟨ch, hch, fun y => by rw [hiff y, List.mem_map]⟩

/-- … instantiated with the spec's own `chainsOf` (what the driver evaluates on both runs): if the
    rotated record has the same anchoring genes, rotated, its chains are the images of the original chains -/
theorem spec_chains_of_rule_rotation_invariant (r r' : Rec) (rule : RuleM) (k : Int) (f : GeneInfo → GeneInfo)
    (hc : r.circular = true) (hc' : r'.circular = true) (hlen : r'.len = r.len) (hL : 0 < r.len)
    (hperm : (r'.genes.filter fun g => (anchorSet r' rule).contains g.id).Perm
      ((r.genes.filter fun g => (anchorSet r rule).contains g.id).map f))
    (hok : ∀ g ∈ r.genes, (spanLoc r.len g.loc).OK r.len ∧ (spanLoc r.len (f g).loc).OK r.len)
    (hrot : ∀ g ∈ r.genes, IsRot r.len k (spanLoc r.len g.loc) (spanLoc r.len (f g).loc)) :
    (∀ ch ∈ chainsOf r rule, ∃ ch' ∈ chainsOf r' rule, ∀ y, y ∈ ch' ↔ ∃ x ∈ ch, f x = y) ∧
    (∀ ch' ∈ chainsOf r' rule, ∃ ch ∈ chainsOf r rule, ∀ y, y ∈ ch' ↔ ∃ x ∈ ch, f x = y) := by
  have e : ringL r = r.len := by simp [ringL, hc]
  have e' : ringL r' = r.len := by simp [ringL, hc', hlen]
  simp only [chainsOf, e, e']
  exact spec_chains_rotation_invariant r.len k rule.cutoff hL _ _ f hperm
    (fun g hg => hok g (List.mem_filter.1 hg).1) (fun g hg => hrot g (List.mem_filter.1 hg).1)

/-- **Region membership is rotation invariant (spec).**  If `G` are the connected components of the
    areas (candidate clusters and subregions) of the original record under "share a base" and `G'` those
    of the re-indexed record — same areas, rotated, in any order — then every component of the original
    record reappears with exactly the same members (C06's `IsComponents` is what `create_regions` is
    proved / checked against). -/
theorem region_components_rotation_invariant_spec (L k : Int) (hL : 0 < L)
    (areas areas' : List Components.Area) (f : Components.Area → Components.Area)
    (G G' : List (List Components.Area))
    (h : Components.IsComponents areas G) (h' : Components.IsComponents areas' G')
    (hperm : areas'.Perm (areas.map f))
    (hok : ∀ a ∈ areas, a.2.OK L) (hrot : ∀ a ∈ areas, IsRot L k a.2 (f a).2) :
    ∀ g ∈ G, ∃ g' ∈ G', ∀ y, y ∈ g' ↔ ∃ x ∈ g, f x = y := by
  have hrel : ∀ a ∈ areas, ∀ b ∈ areas, ((f a).2.SharesBase (f b).2 ↔ a.2.SharesBase b.2) :=
    fun a ha b hb => (SharesBase_rot hL (hok a ha) (hok b hb) (hrot a ha) (hrot b hb)).symm
  have P' := Components.IsComponents.of_perm hperm.symm (h.map f hrel)
  intro g hg
  obtain ⟨g', hg', hiff⟩ := P'.unique h' (g.map f) (List.mem_map_of_mem hg)
  exact ⟨g', hg', fun y => by rw [← hiff y, List.mem_map]⟩

/-- **Neighbouring candidate clusters are rotation invariant (code model of `_find_neighbouring`, any
    ring).**  `g` re-indexes a protocluster (`rot` applied to its extent), `gc` a candidate cluster found
    so far (same members, re-indexed; extent rotated); every extent is well formed and is rotated by `k`.
    Then two protoclusters are put into one neighbouring group on the re-indexed record exactly when they
    are on the original one.  (From C05 `neighbouring_groups_are_overlap_classes`, which holds on every
    record after the C05 repairs.) -/
theorem neighbouring_groups_rotation_invariant (L k : Int) (hL : 0 < L) (singles : List CC.Proto) (cands : List CC.Cand)
    (rot : Loc → Loc) (g : CC.Proto → CC.Proto) (gc : CC.Cand → CC.Cand)
    (hinj : ∀ p q, g p = g q → p = q) (hg : ∀ p, (g p).loc = rot p.loc)
    (hgc : ∀ c, (gc c).members = c.members.map g ∧ (gc c).loc = rot c.loc)
    (hok : ∀ l, (l ∈ cands.map (·.loc) ∨ l ∈ singles.map (·.loc)) → l.OK L ∧ (rot l).OK L ∧ IsRot L k l (rot l))
    (a b : CC.Proto) :
    (∃ r, r ∈ CC.findNeighbouring singles cands ∧ a ∈ r ∧ b ∈ r) ↔
    (∃ r', r' ∈ CC.findNeighbouring (singles.map g) (cands.map gc) ∧ g a ∈ r' ∧ g b ∈ r') := by
  rw [ASV.C05.neighbouring_groups_are_overlap_classes, ASV.C05.neighbouring_groups_are_overlap_classes]
  let f : CC.Spec.U → CC.Spec.U := fun u => ⟨u.members.map g, rot u.span⟩
  have hunits : CC.neighbourUnits (singles.map g) (cands.map gc) = (CC.neighbourUnits singles cands).map f := by
    simp only [CC.neighbourUnits, CC.Spec.candUnits, CC.Spec.protoUnits, List.map_append, List.map_map]
    congr 1
    · apply List.map_congr_left
      intro c _
      simp only [Function.comp, f, (hgc c).1, (hgc c).2]
    · apply List.map_congr_left
      intro p _
      simp only [Function.comp, f, hg p, List.map_cons, List.map_nil]
  have hspan : ∀ u ∈ CC.neighbourUnits singles cands,
      u.span.OK L ∧ (f u).span.OK L ∧ IsRot L k u.span (f u).span := by
    intro u hu
    apply hok
    simp only [CC.neighbourUnits, CC.Spec.candUnits, CC.Spec.protoUnits, List.mem_append, List.mem_map] at hu ⊢
    rcases hu with ⟨c, hc, rfl⟩ | ⟨p, hp, rfl⟩
    · exact Or.inl ⟨c, hc, rfl⟩
    · exact Or.inr ⟨p, hp, rfl⟩
  have hgroups := CC.mem_overlapGroups_rot hL (CC.neighbourUnits singles cands) f g (fun u _ => rfl) hspan
  rw [hunits]
  constructor
  · intro h
    refine CC.linked_of_cover ?_ (CC.Linked.map_sets g h)
    intro grp hgrp
    obtain ⟨grp0, h0, rfl⟩ := List.mem_map.1 hgrp
    exact ⟨grp0.map g, (hgroups _).2 ⟨grp0, h0, rfl⟩, fun x hx => hx⟩
  · intro h
    have h' : CC.Spec.Linked ((CC.Spec.overlapGroups (CC.neighbourUnits singles cands)).map (·.map g)) (g a) (g b) := by
      refine CC.linked_of_cover ?_ h
      intro grp hgrp
      obtain ⟨grp0, h0, rfl⟩ := (hgroups grp).1 hgrp
      exact ⟨grp0.map g, List.mem_map_of_mem h0, fun x hx => hx⟩
    obtain ⟨a', b', ea, eb, hl⟩ := CC.Linked.of_map_sets g hinj h'
    rw [hinj a' a ea, hinj b' b eb] at hl
    exact hl

/-! ## Part 2 — rule order and sub-selection (C03's model of `apply_cluster_rules` … `build_results`) -/

/-- **The anchoring genes of a rule do not depend on the rest of the ruleset.**  Whenever rule evaluation
    runs through for two rulesets that both contain `rule` (names identify rules), the gene set recorded
    for `rule` is the same — whatever other rules there are, in whatever order, with whatever cutoffs
    (this is where D1's stale cache used to break the property; `cache_is_transparent` of C03 is used). -/
theorem anchoring_genes_independent_of_ruleset (within : Lookup) (r : Rec) (rules rules' : List RuleM)
    (res res' : RuleResults) (h : ruleResults within r rules = .ok res) (h' : ruleResults within r rules' = .ok res')
    (hd : NamesDistinct rules) (hd' : NamesDistinct rules') (rule : RuleM) (hr : rule ∈ rules) (hr' : rule ∈ rules')
    (g : Gene) : g ∈ hitsFor res rule.name ↔ g ∈ hitsFor res' rule.name := by
  rw [mem_hitsFor_iff within r rules res h hd rule hr g, mem_hitsFor_iff within r rules' res' h' hd' rule hr' g]

/-- **Every permutation and every sub-selection.**  If rule evaluation runs through for `rules`, it runs
    through for every list `rules'` made of rules of `rules` (any order, any subset), and gives every
    rule of `rules'` the same anchoring genes. -/
theorem rules_subselection_and_order_invariant (within : Lookup) (r : Rec) (rules rules' : List RuleM)
    (res : RuleResults) (h : ruleResults within r rules = .ok res) (hd : NamesDistinct rules)
    (hs : ∀ x ∈ rules', x ∈ rules) :
    ∃ res', ruleResults within r rules' = .ok res' ∧
      ∀ rule ∈ rules', ∀ g, g ∈ hitsFor res' rule.name ↔ g ∈ hitsFor res rule.name := by
  obtain ⟨res', h'⟩ := ruleResults_ok_of_subset within r rules rules' res h hs
  exact ⟨res', h', fun rule hr g =>
    anchoring_genes_independent_of_ruleset within r rules' rules res' res h' h (hd.sub hs) hd rule hr (hs rule hr) g⟩

theorem rules_perm_invariant (within : Lookup) (r : Rec) (rules rules' : List RuleM) (hp : rules'.Perm rules)
    (res : RuleResults) (h : ruleResults within r rules = .ok res) (hd : NamesDistinct rules) :
    ∃ res', ruleResults within r rules' = .ok res' ∧
      ∀ rule ∈ rules, ∀ g, g ∈ hitsFor res' rule.name ↔ g ∈ hitsFor res rule.name := by
  obtain ⟨res', h', hall⟩ := rules_subselection_and_order_invariant within r rules rules' res h hd
    (fun x hx => hp.mem_iff.1 hx)
  exact ⟨res', h', fun rule hr g => hall rule (hp.mem_iff.2 hr) g⟩

/-- a rule evaluated on its own anchors on the same genes as inside any ruleset -/
theorem rules_independent (within : Lookup) (r : Rec) (rules : List RuleM) (res : RuleResults)
    (h : ruleResults within r rules = .ok res) (hd : NamesDistinct rules) (rule : RuleM) (hr : rule ∈ rules) :
    ∃ res1, ruleResults within r [rule] = .ok res1 ∧ ∀ g, g ∈ hitsFor res1 rule.name ↔ g ∈ hitsFor res rule.name := by
  obtain ⟨res1, h1, hall⟩ := rules_subselection_and_order_invariant within r rules [rule] res h hd
    (fun x hx => by simp only [List.mem_singleton] at hx; subst hx; exact hr)
  exact ⟨res1, h1, hall rule (by simp)⟩

/-- **The protoclusters of a rule (before extenders and superiors) do not depend on the other rules**:
    `find_protoclusters` forms them from the rule and its anchoring genes alone, and two rulesets give
    the rule the same anchoring genes. -/
theorem protoclusters_of_rule_independent (within : Lookup) (r : Rec) (rules rules' : List RuleM)
    (res res' : RuleResults) (h : ruleResults within r rules = .ok res) (h' : ruleResults within r rules' = .ok res')
    (hd : NamesDistinct rules) (hd' : NamesDistinct rules') (rule : RuleM) (hr : rule ∈ rules) (hr' : rule ∈ rules') :
    clustersOfRule r rule (dedupIds (hitsFor res rule.name)) = clustersOfRule r rule (dedupIds (hitsFor res' rule.name)) := by
  apply clustersOfRule_congr
  intro g
  rw [mem_dedupIds, mem_dedupIds]
  exact anchoring_genes_independent_of_ruleset within r rules rules' res res' h h' hd hd' rule hr hr' g

/-- `apply_extenders` consults the protocluster's own rule only -/
theorem extenders_consult_own_rule_only (within : Lookup) (r : Rec) (rules rules' : List RuleM)
    (hd : NamesDistinct rules) (hd' : NamesDistinct rules') (rule : RuleM) (hr : rule ∈ rules) (hr' : rule ∈ rules')
    (pc : PC) (hpc : pc.rule = rule.name) :
    extendCluster within r rules pc = extendCluster within r rules' pc := by
  apply extendCluster_independent within r rules rules' pc rule
  · rw [hpc]; exact findRule_of_distinct rules hd rule hr
  · rw [hpc]; exact findRule_of_distinct rules' hd' rule hr'

/-- **The only sanctioned cross-rule effect, protocluster side**: whether a protocluster is dropped as
    redundant is decided by the protoclusters of its rule's *superiors* and by nothing else of the ruleset
    (C03 `redundant_iff` says exactly when); in particular … -/
theorem superiors_are_the_only_cross_rule_effect (within : Lookup) (rules rules' : List RuleM)
    (hd : NamesDistinct rules) (hd' : NamesDistinct rules') (rule : RuleM) (hr : rule ∈ rules) (hr' : rule ∈ rules')
    (clusters clusters' : List PC) (pc : PC) (hpc : pc.rule = rule.name)
    (hc : ∀ s ∈ rule.superiors, clusters.filter (·.rule == s) = clusters'.filter (·.rule == s)) :
    isRedundant within rules clusters pc = isRedundant within rules' clusters' pc := by
  apply isRedundant_congr within rules rules' clusters clusters' pc rule
  · rw [hpc]; exact findRule_of_distinct rules hd rule hr
  · rw [hpc]; exact findRule_of_distinct rules' hd' rule hr'
  · exact hc

/-- … a protocluster of a rule without superiors is never dropped, whatever else is in the ruleset -/
theorem never_redundant_without_superiors (within : Lookup) (rules : List RuleM) (hd : NamesDistinct rules)
    (rule : RuleM) (hr : rule ∈ rules) (hs : rule.superiors = []) (clusters : List PC) (pc : PC)
    (hpc : pc.rule = rule.name) (fl : Loc × Loc) (hfl : firstLast within pc = .ok fl) :
    isRedundant within rules clusters pc = .ok false :=
  isRedundant_no_superiors within rules clusters pc rule (by rw [hpc]; exact findRule_of_distinct rules hd rule hr) hs fl hfl

/-- **The only sanctioned cross-rule effect, definition-domain side** (`strip_inferior_domains`): the
    domains recorded for (gene, rule) are removed exactly when the gene also has an entry for one of the
    rule's superiors -/
theorem strip_inferior_only_by_superiors (rules : List RuleM) (hd : NamesDistinct rules) (rule : RuleM) (hr : rule ∈ rules)
    (d : Doms) (g : Gene) (ps : List Prof) :
    (g, rule.name, ps) ∈ stripInferior rules d ↔ (g, rule.name, ps) ∈ d ∧ ∀ s ∈ rule.superiors, s ∉ d.keys g := by
  rw [mem_stripInferior]
  have hf := findRule_of_distinct rules hd rule hr
  simp only [findRule] at hf
  constructor
  · rintro ⟨he, hk⟩
    refine ⟨he, ?_⟩
    cases hfind : rules.find? (·.name == rule.name) with
    | none => simp [hfind] at hf
    | some x =>
      simp only [hfind, pure, Except.pure, Except.ok.injEq] at hf
      subst hf
      exact hk x hfind
  · rintro ⟨he, hk⟩
    refine ⟨he, fun x hx => ?_⟩
    simp only [hx, pure, Except.pure, Except.ok.injEq] at hf
    subst hf
    exact hk

/-! ### what does *not* hold: the superiors step on a ring (KF-C07-superior-overlap = KF-C03-superior-overlap)

  The full rotation statement for the code model would be
    `def DetectionRotationInvariant : Prop := ∀ r r' rules, (r' is r re-indexed by some k) →
        membership r' rules = membership r rules   (up to order)`
  and the full sub-selection statement "the protoclusters of a rule are those it has on its own minus the
  ones a superior's core covers".  Both fail for the same reason: `remove_redundant_protoclusters` also
  drops a protocluster whose first/last core genes *interleave* (in record order) with those of a superior's
  protocluster (C03 `redundant_iff`, `not_droppedOnlyWhenCovered`); record order changes with the origin. -/

def kfRules : List RuleM :=
  [⟨"sup", 3, 1, .group false [.single false "s"], [], none⟩,
   ⟨"inf", 3, 1, .group false [.single false "i"], ["sup"], none⟩]
/-- ring of 29: genes 1 [0,2), 2 [4,6), 0 [8,10), all with profile `i`, gene 2 also with `s` -/
def kfBase : Rec := ⟨29, true,
  [⟨1, .simple ⟨0, 2, .fwd⟩, [("i", 0)], true⟩, ⟨2, .simple ⟨4, 6, .fwd⟩, [("i", 0), ("s", 0)], true⟩,
   ⟨0, .simple ⟨8, 10, .fwd⟩, [("i", 0)], true⟩]⟩
/-- the same record with base 2 chosen as the origin (gene 1 now sits at [27,29)) -/
def kfRotated : Rec := ⟨29, true,
  [⟨2, .simple ⟨2, 4, .fwd⟩, [("i", 0), ("s", 0)], true⟩, ⟨0, .simple ⟨6, 8, .fwd⟩, [("i", 0)], true⟩,
   ⟨1, .simple ⟨27, 29, .fwd⟩, [("i", 0)], true⟩]⟩

/-- negation witness (rotation): the inferior chain {1, 2, 0} is dropped on one origin and reported on
    the other, although the superior core (gene 2) covers it on neither -/
theorem superior_removal_depends_on_origin_witness :
    membership kfBase kfRules = some [("sup", [2])] ∧
    membership kfRotated kfRules = some [("sup", [2]), ("inf", [1, 2, 0])] := by
  constructor <;> decide +kernel

/-- negation witness (sub-selection): on its own the inferior rule reports the chain that disappears
    when the superior rule is listed, although the superior core does not cover it -/
theorem superior_removal_beyond_cover_witness :
    membership kfBase [⟨"inf", 3, 1, .group false [.single false "i"], ["sup"], none⟩] = some [("inf", [1, 2, 0])] ∧
    membership kfBase kfRules = some [("sup", [2])] ∧
    locationContainsOther (.simple ⟨4, 6, .fwd⟩) (.simple ⟨0, 10, .fwd⟩) = false := by
  refine ⟨?_, ?_, ?_⟩ <;> decide +kernel

/-! ### non-vacuity -/

/-- the property's own example (D1's layout, repaired code): ring of 100 kb, gene `a` 5 kb before the
    origin … gene `b` 3 kb after it, rules `a and b` with cutoffs 20 kb, 2 kb, 20 kb in that order -/
def d1Rec : Rec := ⟨100000, true,
  [⟨1, .simple ⟨3000, 4000, .fwd⟩, [("b", 0)], true⟩, ⟨0, .simple ⟨95000, 96000, .fwd⟩, [("a", 0)], true⟩]⟩
def d1Rule (name : String) (cutoff : Int) : RuleM :=
  ⟨name, cutoff, 1000, .group false [.conj [.single false "a", .single false "b"]], [], none⟩
def d1Rules : List RuleM := [d1Rule "r1" 20000, d1Rule "r2" 2000, d1Rule "r3" 20000]

/-- both 20 kb rules find the pair across the origin, in this order and with the 2 kb rule removed or moved -/
example : (ruleResults (withinSpec d1Rec) d1Rec d1Rules).toOption.map
    (fun res => (hitsFor res "r1", hitsFor res "r2", hitsFor res "r3")) = some ([1, 0, 0, 1], [], [1, 0, 0, 1]) := by
  decide +kernel
example : (ruleResults (withinSpec d1Rec) d1Rec [d1Rule "r2" 2000, d1Rule "r3" 20000, d1Rule "r1" 20000]).toOption.map
    (fun res => (hitsFor res "r1", hitsFor res "r2", hitsFor res "r3")) = some ([1, 0, 0, 1], [], [1, 0, 0, 1]) := by
  decide +kernel
example : NamesDistinct d1Rules := by
  intro x hx y hy
  simp only [d1Rules, List.mem_cons, List.mem_nil_iff, or_false] at hx hy
  rcases hx with rfl | rfl | rfl <;> rcases hy with rfl | rfl | rfl <;> simp [d1Rule]

/-- the rotation hypotheses are satisfiable with a cut through a gene: [8,12) on a ring of 20 re-indexed
    by +10 becomes join{[18,20),[0,2)}; its span is itself -/
example : IsRot 20 10 (.simple ⟨8, 12, .fwd⟩) (areaTwo 18 2 20 .fwd) := by
  intro i
  simp only [areaTwo, Loc.mem, Loc.parts, List.any_cons, List.any_nil, Bool.or_false, Bool.or_eq_true, Part.mem_iff]
  constructor
  · intro h
    refine ⟨by omega, by omega, ?_⟩
    rcases h with h | h
    · exact ⟨i - 10, by omega, 0, by omega⟩
    · exact ⟨i + 10, by omega, -1, by omega⟩
  · rintro ⟨h0, h1, j, hj, c, hc⟩
    have : c = 0 ∨ c = -1 := by omega
    rcases this with rfl | rfl <;> omega
example : nearB 20 3 (areaTwo 18 2 20 .fwd) (.simple ⟨4, 6, .fwd⟩) = true ∧ nearB 20 2 (areaTwo 18 2 20 .fwd) (.simple ⟨4, 6, .fwd⟩) = false := by
  decide

end ASV.C07
