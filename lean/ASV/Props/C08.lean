/-
  C08 — genes belong to exactly the areas that contain them, whatever the build order.
  Property theorems only; helper lemmas in ASV/Proofs/Lookup*.lean.

  Model: `ASV.Lookup` (Model/Lookup.lean) — the repaired `get_cds_features_within_location`
  (fixes/D4_D5_D6_cds_lookup_exact.patch), `add_cds_feature`, the repaired `_link_cds_to_parent`
  (fixes/D41_link_cds_to_every_region.patch), the `add_<area>` methods, `CDSCollection/Protocluster/Region.add_cds`.
  Spec: `ASV.Lookup.spec*` (Spec/Lookup.lean).

  Guards (all decidable, evaluated per case by the driver as the scope flag):
    `Sorted genes`     the gene list is in `Feature.__lt__` order — an invariant of every history (theorem 5)
    `GenesOK genes`    every gene location has ≥ 1 part, parts non-empty and ≥ 0, and a sort key
    `QueryOK q`        the query / area location has ≥ 1 part, parts non-empty and ≥ 0
    `HistoryOK ops`    well-formed genes and areas; one id names one object; children lie inside their
                       parents; regions are never children
  Everything below is for all gene layouts (nested, identical starts, identical keys, both strands,
  multi-exon, origin-spanning), all query locations and all histories — no bound on sizes.
-/
import ASV.Proofs.LookupValid
import ASV.Proofs.LookupDefs
import ASV.Proofs.GeneFunctions
namespace ASV.C08
open ASV ASV.Lookup

/-! ### 1–4  the lookup -/

/-- asking for the genes *within* a location returns exactly the genes contained in it -/
theorem within_contained_exact (genes : List Gene) (hs : Sorted genes) (hok : GenesOK genes)
    (q : Loc) (hq : QueryOK q) (g : Gene) :
    g ∈ within genes q false ↔ g ∈ genes ∧ specContained g.loc q = true := by
  simpa [specKeeps] using mem_within hs hok q false hq g

/-- asking with `with_overlapping` returns exactly the genes sharing a base with the location -/
theorem within_overlapping_exact (genes : List Gene) (hs : Sorted genes) (hok : GenesOK genes)
    (q : Loc) (hq : QueryOK q) (g : Gene) :
    g ∈ within genes q true ↔ g ∈ genes ∧ g.loc.SharesBase q := by
  rw [mem_within hs hok q true hq g]
  simp [specKeeps, specShares, sharesPts_iff]

/-- for a single-part location "contained" is the set-of-bases reading: every base of the gene is a base of
    the location -/
theorem contained_iff_bases_inside (g : Loc) (hg : LocOK g) (p : Part) :
    specContained g (.simple p) = true ↔ ∀ i, g.mem i = true → (Loc.simple p).mem i = true := by
  simp only [specContained, Loc.parts, List.all_eq_true, List.any_cons, List.any_nil, Bool.or_false,
    Bool.and_eq_true, decide_eq_true_eq, Loc.mem, List.any_eq_true, Part.mem_iff]
  constructor
  · rintro h i ⟨gp, hgp, h1, h2⟩
    have := h gp hgp
    omega
  · intro h gp hgp
    have hne := (hg.2.1 gp hgp).2
    have h1 := h gp.lo ⟨gp, hgp, by omega, by omega⟩
    have h2 := h (gp.hi - 1) ⟨gp, hgp, by omega, by omega⟩
    omega

/-- for a single-part location the answer *is* the record's gene list filtered, order included … -/
theorem within_simple_is_filter (genes : List Gene) (hs : Sorted genes) (hok : GenesOK genes)
    (p : Part) (h0 : 0 ≤ p.lo) (h1 : p.lo < p.hi) (ov : Bool) :
    within genes (.simple p) ov = genes.filter fun g => specKeeps ov g.loc (.simple p) := by
  have hq : QueryOK (.simple p) := ⟨by simp [Loc.parts], fun x hx => by simp [Loc.parts] at hx; subst hx; exact ⟨h0, h1⟩⟩
  rw [within_eq_spec hs hok _ ov hq]
  simp [specWithin, Loc.parts]

/-- … and in general it is the spec's list: a multi-part location is walked part by part, each gene once -/
theorem within_is_spec_list (genes : List Gene) (hs : Sorted genes) (hok : GenesOK genes)
    (q : Loc) (hq : QueryOK q) (ov : Bool) :
    within genes q ov = specWithin genes q ov :=
  within_eq_spec hs hok q ov hq

/-- the answer to a single-part query is in location order (a sub-list of the sorted gene list) -/
theorem within_sorted (genes : List Gene) (hs : Sorted genes) (hok : GenesOK genes)
    (p : Part) (h0 : 0 ≤ p.lo) (h1 : p.lo < p.hi) (ov : Bool) :
    (within genes (.simple p) ov).Sublist genes ∧ Sorted (within genes (.simple p) ov) := by
  rw [within_simple_is_filter genes hs hok p h0 h1 ov]
  exact ⟨List.filter_sublist, hs.sublist List.filter_sublist⟩

/-- no gene is returned twice -/
theorem within_nodup (genes : List Gene) (hs : Sorted genes) (hok : GenesOK genes) (hn : genes.Nodup)
    (q : Loc) (hq : QueryOK q) (ov : Bool) : (within genes q ov).Nodup := by
  rw [within_eq_spec hs hok q ov hq]
  unfold specWithin
  split
  · exact List.nodup_nil
  · exact hn.filter _
  · exact (nodup_dedup _).filter _

/-- a query starting below 0 is read as starting at 0 (and at least one base long) -/
theorem within_negative_start (genes : List Gene) (p : Part) (h : p.lo < 0) (ov : Bool) :
    within genes (.simple p) ov = within genes (.simple ⟨0, max 1 p.hi, .none⟩) ov := by
  simp [within, Loc.parts, within1, clampQuery, h]

/-- the order used throughout is `Feature.__lt__` of the shared location model (C04) -/
theorem order_is_feature_lt (a b : Loc) (ha : LocOK a) (hb : LocOK b) : featureLt a b = .ok (locLt a b) :=
  featureLt_eq_locLt ha.2.2 hb.2.2

/-- origin-spanning genes sort before all others, whatever their coordinates (why the lookup must scan them) -/
theorem crossing_sorts_first (a b : Loc) (ha : LocOK a) (hb : LocOK b)
    (hca : bridgesOrigin a = true) (hcb : bridgesOrigin b = false) : locLt a b = true := by
  rw [locLt_true_iff]
  have := cmpStart_crossing ha hca
  have := cmpStart_nonneg_linear hb hcb
  omega

/-! ### 1b  completeness under arbitrary nesting; the ring (origin-spanning queries and genes) -/

/-- completeness of the overlap lookup: *every* gene of the record sharing a base with the location is
    returned — whatever lies between it and the location in the gene list (genes nested in it, genes ending
    before the location, identical starts, origin-spanning genes sorting first) -/
theorem within_overlapping_complete (genes : List Gene) (hs : Sorted genes) (hok : GenesOK genes)
    (q : Loc) (hq : QueryOK q) (g : Gene) (hg : g ∈ genes) (hsh : g.loc.SharesBase q) :
    g ∈ within genes q true :=
  (within_overlapping_exact genes hs hok q hq g).2 ⟨hg, hsh⟩

/-- … and of the containment lookup -/
theorem within_contained_complete (genes : List Gene) (hs : Sorted genes) (hok : GenesOK genes)
    (q : Loc) (hq : QueryOK q) (g : Gene) (hg : g ∈ genes) (hc : specContained g.loc q = true) :
    g ∈ within genes q false :=
  (within_contained_exact genes hs hok q hq g).2 ⟨hg, hc⟩

/-- ring: an origin-spanning gene (it sorts first, far from where bisection looks) is found from any location
    it shares a base with — a single-part location near the end of the record, near its start, or an
    origin-spanning one -/
theorem within_finds_crossing_gene (genes : List Gene) (hs : Sorted genes) (hok : GenesOK genes)
    (q : Loc) (hq : QueryOK q) (g : Gene) (hg : g ∈ genes) (_hx : bridgesOrigin g.loc = true)
    (i : Int) (hi : g.loc.mem i = true) (hqi : q.mem i = true) : g ∈ within genes q true :=
  within_overlapping_complete genes hs hok q hq g hg ⟨i, hi, hqi⟩

/-- ring: the answer to an origin-spanning location `[x:L) + [0:y)` walks the location: first the genes met
    in the part before the origin (those not crossing the origin, then the crossing ones), then the genes of
    the part after the origin that were not met yet; finally the keep test -/
theorem within_origin_spanning_order (genes : List Gene) (hs : Sorted genes) (hok : GenesOK genes) (hn : genes.Nodup)
    (p0 p1 : Part) (hq : QueryOK (.compound [p0, p1])) (ov : Bool) :
    within genes (.compound [p0, p1]) ov =
      (specPartHits genes p0 ++ (specPartHits genes p1).filter (fun g => !(specPartHits genes p0).contains g)).filter
        (fun g => specKeeps ov g.loc (.compound [p0, p1])) := by
  rw [within_eq_spec hs hok _ ov hq]
  have hnd : ∀ p, (specPartHits genes p).Nodup := by
    intro p
    simp only [specPartHits]
    rw [List.nodup_append]
    refine ⟨(hn.filter _).filter _, (hn.filter _).filter _, ?_⟩
    intro a ha b hb e
    subst e
    simp only [List.mem_filter] at ha hb
    simp [hb.2] at ha
  simp only [specWithin, Loc.parts, List.flatMap_cons, List.flatMap_nil, List.append_nil]
  rw [dedup_append_nodup _ _ (hnd p0) (hnd p1)]

/-- ring: for an origin-spanning area `[x:L) + [0:y)` with `y < x`, "contained" is again the set-of-bases
    reading — every base of the gene is a base of the area — for genes whose parts lie on the record -/
theorem contained_iff_bases_inside_ring (g : Loc) (hg : LocOK g) (p0 p1 : Part) (hgap : p1.hi < p0.lo)
    :
    specContained g (.compound [p0, p1]) = true ↔ ∀ i, g.mem i = true → (Loc.compound [p0, p1]).mem i = true := by
  simp only [specContained, Loc.parts, List.all_eq_true, List.any_cons, List.any_nil, Bool.or_false,
    Bool.and_eq_true, Bool.or_eq_true, decide_eq_true_eq, Loc.mem, List.any_eq_true, Part.mem_iff]
  constructor
  · rintro h i ⟨gp, hgp, h1, h2⟩
    rcases h gp hgp with h | h
    · left; omega
    · right; omega
  · intro h gp hgp
    have hne := (hg.2.1 gp hgp).2
    have ha := h gp.lo ⟨gp, hgp, by omega, by omega⟩
    have hb := h (gp.hi - 1) ⟨gp, hgp, by omega, by omega⟩
    -- both ends lie in the same part: every base between them is a base of the area too
    rcases ha with ha | ha <;> rcases hb with hb | hb
    · left; omega
    · exfalso
      have hm := h (p1.hi) ⟨gp, hgp, by omega, by omega⟩
      omega
    · exfalso
      have hm := h (p1.hi) ⟨gp, hgp, by omega, by omega⟩
      omega
    · right; omega

/-! ### 5  the record keeps its genes sorted; the name map -/

/-- after any history of successful calls (adding, clearing, observing) the gene list holds exactly the genes
    added, in location order, with distinct names -/
theorem genes_stay_sorted (len : Int) (ops : List Op) (r : Rec) (hok : ∀ op ∈ ops, OpOK op)
    (hrun : run len ops = .ok r) :
    Sorted r.genes ∧ GenesOK r.genes ∧ (∀ g, g ∈ r.genes ↔ g ∈ (liveAfter ops).genes) ∧
      r.genes.Pairwise (fun a b => a.id ≠ b.id) := by
  have inv := (run_inv hok hrun).core
  exact ⟨inv.sorted, inv.ok, inv.genesLive, inv.ids⟩

/-- `get_cds_by_name` finds exactly the gene that was added under that name (and nothing for other names) -/
theorem name_map_exact (len : Int) (ops : List Op) (r : Rec) (hok : ∀ op ∈ ops, OpOK op) (hrun : run len ops = .ok r)
    (gid : Nat) (g : Gene) :
    r.byName.find? (fun x => x.1 == gid) = some (gid, g) ↔ (g ∈ r.genes ∧ g.id = gid) :=
  name_lookup hrun hok gid g

/-- the record's lists of collections are exactly what the spec says is alive after the history -/
theorem lists_are_live (len : Int) (ops : List Op) (r : Rec) (hok : ∀ op ∈ ops, OpOK op) (hrun : run len ops = .ok r) :
    r.regions = (liveAfter ops).regions ∧ r.protos = (liveAfter ops).protos ∧
    r.cands = (liveAfter ops).cands ∧ r.subs = (liveAfter ops).subs := by
  have inv := (run_inv hok hrun).core
  exact ⟨inv.regionsEq, inv.protosEq, inv.candsEq, inv.subsEq⟩

/-! ### 6–8  areas, regions, definition genes, sections after any history (clearing calls included) -/

/-- every protocluster, candidate cluster, subregion and region currently in the record — and every child of
    one — lists exactly the genes its location contains, also after `clear_*` calls, re-adding and
    re-creation of regions -/
theorem area_children_exact (len : Int) (ops : List Op) (r : Rec) (hok : HistoryOK ops) (hrun : run len ops = .ok r)
    (a : AreaT) (ha : a ∈ (liveAfter ops).areas) (d : AreaT) (hd : d ∈ nodes a) (gid : Nat) :
    gid ∈ r.children d.id ↔ gid ∈ specChildren r.genes d :=
  children_exact hrun hok a ha d hd gid

/-- an area never handed to the record (directly or as a child) lists no gene -/
theorem unregistered_area_empty (len : Int) (ops : List Op) (r : Rec) (hok : HistoryOK ops) (hrun : run len ops = .ok r)
    (aid : Nat) (hfresh : ∀ a ∈ opsAreas ops, ∀ d ∈ nodes a, d.id ≠ aid) : r.children aid = [] := by
  have inv := (run_inv hok.opOK hrun).core
  rw [List.eq_nil_iff_forall_not_mem]
  intro gid hmem
  rw [mem_children] at hmem
  obtain ⟨g, _, d, ⟨s, hl⟩, hx⟩ := inv.membersSound _ hmem
  injection hx with h1 _
  obtain ⟨_, a, ha, hd⟩ := hl.contained
  exact hfresh a ha d hd h1.symm

/-- a collection that is no longer in the record (cleared) never lists a gene it does not contain -/
theorem stale_children_sound (len : Int) (ops : List Op) (r : Rec) (hok : HistoryOK ops) (hrun : run len ops = .ok r)
    (a : AreaT) (ha : a ∈ opsAreas ops) (d : AreaT) (hd : d ∈ nodes a) (gid : Nat) (hm : gid ∈ r.children d.id) :
    gid ∈ specChildren r.genes d := by
  have inv := (run_inv hok.opOK hrun).core
  rw [mem_children] at hm
  obtain ⟨g, hg, d', ⟨s, hl⟩, hx⟩ := inv.membersSound _ hm
  injection hx with h1 h2
  obtain ⟨hc, a', ha', hd'⟩ := hl.contained
  have e := (hok.ids a' ha' a ha d' hd' d hd h1.symm).1
  simp only [specChildren, List.mem_map, List.mem_filter]
  refine ⟨g, ⟨hg, ?_⟩, h2.symm⟩
  rw [← containedBy_eq_spec (gene_le (inv.ok g hg)), ← e]; exact hc

/-- each gene points to the one region of the record containing it, or to none — also after regions were
    cleared and re-created; and no two regions contain the same gene -/
theorem cds_region_unique (len : Int) (ops : List Op) (r : Rec) (hok : ∀ op ∈ ops, OpOK op) (hrun : run len ops = .ok r)
    (g : Gene) (hg : g ∈ r.genes) :
    (∀ a ∈ r.regions, specContained g.loc a.loc = true → r.regionOfGene g.id = some a.id) ∧
    ((∀ a ∈ r.regions, specContained g.loc a.loc = false) → r.regionOfGene g.id = none) ∧
    (∀ a ∈ r.regions, ∀ b ∈ r.regions, specContained g.loc a.loc = true → specContained g.loc b.loc = true → a = b) := by
  have inv := (run_inv hok hrun).core
  have hle := gene_le (inv.ok g hg)
  obtain ⟨h1, h2⟩ := region_of_gene hrun hok hg
  refine ⟨?_, ?_, ?_⟩
  · intro a ha hc; exact h1 a ha (by rw [containedBy_eq_spec hle]; exact hc)
  · intro hn; exact h2 (fun a ha => by rw [containedBy_eq_spec hle]; exact hn a ha)
  · intro a ha b hb hca hcb
    exact containing_unique inv.disjoint inv.regionQ (inv.ok g hg) ha hb (by rw [containedBy_eq_spec hle]; exact hca)
      (by rw [containedBy_eq_spec hle]; exact hcb)

/-- right after `clear_regions` no gene points to a region -/
theorem clear_regions_resets_links (len : Int) (ops : List Op) (r : Rec) (hok : ∀ op ∈ ops, OpOK op)
    (hrun : run len (ops ++ [.clearRegions]) = .ok r) (g : Gene) (hg : g ∈ r.genes) : r.regionOfGene g.id = none := by
  have hok' : ∀ op ∈ ops ++ [Op.clearRegions], OpOK op := by
    intro op hop
    rcases List.mem_append.1 hop with h | h
    · exact hok op h
    · simp only [List.mem_singleton] at h; subst h; trivial
  have inv := (run_inv hok' hrun).core
  have hreg : r.regions = [] := by rw [inv.regionsEq, liveAfter_append]; rfl
  exact (inv.regionPtr g hg).2 (fun a ha => by rw [hreg] at ha; simp at ha)

/-- `get_cds_features_within_regions` returns exactly the genes inside some region -/
theorem within_regions_exact (len : Int) (ops : List Op) (r : Rec) (hok : HistoryOK ops) (hrun : run len ops = .ok r)
    (gid : Nat) :
    gid ∈ (r.regions.flatMap fun a => r.children a.id) ↔
      ∃ g ∈ r.genes, g.id = gid ∧ ∃ a ∈ r.regions, specContained g.loc a.loc = true := by
  have inv := (run_inv hok.opOK hrun).core
  simp only [List.mem_flatMap]
  constructor
  · rintro ⟨a, ha, hm⟩
    have hl : a ∈ (liveAfter ops).areas := by rw [← registered_eq_live inv]; exact regions_sub_registered r a ha
    have := (children_exact hrun hok a hl a (nodes_self a) gid).1 hm
    simp only [specChildren, List.mem_map, List.mem_filter] at this
    obtain ⟨g, ⟨hg, hc⟩, e⟩ := this
    exact ⟨g, hg, e, a, ha, hc⟩
  · rintro ⟨g, hg, rfl, a, ha, hc⟩
    have hl : a ∈ (liveAfter ops).areas := by rw [← registered_eq_live inv]; exact regions_sub_registered r a ha
    refine ⟨a, ha, (children_exact hrun hok a hl a (nodes_self a) g.id).2 ?_⟩
    simp only [specChildren, List.mem_map, List.mem_filter]
    exact ⟨g, ⟨hg, hc⟩, rfl⟩

/-- a protocluster's defining genes are exactly the genes inside it and inside its core that carry a core
    annotation for its product -/
theorem definition_cdses_exact (len : Int) (ops : List Op) (r : Rec) (hok : HistoryOK ops) (hrun : run len ops = .ok r)
    (a : AreaT) (ha : a ∈ (liveAfter ops).areas) (d : AreaT) (hd : d ∈ nodes a) (hk : d.kind = .proto) (gid : Nat) :
    gid ∈ r.definition d.id ↔ gid ∈ specDefinition r.genes d :=
  definition_exact hrun hok a ha d hd hk gid

/-- product names are compared for equality: a gene whose core annotations do not name the protocluster's
    product itself — a shorter name contained in it ("NRPS" vs "NRPS-like"), a longer one, anything else — is
    never one of its defining genes, wherever it lies and in whatever order things were added -/
theorem definition_needs_exact_product (len : Int) (ops : List Op) (r : Rec) (hok : HistoryOK ops) (hrun : run len ops = .ok r)
    (a : AreaT) (ha : a ∈ (liveAfter ops).areas) (d : AreaT) (hd : d ∈ nodes a) (hk : d.kind = .proto)
    (g : Gene) (hg : g ∈ r.genes) (hne : ∀ p ∈ g.cores, p ≠ d.product) : g.id ∉ r.definition d.id := by
  intro hm
  have inv := (run_inv hok.opOK hrun).core
  have := (definition_cdses_exact len ops r hok hrun a ha d hd hk g.id).1 hm
  simp only [specDefinition, List.mem_map, List.mem_filter, Bool.and_eq_true] at this
  obtain ⟨g', ⟨hg', _, hp⟩, hid⟩ := this
  have := gene_of_id inv.ids hg hg' hid
  subst this
  have hp' : d.product ∈ g'.cores := by simpa using hp
  exact hne _ hp' rfl

/-! #### the gene-function container a protocluster consults (`GeneFunctionAnnotations`) -/

/-- after any history of `add` / `clear` calls both indexes agree with the annotation list: `get_by_function`
    and `get_by_tool` return exactly the carried annotations with that function / tool, in order -/
theorem gene_function_index_consistent (h : List GeneFn.Op) (fn : Nat) (tool : String) :
    (GeneFn.run h).annotations = GeneFn.carried h ∧
    (GeneFn.run h).getByFunction fn = (GeneFn.carried h).filter (fun a => a.fn == fn) ∧
    (GeneFn.run h).getByTool tool = (GeneFn.carried h).filter (fun a => a.tool == tool) := by
  have c := GeneFn.run_consistent h
  refine ⟨GeneFn.run_annotations h, ?_, ?_⟩
  · rw [c.getByFunction, GeneFn.run_annotations]
  · rw [c.getByTool, GeneFn.run_annotations]

/-- what `Protocluster.add_cds` sees are the products of the core annotations the gene carries (added since
    the last `clear` / `strip_antismash_annotations`) -/
theorem core_products_are_carried (h : List GeneFn.Op) :
    GeneFn.coreProducts (GeneFn.run h) = GeneFn.specCoreProducts h := by
  simp only [GeneFn.coreProducts, GeneFn.specCoreProducts, (gene_function_index_consistent h GeneFn.CORE "").2.1]

/-- a stripped gene carries no core annotation, whatever it carried before -/
theorem cleared_gene_has_no_cores (h : List GeneFn.Op) :
    GeneFn.coreProducts (GeneFn.run (h ++ [.clear])) = [] := by
  rw [core_products_are_carried]
  simp [GeneFn.specCoreProducts, GeneFn.carried, List.foldl_append]

/-- defining genes over annotation histories: a gene whose annotation container went through the calls `h`
    before it met the protocluster defines it only if it still *carries* a core annotation for the product —
    annotations removed by a strip do not count -/
theorem definition_needs_carried_annotation (len : Int) (ops : List Op) (r : Rec) (hok : HistoryOK ops)
    (hrun : run len ops = .ok r) (a : AreaT) (ha : a ∈ (liveAfter ops).areas) (d : AreaT) (hd : d ∈ nodes a)
    (hk : d.kind = .proto) (g : Gene) (hg : g ∈ r.genes) (h : List GeneFn.Op)
    (hcores : g.cores = GeneFn.coreProducts (GeneFn.run h)) (hm : g.id ∈ r.definition d.id) :
    d.product ∈ GeneFn.specCoreProducts h := by
  rw [← core_products_are_carried, ← hcores]
  by_cases hp : d.product ∈ g.cores
  · exact hp
  · exact absurd hm (definition_needs_exact_product len ops r hok hrun a ha d hd hk g hg
      (fun p hpm e => hp (e ▸ hpm)))

/-! #### annotations rewritten while the gene is in the record (`.setCores`: `gene_functions.add`, strip) -/

/-- rewriting the annotations of a gene in the record replaces the gene's core products (in the gene list, the
    name map and the cached tuple alike) and touches nothing else; the model follows it for a gene no collection
    has listed yet -/
theorem reannotation_takes_effect (len : Int) (ops : List Op) (gid : Nat) (cs : List String) (r' : Rec)
    (hrun : run len (ops ++ [.setCores gid cs]) = .ok r') :
    ∃ r, run len ops = .ok r ∧ (∀ x ∈ r.members, x.2 ≠ gid) ∧
      r'.genes = r.genes.map (recore gid cs) ∧ r'.members = r.members ∧ r'.defs = r.defs ∧ r'.sections = r.sections := by
  obtain ⟨r, hr, hs⟩ := run_snoc hrun
  obtain ⟨hno, e⟩ := setCores_ok hs
  subst e
  exact ⟨r, hr, hno, rfl, rfl, rfl, rfl⟩

/-- the model's limit, exactly: a rewrite is *not* followed iff some collection already lists the gene -/
theorem reannotation_model_limit (r : Rec) (gid : Nat) (cs : List String) :
    setCores r gid cs = .error "annotation-after-pairing" ↔ ∃ x ∈ r.members, x.2 = gid := by
  unfold setCores
  cases hm : (r.members.any fun x => x.2 == gid) with
  | true =>
    simp only [if_true, throw, throwThe, MonadExceptOf.throw, true_iff]
    rw [List.any_eq_true] at hm
    obtain ⟨x, hx, e⟩ := hm
    exact ⟨x, hx, by simpa using e⟩
  | false =>
    simp only [Bool.false_eq_true, if_false, pure, Except.pure]
    rw [List.any_eq_false] at hm
    constructor
    · intro h; cases h
    · rintro ⟨x, hx, e⟩; exact absurd (by simpa using e) (hm x hx)

/-- definition sets over histories with annotation rewrites (every rewrite of a gene preceding the collections that
    list it — which is what a successful `run` means): a protocluster in the record is defined by exactly the genes
    inside it and inside its core whose **current** annotations carry a core annotation for its product -/
theorem definition_uses_current_annotations (len : Int) (ops : List Op) (r : Rec) (hok : HistoryOK ops)
    (hrun : run len ops = .ok r) (a : AreaT) (ha : a ∈ (liveAfter ops).areas) (d : AreaT) (hd : d ∈ nodes a)
    (hk : d.kind = .proto) (g : Gene) (hg : g ∈ r.genes) :
    g.id ∈ r.definition d.id ↔
      (specContained g.loc d.loc = true ∧ specContained g.loc d.core = true ∧ d.product ∈ g.cores) := by
  have inv := (run_inv hok.opOK hrun).core
  rw [definition_cdses_exact len ops r hok hrun a ha d hd hk g.id]
  simp only [specDefinition, List.mem_map, List.mem_filter, Bool.and_eq_true]
  constructor
  · rintro ⟨g', ⟨hg', ⟨h1, h2⟩, h3⟩, hid⟩
    have := gene_of_id inv.ids hg hg' hid
    subst this
    exact ⟨h1, h2, by simpa using h3⟩
  · rintro ⟨h1, h2, h3⟩
    exact ⟨g, ⟨hg, ⟨h1, h2⟩, by simpa using h3⟩, rfl⟩

/-- every `add_cds` re-evaluates: whatever the record looks like — in particular if the protocluster already lists
    the gene — after `collection.add_cds(gene)` every protocluster the gene is handed to that contains it in its
    core and whose product the gene *now* carries a core annotation for has it as a defining gene -/
theorem add_cds_reevaluates_definition (r : Rec) (g : Gene) (a : AreaT) (d : AreaT) (s : Section)
    (hd : (d, s) ∈ downNodes g none a) (hdef : defines g d = true) :
    (d.id, g.id) ∈ (pushDown g none a r).defs :=
  ((pushDown_eff g none a r).defs _).2 (Or.inr ⟨(g, d, s), List.mem_map.2 ⟨(d, s), hd, rfl⟩, hdef, rfl⟩)

/-- … so a gene annotated after its protocluster listed it becomes a defining gene as soon as a candidate cluster
    or region hands it to the protocluster again (`runLoose`: annotation rewrites at any time) -/
theorem relisted_gene_is_reevaluated (r : Rec) (g : Gene) (a : AreaT) (d : AreaT) (s : Section)
    (_hlisted : (d.id, g.id) ∈ r.members) (hc : containedBy g.loc a.loc = true)
    (hd : (d, s) ∈ downNodes g none a) (hdef : defines g d = true) :
    ∃ r', areaAddCds r a g = .ok r' ∧ (d.id, g.id) ∈ r'.defs := by
  refine ⟨pushDown g none a r, by simp [areaAddCds, hc, pure, Except.pure], ?_⟩
  exact add_cds_reevaluates_definition r g a d s hd hdef

/-- a sideloaded protocluster (`SideloadedProtocluster`) never has defining genes -/
theorem sideloaded_defines_nothing (len : Int) (ops : List Op) (r : Rec) (hok : HistoryOK ops) (hrun : run len ops = .ok r)
    (a : AreaT) (ha : a ∈ opsAreas ops) (d : AreaT) (hd : d ∈ nodes a) (hk : d.kind = .sideProto) :
    r.definition d.id = [] := by
  have inv := (run_inv hok.opOK hrun).core
  rw [List.eq_nil_iff_forall_not_mem]
  intro gid hm
  rw [mem_definition] at hm
  obtain ⟨g, _, d', ⟨s, hl⟩, hdef, hx⟩ := inv.defsSound trivial _ hm
  injection hx with h1 _
  obtain ⟨_, a', ha', hd'⟩ := hl.contained
  obtain ⟨_, _, _, e4⟩ := hok.ids a' ha' a ha d' hd' d hd h1.symm
  simp only [defines, Bool.and_eq_true, beq_iff_eq] at hdef
  rw [hdef.1.1] at e4
  rw [hk] at e4
  cases e4

/-- the pre / cross / post-origin sections of a region of the record: its genes, each in exactly the section
    `specSection` names (crossing genes → cross; in an origin-spanning region the genes of the part after the
    origin → post, the others → pre; in an ordinary region → post) -/
theorem region_sections_partition (len : Int) (ops : List Op) (r : Rec) (hok : HistoryOK ops) (hrun : run len ops = .ok r)
    (a : AreaT) (ha : a ∈ r.regions) (s : Section) (gid : Nat) :
    gid ∈ r.section a.id s ↔
      ∃ g ∈ r.genes, g.id = gid ∧ specContained g.loc a.loc = true ∧ specSection a.loc g.loc = s :=
  region_sections_exact hrun hok a ha s gid

/-- what is guaranteed for the sections of **every** collection — also one that is, or once was, somebody's
    child, where the pre/post choice depends on the path the gene arrived by: a gene is filed under `cross`
    exactly when it crosses the origin.  With `sections_cover_children`: a listed gene that crosses the origin
    sits in `cross` and in no other section; one that does not sits in `pre` and/or `post`, never in `cross`. -/
theorem sections_cross_iff_crossing (len : Int) (ops : List Op) (r : Rec) (hok : ∀ op ∈ ops, OpOK op)
    (hrun : run len ops = .ok r) (g : Gene) (hg : g ∈ r.genes) (aid : Nat) (s : Section)
    (hm : g.id ∈ r.section aid s) : s = .cross ↔ bridgesOrigin g.loc = true := by
  have inv := (run_inv hok hrun).core
  rw [mem_section] at hm
  obtain ⟨g0, hg0, d, s', ⟨a, _, _, hd⟩, hx⟩ := inv.sectionsSound _ hm
  injection hx with h1 h2
  injection h1 with _ h3
  have := gene_of_id inv.ids hg hg0 h2.symm
  subst this
  rw [h3]
  exact downNodes_cross g0 a.size none a (d, s') (Nat.le_refl _) (fun s0 e => by cases e) hd

/-- a collection that is never handed to the record as somebody's child decides its sections alone: they are
    its genes split by `specSection`, each gene in exactly one — regions (`region_sections_partition`) are the
    special case; protoclusters, candidate clusters and subregions qualify until a parent takes them in -/
theorem toplevel_sections_partition (len : Int) (ops : List Op) (r : Rec) (hok : HistoryOK ops) (hrun : run len ops = .ok r)
    (a : AreaT) (ha : a ∈ (liveAfter ops).areas)
    (hnochild : ∀ b ∈ opsAreas ops, ∀ n ∈ nodes b, ∀ k ∈ n.kids, k.id ≠ a.id) (s : Section) (gid : Nat) :
    gid ∈ r.section a.id s ↔
      ∃ g ∈ r.genes, g.id = gid ∧ specContained g.loc a.loc = true ∧ specSection a.loc g.loc = s := by
  have inv := (run_inv hok.opOK hrun).core
  have har : a ∈ registered r := by rw [registered_eq_live inv]; exact ha
  have hae := inv.liveEver a har
  rw [mem_section]
  constructor
  · intro hm
    obtain ⟨g, hg, d, s', hl, hx⟩ := inv.sectionsSound _ hm
    injection hx with h1 h2
    injection h1 with h1 h3
    obtain ⟨a', ha', hc, hd⟩ := hl
    -- `d` has the id of `a`, so it is not a child anywhere: it is the root of `a'`
    have hroot : d = a' := by
      rcases down_root_or_kid g a'.size none a' (d, s') (Nat.le_refl _) hd with e | ⟨m, hm, hk⟩
      · exact e
      · exact absurd h1.symm (hnochild a' ha' m hm d hk)
    subst hroot
    have hs := down_root_section hd
    obtain ⟨e1, _, _, _⟩ := hok.ids d ha' a hae d (nodes_self d) a (nodes_self a) h1.symm
    refine ⟨g, hg, h2.symm, ?_, ?_⟩
    · rw [← containedBy_eq_spec (gene_le (inv.ok g hg)), ← e1]; exact hc
    · rw [h3, hs, ownSection_eq_spec d g (inv.ok g hg), e1]
  · rintro ⟨g, hg, rfl, hc, hs⟩
    rw [← containedBy_eq_spec (gene_le (inv.ok g hg))] at hc
    have := inv.sectionsComplete g hg a (ownSection a g none) ⟨a, har, hc, downNodes_self g none a⟩
    rw [ownSection_eq_spec a g (inv.ok g hg), hs] at this
    exact this

/-- for every collection: a gene is listed iff it sits in at least one of the three sections -/
theorem sections_cover_children (len : Int) (ops : List Op) (r : Rec) (hok : ∀ op ∈ ops, OpOK op)
    (hrun : run len ops = .ok r) (aid gid : Nat) : gid ∈ r.children aid ↔ ∃ s, gid ∈ r.section aid s :=
  sections_cover hrun hok aid gid

/-! ### 8b  caches: observing calls return the live values -/

/-- `get_cds_features()` after any history returns the current gene list (never a stale tuple) -/
theorem get_cds_features_fresh (len : Int) (ops : List Op) (r' : Rec) (hok : ∀ op ∈ ops, OpOK op)
    (hrun : run len (ops ++ [.peekCds]) = .ok r') :
    ∃ r, run len ops = .ok r ∧ r'.log = r.log ++ [[r.genes.map (·.id)]] := by
  obtain ⟨r, hr, hs⟩ := run_snoc hrun
  simp only [step, pure, Except.pure] at hs
  injection hs with hs; subst hs
  exact ⟨r, hr, (InvCore.peekCds (S := True) (L := liveAfter ops) (ever := opsAreas ops) (run_inv hok hr).cache).2.2⟩

/-- `collection.cds_children` after any history returns the collection's current gene list and the current
    contents of its three sections (the dirty flags of the four caches are set whenever they must be) -/
theorem cds_children_fresh (len : Int) (ops : List Op) (aid : Nat) (r' : Rec) (hok : ∀ op ∈ ops, OpOK op)
    (hrun : run len (ops ++ [.peekArea aid]) = .ok r') :
    ∃ r, run len ops = .ok r ∧
      r'.log = r.log ++ [[r.children aid, r.section aid .pre, r.section aid .cross, r.section aid .post]] := by
  obtain ⟨r, hr, hs⟩ := run_snoc hrun
  simp only [step, pure, Except.pure] at hs
  injection hs with hs; subst hs
  exact ⟨r, hr, (peekArea_spec (run_inv hok hr).cache aid).2.2⟩

/-- `cds in collection` is true exactly for the genes the collection's location contains (for every collection
    in the record and every child of one) -/
theorem cds_in_collection_exact (len : Int) (ops : List Op) (r : Rec) (hok : HistoryOK ops) (hrun : run len ops = .ok r)
    (a : AreaT) (ha : a ∈ (liveAfter ops).areas) (d : AreaT) (hd : d ∈ nodes a) (gid : Nat) :
    (r.children d.id).contains gid = true ↔ gid ∈ specChildren r.genes d := by
  rw [List.contains_iff_mem]
  exact area_children_exact len ops r hok hrun a ha d hd gid

/-- … and the call itself reports that (it reads the live list, no cache is involved) -/
theorem cds_in_collection_fresh (len : Int) (ops : List Op) (aid gid : Nat) (r' : Rec)
    (hrun : run len (ops ++ [.hasCds aid gid]) = .ok r') :
    ∃ r, run len ops = .ok r ∧ r'.log = r.log ++ [[[if (r.children aid).contains gid then 1 else 0]]] := by
  obtain ⟨r, hr, hs⟩ := run_snoc hrun
  simp only [step, pure, Except.pure] at hs
  injection hs with hs; subst hs
  exact ⟨r, hr, rfl⟩

/-- `cds_children.index(cds)` after any history: the position of the gene in the collection's current list
    (its first and only entry) … -/
theorem children_index_exact (len : Int) (ops : List Op) (aid gid : Nat) (r' : Rec) (hok : ∀ op ∈ ops, OpOK op)
    (hrun : run len (ops ++ [.indexOf aid gid]) = .ok r') :
    ∃ r i, run len ops = .ok r ∧ r'.log = r.log ++ [[[i]]] ∧ (r.children aid)[i]? = some gid ∧
      ∀ j < i, (r.children aid)[j]? ≠ some gid := by
  obtain ⟨r, hr, hs⟩ := run_snoc hrun
  obtain ⟨i, hi, e⟩ := indexOf_ok hs
  obtain ⟨ce, _, hl, _⟩ := peekRegen_spec (run_inv hok hr).cache aid
  have hch : (peekRegen r aid).children aid = r.children aid := by simp only [Rec.children, ce.members]
  rw [hch] at hi
  obtain ⟨h1, h2⟩ := indexIn_some hi
  exact ⟨r, i, hr, by rw [e]; simp only [hl], h1, h2⟩

/-- … and `IndexError` exactly when the collection does not list the gene -/
theorem children_index_error (len : Int) (ops : List Op) (aid gid : Nat) (r : Rec) (hok : ∀ op ∈ ops, OpOK op)
    (hrun : run len ops = .ok r) :
    run len (ops ++ [.indexOf aid gid]) = .error "IndexError" ↔ gid ∉ r.children aid := by
  obtain ⟨ce, _, _, _⟩ := peekRegen_spec (run_inv hok hrun).cache aid
  have hch : (peekRegen r aid).children aid = r.children aid := by simp only [Rec.children, ce.members]
  have hstep : run len (ops ++ [.indexOf aid gid]) = indexOf r aid gid := by
    simp only [run, List.foldlM_append, List.foldlM_cons, List.foldlM_nil, bind, Except.bind] at hrun ⊢
    rw [hrun]
    simp only [step]
    cases indexOf r aid gid <;> rfl
  rw [hstep, ← indexIn_none (x := gid) (l := r.children aid), ← hch]
  unfold indexOf
  simp only []
  cases hf : indexIn gid ((peekRegen r aid).children aid) with
  | none => simp [throw, throwThe, MonadExceptOf.throw]
  | some i => simp [pure, Except.pure]

/-! ### 8c  histories in which genes are re-annotated at any time (`runLoose`)

An annotation rewrite of a gene that collections already list (refused by `run`, see `reannotation_model_limit`)
touches no relation other than — later, through re-evaluation — the definition sets.  Everything else the strict
history theorems say holds over `runLoose` histories as well. -/

/-- the rewrite itself changes no relation at all: gene lists, section lists, definition sets, back links, caches and
    the record's collection lists are untouched; only the gene's core products change -/
theorem reannotation_touches_no_relation (r : Rec) (gid : Nat) (cs : List String) :
    (setCoresAny r gid cs).members = r.members ∧ (setCoresAny r gid cs).sections = r.sections ∧
    (setCoresAny r gid cs).defs = r.defs ∧ (setCoresAny r gid cs).regionOf = r.regionOf ∧
    (setCoresAny r gid cs).regions = r.regions ∧ (setCoresAny r gid cs).protos = r.protos ∧
    (setCoresAny r gid cs).cands = r.cands ∧ (setCoresAny r gid cs).subs = r.subs ∧
    (setCoresAny r gid cs).log = r.log ∧ (setCoresAny r gid cs).genes = r.genes.map (recore gid cs) :=
  ⟨rfl, rfl, rfl, rfl, rfl, rfl, rfl, rfl, rfl, rfl⟩

/-- `genes_stay_sorted` / `lists_are_live` over `runLoose` histories -/
theorem loose_genes_and_lists (len : Int) (ops : List Op) (r : Rec) (hok : ∀ op ∈ ops, OpOK op)
    (hrun : runLoose len ops = .ok r) :
    Sorted r.genes ∧ GenesOK r.genes ∧ (∀ g, g ∈ r.genes ↔ g ∈ (liveAfter ops).genes) ∧
    r.genes.Pairwise (fun a b => a.id ≠ b.id) ∧
    r.regions = (liveAfter ops).regions ∧ r.protos = (liveAfter ops).protos ∧
    r.cands = (liveAfter ops).cands ∧ r.subs = (liveAfter ops).subs := by
  have inv := (runLoose_inv hok hrun).core
  exact ⟨inv.sorted, inv.ok, inv.genesLive, inv.ids, inv.regionsEq, inv.protosEq, inv.candsEq, inv.subsEq⟩

/-- `area_children_exact` over `runLoose` histories: every collection in the record and every child of one lists
    exactly the genes its location contains, however often and whenever genes were re-annotated -/
theorem loose_area_children_exact (len : Int) (ops : List Op) (r : Rec) (hok : HistoryOK ops)
    (hrun : runLoose len ops = .ok r) (a : AreaT) (ha : a ∈ (liveAfter ops).areas) (d : AreaT) (hd : d ∈ nodes a)
    (gid : Nat) : gid ∈ r.children d.id ↔ gid ∈ specChildren r.genes d :=
  children_exact_of_inv (len := len) (runLoose_inv hok.opOK hrun).core hok a ha d hd gid

/-- `cds_region_unique` over `runLoose` histories -/
theorem loose_cds_region_unique (len : Int) (ops : List Op) (r : Rec) (hok : ∀ op ∈ ops, OpOK op)
    (hrun : runLoose len ops = .ok r) (g : Gene) (hg : g ∈ r.genes) :
    (∀ a ∈ r.regions, specContained g.loc a.loc = true → r.regionOfGene g.id = some a.id) ∧
    ((∀ a ∈ r.regions, specContained g.loc a.loc = false) → r.regionOfGene g.id = none) ∧
    (∀ a ∈ r.regions, ∀ b ∈ r.regions, specContained g.loc a.loc = true → specContained g.loc b.loc = true → a = b) := by
  have inv := (runLoose_inv hok hrun).core
  have hle := gene_le (inv.ok g hg)
  obtain ⟨h1, h2⟩ := inv.regionPtr g hg
  refine ⟨?_, ?_, ?_⟩
  · intro a ha hc; exact h1 a ha (by rw [containedBy_eq_spec hle]; exact hc)
  · intro hn; exact h2 (fun a ha => by rw [containedBy_eq_spec hle]; exact hn a ha)
  · intro a ha b hb hca hcb
    exact containing_unique inv.disjoint inv.regionQ (inv.ok g hg) ha hb (by rw [containedBy_eq_spec hle]; exact hca)
      (by rw [containedBy_eq_spec hle]; exact hcb)

/-- `region_sections_partition` and `sections_cover_children` over `runLoose` histories -/
theorem loose_sections (len : Int) (ops : List Op) (r : Rec) (hok : HistoryOK ops) (hrun : runLoose len ops = .ok r) :
    (∀ a ∈ r.regions, ∀ s gid, gid ∈ r.section a.id s ↔
      ∃ g ∈ r.genes, g.id = gid ∧ specContained g.loc a.loc = true ∧ specSection a.loc g.loc = s) ∧
    (∀ aid gid, gid ∈ r.children aid ↔ ∃ s, gid ∈ r.section aid s) := by
  have inv := (runLoose_inv hok.opOK hrun).core
  refine ⟨fun a ha s gid => region_sections_exact_of_inv (len := len) inv hok a ha s gid, fun aid gid => ?_⟩
  rw [mem_children, inv.cover]
  simp only [mem_section]

/-- the caches stay right over `runLoose` histories: whatever is marked clean holds the live value (so
    `get_cds_features` and `cds_children` return live values after any such history) -/
theorem loose_caches_fresh (len : Int) (ops : List Op) (r : Rec) (hok : ∀ op ∈ ops, OpOK op)
    (hrun : runLoose len ops = .ok r) (aid : Nat) :
    (peekCds r).log = r.log ++ [[r.genes.map (·.id)]] ∧
    (peekArea r aid).log = r.log ++ [[r.children aid, r.section aid .pre, r.section aid .cross, r.section aid .post]] := by
  have c := (runLoose_inv hok hrun).cache
  exact ⟨(InvCore.peekCds (S := False) (L := liveAfter ops) (ever := opsAreas ops) c).2.2, (peekArea_spec c aid).2.2⟩

/-- a definition set never holds a gene the protocluster does not list — also over `runLoose` histories -/
theorem loose_definition_is_listed (len : Int) (ops : List Op) (r : Rec) (hok : ∀ op ∈ ops, OpOK op)
    (hrun : runLoose len ops = .ok r) (aid gid : Nat) (h : gid ∈ r.definition aid) : gid ∈ r.children aid := by
  have inv := (runLoose_inv hok hrun).core
  rw [mem_definition] at h
  rw [mem_children]
  exact inv.defsSub _ h

/-- FULL STATEMENT (not proved yet, executed on every generated history):
    `∀ ops, HistoryOK ops → runLoose len ops = .ok r → ∀ x, x ∈ r.defs ↔ x ∈ specDefsAfter ops`.
    Proved here: the `add_cds_feature` step of that induction — in any `runLoose` (or strict) history, adding a gene
    makes exactly the (protocluster, gene) pairs defining that the spec's replay (`defsStep`, `meetPairs`) adds for
    that call.  Missing: the same for the `add_<area>` step and for regions re-created by a clearing call (both go
    through `addFound`; the lemma needed is `down_defines_iff` applied under `mem_within`), and the induction. -/
theorem defs_match_replay_add_cds_step_partial (len : Int) (ops : List Op) (r r' : Rec) (g : Gene) (hok : HistoryOK (ops ++ [.cds g]))
    (hrun : runLoose len ops = .ok r) (hstep : addCds r g = .ok r') (x : Nat × Nat) :
    x ∈ r'.defs ↔ x ∈ r.defs ∨ x ∈ meetPairs [g] (liveAfter ops).areas := by
  have hok' : ∀ op ∈ ops, OpOK op := fun op hop => hok.opOK op (List.mem_append.2 (Or.inl hop))
  have inv := (runLoose_inv hok' hrun).core
  have hin : ∀ a ∈ opsAreas ops, KidsInside a := fun a ha =>
    hok.inside a (by simp only [opsAreas, List.flatMap_append, List.mem_append]; exact Or.inl ha)
  exact addCds_defs_match inv hin g (hok.opOK (.cds g) (by simp)) hstep x

/-- the definition sets after **any** history — adding, clearing with re-created regions, observing, and genes
    re-annotated at any time — are exactly what the spec's replay says: a (protocluster, gene) pair is defining iff
    at some meeting of the gene and a collection tree containing the protocluster (a new gene, a new collection, a
    region re-created by a clearing call) the gene lay inside the tree's root, the protocluster and its core and
    carried a core annotation for the product at that moment.  (The full statement announced in
    `defs_match_replay_add_cds_step_partial`, now proved.) -/
theorem definitions_match_replay (len : Int) (ops : List Op) (r : Rec) (hok : HistoryOK ops)
    (hrun : runLoose len ops = .ok r) (x : Nat × Nat) : x ∈ r.defs ↔ x ∈ specDefsAfter ops :=
  runLoose_defs hok.opOK hok.inside hrun x

/-- … in particular for the strict histories: `run` and `runLoose` agree wherever `run` goes through -/
theorem definitions_match_replay_strict (len : Int) (ops : List Op) (r : Rec) (hok : HistoryOK ops)
    (hrun : run len ops = .ok r) (aid gid : Nat) :
    gid ∈ r.definition aid ↔ (aid, gid) ∈ specDefsAfter ops := by
  rw [mem_definition]
  exact definitions_match_replay len ops r hok (runLoose_of_run hrun) (aid, gid)

/-- `run` is `runLoose` restricted: every strict history is a loose one with the same result -/
theorem strict_histories_are_loose (len : Int) (ops : List Op) (r : Rec) (hrun : run len ops = .ok r) :
    runLoose len ops = .ok r :=
  runLoose_of_run hrun

/-! ### 8d  `bisect` run literally (no longer taken by contract) -/

/-- Python's binary search (`bisect_right` / `bisect_left`, the `while lo < hi` loop of Lib/bisect.py transcribed
    literally as `Bisect.bisect`) returns the partition point of any list partitioned by its test -/
theorem bisect_literal_is_partition_point {α : Type} (keep : α → Bool) (a : List α)
    (h : ∀ y ∈ a.dropWhile keep, keep y = false) : Bisect.bisect keep a = (a.takeWhile keep).length :=
  Bisect.bisect_eq keep a _ 0 (Bisect.partitioned_takeWhile keep a h) (Nat.zero_le _)

/-- on the record's (sorted) gene list the literal `bisect_right` of `add_cds_feature` is the insertion point the
    model inserts at, and the literal `bisect_left` of the lookup (on the features from `linear_start` on) is the
    start index the lookup model uses — with `genes_stay_sorted` this holds after every history -/
theorem bisect_on_gene_list (fs : List Gene) (hs : Sorted fs) (g : Gene) (q : Loc) :
    Bisect.bisect (fun f : Gene => !locLt g.loc f.loc) fs = (fs.takeWhile fun f => !locLt g.loc f.loc).length ∧
    Bisect.bisect (fun f : Gene => locLt f.loc q) fs = (fs.takeWhile fun f => locLt f.loc q).length :=
  ⟨bisect_right_insertion hs g, bisect_left_lookup hs q⟩

/-! ### 9  build-order independence (histories of adding calls) -/

/-- any two orderings of the same adding calls (genes before areas, after them, or interleaved in any way)
    end with the same genes, the same regions, the same area ↔ gene relation, the same sections and the same
    defining genes … -/
theorem build_order_independent (len : Int) (ops₁ ops₂ : List Op) (r₁ r₂ : Rec) (hp : ops₁.Perm ops₂)
    (hadd : AddsOnly ops₁) (hok : ∀ op ∈ ops₁, OpOK op) (h1 : run len ops₁ = .ok r₁) (h2 : run len ops₂ = .ok r₂) :
    (∀ g, g ∈ r₁.genes ↔ g ∈ r₂.genes) ∧ (∀ a, a ∈ r₁.regions ↔ a ∈ r₂.regions) ∧
    (∀ aid gid, gid ∈ r₁.children aid ↔ gid ∈ r₂.children aid) ∧
    (∀ aid gid, gid ∈ r₁.definition aid ↔ gid ∈ r₂.definition aid) ∧
    (∀ aid s gid, gid ∈ r₁.section aid s ↔ gid ∈ r₂.section aid s) := by
  obtain ⟨hg, hr, hm, hd, hs⟩ := order_independent_sets hp hadd hok h1 h2
  refine ⟨hg, hr, ?_, ?_, ?_⟩
  · intro aid gid; rw [mem_children, mem_children, hm]
  · intro aid gid; rw [mem_definition, mem_definition, hd]
  · intro aid s gid; rw [mem_section, mem_section, hs]

/-- a history of well-formed adding calls runs without an exception exactly when its calls are pairwise
    compatible (distinct gene locations and names, non-overlapping regions) and its areas lie inside the record … -/
theorem history_succeeds_iff (len : Int) (ops : List Op) (hadd : AddsOnly ops) (hok : ∀ op ∈ ops, OpOK op) :
    (∃ r, run len ops = .ok r) ↔ Valid len ops :=
  run_ok_iff hadd hok

/-- … so if one ordering of the calls runs through, every ordering does, and with the same outcome -/
theorem build_order_never_matters (len : Int) (ops₁ ops₂ : List Op) (r₁ : Rec) (hp : ops₁.Perm ops₂)
    (hadd : AddsOnly ops₁) (hok : ∀ op ∈ ops₁, OpOK op) (h1 : run len ops₁ = .ok r₁) :
    ∃ r₂, run len ops₂ = .ok r₂ ∧
      (∀ g, g ∈ r₁.genes ↔ g ∈ r₂.genes) ∧ (∀ a, a ∈ r₁.regions ↔ a ∈ r₂.regions) ∧
      (∀ aid gid, gid ∈ r₁.children aid ↔ gid ∈ r₂.children aid) ∧
      (∀ aid gid, gid ∈ r₁.definition aid ↔ gid ∈ r₂.definition aid) ∧
      (∀ aid s gid, gid ∈ r₁.section aid s ↔ gid ∈ r₂.section aid s) := by
  have hok2 : ∀ op ∈ ops₂, OpOK op := fun op hop => hok op (hp.mem_iff.2 hop)
  obtain ⟨r₂, h2⟩ := (run_ok_iff (hadd.perm hp) hok2).2 (((run_ok_iff hadd hok).1 ⟨r₁, h1⟩).perm hp)
  exact ⟨r₂, h2, build_order_independent len ops₁ ops₂ r₁ r₂ hp hadd hok h1 h2⟩

/-- … and every gene points to the same region -/
theorem build_order_independent_region (len : Int) (ops₁ ops₂ : List Op) (r₁ r₂ : Rec) (hp : ops₁.Perm ops₂)
    (hadd : AddsOnly ops₁) (hok : ∀ op ∈ ops₁, OpOK op) (h1 : run len ops₁ = .ok r₁) (h2 : run len ops₂ = .ok r₂) :
    ∀ g ∈ r₁.genes, r₁.regionOfGene g.id = r₂.regionOfGene g.id :=
  order_independent_region hp hadd hok h1 h2

/-! ### non-vacuity and the repaired witnesses -/

private def g (id : Nat) (lo hi : Int) : Gene := { id := id, loc := .simple ⟨lo, hi, .fwd⟩ }
private def ids (l : List Gene) : List Nat := l.map (·.id)

/-- D4: genes [6:10) [6:23) [6:26) [8:19), query [5:20): both contained genes are found -/
example : ids (within [g 0 6 10, g 1 6 23, g 2 6 26, g 3 8 19] (.simple ⟨5, 20, .fwd⟩) false) = [0, 3] := by decide
/-- D5: genes [0:100) [10:20) [70:80), overlap query [50:60): the long gene is found -/
example : ids (within [g 0 10 20, g 1 0 100, g 2 70 80] (.simple ⟨50, 60, .fwd⟩) true) = [1] := by decide
/-- D6: an origin-spanning gene sorts first and is found from high coordinates -/
example : ids (within [{ id := 0, loc := .compound [⟨190, 200, .fwd⟩, ⟨0, 10, .fwd⟩] }, g 1 20 30, g 2 100 120]
    (.simple ⟨150, 195, .fwd⟩) true) = [0] := by decide
/-- the hypotheses are satisfiable on a nested, same-start, origin-spanning layout -/
example : Sorted [{ id := 0, loc := .compound [⟨190, 200, .fwd⟩, ⟨0, 10, .fwd⟩] }, g 1 6 10, g 2 6 23, g 3 8 19] := by
  unfold Sorted; decide
/-- a history: gene, origin-spanning subregion, gene — both genes end up in the subregion -/
example : (run 1000 [.cds (g 0 910 920), .area (.mk 200 .sub (.compound [⟨900, 1000, .fwd⟩, ⟨0, 50, .fwd⟩])
      (.simple ⟨0, 1, .fwd⟩) "" []), .cds (g 1 10 20), .cds (g 2 60 70)]).toOption.map (·.children 200) = some [0, 1] := by
  decide +kernel
/-- … the first in its pre-origin section, the second in its post-origin section; after the subregions are
    cleared nothing is alive but the genes -/
example : (run 1000 [.cds (g 0 910 920), .area (.mk 200 .sub (.compound [⟨900, 1000, .fwd⟩, ⟨0, 50, .fwd⟩])
      (.simple ⟨0, 1, .fwd⟩) "" []), .cds (g 1 10 20), .peekArea 200, .clearSubs [], .peekCds]).toOption.map (·.log)
    = some [[[0, 1], [0], [], [1]], [[1, 0]]] := by
  decide +kernel

/-- product names: a gene that is core for "NRPS" only, inside the cores of an "NRPS-like" and an "NRPS"
    protocluster, defines the second and not the first -/
example : (run 1000 [.cds { id := 0, loc := .simple ⟨120, 180, .fwd⟩, cores := ["NRPS"] },
      .area (.mk 100 .proto (.simple ⟨50, 500, .fwd⟩) (.simple ⟨100, 400, .fwd⟩) "NRPS-like" []),
      .area (.mk 101 .proto (.simple ⟨60, 450, .fwd⟩) (.simple ⟨110, 350, .fwd⟩) "NRPS" [])]).toOption.map
      (fun r => (r.definition 100, r.definition 101)) = some ([], [0]) := by
  decide +kernel

/-- annotation history of the round-5 seed: core for "a", stripped, then core for "b" — the gene carries "b" only -/
example : GeneFn.coreProducts (GeneFn.run [.add ⟨1, "rules", "domA", "a"⟩, .add ⟨2, "smcogs", "x", ""⟩, .clear,
    .add ⟨1, "rules", "domB", "b"⟩]) = ["b"] := by decide

/-- rerun on an annotated record: gene core for "a", stripped and re-annotated for "b" while in the record, then
    protoclusters "a" and "b" over it — it defines only "b" -/
example : (run 400 [.cds { id := 0, loc := .simple ⟨100, 160, .fwd⟩, cores := ["a"] }, .setCores 0 [], .setCores 0 ["b"],
      .area (.mk 100 .proto (.simple ⟨50, 350, .fwd⟩) (.simple ⟨90, 300, .fwd⟩) "a" []),
      .area (.mk 101 .proto (.simple ⟨50, 350, .fwd⟩) (.simple ⟨90, 300, .fwd⟩) "b" [])]).toOption.map
      (fun r => (r.definition 100, r.definition 101)) = some ([], [0]) := by
  decide +kernel

/-- the round-7 seed's history: gene, protocluster "a" (gene listed, not annotated), core annotation "a" added, then
    the candidate cluster hands the gene over again — it now defines the protocluster; the spec's replay agrees -/
example : ((runLoose 400 [.cds { id := 0, loc := .simple ⟨100, 160, .fwd⟩ },
      .area (.mk 100 .proto (.simple ⟨50, 350, .fwd⟩) (.simple ⟨90, 300, .fwd⟩) "a" []), .setCores 0 ["a"],
      .area (.mk 300 .cand (.simple ⟨50, 350, .fwd⟩) (.simple ⟨50, 350, .fwd⟩) ""
        [.mk 100 .proto (.simple ⟨50, 350, .fwd⟩) (.simple ⟨90, 300, .fwd⟩) "a" []])]).toOption.map (·.definition 100),
    specDefsAfter [.cds { id := 0, loc := .simple ⟨100, 160, .fwd⟩ },
      .area (.mk 100 .proto (.simple ⟨50, 350, .fwd⟩) (.simple ⟨90, 300, .fwd⟩) "a" []), .setCores 0 ["a"],
      .area (.mk 300 .cand (.simple ⟨50, 350, .fwd⟩) (.simple ⟨50, 350, .fwd⟩) ""
        [.mk 100 .proto (.simple ⟨50, 350, .fwd⟩) (.simple ⟨90, 300, .fwd⟩) "a" []])])
    = (some [0], [(100, 0)]) := by
  decide +kernel

/-- a `runLoose` history the strict `run` refuses: the gene is re-annotated after the subregion listed it; the
    subregion's list and sections are as the loose theorems say -/
example : ((run 1000 [.cds (g 0 910 920), .area (.mk 200 .sub (.simple ⟨900, 1000, .fwd⟩) (.simple ⟨0, 1, .fwd⟩) "" []),
      .setCores 0 ["x"]]).toOption.isNone,
    (runLoose 1000 [.cds (g 0 910 920), .area (.mk 200 .sub (.simple ⟨900, 1000, .fwd⟩) (.simple ⟨0, 1, .fwd⟩) "" []),
      .setCores 0 ["x"]]).toOption.map (fun r => (r.children 200, r.section 200 .post, r.genes.map (·.cores))))
    = (true, some ([0], [0], [["x"]])) := by
  decide +kernel

/-- the literal binary search on a sorted layout with equal keys: insertion after the equal ones -/
example : Bisect.bisect (fun f : Gene => !locLt (g 9 6 10).loc f.loc) [g 0 0 5, g 1 6 10, g 2 6 10, g 3 6 23, g 4 8 19] = 3 := by
  decide

end ASV.C08
