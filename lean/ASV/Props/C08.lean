/-
  C08 — genes belong to exactly the areas that contain them, whatever the build order.
  Property theorems only; helper lemmas in ASV/Proofs/Lookup*.lean.

  Model: `ASV.Lookup` (Model/Lookup.lean) — the repaired `get_cds_features_within_location`
  (fixes/D4_D5_D6_cds_lookup_exact.patch), `add_cds_feature`, the repaired `_link_cds_to_parent`
  (fixes/D41_link_cds_to_every_region.patch), the `add_<area>` methods, `CDSCollection/Protocluster/Region.add_cds`.
  Spec: `ASV.Lookup.spec*` (Spec/Lookup.lean).

  Guards (all decidable, evaluated per case by the driver as the scope flag):
    `Sorted genes`     the gene list is in `Feature.__lt__` order — an invariant of every history (theorem 5)
    `GenesOK genes`    every gene location has ≥ 1 part, parts non-empty and ≥ 0, and a sort key
    `QueryOK q`        the query / area location has ≥ 1 part, parts non-empty and ≥ 0
    `HistoryOK ops`    well-formed genes and areas; one id names one object; children lie inside their
                       parents; regions are never children
  Everything below is for all gene layouts (nested, identical starts, identical keys, both strands,
  multi-exon, origin-spanning), all query locations and all histories — no bound on sizes.
-/
import ASV.Proofs.LookupOk
namespace ASV.C08
open ASV ASV.Lookup

/-! ### 1–4  the lookup -/

/-- asking for the genes *within* a location returns exactly the genes contained in it -/
theorem within_contained_exact (genes : List Gene) (hs : Sorted genes) (hok : GenesOK genes)
    (q : Loc) (hq : QueryOK q) (g : Gene) :
    g ∈ within genes q false ↔ g ∈ genes ∧ specContained g.loc q = true := by
  simpa [specKeeps] using mem_within hs hok q false hq g

/-- asking with `with_overlapping` returns exactly the genes sharing a base with the location -/
theorem within_overlapping_exact (genes : List Gene) (hs : Sorted genes) (hok : GenesOK genes)
    (q : Loc) (hq : QueryOK q) (g : Gene) :
    g ∈ within genes q true ↔ g ∈ genes ∧ g.loc.SharesBase q := by
  rw [mem_within hs hok q true hq g]
  simp [specKeeps, specShares, sharesPts_iff]

/-- for a single-part location "contained" is the set-of-bases reading: every base of the gene is a base of
    the location -/
theorem contained_iff_bases_inside (g : Loc) (hg : LocOK g) (p : Part) :
    specContained g (.simple p) = true ↔ ∀ i, g.mem i = true → (Loc.simple p).mem i = true := by
  simp only [specContained, Loc.parts, List.all_eq_true, List.any_cons, List.any_nil, Bool.or_false,
    Bool.and_eq_true, decide_eq_true_eq, Loc.mem, List.any_eq_true, Part.mem_iff]
  constructor
  · rintro h i ⟨gp, hgp, h1, h2⟩
    have := h gp hgp
    omega
  · intro h gp hgp
    have hne := (hg.2.1 gp hgp).2
    have h1 := h gp.lo ⟨gp, hgp, by omega, by omega⟩
    have h2 := h (gp.hi - 1) ⟨gp, hgp, by omega, by omega⟩
    omega

/-- for a single-part location the answer *is* the record's gene list filtered, order included … -/
theorem within_simple_is_filter (genes : List Gene) (hs : Sorted genes) (hok : GenesOK genes)
    (p : Part) (h0 : 0 ≤ p.lo) (h1 : p.lo < p.hi) (ov : Bool) :
    within genes (.simple p) ov = genes.filter fun g => specKeeps ov g.loc (.simple p) := by
  have hq : QueryOK (.simple p) := ⟨by simp [Loc.parts], fun x hx => by simp [Loc.parts] at hx; subst hx; exact ⟨h0, h1⟩⟩
  rw [within_eq_spec hs hok _ ov hq]
  simp [specWithin, Loc.parts]

/-- … and in general it is the spec's list: a multi-part location is walked part by part, each gene once -/
theorem within_is_spec_list (genes : List Gene) (hs : Sorted genes) (hok : GenesOK genes)
    (q : Loc) (hq : QueryOK q) (ov : Bool) :
    within genes q ov = specWithin genes q ov :=
  within_eq_spec hs hok q ov hq

/-- the answer to a single-part query is in location order (a sub-list of the sorted gene list) -/
theorem within_sorted (genes : List Gene) (hs : Sorted genes) (hok : GenesOK genes)
    (p : Part) (h0 : 0 ≤ p.lo) (h1 : p.lo < p.hi) (ov : Bool) :
    (within genes (.simple p) ov).Sublist genes ∧ Sorted (within genes (.simple p) ov) := by
  rw [within_simple_is_filter genes hs hok p h0 h1 ov]
  exact ⟨List.filter_sublist, hs.sublist List.filter_sublist⟩

/-- no gene is returned twice -/
theorem within_nodup (genes : List Gene) (hs : Sorted genes) (hok : GenesOK genes) (hn : genes.Nodup)
    (q : Loc) (hq : QueryOK q) (ov : Bool) : (within genes q ov).Nodup := by
  rw [within_eq_spec hs hok q ov hq]
  unfold specWithin
  split
  · exact List.nodup_nil
  · exact hn.filter _
  · exact (nodup_dedup _).filter _

/-- a query starting below 0 is read as starting at 0 (and at least one base long) -/
theorem within_negative_start (genes : List Gene) (p : Part) (h : p.lo < 0) (ov : Bool) :
    within genes (.simple p) ov = within genes (.simple ⟨0, max 1 p.hi, .none⟩) ov := by
  simp [within, Loc.parts, within1, clampQuery, h]

/-- the order used throughout is `Feature.__lt__` of the shared location model (C04) -/
theorem order_is_feature_lt (a b : Loc) (ha : LocOK a) (hb : LocOK b) : featureLt a b = .ok (locLt a b) :=
  featureLt_eq_locLt ha.2.2 hb.2.2

/-- origin-spanning genes sort before all others, whatever their coordinates (why the lookup must scan them) -/
theorem crossing_sorts_first (a b : Loc) (ha : LocOK a) (hb : LocOK b)
    (hca : bridgesOrigin a = true) (hcb : bridgesOrigin b = false) : locLt a b = true := by
  rw [locLt_true_iff]
  have := cmpStart_crossing ha hca
  have := cmpStart_nonneg_linear hb hcb
  omega

/-! ### 5  the record keeps its genes sorted -/

/-- after any history of successful calls the gene list holds exactly the genes added, in location order,
    with distinct names -/
theorem genes_stay_sorted (len : Int) (ops : List Op) (r : Rec) (hok : ∀ op ∈ ops, OpOK op)
    (hrun : run len ops = .ok r) :
    Sorted r.genes ∧ GenesOK r.genes ∧ (∀ g, g ∈ r.genes ↔ Op.cds g ∈ ops) ∧
      r.genes.Pairwise (fun a b => a.id ≠ b.id) := by
  have inv := run_inv hok hrun
  exact ⟨inv.sorted, inv.ok, inv.genesSeen, inv.ids⟩

/-! ### 6–8  areas, regions, definition genes after any history -/

/-- every protocluster, candidate cluster, subregion and region of the history — added to the record itself
    or a child of one that was — lists exactly the genes its location contains -/
theorem area_children_exact (len : Int) (ops : List Op) (r : Rec) (hok : HistoryOK ops) (hrun : run len ops = .ok r)
    (a : AreaT) (ha : Op.area a ∈ ops) (d : AreaT) (hd : d ∈ nodes a) (gid : Nat) :
    gid ∈ r.children d.id ↔ gid ∈ specChildren r.genes d :=
  children_exact hrun hok a ha d hd gid

/-- an area nobody added (directly or as a child) lists no gene -/
theorem unregistered_area_empty (len : Int) (ops : List Op) (r : Rec) (hok : HistoryOK ops) (hrun : run len ops = .ok r)
    (aid : Nat) (hfresh : ∀ a, Op.area a ∈ ops → ∀ d ∈ nodes a, d.id ≠ aid) : r.children aid = [] := by
  have inv := run_inv hok.opOK hrun
  rw [List.eq_nil_iff_forall_not_mem]
  intro gid hmem
  rw [mem_children, inv.members] at hmem
  obtain ⟨g, _, d, hl, hx⟩ := hmem
  injection hx with h1 _
  obtain ⟨_, a, ha, hd⟩ := hl.contained
  exact hfresh a ((inv.areasSeen a).1 ha) d hd h1.symm

/-- each gene points to the one region containing it, or to none; and no two regions contain the same gene -/
theorem cds_region_unique (len : Int) (ops : List Op) (r : Rec) (hok : HistoryOK ops) (hrun : run len ops = .ok r)
    (g : Gene) (hg : g ∈ r.genes) :
    (∀ a ∈ r.regions, specContained g.loc a.loc = true → r.regionOfGene g.id = some a.id) ∧
    ((∀ a ∈ r.regions, specContained g.loc a.loc = false) → r.regionOfGene g.id = none) ∧
    (∀ a ∈ r.regions, ∀ b ∈ r.regions, specContained g.loc a.loc = true → specContained g.loc b.loc = true → a = b) := by
  have inv := run_inv hok.opOK hrun
  have hle := gene_le (inv.ok g hg)
  obtain ⟨h1, h2⟩ := region_of_gene hrun hok hg
  refine ⟨?_, ?_, ?_⟩
  · intro a ha hc; exact h1 a ha (by rw [containedBy_eq_spec hle]; exact hc)
  · intro hn; exact h2 (fun a ha => by rw [containedBy_eq_spec hle]; exact hn a ha)
  · intro a ha b hb hca hcb
    exact region_containing_unique inv hg ha hb (by rw [containedBy_eq_spec hle]; exact hca)
      (by rw [containedBy_eq_spec hle]; exact hcb)

/-- the regions of the record are the region objects that were added -/
theorem regions_are_those_added (len : Int) (ops : List Op) (r : Rec) (hok : ∀ op ∈ ops, OpOK op)
    (hrun : run len ops = .ok r) (a : AreaT) : a ∈ r.regions ↔ (Op.area a ∈ ops ∧ a.kind = .region) :=
  (run_inv hok hrun).regionsSeen a

/-- a protocluster's defining genes are exactly the genes inside it and inside its core that carry a core
    annotation for its product -/
theorem definition_cdses_exact (len : Int) (ops : List Op) (r : Rec) (hok : HistoryOK ops) (hrun : run len ops = .ok r)
    (a : AreaT) (ha : Op.area a ∈ ops) (d : AreaT) (hd : d ∈ nodes a) (hk : d.kind = .proto) (gid : Nat) :
    gid ∈ r.definition d.id ↔ gid ∈ specDefinition r.genes d :=
  definition_exact hrun hok a ha d hd hk gid

/-! ### 9  build-order independence -/

/-- any two orderings of the same calls (genes before areas, after them, or interleaved in any way) end with
    the same genes, the same regions, the same area ↔ gene relation and the same defining genes … -/
theorem build_order_independent (len : Int) (ops₁ ops₂ : List Op) (r₁ r₂ : Rec) (hp : ops₁.Perm ops₂)
    (hok : ∀ op ∈ ops₁, OpOK op) (h1 : run len ops₁ = .ok r₁) (h2 : run len ops₂ = .ok r₂) :
    (∀ g, g ∈ r₁.genes ↔ g ∈ r₂.genes) ∧ (∀ a, a ∈ r₁.regions ↔ a ∈ r₂.regions) ∧
    (∀ aid gid, gid ∈ r₁.children aid ↔ gid ∈ r₂.children aid) ∧
    (∀ aid gid, gid ∈ r₁.definition aid ↔ gid ∈ r₂.definition aid) := by
  obtain ⟨hg, hr, hm, hd, _⟩ := order_independent_sets hp hok h1 h2
  refine ⟨hg, hr, ?_, ?_⟩
  · intro aid gid; rw [mem_children, mem_children, hm]
  · intro aid gid; rw [mem_definition, mem_definition, hd]

/-- a history of well-formed calls runs without an exception exactly when its calls are pairwise compatible
    (distinct gene locations and names, non-overlapping regions) and its areas lie inside the record … -/
theorem history_succeeds_iff (len : Int) (ops : List Op) (hok : ∀ op ∈ ops, OpOK op) :
    (∃ r, run len ops = .ok r) ↔ Valid len ops :=
  run_ok_iff hok

/-- … so if one ordering of the calls runs through, every ordering does, and with the same outcome -/
theorem build_order_never_matters (len : Int) (ops₁ ops₂ : List Op) (r₁ : Rec) (hp : ops₁.Perm ops₂)
    (hok : ∀ op ∈ ops₁, OpOK op) (h1 : run len ops₁ = .ok r₁) :
    ∃ r₂, run len ops₂ = .ok r₂ ∧
      (∀ g, g ∈ r₁.genes ↔ g ∈ r₂.genes) ∧ (∀ a, a ∈ r₁.regions ↔ a ∈ r₂.regions) ∧
      (∀ aid gid, gid ∈ r₁.children aid ↔ gid ∈ r₂.children aid) ∧
      (∀ aid gid, gid ∈ r₁.definition aid ↔ gid ∈ r₂.definition aid) := by
  have hok2 : ∀ op ∈ ops₂, OpOK op := fun op hop => hok op (hp.mem_iff.2 hop)
  obtain ⟨r₂, h2⟩ := (run_ok_iff hok2).2 (((run_ok_iff hok).1 ⟨r₁, h1⟩).perm hp)
  exact ⟨r₂, h2, build_order_independent len ops₁ ops₂ r₁ r₂ hp hok h1 h2⟩

/-- … and every gene points to the same region -/
theorem build_order_independent_region (len : Int) (ops₁ ops₂ : List Op) (r₁ r₂ : Rec) (hp : ops₁.Perm ops₂)
    (hok : HistoryOK ops₁) (h1 : run len ops₁ = .ok r₁) (h2 : run len ops₂ = .ok r₂) :
    ∀ g ∈ r₁.genes, r₁.regionOfGene g.id = r₂.regionOfGene g.id :=
  order_independent_region hp hok h1 h2

/-! ### non-vacuity and the repaired witnesses -/

private def g (id : Nat) (lo hi : Int) : Gene := { id := id, loc := .simple ⟨lo, hi, .fwd⟩ }
private def ids (l : List Gene) : List Nat := l.map (·.id)

/-- D4: genes [6:10) [6:23) [6:26) [8:19), query [5:20): both contained genes are found -/
example : ids (within [g 0 6 10, g 1 6 23, g 2 6 26, g 3 8 19] (.simple ⟨5, 20, .fwd⟩) false) = [0, 3] := by decide
/-- D5: genes [0:100) [10:20) [70:80), overlap query [50:60): the long gene is found -/
example : ids (within [g 0 10 20, g 1 0 100, g 2 70 80] (.simple ⟨50, 60, .fwd⟩) true) = [1] := by decide
/-- D6: an origin-spanning gene sorts first and is found from high coordinates -/
example : ids (within [{ id := 0, loc := .compound [⟨190, 200, .fwd⟩, ⟨0, 10, .fwd⟩] }, g 1 20 30, g 2 100 120]
    (.simple ⟨150, 195, .fwd⟩) true) = [0] := by decide
/-- the hypotheses are satisfiable on a nested, same-start, origin-spanning layout -/
example : Sorted [{ id := 0, loc := .compound [⟨190, 200, .fwd⟩, ⟨0, 10, .fwd⟩] }, g 1 6 10, g 2 6 23, g 3 8 19] := by
  unfold Sorted; decide
/-- a history: gene, origin-spanning subregion, gene — both genes end up in the subregion -/
example : (run 1000 [.cds (g 0 910 920), .area (.mk 200 .sub (.compound [⟨900, 1000, .fwd⟩, ⟨0, 50, .fwd⟩])
      (.simple ⟨0, 1, .fwd⟩) "" []), .cds (g 1 10 20), .cds (g 2 60 70)]).toOption.map (·.children 200) = some [0, 1] := by
  decide

end ASV.C08
