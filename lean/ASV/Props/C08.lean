/-
  C08 — genes belong to exactly the areas that contain them, whatever the build order.
-/
import ASV.Spec.Lookup
namespace ASV.C08
open ASV ASV.Lookup

/-- a record without genes answers every lookup with the empty list -/
theorem within_no_genes (q : Loc) (ov : Bool) : within [] q ov = [] := by
  simp [within]

end ASV.C08
